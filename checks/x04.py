"""X04: the editor's HTTP API refines the GraphEdit machine (HttpEdit.tla, TraceHttpEdit.tla, TraceHttpConc.tla)."""
import json
import os
import random
import re
import time
from concurrent.futures import ThreadPoolExecutor

from vlib import core
from checks import httpresp



# --------------------------------------------------------------------------
# TLC generators
# --------------------------------------------------------------------------

def gen_cfg(path, prelude, depth, maxnodes, mode, pinned=False, inv=None, nc=2, per=2):
    with open(path, "w") as f:
        f.write('CONSTANTS Depth = %d MaxNodes = %d SaveOrder = "index" Pinned = %s\nCONSTANT Prelude <- %s\n' %
                (depth, maxnodes, "TRUE" if pinned else "FALSE", prelude))
        if mode == "bfs":
            f.write("SPECIFICATION HSpec\nINVARIANTS HTypeOK HAcyclic FileCurrent ClassTotal ArtDefined FrameLaw EmitLeafH\n"
                    "PROPERTY RefinesGraphEdit\nVIEW ViewH\n")
        elif mode in ("sandwich", "revert"):
            f.write("SPECIFICATION %s\nINVARIANTS HTypeOK HAcyclic FileCurrent EmitSandwich\nVIEW ViewSandwich\n" %
                    ("SandwichSpec" if mode == "sandwich" else "RevertSpec"))
        elif mode == "sim":
            f.write("SPECIFICATION SimSpec\nINVARIANTS HTypeOK HAcyclic FileCurrent EmitLeafH\n")
        elif mode == "design":
            f.write("SPECIFICATION HSpec\nINVARIANTS %s\nVIEW ViewH\n" % inv)
        elif mode == "conc":
            f.write("CONSTANTS NC = %d PerClient = %d\nSPECIFICATION ConcSpec\nINVARIANTS HTypeOK HAcyclic EmitConc\n" % (nc, per))
        elif mode == "concall":
            f.write("CONSTANTS NC = %d PerClient = %d\nSPECIFICATION ConcAllSpec\nINVARIANTS HTypeOK HAcyclic EmitConc\nVIEW ViewConc\n" % (nc, per))
        f.write("CHECK_DEADLOCK FALSE\n")


def tlc(d, module, cfgname, **kw):
    p = os.path.join(d, cfgname)
    return core.run_tlc(d, module, cfgname, files=[(p, cfgname)], **kw)


def uniq(values, key):
    seen, out = set(), []
    for v in values:
        if not (isinstance(v, dict) and key in v):
            continue
        s = json.dumps(v, sort_keys=True)
        if s not in seen:
            seen.add(s)
            out.append(v)
    return out


# --------------------------------------------------------------------------
# execution on the real handlers (parallel chunks) and judgement
# --------------------------------------------------------------------------

def share_preludes(hs, plen):
    """All histories of one BFS share their first plen steps: only the first logs them, the others skip to a base line."""
    for h in hs[1:]:
        h["skip"] = plen
    return hs


def execute(ctx, vh, hists, name):
    """Run request histories through vh xh-exec in parallel chunks; returns raw trace lines (history numbers global)."""
    d = ctx.scratch(name)
    n = max(1, min(core.NCPU, (len(hists) + 39) // 40))
    size = (len(hists) + n - 1) // n
    chunks = [(i, hists[i:i + size]) for i in range(0, len(hists), size)]

    def one(ch):
        base, hs = ch
        hp = os.path.join(d, "h%06d.ndjson" % base)
        tp = os.path.join(d, "t%06d.ndjson" % base)
        core.write_ndjson(hp, hs)
        core.run_vh(vh, ["xh-exec", "-in", hp, "-out", tp, "-base", str(base)], timeout=3000)
        with open(tp) as f:
            lines = f.readlines()
        os.remove(tp)
        os.remove(hp)
        return lines

    with ThreadPoolExecutor(max_workers=n) as ex:
        parts = list(ex.map(one, chunks))
    raw = [ln for p in parts for ln in p]
    return raw


def judge(ctx, raw, name, stats):
    res = core.validate_sharded(ctx, name, "TraceHttpEdit", "TraceHttpEdit.cfg", raw, timeout=3000, heap="4g")
    findings = []
    for sh, r in res:
        for v in r.values:
            if not isinstance(v, dict):
                continue
            if "stat" in v:
                st = v["stat"]
                if isinstance(st, dict):
                    for k, n in st.items():
                        stats[k] = stats.get(k, 0) + n
            elif "bad" in v:
                findings.append((json.loads(sh[v["l"] - 1]), v))
    ctx.evaluations += len(raw)
    return findings


def report(ctx, hists, findings, seen_sigs):
    findings.sort(key=lambda x: (x[0]["h"], x[0]["i"]))
    for ln, v in findings:
        if "Route.Mismatch" in v["bad"]:
            raise core.Infra("request line / initial state disagrees with HttpEdit's table at history %d step %d: %s" %
                             (ln["h"], ln["i"], json.dumps(ln.get("r"))))
        r = ln["r"]
        for p in v["bad"]:
            sig = "%s/%s/%s" % (p, r["kind"], v["why"])
            seen_sigs[sig] = seen_sigs.get(sig, 0) + 1
            if seen_sigs[sig] > 1:
                continue
            h = hists[ln["h"]]
            ctx.violation(sig, "%s: %s %s (a=%d b=%d c=%d, %s request: %s) answered %s %s%s in a %s history, step %d" % (
                p, r["m"], r["path"], r["a"], r["b"], r["c"], v["class"], v["why"],
                "PANIC" if ln["st"] == -1 else ln["st"], ln["rk"], (" [" + ln["note"][:120] + "]") if ln["note"] else "",
                h.get("tag"), ln["i"]),
                {"family": "xhttp", "history": {"steps": h["steps"][:ln["i"] + 1], "tag": h.get("tag"), "skip": h.get("skip", 0)}})


# --------------------------------------------------------------------------
# concurrent mode
# --------------------------------------------------------------------------

def _norm_frame(fr):
    """github.com/EliCDavis/polyform/generator/graph.(*Instance).CreateNode() -> generator/graph.Instance.CreateNode"""
    fr = fr.strip()
    if fr.endswith("()"):
        fr = fr[:-2]
    out, depth = [], 0
    for ch in fr:           # drop generic instantiations [...]
        if ch == "[":
            depth += 1
        elif ch == "]":
            depth -= 1
        elif depth == 0:
            out.append(ch)
    fr = "".join(out).replace("(*", "").replace(")", "")
    fr = re.sub(r"\.func\d+(\.\d+)*$", "", fr)
    return fr.split("polyform/")[-1]


def race_reports(prefix):
    """Go race detector logs -> [(signature, text)] for races with a frame inside polyform; the signature names the
    innermost polyform function of each of the two conflicting accesses."""
    out = []
    d = os.path.dirname(prefix)
    for f in sorted(os.listdir(d)):
        if not f.startswith(os.path.basename(prefix)):
            continue
        txt = open(os.path.join(d, f), errors="replace").read()
        for blk in txt.split("WARNING: DATA RACE")[1:]:
            blk = blk.split("==================")[0]
            stacks = re.split(r"\n\n", blk)
            firsts = []
            for s in stacks[:2]:
                m = re.search(r"^\s+(github\.com/EliCDavis/polyform/.*\(\))\s*$", s, re.M)
                if m:
                    firsts.append(_norm_frame(m.group(1)))
            if firsts:
                out.append(("X04.RaceFree/" + "+".join(sorted(set(firsts))), blk[:3000]))
    return out


def run_conc(ctx, binary, cases, name, race_log=None, reps=1):
    d = ctx.scratch(name)
    cases_r = [c for c in cases for _ in range(reps)]
    n = max(1, min(core.NCPU, (len(cases_r) + 29) // 30))
    size = (len(cases_r) + n - 1) // n
    chunks = [(i, cases_r[i:i + size]) for i in range(0, len(cases_r), size)]
    env = {}
    if race_log:
        env["GORACE"] = "halt_on_error=0 exitcode=0 log_path=%s" % race_log

    def one(ch):
        base, cs = ch
        cp = os.path.join(d, "c%06d.ndjson" % base)
        tp = os.path.join(d, "t%06d.ndjson" % base)
        core.write_ndjson(cp, cs)
        core.run_vh(binary, ["xh-conc", "-in", cp, "-out", tp], timeout=3000, env_extra=env)
        rows = []
        with open(tp) as f:
            for ln in f:
                o = json.loads(ln)
                o["h"] += base
                rows.append(o)
        os.remove(tp)
        os.remove(cp)
        return rows

    with ThreadPoolExecutor(max_workers=n) as ex:
        parts = list(ex.map(one, chunks))
    rows = [r for p in parts for r in p]
    raw = [json.dumps(r, separators=(",", ":")) + "\n" for r in rows]
    res = core.validate_sharded(ctx, name, "TraceHttpConc", "TraceHttpConc.cfg", raw, timeout=3000,
                                check_consumed=False, heap="4g")
    bad, skipped = [], 0
    for sh, r in res:
        hs = [json.loads(ln)["h"] for ln in sh if ln.startswith('{"k":"reset"')]
        objs = [json.loads(ln) for ln in sh]
        for v in r.values:
            if isinstance(v, dict) and "bad" in v:
                h = hs[v["h"] - 1]
                lines = [o for o in objs if o["h"] == h]
                hard = any(o["k"] in ("crash", "hang") or o.get("st") == -1 for o in lines)
                if v.get("skipped") and not hard:
                    skipped += 1
                    continue
                bad.append((h, lines))
    ctx.traces += len(cases_r)
    ctx.evaluations += len(raw)
    return cases_r, bad, skipped


def report_conc(ctx, cases, bad, seen_sigs):
    for h, lines in bad:
        c = cases[h]
        crash = [o for o in lines if o["k"] == "crash"]
        hang = any(o["k"] == "hang" for o in lines)
        panic = any(o["k"] == "resp" and o["st"] == -1 for o in lines)
        kinds = sorted({r["kind"] for p in c["progs"] for r in p})
        if crash:
            reason = crash[0]["note"].split(" @ ")[0]
            reason = re.sub(r"[^A-Za-z ]+", "", reason).strip().replace(" ", "-")[:60]
            sig = "X04.Crash/%s" % reason
            what = "the process died while clients ran %s concurrently: %s" % (kinds, crash[0]["note"][:300])
        elif hang:
            sig = "X04.Hang/" + "+".join(kinds)
            what = "clients running %s concurrently did not finish" % kinds
        elif panic:
            sig = "X04.NoPanic/concurrent/" + "+".join(kinds)
            what = "a panic left the handler while clients ran %s concurrently" % kinds
        else:
            sig = "X04.Linearizable/" + "+".join(kinds)
            what = "no serial order of the requests explains the answers and the final application/file state: %s" % (
                [(o["k"], o["r"]["cl"], o["r"]["kind"], o["r"]["a"], o["r"]["b"], o["r"]["c"], o.get("st"), o.get("rid"))
                 for o in lines if o["k"] in ("inv", "resp")][:14])
        seen_sigs[sig] = seen_sigs.get(sig, 0) + 1
        if seen_sigs[sig] > 1:
            continue
        ctx.violation(sig, what, {"family": "xhttp-conc", "case": c})


# --------------------------------------------------------------------------
# seeded histories from the C12 generator, lifted to requests
# --------------------------------------------------------------------------

def lift(ge_hist):
    steps = []
    for s in ge_hist["steps"]:
        if s["op"] == "swap":      # reload: fetch the graph and post it back
            steps.append({"kind": "getgraph", "a": 0, "b": 0, "c": 0})
            steps.append({"kind": "putgraph", "a": 0, "b": 0, "c": 0})
        else:
            steps.append({"kind": s["op"], "a": s["a"], "b": s["b"], "c": s["c"]})
    return {"steps": steps, "tag": "seeded"}


# --------------------------------------------------------------------------

REQUIRED = [  # every class of request must have been exercised (vacuity guard); prefix match on class/kind/reason
    "valid/create/", "valid/connect/", "valid/connectarr/", "valid/disconnect/", "valid/disconnectarr/", "valid/setval/",
    "valid/setname/", "valid/setdesc/", "valid/setproducer/", "valid/setmeta/", "valid/delmeta/", "valid/delete/",
    "valid/putgraph/", "valid/getgraph/", "valid/getschema/", "valid/getval/", "valid/getname/", "valid/getart/",
    "valid/getzip/", "valid/getstarted/", "valid/getmermaid/", "valid/getswagger/",
    "invalid/connect/cycle", "invalid/connect/self", "invalid/connect/incompatible", "invalid/connect/unknown-node",
    "invalid/connect/no-port", "invalid/connectarr/cycle", "invalid/connectarr/incompatible", "invalid/delete/in-use",
    "invalid/delete/unknown-node", "invalid/create/unknown-type", "invalid/setval/not-a-parameter",
    "invalid/setval/unknown-node", "invalid/setproducer/not-an-artifact", "invalid/disconnectarr/index",
    "invalid/getval/unknown-node", "invalid/getart/no-producer", "invalid/create/method", "invalid/delete/method",
    "invalid/connect/method", "invalid/setval/method", "invalid/putgraph/method", "invalid/setmeta/method",
    "invalid/create/body1", "invalid/create/body2", "invalid/create/body3", "invalid/create/body4",
    "invalid/connect/body2", "invalid/setval/body2", "invalid/setmeta/body1", "invalid/putgraph/body1",
    "invalid/putgraph/body5", "invalid/putgraph/body6", "invalid/putgraph/body7", "neutral/disconnect/", "neutral/delmeta/",
    "neutral/getzip/", "neutral/getart/",
]


def generate(ctx, quick, rnd):
    """All TLC generator / design-level runs of the check, in parallel JVMs (each in its own scratch directory)."""
    jobs = []   # (key, module, cfg args, tlc kwargs)
    # design level: the pinned handlers violate the invariants (counterexamples), the contract machine does not
    for inv, prelude, depth in [("HAcyclic", "PreludeSmall", 1), ("HTypeOK", "PreludeSmall", 1), ("FileCurrent", "PreludeSmall", 2)]:
        jobs.append((("design", inv), "HttpEdit", dict(prelude=prelude, depth=depth, maxnodes=6, mode="design", pinned=True, inv=inv),
                     dict(workers=1, timeout=900)))
    # (1) BFS: every request of the pools at every graph reachable in Depth-1 steps from the preludes
    plan = [("PreludeSmall", 1, 6, 0), ("PreludeMixed", 1, 9, 0), ("PreludeTwelve", 1, 6, 0), ("PreludeLoop", 1, 7, 0)]
    plan += ([("PreludeSmall", 2, 6, 1500), ("PreludeEmpty", 2, 3, 1000)] if quick else
             [("PreludeSmall", 2, 6, 0), ("PreludeLoop", 2, 7, 6000), ("PreludeEmpty", 2, 3, 0), ("PreludeMixed", 2, 9, 4000),
              ("PreludeEmpty", 3, 3, 4000)])
    for prelude, depth, maxn, cap in plan:
        jobs.append((("bfs", prelude, depth, cap), "HttpEdit", dict(prelude=prelude, depth=depth, maxnodes=maxn, mode="bfs"),
                     dict(workers=1, timeout=3000, heap="6g")))
    # (1b) evaluate - edit - evaluate around every valid edit (stale caches behind the API);
    #      edit - POST /graph of the graph from before - GET /graph (whole-graph replacement and its autosave)
    for prelude, maxn in [("PreludeSmall", 6), ("PreludeLoop", 7)] + ([] if quick else [("PreludeMixed", 9), ("PreludeTwelve", 6)]):
        for mode in ("sandwich", "revert"):
            jobs.append(((mode, prelude), "HttpEdit", dict(prelude=prelude, depth=3, maxnodes=maxn, mode=mode),
                         dict(workers=1, timeout=3000)))
    # (2) simulation: long walks mixing valid edits, invalid and malformed requests, reads, whole-graph posts
    splan = ([("PreludeSmall", 8, 40, 5), ("PreludeLoop", 8, 40, 5)] if quick else
             [("PreludeSmall", 10, 50, 12), ("PreludeMixed", 11, 50, 10), ("PreludeLoop", 10, 50, 12), ("PreludeTwelve", 8, 50, 12),
              ("PreludeSmall", 12, 60, 12), ("PreludeEmpty", 8, 60, 12)])
    for k, (prelude, maxn, depth, num) in enumerate(splan):
        jobs.append((("sim", prelude, k), "HttpEdit", dict(prelude=prelude, depth=depth, maxnodes=maxn, mode="sim"),
                     dict(workers=1, timeout=3000, simulate="num=%d" % num, depth=100, seed=ctx.seed * 100 + k)))
    # (4) concurrent cases
    cplan = ([("PreludeSmall", 2, 2, 14), ("PreludeMixed", 3, 1, 10), ("PreludeLoop", 2, 2, 10)] if quick else
             [("PreludeSmall", 2, 2, 150), ("PreludeMixed", 3, 1, 100), ("PreludeMixed", 2, 2, 100), ("PreludeLoop", 2, 2, 100),
              ("PreludeSmall", 3, 2, 60), ("PreludeTwelve", 2, 2, 40)])
    for k, (prelude, nc, per, num) in enumerate(cplan):
        jobs.append((("conc", prelude, nc, per, k), "HttpConc", dict(prelude=prelude, depth=0, maxnodes=12, mode="conc", nc=nc, per=per),
                     dict(workers=1, timeout=3000, simulate="num=%d" % num, depth=60, seed=ctx.seed * 100 + k)))

    def one(job):
        key, module, cfg, kw = job
        d = ctx.scratch("gen-" + "-".join(str(x) for x in key))
        gen_cfg(os.path.join(d, "X.cfg"), cfg["prelude"], cfg["depth"], cfg["maxnodes"], cfg["mode"], pinned=cfg.get("pinned", False),
                inv=cfg.get("inv"), nc=cfg.get("nc", 2), per=cfg.get("per", 2))
        return key, tlc(d, module, "X.cfg", **kw)

    with ThreadPoolExecutor(max_workers=max(2, core.NCPU)) as ex:
        results = list(ex.map(one, jobs))
    hists, sims, cases = [], [], []
    for key, r in results:
        if key[0] == "design":
            ok = r.rc == 12 and r.violated == key[1]
            ctx.extra["design_pinned_violates_" + key[1]] = ok
            if not ok:
                raise core.Infra("HttpEdit with the pinned handlers does not violate %s: the model lost its teeth" % key[1])
            continue
        if r.rc != 0:
            raise core.Infra("%s violates its own invariant/property %s" % (key, r.violated))
        if key[0] == "bfs":
            _, prelude, depth, cap = key
            ctx.add_tlc(r)
            hs = uniq(r.values, "steps")
            hs.sort(key=lambda h: json.dumps(h, sort_keys=True))
            ctx.extra["bfs_%s_d%d_generated" % (prelude, depth)] = len(hs)
            if cap and len(hs) > cap:
                rnd.shuffle(hs)
                hs = hs[:cap]
            for h in hs:
                h["tag"] = "bfs:%s:%d" % (prelude, depth)
            ctx.extra["bfs_%s_d%d" % (prelude, depth)] = len(hs)
            hists += share_preludes(hs, len(hs[0]["steps"]) - depth)
        elif key[0] in ("sandwich", "revert"):
            ctx.add_tlc(r)
            hs = uniq(r.values, "steps")
            hs.sort(key=lambda h: json.dumps(h, sort_keys=True))
            for h in hs:
                h["tag"] = key[0] + ":" + key[1]
            ctx.extra[key[0] + "_" + key[1]] = len(hs)
            hists += share_preludes(hs, len(hs[0]["steps"]) - 3)
        elif key[0] == "sim":
            hs = uniq(r.values, "steps")
            for h in hs:
                h["tag"] = "sim:" + key[1]
            sims += hs
        else:
            _, prelude, nc, per, _k = key
            cs = uniq(r.values, "progs")
            for c in cs:
                c["tag"] = "conc:%s:%dx%d" % (prelude, nc, per)
            cases += cs
    ctx.extra["sim_histories"] = len(sims)
    ctx.transitions += sum(len(h["steps"]) for h in sims)
    return hists, sims, cases


def run(ctx):
    quick = ctx.tier == "quick"
    rnd = random.Random(ctx.seed)
    t0 = time.time()
    phases = {}
    vh = core.build_vh()
    vhr = core.build_vh(race=True)
    phases["build"] = round(time.time() - t0, 1)
    t0 = time.time()
    hists, sims, cases = generate(ctx, quick, rnd)
    hists += sims
    # (3) seeded histories of the C12 generator (larger graphs), swap = GET /graph + POST /graph
    d = ctx.scratch("gen")
    rp = os.path.join(d, "r.ndjson")
    core.run_vh(vh, ["ge-random", "-out", rp, "-seed", str(ctx.seed), "-n", str(30 if quick else 300), "-steps", "80"])
    seeded = [lift(h) for h in core.read_ndjson(rp)]
    ctx.extra["seeded_histories"] = len(seeded)
    hists += seeded
    phases["generate"] = round(time.time() - t0, 1)
    t0 = time.time()
    raw = execute(ctx, vh, hists, "exec")
    stats, seen = {}, {}
    phases["execute"] = round(time.time() - t0, 1)
    t0 = time.time()
    findings = judge(ctx, raw, "judge", stats)
    report(ctx, hists, findings, seen)
    phases["judge"] = round(time.time() - t0, 1)
    t0 = time.time()
    ctx.traces += len(hists)
    ctx.extra["request_lines_judged"] = sum(stats.values())
    ctx.extra["requests_by_class"] = {c: sum(n for k, n in stats.items() if k.startswith(c + "/")) for c in ("valid", "invalid", "neutral")}
    ctx.extra["distinct_class_kind_reason"] = len(stats)
    missing = [p for p in REQUIRED if not any(k.startswith(p) for k in stats)]
    if missing:
        raise core.Infra("request classes never exercised (vacuous): %s" % missing)
    ctx.extra["rejections_by_signature"] = dict(sorted(seen.items()))
    # (4) concurrent mode
    ctx.extra["concurrent_cases"] = len(cases)
    seenc = {}
    cr, bad, skipped = run_conc(ctx, vh, cases, "conc", reps=2 if quick else 4)
    report_conc(ctx, cr, bad, seenc)
    racelog = os.path.join(ctx.scratch("race"), "race")
    sample = cases if quick else cases[:: max(1, len(cases) // 600)]
    cr2, bad2, skipped2 = run_conc(ctx, vhr, sample, "conc-race", race_log=racelog)
    report_conc(ctx, cr2, bad2, seenc)
    races = race_reports(racelog)
    rs = {}
    for sig, txt in races:
        rs[sig] = rs.get(sig, 0) + 1
        if rs[sig] == 1:
            ctx.violation(sig, "Go race detector report inside polyform while clients issue requests in parallel", {"family": "xhttp-conc", "race": txt})
    ctx.extra["concurrent_histories_judged"] = len(cr) + len(cr2)
    ctx.extra["concurrent_histories_inconclusive"] = skipped + skipped2
    ctx.extra["concurrent_rejections_by_signature"] = dict(sorted(seenc.items()))
    ctx.extra["race_reports_in_polyform"] = len(races)
    ctx.extra["race_signatures"] = dict(sorted(rs.items()))
    phases["concurrent"] = round(time.time() - t0, 1)
    ctx.extra["phase_wall_s"] = phases
    if ctx.tier == "thorough":
        selftest(ctx, vh, hists, cases)
    # response write phase (specs/HttpResp.tla): gated ResponseWriters, artifacts around the buffer sizes
    rc, rf = httpresp.run_resp(ctx, "X04", vh, vhr)
    ctx.nontrivial = len({json.dumps(h["steps"], sort_keys=True) for h in hists if len(h["steps"]) >= 2}) + len(cases) + len(rc)
    ctx.rule = ("histories = TLC BFS of HttpEdit (every request of the valid / invalid / malformed / read pools at every graph "
                "reachable from four GraphEdit preludes), TLC simulation walks (class-weighted), seeded C12 histories lifted to "
                "requests; each request is sent to the real ServeMux (httptest) and status, body, application graph and autosaved "
                "file are judged by TraceHttpEdit; concurrent cases = TLC simulation of HttpConc (2-3 clients), free-running "
                "goroutines, judged for linearizability by TraceHttpConc, plus the race detector; distinct by request list")
    ctx.sample({"tag": hists[0]["tag"], "last": hists[0]["steps"][-1]})
    ctx.sample({"tag": sims[0]["tag"], "steps": [(s["m"], s["path"], s["flaw"]) for s in sims[0]["steps"][-6:]]})
    ctx.sample({"tag": cases[0]["tag"], "progs": [[(s["m"], s["path"], s["a"], s["b"]) for s in p] for p in cases[0]["progs"]]})
    ctx.assumptions += [
        "projection of the App through Instance.Schema()/parameter accessors and through the loaded GET /graph body is faithful",
        "concurrent histories are free-running (start barrier, repetitions): which interleavings occur is up to the scheduler",
        "data races are decided by the Go race detector on the executed cases (auxiliary observer, not TLA+)",
        "node types: eight parameter types and five processing types of the GraphEdit model; file/image parameters not exercised",
    ]


def selftest(ctx, vh, hists, cases):
    """Corrupt one logged field of an accepted trace; TLC must reject exactly that line / history."""
    pick = [h for h in hists if h["tag"].startswith("sim")][:2]
    raw = execute(ctx, vh, pick, "selftest-exec")
    rows = [json.loads(x) for x in raw]
    # (a) a status code, (b) a saved-file projection, (c) a response value
    k1 = max(i for i, r in enumerate(rows) if r["k"] == "req" and r["st"] == 200 and r["r"]["kind"] == "setval")
    rows[k1]["st"] = 500
    k2 = max(i for i, r in enumerate(rows) if r["k"] == "req" and r["st"] == 200 and r["r"]["kind"] == "create" and i != k1)
    rows[k2]["file"]["nodes"][-1]["type"] += 1
    k3 = max(i for i, r in enumerate(rows) if r["k"] == "req" and r["st"] == 200 and r["r"]["kind"] == "create" and i not in (k1, k2))
    rows[k3]["rid"] += 1
    d = ctx.scratch("selftest")
    tp = os.path.join(d, "trace.ndjson")
    core.write_ndjson(tp, rows)
    r = core.run_tlc(os.path.join(d, "v"), "TraceHttpEdit", "TraceHttpEdit.cfg", files=[(tp, "trace.ndjson")], timeout=900)
    got = {v["l"] - 1: set(v["bad"]) for v in r.values if isinstance(v, dict) and "bad" in v}
    want = {k1: "X04.Accepts", k2: "X04.Saved", k3: "X04.Effect"}
    for k, p in want.items():
        if p not in got.get(k, set()):
            raise core.Infra("self-test: corrupted field at line %d was not rejected with %s (got %s)" % (k, p, got.get(k)))
    # concurrent: corrupt the node id returned by a create
    cs = [c for c in cases if any(r["kind"] == "create" for p in c["progs"] for r in p)][:3]
    d2 = ctx.scratch("selftest-conc")
    cp = os.path.join(d2, "c.ndjson")
    core.write_ndjson(cp, cs)
    tp2 = os.path.join(d2, "t.ndjson")
    core.run_vh(vh, ["xh-conc", "-in", cp, "-out", tp2])
    rows = core.read_ndjson(tp2)
    k = [i for i, r in enumerate(rows) if r["k"] == "resp" and r["r"]["kind"] == "create" and r["st"] == 200 and r["h"] == 1]
    if not k:
        raise core.Infra("self-test: no accepted create in concurrent history 1")
    rows[k[0]]["rid"] += 7
    tp3 = os.path.join(d2, "trace.ndjson")
    core.write_ndjson(tp3, rows)
    r = core.run_tlc(os.path.join(d2, "v"), "TraceHttpConc", "TraceHttpConc.cfg", files=[(tp3, "trace.ndjson")], workers=1, timeout=900)
    bad = sorted(v["h"] for v in r.values if isinstance(v, dict) and "bad" in v)
    if 2 not in bad:
        raise core.Infra("self-test: corrupted create answer should make concurrent history 2 non-linearizable, got %s" % bad)
    ctx.extra["selftest_corruptions_rejected"] = 4


def replay(ctx, path):
    obj = json.load(open(path))["case"]
    if obj.get("family") == "httpresp":
        httpresp.replay_case(ctx, "X04", obj["case"])
        ctx.rule = "replay x10 (response phase)"
        ctx.nontrivial = 2
        ctx.sample({"replayed": path})
        return
    vh = core.build_vh()
    seen = {}
    if "history" in obj:
        hists = [obj["history"]]
        raw = execute(ctx, vh, hists, "replay")
        stats = {}
        findings = judge(ctx, raw, "replay-judge", stats)
        for ln, v in findings:
            print("replay:", v["bad"], "at step", ln.get("i"), v.get("why"))
        report(ctx, hists, findings, seen)
        ctx.traces += 1
    elif "case" in obj:
        cr, bad, _ = run_conc(ctx, vh, [obj["case"]], "replay-conc", reps=30)
        for h, lines in bad:
            print("replay: repetition", h, "not linearizable")
        report_conc(ctx, cr, bad, seen)
    else:
        print("race reports are replayed by re-running the check")
    ctx.rule = "replay"
    ctx.nontrivial = 2
    ctx.sample({"replayed": path})
