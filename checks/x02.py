"""X02: the multiplayer room hub of generator/room keeps one player per registered client, never touches a closed
channel, hands every client its id first, and its messages round-trip (RoomHub.tla, RoomWire.tla, TraceRoom.tla)."""
import json
import os
import random

from vlib import core

FULL = "{1, 3, 4, 6, 7, 8, 9}"


def hub_cfg(path, nc, cap, depth, variant, alphabet, mode, extra=""):
    with open(path, "w") as f:
        f.write('CONSTANTS NC = %d Cap = %d Depth = %d Variant = "%s" Alphabet = %s\n' % (nc, cap, depth, variant, alphabet))
        f.write("SPECIFICATION %s\n" % ("FairSpec" if mode == "live" else "Spec"))
        if mode == "inv":
            f.write("INVARIANTS TypeOK NoSendOnClosed NoDoubleClose NoPanic NoBlock RegOpen PlayersMatchClients ClosedIffGone "
                    "IdFirst Representable\n")
        elif mode == "one":
            f.write("INVARIANTS %s\n" % extra)
        elif mode == "live":
            f.write("PROPERTIES EventuallyId\n")
        elif mode == "bfs":
            f.write("INVARIANTS Emit\nVIEW View\n")
        elif mode == "attack":
            f.write("INVARIANTS Emit%s\nCONSTRAINT Stop%s\nVIEW View\n" % (extra, extra))
        elif mode == "sim":
            f.write("INVARIANTS EmitLeaf\n")
        f.write("CHECK_DEADLOCK FALSE\n")


def tlc(ctx, d, module, cfgname, **kw):
    kw.setdefault("workers", min(core.NCPU, 8))
    kw.setdefault("timeout", 1500)
    r = core.run_tlc(d, module, cfgname, files=[(os.path.join(d, cfgname), cfgname)], **kw)
    ctx.add_tlc(r)
    return r


def design_level(ctx, quick):
    """Invariants / liveness / wire format on the specifications themselves."""
    d = ctx.scratch("model")
    # the repaired machine keeps everything
    for nc, cap, alpha in ([(2, 2, "{1, 3, 4, 7, 8}"), (3, 1, "{1, 7}")] if quick else
                           [(2, 2, FULL), (3, 1, "{1, 3, 4, 7, 8}"), (3, 2, "{1, 6, 7}"), (4, 1, "{7}")]):
        hub_cfg(os.path.join(d, "R.cfg"), nc, cap, 0, "repaired", alpha, "inv")
        r = tlc(ctx, d, "RoomHub", "R.cfg")
        if r.rc != 0:
            raise core.Infra("RoomHub (repaired, NC=%d Cap=%d) violates %s: model bug" % (nc, cap, r.violated))
        ctx.extra["model_repaired_nc%d_cap%d_states" % (nc, cap)] = r.distinct
    # the machine as found: channel discipline and id-first hold, the three predicted defects are counterexamples
    hub_cfg(os.path.join(d, "P.cfg"), 2, 1, 0, "pinned", "{1, 3, 7, 8}" if quick else FULL, "one",
            "TypeOK NoSendOnClosed NoDoubleClose NoBlock RegOpen ClosedIffGone IdFirst")
    r = tlc(ctx, d, "RoomHub", "P.cfg")
    if r.rc != 0:
        raise core.Infra("RoomHub (pinned) violates %s: model bug" % r.violated)
    for inv in ("PlayersMatchClients", "NoPanic", "Representable"):
        hub_cfg(os.path.join(d, "P.cfg"), 2, 1, 0, "pinned", "{1, 3, 7, 8}" if quick else FULL, "one", inv)
        r = tlc(ctx, d, "RoomHub", "P.cfg")
        ctx.extra["model_pinned_breaks_" + inv] = (r.rc == 12)
        if r.rc != 12:
            raise core.Infra("RoomHub (pinned) keeps %s: the model lost its teeth" % inv)
    # liveness: a receiving writePump gets the id
    for nc, cap, alpha in ([(2, 2, "{1, 7}")] if quick else [(2, 2, "{1, 7}"), (3, 2, "{7}")]):
        hub_cfg(os.path.join(d, "L.cfg"), nc, cap, 0, "repaired", alpha, "live")
        r = tlc(ctx, d, "RoomHub", "L.cfg")
        if r.rc != 0:
            raise core.Infra("RoomHub liveness EventuallyId fails (NC=%d): %s" % (nc, r.violated))
        ctx.extra["model_liveness_nc%d_states" % nc] = r.distinct
    # the wire format: Decode is a left inverse of Encode on the domain, and only there
    with open(os.path.join(d, "W.cfg"), "w") as f:
        f.write("CONSTANTS MaxLen = 255 Crowd = 255 Mid = %s\nSPECIFICATION Spec\nINVARIANTS RoundTrip Faithful\n"
                "CHECK_DEADLOCK FALSE\n" % ("{1}" if quick else "{1, 2}"))
    r = core.run_tlc(d, "RoomWireMC", "W.cfg", files=[(os.path.join(d, "W.cfg"), "W.cfg")], workers=4, timeout=900)
    ctx.add_tlc(r)
    if r.rc != 0:
        raise core.Infra("RoomWire round trip fails inside the domain: %s" % r.violated)
    ctx.extra["wire_states_round_tripped"] = r.distinct
    r = core.run_tlc(d, "RoomWireMC", "RoomWireMCOver.cfg", workers=1, timeout=900)
    if r.rc != 12 or r.violated != "Faithful":
        raise core.Infra("RoomWire carries 256-byte strings: the format model lost its teeth")
    ctx.extra["wire_over_domain_counterexample"] = True


def uniq(vals):
    seen, out = set(), []
    for v in vals:
        k = json.dumps(v, sort_keys=True)
        if k not in seen:
            seen.add(k)
            out.append(v)
    return out


def drop_prefixes(cases):
    ser = [tuple(json.dumps(e, sort_keys=True) for e in c["ev"]) for c in cases]
    pre = set()
    for s in set(ser):
        for k in range(1, len(s)):
            pre.add(s[:k])
    return [c for c, s in zip(cases, ser) if s not in pre]


def generate(ctx, vh, quick, rnd):
    d = ctx.scratch("gen")
    cases = []
    plan = [(2, 1, 5, "{1, 3, 4, 7, 8, 9}"), (2, 2, 4, "{1, 3, 7, 9}"), (3, 1, 4, "{1, 4, 7}"), (1, 2, 3, "{2, 3, 5, 6}")] if quick else \
           [(2, 1, 6, "{1, 3, 4, 7, 8, 9}"), (2, 2, 6, "{1, 3, 4, 7, 9}"), (3, 1, 5, "{1, 3, 4, 7, 8}"), (3, 2, 5, "{1, 7, 9}"),
            (1, 2, 5, "{1, 2, 3, 4, 5, 6, 7}")]
    for nc, cap, depth, alpha in plan:
        hub_cfg(os.path.join(d, "G.cfg"), nc, cap, depth, "repaired", alpha, "bfs")
        r = tlc(ctx, d, "RoomHub", "G.cfg")
        if r.rc != 0:
            raise core.Infra("RoomHub generator failed: %s" % r.violated)
        cs = drop_prefixes(uniq([v for v in r.values if isinstance(v, dict) and "ev" in v]))
        for c in cs:
            c["tag"] = "bfs"
        ctx.extra["bfs_nc%d_cap%d_depth%d" % (nc, cap, depth)] = len(cs)
        cases += cs
    # attack sequences of the machine as found
    att = []
    for kind in ("Ghost", "Panic", "Unrep"):
        for nc, cap, depth in ([(2, 1, 5)] if quick else [(2, 1, 7), (3, 2, 6)]):
            hub_cfg(os.path.join(d, "A.cfg"), nc, cap, depth, "pinned", "{1, 3, 4, 7, 9}", "attack", kind)
            r = tlc(ctx, d, "RoomHub", "A.cfg")
            a = uniq([v for v in r.values if isinstance(v, dict) and "ev" in v])
            if not a:
                raise core.Infra("the pinned machine produced no %s attack sequence: generator lost its teeth" % kind)
            rnd.shuffle(a)
            a = a[:250 if quick else 2500]
            ctx.extra["attack_%s_nc%d" % (kind.lower(), nc)] = len(a)
            att += a
    for c in att:
        c["tag"] = "attack"
    ctx.extra["attack_sequences"] = len(att)
    cases += att
    # long walks
    sim = []
    for nc, cap, depth, alpha, num in ([(3, 2, 24, "{1, 6, 7}", 40)] if quick else
                                       [(3, 2, 30, "{1, 6, 7}", 300), (4, 3, 40, "{1, 3, 7, 8}", 300), (4, 1, 30, "{4, 7}", 200)]):
        hub_cfg(os.path.join(d, "S.cfg"), nc, cap, depth, "repaired", alpha, "sim")
        r = tlc(ctx, d, "RoomHub", "S.cfg", workers=1, simulate="num=%d" % num, depth=depth + 2, seed=ctx.seed)
        if r.rc != 0:
            raise core.Infra("RoomHub simulation failed: %s" % r.violated)
        s = uniq([v for v in r.values if isinstance(v, dict) and "ev" in v])
        ctx.transitions += sum(len(c["ev"]) for c in s)
        sim += s
    for c in sim:
        c["tag"] = "sim"
    ctx.extra["simulated_walks"] = len(sim)
    cases += sim
    # codec shapes enumerated by TLC, filled by the harness
    with open(os.path.join(d, "Sh.cfg"), "w") as f:
        f.write("CONSTANTS MaxPlayers = 2 IdLens = {0, 10, 255} NameLens = {0, 2, 255} ObjCounts = %s\n"
                "SPECIFICATION Spec\nINVARIANTS Emit\nCHECK_DEADLOCK FALSE\n" % ("{0, 1}" if quick else "{0, 1, 255}"))
    r = tlc(ctx, d, "RoomShapeGen", "Sh.cfg", workers=1)
    shapes = uniq([v for v in r.values if isinstance(v, dict) and "shape" in v])
    if quick:   # the 255-object boundary on single players only
        shapes += [{"shape": [{"il": il, "nl": nl, "nr": 255}]} for il in (0, 10, 255) for nl in (0, 255)]
    sp = os.path.join(d, "shapes.ndjson")
    core.write_ndjson(sp, shapes)
    cp = os.path.join(d, "shapecases.ndjson")
    core.run_vh(vh, ["room-shapes", "-in", sp, "-out", cp, "-seed", str(ctx.seed)])
    sc = core.read_ndjson(cp)
    ctx.extra["codec_shapes"] = len(sc)
    cases += sc
    # seeded random cases: longer histories, more clients, arbitrary payloads, a crowd
    rp = os.path.join(d, "random.ndjson")
    core.run_vh(vh, ["room-random", "-out", rp, "-seed", str(ctx.seed), "-n", str(60 if quick else 1200), "-steps", "50",
                     "-codec", str(150 if quick else 1500), "-crowd", "1" if quick else "2"])
    rc = core.read_ndjson(rp)
    ctx.extra["random_cases"] = len(rc)
    cases += rc
    return cases


def boundary(ln):
    return ln.startswith('{"k":"reset"') or ln.startswith('{"k":"codec"')


def judge(ctx, vh, cases, name):
    d = ctx.scratch(name)
    cp = os.path.join(d, "cases.ndjson")
    core.write_ndjson(cp, cases)
    tp = os.path.join(d, "trace.ndjson")
    core.run_vh(vh, ["room-exec", "-in", cp, "-out", tp], timeout=1800)
    raw = open(tp).readlines()
    # many small shards: a shard's whole trace is held in memory by TLC
    nsh = core.NCPU if len(raw) < 150000 else 4 * core.NCPU
    res = core.validate_sharded(ctx, name, "TraceRoom", "TraceRoom.cfg", raw, nshards=nsh, is_boundary=boundary, timeout=2400,
                                heap="4g")
    findings, summary = [], {}
    for sh, r in res:
        got_summary = False
        for v in r.values:
            if isinstance(v, dict) and "bad" in v:
                findings.append((json.loads(sh[v["l"] - 1]), v["bad"]))
            elif isinstance(v, dict) and "summary" in v:
                got_summary = True
                for k, n in v["summary"].items():
                    summary[k] = summary.get(k, 0) + n
        if not got_summary:
            raise core.Infra("a trace shard of %s printed no summary" % name)
    skipped = sum(json.loads(ln)["n"] for ln in raw if ln.startswith('{"k":"skipped"'))
    if skipped:
        ctx.extra["hub_cases_not_run_after_repeated_hangs"] = skipped
    ctx.traces += len(cases) - skipped
    ctx.evaluations += len(raw)
    return findings, summary, raw


def line_site(ln):
    k = ln["k"]
    if k == "ev":
        op = ln["op"]
        if op == "update":
            kind = {0: "orientation", 1: "name", 2: "scene"}.get(ln["ut"], "other")
            n = len(ln["p"])
            if ln["ut"] == 0 and n % 29 != 0:
                kind += ":bad-length"
            elif (ln["ut"] == 1 and n > 255) or (ln["ut"] == 0 and n > 255 * 29):
                kind += ":over255"
            op = "update:" + kind
        return op
    if k == "recv":
        return "recv"
    if k == "codec":
        return "codec:" + ln["sub"]
    return k


def report(ctx, cases, findings):
    for ln, bad in findings:
        c = cases[ln["h"]]
        site = line_site(ln)
        for p in sorted(bad):
            if not p.startswith("X02."):
                raise core.Infra("unexpected predicate %s" % p)
            sig = "%s/%s" % (p, site)
            if p in ("X02.NoPanic", "X02.NoSendOnClosed", "X02.NoDoubleClose"):
                sig = "%s/%s/%s" % (p, site.replace(":over255", ""), ln.get("pc", "").replace(" ", "-"))
            if p == "X02.Representable" and ln["k"] == "ev" and ln["op"] == "register":
                sig += "/players>255"
            rc = dict(c)
            if ln["k"] == "ev":     # the events up to the rejected one reproduce it
                rc["ev"] = c["ev"][:ln["i"]]
            what = "%s at %s of a %s case (n=%s cap=%s, %d events)" % (p, site, c.get("tag"), c.get("n"), c.get("cap"),
                                                                       len(c.get("ev") or []))
            ctx.violation(sig, what, {"family": "room", "case": rc})


def nontrivial(c):
    if c.get("kind") == "codec":
        return bool(c.get("st") and c["st"]["pl"]) or bool(c.get("ori")) or bool(c.get("id"))
    ops = {e["op"] for e in c["ev"]}
    return "register" in ops and bool(ops & {"tick", "broadcast"})


def run(ctx):
    quick = ctx.tier == "quick"
    vh = core.build_vh()
    rnd = random.Random(ctx.seed)
    design_level(ctx, quick)
    cases = generate(ctx, vh, quick, rnd)
    rnd.shuffle(cases)      # heavy cases (crowd, 255-object payloads) spread over the trace shards
    findings, summary, raw = judge(ctx, vh, cases, "main")
    report(ctx, cases, findings)
    for k, n in summary.items():
        ctx.extra["judged_" + k] = n
    # vacuity guards: every antecedent of the contract was exercised on the real hub
    need = ["drops", "unregister_of_dropped", "update_of_unregistered", "long_name", "long_objects", "bad_orientation",
            "state_frames_with_players", "closed_seen", "first_is_id", "codec_state_in_domain", "codec_ori", "codec_id"]
    dead = sum(1 for ln in raw if ln.startswith('{"k":"end"') and '"dead":true' in ln)
    ctx.extra["cases_in_which_the_hub_died"] = dead
    if dead == 0 and "hub_cases_not_run_after_repeated_hangs" not in ctx.extra:
        missing = [k for k in need if summary.get(k, 0) == 0]
        if missing:
            raise core.Infra("never exercised on the real hub (vacuous): %s" % ", ".join(missing))
    ctx.nontrivial = len({json.dumps(c, sort_keys=True) for c in cases if nontrivial(c)})
    ctx.rule = ("cases = event sequences of RoomHub.tla (TLC BFS with VIEW: one per distinct machine state and length; attack "
                "sequences of the machine as found; TLC simulation walks), TLC-enumerated codec shapes at the length-byte "
                "boundaries, seeded random sequences / room states / payloads and a crowd of more than 255 connections; each is "
                "pushed through the real Hub.Run loop (or the real encoder/decoder) and every observed line is judged by "
                "TraceRoom.tla; non-trivial = a registration followed by a fan-out, or a non-empty codec input; distinct by content")
    first = [c for c in cases if c.get("tag") == "bfs"][0]
    ctx.sample({"tag": "bfs", "n": first["n"], "cap": first["cap"], "ev": first["ev"][:8]})
    big = [c for c in cases if c.get("tag") == "random" and c.get("kind") == "hub"]
    if big:
        ctx.sample({"tag": "random", "n": big[0]["n"], "cap": big[0]["cap"],
                    "ev": [{k: (v if k != "data" else len(v or [])) for k, v in e.items()} for e in big[0]["ev"][:10]]})
    if not quick:
        selftest(ctx, vh)
    ctx.assumptions += [
        "events reach the real loop one at a time through its own channels (hook generator/room/verif_hook.go); an event is "
        "observed after a second, ignored client frame of unknown type has been received by the loop",
        "every case finishes within 150 ms of Hub.Run's start, i.e. before the loop's own 200 ms ticker can interfere (cases that "
        "do not are re-run); scene updates are pushed by the harness",
        "a connection registers once, forwards frames only between its register and its unregister, and unregisters once "
        "(ServeWs / readPump); the websocket pumps themselves are not executed",
        "fresh ids: randString collisions (52^10) are checked on every trace (X02.IdFresh), not provoked",
        "floats are carried as IEEE bit patterns and never interpreted; NaN payloads are kept quiet",
    ]


def selftest(ctx, vh):
    """Corrupt one logged field of an accepted trace; TLC must reject exactly there."""
    d = ctx.scratch("selftest")
    case = {"kind": "hub", "n": 2, "cap": 3, "tag": "selftest", "ev": [
        {"op": "register", "c": 1, "a": 0}, {"op": "register", "c": 2, "a": 0}, {"op": "update", "c": 1, "a": 1},
        {"op": "tick", "c": 0, "a": 0}, {"op": "tick", "c": 0, "a": 0}, {"op": "recv", "c": 1, "a": 0},
        {"op": "recv", "c": 1, "a": 0}, {"op": "unregister", "c": 2, "a": 0}]}
    cp = os.path.join(d, "cases.ndjson")
    core.write_ndjson(cp, [case])
    tp = os.path.join(d, "trace.ndjson")
    core.run_vh(vh, ["room-exec", "-in", cp, "-out", tp])
    rows = core.read_ndjson(tp)

    def verdict(rs, sub):
        p = os.path.join(d, sub + ".ndjson")
        core.write_ndjson(p, rs)
        r = core.run_tlc(os.path.join(d, sub), "TraceRoom", "TraceRoom.cfg", files=[(p, "trace.ndjson")], workers=1, timeout=300)
        return sorted((v["l"], p) for v in r.values if isinstance(v, dict) and "bad" in v for p in v["bad"])

    if verdict(rows, "clean"):
        raise core.Infra("self-test: the uncorrupted trace is rejected")
    # (a) one byte of the name inside a received state frame
    k = [i for i, r in enumerate(rows) if r["k"] == "recv" and r["res"] == "msg" and r["fr"][0] == 129][0]
    bad = json.loads(json.dumps(rows))
    bad[k]["fr"][-5] ^= 1
    got = verdict(bad, "frame")
    if (k + 1, "X02.StateMsg") not in got:
        raise core.Infra("self-test: a flipped byte in a state frame was not rejected as X02.StateMsg (got %s)" % got)
    # (b) the player of the second drop stays behind (a ghost): forget the deletion the hub performed
    k = [i for i, r in enumerate(rows) if r["k"] == "ev" and r["op"] == "unregister"][0]
    bad = json.loads(json.dumps(rows))
    bad[k]["pdel"] = []
    got = verdict(bad, "ghost")
    if (k + 1, "X02.PlayersMatchClients") not in got:
        raise core.Infra("self-test: a ghost player was not rejected as X02.PlayersMatchClients (got %s)" % got)
    # (c) the id message arrives second
    ks = [i for i, r in enumerate(rows) if r["k"] == "recv" and r["c"] == 1 and r["res"] == "msg"][:2]
    bad = json.loads(json.dumps(rows))
    bad[ks[0]], bad[ks[1]] = bad[ks[1]], bad[ks[0]]
    got = verdict(bad, "idfirst")
    if (ks[0] + 1, "X02.IdFirst") not in got:
        raise core.Infra("self-test: a late id message was not rejected as X02.IdFirst (got %s)" % got)
    ctx.extra["selftest_corruptions_rejected"] = 3


def replay(ctx, path):
    obj = json.load(open(path))["case"]
    vh = core.build_vh()
    cases = [obj["case"]]
    findings, _, _ = judge(ctx, vh, cases, "replay")
    for ln, bad in findings:
        print("replay:", sorted(bad), "at", line_site(ln), "line", ln.get("i"))
    report(ctx, cases, findings)
    ctx.rule = "replay"
    ctx.nontrivial = 1
    ctx.sample({"replayed": path})
