from checks import meshpool


def run(ctx):
    meshpool.run_family(ctx, "C01")


def replay(ctx, path):
    meshpool.replay_family(ctx, "C01", path)
