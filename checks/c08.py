from checks import plyfam


def run(ctx):
    plyfam.run_family(ctx, "C08")


def replay(ctx, path):
    plyfam.replay_family(ctx, "C08", path)
