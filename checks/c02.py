import json
import os

from checks import meshpool
from vlib import core


def generators(ctx, vh):
    """Generator half of C02: TLC enumerates parameter tuples (GenShapes), the real generators run, TraceShape judges."""
    d = ctx.scratch("genshapes")
    cfg = "GenShapes.cfg" if ctx.tier == "quick" else "GenShapesBig.cfg"
    r = core.run_tlc(d, "GenShapes", cfg, workers=4, timeout=600)
    ctx.add_tlc(r)
    cases = [v for v in r.values if isinstance(v, dict) and "gen" in v]
    if len(cases) < 100:
        raise core.Infra("GenShapes produced only %d parameter tuples" % len(cases))
    cp = os.path.join(d, "cases.ndjson")
    core.write_ndjson(cp, cases)
    tp = os.path.join(d, "trace.ndjson")
    core.run_vh(vh, ["gen-exec", "-in", cp, "-out", tp], timeout=900)
    raw = open(tp).readlines()
    res = core.validate_sharded(ctx, "genshapes", "TraceShape", "TraceShape.cfg", raw, nshards=4,
                                is_boundary=lambda ln: True, timeout=900)
    accepted = 0
    for ln in raw:
        if '"topo":"FAIL"' not in ln:
            accepted += 1
    for sh, rr in res:
        for v in rr.values:
            if isinstance(v, dict) and "bad" in v:
                ln = json.loads(sh[v["l"] - 1])
                ctx.violation("C02.GenWellFormed/gen%d" % ln["gen"],
                              "generator %d with parameters %s returned an ill-formed mesh: %s" % (ln["gen"], ln["p"], ln["shape"]),
                              {"family": "genshape", "case": {"gen": ln["gen"], "p": ln["p"]}})
    ctx.traces += len(cases)
    ctx.evaluations += len(raw)
    ctx.extra["generator_parameter_tuples"] = len(cases)
    ctx.extra["generator_tuples_accepted"] = accepted
    ctx.sample({"generator_case": cases[len(cases) // 2]})
    if accepted < len(cases) // 4:
        raise core.Infra("most generator tuples were rejected (vacuous)")


def run(ctx):
    meshpool.run_family(ctx, "C02")
    generators(ctx, core.build_vh())


def replay(ctx, path):
    obj = json.load(open(path))["case"]
    if obj.get("family") == "genshape":
        vh = core.build_vh()
        d = ctx.scratch("replay")
        cp = os.path.join(d, "cases.ndjson")
        core.write_ndjson(cp, [obj["case"]])
        tp = os.path.join(d, "trace.ndjson")
        core.run_vh(vh, ["gen-exec", "-in", cp, "-out", tp])
        raw = open(tp).readlines()
        res = core.validate_sharded(ctx, "replay", "TraceShape", "TraceShape.cfg", raw, nshards=1, is_boundary=lambda ln: True)
        for sh, rr in res:
            for v in rr.values:
                if isinstance(v, dict) and "bad" in v:
                    ln = json.loads(sh[v["l"] - 1])
                    print("replay: ill-formed", ln["shape"])
                    ctx.violation("C02.GenWellFormed/gen%d" % ln["gen"], "replayed", obj)
        ctx.rule = "replay"
        ctx.nontrivial = 2
        ctx.sample({"replayed": path})
        return
    meshpool.replay_family(ctx, "C02", path)
