from checks import meshpool


def run(ctx):
    meshpool.run_family(ctx, "C02")


def replay(ctx, path):
    meshpool.replay_family(ctx, "C02", path)
