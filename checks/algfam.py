"""Transform-algebra family (C17): generators (TLC) -> executor (real code) -> judge (TLC).

Generators (specs/Algebra*.tla): the rotation group of the cube as a state machine
(AlgebraGroup), the walk of elementary row operations (AlgebraMat), the box machine
(AlgebraBox), plain enumerations (AlgebraCases: 256 basis-matrix pairs, 26x26 direction
pairs, axis/angle rotations, TRS triples, mesh transforms) and seeded non-lattice cases
(kind "real").  A second generator stage (specs/AlgebraScale.tla) re-emits a rotated subset of
all these cases at other binary magnitudes (inputs * 2^e, e in -100..100, outputs in the units
Algebra.tla assigns).  `vh alg-exec` runs every case on the real polyform types;
specs/TraceAlgebra.tla judges the recorded lines.
"""
import json
import os
from concurrent.futures import ThreadPoolExecutor

from vlib import core

REAL_LAWS = ["C17.QuatLengthReal", "C17.QuatComposeReal", "C17.QuatAxisFixed", "C17.RotationToReal",
             "C17.MatInverseReal", "C17.MatMulAssoc", "C17.MatDetMul", "C17.MatAddReal",
             "C17.TRSReal", "C17.MeshReal", "C17.BoxReal"]

# every predicate of TraceAlgebra must have been exercised (antecedent true) at least once
REQUIRED = ["C17.QuatRotate", "C17.QuatLength", "C17.QuatCompose", "C17.QuatAxisAngle", "C17.RotationTo",
            "C17.MatAdd", "C17.MatMul", "C17.MatDet", "C17.MatInverse", "C17.MatMulPosition",
            "C17.TRSTransform", "C17.TRSTransformArray", "C17.TRSTransformInPlace", "C17.MeshTransform",
            "C17.BoxNew", "C17.BoxEncapsulate", "C17.BoxTight", "C17.BoxContains", "C17.BoxClosest",
            "C17.RotationToNear"] + REAL_LAWS + [
            "Scaled.rot", "Scaled.rotax", "Scaled.rotq", "Scaled.mat1", "Scaled.mat1inv", "Scaled.mat2",
            "Scaled.trs", "Scaled.mesh", "Scaled.box", "Scaled.real",
            "C17.ArrayLaw", "C17.ArrayLen", "C17.ArrayInputKept", "Arr.split", "Arr.large"]

PARAMS = {
    "quick": dict(group_depth=4, mat_depth=2, mat_ks="{1}", mat_bound=4, mat_stride=3, mat_sim=8, mat_sim_depth=8,
                  wordlen=2, box_depth=3, real_n=150),
    "thorough": dict(group_depth=6, mat_depth=3, mat_ks="{1}", mat_bound=6, mat_stride=2, mat_sim=400, mat_sim_depth=12,
                     wordlen=3, box_depth=5, real_n=20000),
}


# size ladder of the array-level entry points (AlgebraArrGen.tla): powers of two 2^k around which lengths are
# generated (BigKs: more offsets), GOMAXPROCS values
ARR = {
    "quick": dict(Ks="{4, 8, 10, 12, 13, 14, 15}", BigKs="{13, 14, 15}", Procs="{1, 2, 3, 4, 7, 16}"),
    "thorough": dict(Ks="{3, 4, 5, 6, 7, 8, 9, 10, 11, 12, 13, 14, 15, 16, 17}", BigKs="{12, 13, 14, 15, 16, 17}",
                     Procs="{1, 2, 3, 4, 5, 6, 7, 8, 12, 16, 32}"),
}
ARR_EPS = ["TRS.TransformArray", "TRS.TransformInPlace", "Quaternion.RotateArray", "Mesh.ApplyTRS", "Mesh.Rotate",
           "Mesh.Translate", "Mesh.Scale", "Mesh.ModifyFloat3AttributeParallelWithPoolSize"]

# binary magnitude stage: of the cases of kind k, one in stride[k] (rotated by the seed) is re-emitted with
# consecutive profiles of AlgebraScale.tla; cases are ranked within their sub-kind (kind + constructor /
# operation / law) so that every operation walks through the profiles on its own; a sub-kind with few cases gets
# several profiles per case (at most `maxn`) so that it sees at least `target` profiles
SCALE = {
    "quick": dict(chunk=4000, target=26, maxn=6,
                  stride=dict(mat1=1, mat2=4, rot=1, rotax=1, rotq=1, trs=1, mesh=1, boxhist=1, real=1)),
    "thorough": dict(chunk=12000, target=208, maxn=13,
                     stride=dict(mat1=2, mat2=8, rot=1, rotax=1, rotq=1, trs=1, mesh=1, boxhist=1, real=4)),
}


def subkind(c):
    k = c["k"]
    if k == "trs":
        return k + ":" + c["ctor"]
    if k == "mesh":
        return k + ":" + c["op"]
    if k == "real":
        return k + ":" + c["law"]
    if k == "boxhist":
        return k + ":" + c["steps"][0]["op"]
    return k


def write_cfg(path, consts, invariants, props=(), view=None):
    with open(path, "w") as f:
        if consts:
            f.write("CONSTANTS\n")
            for k, v in consts.items():
                f.write("  %s = %s\n" % (k, v))
        f.write("SPECIFICATION Spec\nINVARIANTS %s\n" % " ".join(invariants))
        for p in props:
            f.write("PROPERTY %s\n" % p)
        if view:
            f.write("VIEW %s\n" % view)
        f.write("CHECK_DEADLOCK FALSE\n")


def _tlc(ctx, name, module, consts, invariants, *, props=(), view=None, simulate=None, depth=None, timeout=900):
    d = ctx.scratch(name)
    cfg = os.path.join(ctx.scratch(name + "-cfg"), name + ".cfg")
    write_cfg(cfg, consts, invariants, props, view)
    r = core.run_tlc(d, module, name + ".cfg", files=[(cfg, name + ".cfg")],
                     workers=1 if simulate else min(core.NCPU, 6), timeout=timeout, simulate=simulate,
                     depth=depth, seed=ctx.seed if simulate else None, heap="4g")
    if r.rc != 0:
        raise core.Infra("%s violates its own property %s (specification bug)" % (module, r.violated))
    if simulate:
        ctx.transitions += r.generated
    else:
        ctx.add_tlc(r)
    return r


def collect_cases(ctx):
    P = PARAMS[ctx.tier]
    cases, notes = [], {}

    # (1) rotation group: every edge of the group graph, words up to group_depth
    r = _tlc(ctx, "group", "AlgebraGroup", {"Depth": P["group_depth"]},
             ["TypeOK", "Rotation", "GroupLaws", "WordOK", "Emit"], view="View")
    rot = [v for v in r.values if isinstance(v, dict) and v.get("k") == "rot"]
    edges = {(json.dumps(v["m"]), json.dumps(v["word"][-1])) for v in rot}
    elements = {json.dumps(v["m"]) for v in rot}
    notes["group_states"] = r.distinct
    notes["group_elements_reached"] = len(elements)
    notes["group_edges_covered"] = len(edges)
    if len(elements) != 24 or len(edges) != 288:
        raise core.Infra("rotation group generator reached %d elements / %d edges (expected 24 / 288)" %
                         (len(elements), len(edges)))
    for v in rot:
        del v["m"]
    cases += rot

    # (2) unimodular walk: exhaustive to mat_depth, random walks beyond
    consts = {"Depth": P["mat_depth"], "Bound": P["mat_bound"], "Ks": P["mat_ks"]}
    r = _tlc(ctx, "mat", "AlgebraMat", consts, ["DetTracked", "InverseOK", "DetLaws", "Emit"], view="View")
    notes["mat_states"] = r.distinct
    states = [v["cases"] for v in r.values if isinstance(v, dict) and "cases" in v]
    # every enumerated matrix is checked by TLC against the laws of AlgebraMat; a seed-dependent 1/stride of
    # them (and the first 40) is executed on the real code
    k = P["mat_stride"]
    states = states[:40] + states[40 + ctx.seed % k::k]
    notes["mat_states_executed"] = len(states)
    mats = [c for st in states for c in st]
    consts = {"Depth": P["mat_sim_depth"], "Bound": 8, "Ks": "{1, 2}"}
    r = _tlc(ctx, "matsim", "AlgebraMat", consts, ["DetTracked", "InverseOK", "EmitLeaf"],
             simulate="num=%d" % P["mat_sim"], depth=P["mat_sim_depth"] + 2)
    sim = [c for v in r.values if isinstance(v, dict) and "cases" in v for c in v["cases"]]
    seen, uniq = set(), []
    for c in mats + sim:
        k = json.dumps(c, sort_keys=True)
        if k not in seen:
            seen.add(k)
            uniq.append(c)
    notes["mat_cases"] = len(uniq)
    notes["mat_sim_walk_cases"] = len(sim)
    cases += uniq

    # (3) plain enumerations
    consts = {"Families": '{"basis", "rotto", "rotnear", "rotax", "rotq", "trs", "mesh"}', "WordLen": P["wordlen"]}
    r = _tlc(ctx, "enum", "AlgebraCases", consts, ["Emit"])
    enum = [v for v in r.values if isinstance(v, dict) and "k" in v]
    notes["enum_cases"] = len(enum)
    notes["basis_pairs"] = sum(1 for v in enum if v["k"] == "mat2")
    notes["rotto_pairs"] = sum(1 for v in enum if v["k"] == "rotto")
    if notes["basis_pairs"] != 256 or notes["rotto_pairs"] != 676:
        raise core.Infra("enumeration incomplete: %d basis pairs, %d direction pairs" %
                         (notes["basis_pairs"], notes["rotto_pairs"]))
    cases += enum

    # (4) box machine
    r = _tlc(ctx, "box", "AlgebraBox", {"Depth": P["box_depth"], "Den": 2}, ["Valid", "ClampLaws", "Emit"],
             props=["Grows"], view="View")
    box = [v for v in r.values if isinstance(v, dict) and v.get("k") == "boxhist"]
    notes["box_states"] = r.distinct
    notes["box_histories"] = len(box)
    cases += box

    # (5) seeded non-lattice inputs (B2)
    for law in REAL_LAWS:
        for i in range(P["real_n"]):
            cases.append({"k": "real", "law": law, "seed": ctx.seed, "i": i})
    notes["real_cases"] = len(REAL_LAWS) * P["real_n"]

    # (6) the same cases at other binary magnitudes
    cases += scale_cases(ctx, cases, notes)

    # (7) array-level entry points on the size ladder, under several GOMAXPROCS values; design-level model first
    chunked_map_design(ctx, notes)
    cases = interleave(cases, array_cases(ctx, notes))
    return cases, notes


def scale_cases(ctx, cases, notes):
    """Second generator stage: TLC (AlgebraScale) re-emits selected cases at other binary magnitudes."""
    S = SCALE[ctx.tier]
    rank, sel, nsel = {}, [], {}
    for c in cases:
        k = c["k"]
        if k not in S["stride"] or (k == "real" and c["law"] == "C17.RotationToReal"):
            continue
        sk = subkind(c)
        j = rank.get(sk, 0)
        rank[sk] = j + 1
        if (j + ctx.seed) % S["stride"][k] == 0:
            sel.append({"j": j // S["stride"][k], "n": 1, "c": c})
            nsel[sk] = nsel.get(sk, 0) + 1
    for x in sel:
        x["n"] = max(1, min(S["maxn"], -(-S["target"] // nsel[subkind(x["c"])])))
    chunks = [sel[i:i + S["chunk"]] for i in range(0, len(sel), S["chunk"])]

    def one(n):
        name = "scale%d" % n
        d = ctx.scratch(name)
        bp = os.path.join(ctx.scratch(name + "-in"), "base.ndjson")
        core.write_ndjson(bp, chunks[n])
        cfg = os.path.join(ctx.scratch(name + "-in"), "scale.cfg")
        write_cfg(cfg, {"Seed": ctx.seed, "MaxNProf": S["maxn"]}, ["Emit"])
        r = core.run_tlc(d, "AlgebraScale", "scale.cfg", files=[(cfg, "scale.cfg"), (bp, "base.ndjson")],
                         workers=1, timeout=1800, heap="4g")
        if r.rc != 0:
            raise core.Infra("AlgebraScale failed (%s)" % r.violated)
        return r

    with ThreadPoolExecutor(max_workers=max(1, min(core.NCPU, 6))) as ex:
        results = list(ex.map(one, range(len(chunks))))
    out = []
    for n, r in enumerate(results):
        ctx.add_tlc(r)
        got = [v for v in r.values if isinstance(v, dict) and "sc" in v]
        if len(got) != sum(x["n"] for x in chunks[n]):
            raise core.Infra("AlgebraScale emitted %d cases for %d selected" % (len(got), len(chunks[n])))
        out += got
    out.sort(key=lambda c: json.dumps(c, sort_keys=True))
    cover, count, np, kcover, kcount = {}, {}, {}, {}, {}
    for c in out:
        sk = subkind(c)
        cover.setdefault(sk, set()).add(c["sc"])
        count[sk] = count.get(sk, 0) + 1
        np[sk] = np[c["k"]] = c["np"]
        kcover.setdefault(c["k"], set()).add(c["sc"])
        kcount[c["k"]] = kcount.get(c["k"], 0) + 1
    notes["scaled_cases"] = kcount
    notes["scaled_profiles_covered"] = {k: "%d/%d" % (len(kcover[k]), np[k]) for k in sorted(kcover)}
    # by construction every sub-kind walks through its profiles without repetition until all are used
    short = [sk for sk in cover if len(cover[sk]) < min(np[sk], count[sk])]
    if short or set(S["stride"]) - set(kcover):
        raise core.Infra("vacuous: magnitude profiles: sub-kinds %s, kinds never scaled %s" %
                         (short, sorted(set(S["stride"]) - set(kcover))))
    return out


def chunked_map_design(ctx, notes):
    """Design-level model of a chunked parallel map (AlgebraArrMC.tla): the right ways of splitting an array over
    workers cover every index exactly once; dropping the remainder / not clipping must be refuted by TLC."""
    runs = [("ceil", None), ("remainderToLast", None), ("floorDropTail", "Covered"), ("ceilNoClip", "InRange")]

    def one(run):
        variant, expect = run
        name = "arrmc-" + variant
        cfg = os.path.join(ctx.scratch(name + "-cfg"), name + ".cfg")
        write_cfg(cfg, {"MaxN": 20, "MaxW": 6, "Variant": '"%s"' % variant}, ["Covered", "NoRace", "InRange"])
        return core.run_tlc(ctx.scratch(name), "AlgebraArrMC", name + ".cfg", files=[(cfg, name + ".cfg")],
                            workers=1, timeout=300, heap="1g")

    with ThreadPoolExecutor(max_workers=4) as ex:
        results = list(ex.map(one, runs))
    summary = {}
    for (variant, expect), r in zip(runs, results):
        ctx.add_tlc(r)
        summary[variant] = {"states": r.distinct, "violated": r.violated}
        if expect is None and r.rc != 0:
            raise core.Infra("AlgebraArrMC[%s] violates %s: the model of a right design is wrong" % (variant, r.violated))
        if expect is not None and r.violated != expect:
            raise core.Infra("AlgebraArrMC[%s] was expected to violate %s (got %s): the model lost its teeth" %
                             (variant, expect, r.violated))
    notes["chunked_map_design"] = summary


def array_cases(ctx, notes):
    """Size ladder x GOMAXPROCS x array-level entry points, generated by TLC (AlgebraArrGen.tla)."""
    A = ARR[ctx.tier]
    r = _tlc(ctx, "arrgen", "AlgebraArrGen", {"Seed": ctx.seed, "Ks": A["Ks"], "BigKs": A["BigKs"], "Procs": A["Procs"]},
             ["Emit"])
    arr = [v for v in r.values if isinstance(v, dict) and v.get("k") == "arr"]
    arr.sort(key=lambda c: (c["n"], c["procs"], c["ep"]))
    eps = {c["ep"] for c in arr}
    big = {c["ep"] for c in arr if c["n"] > 16384 and c["procs"] >= 2 and c["n"] % c["procs"]}
    notes["array_cases"] = len(arr)
    notes["array_lengths"] = len({c["n"] for c in arr})
    notes["array_max_length"] = max([c["n"] for c in arr] or [0])
    notes["array_procs"] = sorted({c["procs"] for c in arr})
    if eps != set(ARR_EPS) or big != set(ARR_EPS):
        raise core.Infra("vacuous: array ladder covers entry points %s (beyond 16384 with a remainder: %s)" %
                         (sorted(eps), sorted(big)))
    return arr


def interleave(cases, extra):
    """Spreads `extra` evenly through `cases` (trace shards are cut by line count; array lines are heavy)."""
    if not extra:
        return cases
    out, step, j = [], max(1, len(cases) // len(extra)), 0
    for i, c in enumerate(cases):
        out.append(c)
        if (i + 1) % step == 0 and j < len(extra):
            out.append(extra[j])
            j += 1
    return out + extra[j:]


def is_boundary(ln):
    return not ln.startswith('{"k":"boxenc"')


def execute_and_judge(ctx, vh, cases, name="main", nshards=None):
    """Runs the cases on the real code and validates the trace with TLC.
    Returns (findings, stats, raw_lines); a finding is dict(pred, id, line)."""
    d = ctx.scratch(name + "-exec")
    cp = os.path.join(d, "cases.ndjson")
    core.write_ndjson(cp, cases)
    tp = os.path.join(d, "trace.ndjson")
    core.run_vh(vh, ["alg-exec", "-in", cp, "-out", tp], timeout=1800)
    with open(tp) as f:
        raw = f.readlines()
    findings, stats = [], {}
    results = core.validate_sharded(ctx, name, "TraceAlgebra", "TraceAlgebra.cfg", raw, timeout=3000,
                                    nshards=nshards or min(core.NCPU, 8), is_boundary=is_boundary)
    for sh, r in results:
        got_stats = False
        for v in r.values:
            if isinstance(v, dict) and "stats" in v:
                got_stats = True
                for k, n in v["stats"].items():
                    stats[k] = stats.get(k, 0) + n
            elif isinstance(v, dict) and "bad" in v:
                ln = json.loads(sh[v["l"] - 1])
                for pred in v["bad"]:
                    findings.append({"pred": pred, "id": ln["id"], "line": ln})
        if not got_stats:
            raise core.Infra("trace shard of %s printed no statistics" % name)
    ctx.traces += len(cases)
    ctx.evaluations += len(raw)
    return findings, stats, raw


def signature(pred, case):
    # a predicate may carry WHERE it was violated ("C17.ArrayLaw:tail"): the place becomes the last discriminator
    name, _, where = pred.partition(":")
    sig = "%s/%s" % (name, discriminator(case))
    return sig + "/" + where if where else sig


def discriminator(case):
    d = discriminator0(case)
    return d + "/scaled" if case.get("sc") else d


def discriminator0(case):
    k = case["k"]
    if k == "rotto":
        a, b = case["a"], case["b"]
        if a == b:
            return "rotto/parallel"
        if a == [-x for x in b]:
            return "rotto/antiparallel"
        return "rotto/general"
    if k == "rotnear":
        return "rotnear/" + ("antiparallel" if case["anti"] else "parallel")
    if k == "trs":
        return "trs/" + case["ctor"]
    if k == "mesh":
        return "mesh/" + case["op"]
    if k == "real":
        return "real"
    if k == "boxhist":
        return "box"
    if k == "arr":
        return case["ep"]
    return k


def self_test(ctx, raw):
    """Binding self-test: corrupt one logged field in lines of an accepted trace; TLC must reject
    exactly the corrupted lines."""
    picked, seen = [], set()
    for ln in raw:
        o = json.loads(ln)
        if o["k"] == "reset":
            continue
        if o["k"] in ("boxnew", "boxenc"):
            continue          # box lines depend on their predecessors; corrupted separately below
        if o["k"] == "arr" and (o["n"] < 8192 or o["procs"] < 2):
            continue          # the array line of the self-test is a large one
        if o["k"] not in seen:
            seen.add(o["k"])
            picked.append(o)
    good = [json.loads(json.dumps(o)) for o in picked]
    bad = []
    for o in picked:
        o = json.loads(json.dumps(o))
        k = o["k"]
        if k in ("rot", "rotax", "rotq"):
            o["res"][1][2] += 1
        elif k == "rotto":
            o["r"][0] += 9
        elif k == "mat2":
            o["add"][6] += 1
        elif k == "mat1":
            o["det"] += 1
        elif k == "trs":
            o["inp"][0][0] -= 1
        elif k == "mesh":
            o["res"][0][1] += 1
        elif k == "res":
            o["res"][0] += 2000 * max(1, o["mag"])
        elif k == "boxreal":
            o["pts"][0][0] = o["hi"][0] + 5
        elif k == "arr":
            o["sm"][-1][5] += 1          # the last element of the array-level result
        bad.append(o)
    # array lines: a difference reported only by the whole-array count, a short result, an input element changed,
    # and an ill-formed line (a field missing: must be rejected, not crash the judge)
    am = [o for o in picked if o["k"] == "arr"]
    if not am:
        raise core.Infra("self-test: no large array line in the trace")
    for f in (lambda o: o.update(nd=1), lambda o: o.update(outlen=o["outlen"] - 1), lambda o: o.update(nk=2),
              lambda o: o.pop("sm"), lambda o: o["sm"][0].pop()):
        o = json.loads(json.dumps(am[0]))
        f(o)
        bad.append(o)
    # binary magnitude: a scaled mat1 line whose inverse was judged; one mantissa changed, and (separately) one
    # declared unit changed (the judge must refuse the line: units are Algebra.tla's, not the harness's)
    sm = None
    for ln in raw:
        if ln.startswith('{"k":"mat1"'):
            o = json.loads(ln)
            if any(o["ae"]) and o["det"] in (1, -1, 2, -2, 4, -4) and o["invex"]:
                sm = o
                break
    if sm is None:
        raise core.Infra("self-test: no scaled mat1 line with a judged inverse in the trace")
    good.append(json.loads(json.dumps(sm)))
    o = json.loads(json.dumps(sm))
    o["inv"][0] += 1
    bad.append(o)
    o = json.loads(json.dumps(sm))
    o["du"] += 1
    bad.append(o)
    # a box history with a corrupted observation in its second line
    box, cur = [], []
    for ln in raw:
        o = json.loads(ln)
        if o["k"] == "reset":
            if len(cur) >= 3:
                box = cur
                break
            cur = [o]
        elif o["k"] in ("boxnew", "boxenc") and cur:
            cur.append(o)
        else:
            cur = []
    if not box:
        raise core.Infra("self-test: no box history in the trace")
    box = json.loads(json.dumps(box))
    box[2]["hi"][1] += 1
    lines = good + bad + box
    d = ctx.scratch("selftest")
    tp = os.path.join(d, "trace.ndjson")
    core.write_ndjson(tp, lines)
    r = core.run_tlc(d, "TraceAlgebra", "TraceAlgebra.cfg", timeout=600, workers=1)
    if r.postcondition_failed or r.distinct != len(lines) + 1:
        raise core.Infra("self-test trace not fully consumed")
    rejected = {v["l"] for v in r.values if isinstance(v, dict) and "bad" in v}
    want = set(range(len(good) + 1, len(good) + len(bad) + 1)) | {len(good) + len(bad) + 3}
    if rejected != want:
        raise core.Infra("self-test: TLC rejected lines %s, expected %s" % (sorted(rejected), sorted(want)))
    ctx.extra["selftest_corrupted_lines_rejected"] = len(want)
    ctx.extra["selftest_clean_lines_accepted"] = len(good)


def run_family(ctx, prefix="C17"):
    vh = core.build_vh()
    cases, notes = collect_cases(ctx)
    findings, stats, raw = execute_and_judge(ctx, vh, cases)
    ctx.extra.update(notes)
    ctx.extra["exercised"] = stats
    kinds = {}
    for c in cases:
        kinds[c["k"]] = kinds.get(c["k"], 0) + 1
    ctx.extra["cases_by_kind"] = kinds
    missing = [p for p in REQUIRED if stats.get(p, 0) == 0]
    if missing:
        raise core.Infra("vacuous: predicates never exercised: %s" % missing)
    # generator coverage (anti-vacuity): every action of the walks was taken
    pc_false, dets, boxops = 0, {}, {}
    for ln in raw:
        if ln.startswith('{"k":"boxreal"'):
            pc_false += sum(1 for b in json.loads(ln)["pc"] if not b)
        elif ln.startswith('{"k":"mat1"'):
            dv = json.loads(ln)["det"]
            dets[dv] = dets.get(dv, 0) + 1
        elif ln.startswith('{"k":"box'):
            o = json.loads(ln)
            boxops[o["op"]] = boxops.get(o["op"], 0) + 1
    ctx.extra["determinants_seen"] = {str(k): dets[k] for k in sorted(dets)}
    ctx.extra["box_calls"] = boxops
    need_dets = [1, -1, 2, -2, 4, -4] if ctx.tier == "thorough" else [1, -1, 2, -2]
    if any(dv not in dets for dv in need_dets) or not any(dv not in (1, -1, 2, -2, 4, -4) for dv in dets):
        raise core.Infra("vacuous: matrix walk did not reach the determinants %s plus a general one (saw %s)" %
                         (need_dets, sorted(dets)))
    if any(boxops.get(op, 0) == 0 for op in ("New", "Empty", "FromPoints", "Point", "Bounds")):
        raise core.Infra("vacuous: box machine calls %s" % boxops)
    ctx.extra["real_boxes_encapsulated_point_not_Contained_bitwise"] = pc_false
    ctx.rule = ("cases: every edge of the cube rotation group graph (TLC BFS), every matrix of the row-operation "
                "walk to the depth bound + random walks (x unary/binary operations), all 256 basis-matrix pairs, "
                "all 676 ordered pairs of lattice directions, axis/angle rotations, TRS triples, mesh transforms, "
                "every box reachable within the depth bound, seeded real inputs per law; a case is distinct by "
                "its JSON, non-trivial if it is not the identity word / identity matrix pair")
    ctx.nontrivial = len({json.dumps(c, sort_keys=True) for c in cases
                          if not (c["k"] == "rot" and len(c["word"]) < 2)})
    for c in cases[:1] + cases[-1:]:
        ctx.sample(c)
    if ctx.tier == "thorough":
        self_test(ctx, raw)
    per_sig = {}
    for f in findings:
        if f["pred"].startswith("Harness."):
            raise core.Infra("harness inconsistency %s at case %d (%s)" % (f["pred"], f["id"], f["line"]["k"]))
        if not f["pred"].startswith(prefix + "."):
            continue
        case = cases[f["id"]]
        sig = signature(f["pred"], case)
        per_sig[sig] = per_sig.get(sig, 0) + 1
        if per_sig[sig] > 3:          # keep at most three replay files per signature
            continue
        what = "%s rejected a %s case: %s" % (f["pred"], case["k"], json.dumps(case)[:300])
        ctx.violation(sig, what, {"family": "alg", "case": case})
    ctx.extra["rejections_by_signature"] = per_sig
    ctx.assumptions += [
        "reals are judged on the 1/1024 lattice (exact tier) or through residuals*1e12 with relative band 1e-9 (seeded tier)",
        "quarter turns are built with quaternion.FromTheta(+-pi/2, axis); sin/cos of pi/4 are trusted to 1e-9",
        "TLC evaluates Algebra.tla correctly; the harness projection (harness/algfam) is faithful",
    ]


def replay_family(ctx, path, prefix="C17"):
    with open(path) as f:
        obj = json.load(f)
    case = obj["case"]["case"]
    vh = core.build_vh()
    findings, stats, raw = execute_and_judge(ctx, vh, [case], name="replay", nshards=1)
    for f in findings:
        print("replay: %s rejected the %s case" % (f["pred"], case["k"]))
        if f["pred"].startswith(prefix + "."):
            ctx.violation(signature(f["pred"], case), "replayed", obj["case"])
    ctx.rule = "replay of one recorded case"
    ctx.nontrivial = 1
    ctx.sample({"replayed": path})
