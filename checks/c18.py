from checks import surf


def run(ctx):
    surf.run_c18(ctx)


def replay(ctx, path):
    surf.replay_cases(ctx, "C18", path)
