"""X08: the command line of a polyform application as a state machine (CliApp.tla, CliGen.tla, TraceCli.tla)."""
import json
import os
import random
import shutil
import time
from concurrent.futures import ThreadPoolExecutor

from vlib import core


# --------------------------------------------------------------------------
# TLC generators
# --------------------------------------------------------------------------

def gen_cfg(path, progs, depth, mode):
    with open(path, "w") as f:
        f.write("CONSTANT Depth = %d\nCONSTANT Progs <- %s\n" % (depth, progs))
        if mode == "bfs":
            f.write("SPECIFICATION Spec\nINVARIANTS ClassTotal WritesSound SameDelivery ShapeOK EmitLeaf\n")
        elif mode == "sim":
            f.write("SPECIFICATION SimSpec\nINVARIANTS ShapeOK EmitLeaf\n")
        elif mode == "twice":
            f.write("SPECIFICATION TwiceSpec\nINVARIANTS ShapeOK EmitTwice\n")
        elif mode == "round":
            f.write("SPECIFICATION RoundSpec\nINVARIANTS ShapeOK EmitRound\n")
        elif mode == "again":
            f.write("SPECIFICATION AgainSpec\nINVARIANTS ShapeOK EmitRound\n")
        f.write("CHECK_DEADLOCK FALSE\n")


def uniq_cases(values):
    seen, out = set(), []
    for v in values:
        if not (isinstance(v, dict) and "invs" in v and "P" in v):
            continue
        s = json.dumps(v, sort_keys=True)
        if s not in seen:
            seen.add(s)
            out.append(v)
    out.sort(key=lambda c: json.dumps(c, sort_keys=True))
    return out


def prog_name(P):
    return "%s:%s" % (P["hdr"]["name"] or "none", "/".join(P["pn"][0]) if P["pn"] else "-") + (":" + "+".join(f for f in P["flag"] if f) if P["flag"] else "")


DESIGN = [("CliImplPinnedValue", "ValueLaw"), ("CliImplPinnedGenerate", "Atomic"), ("CliImplPinnedParse", "NothingDropped"),
          ("CliImplRepaired", None), ("CliImplRepairedOk", None)]

# quick-tier caps per program (BFS depth 1 generates every pool invocation; the quick tier runs a seeded sample)
CAPS = {"App1": 220, "App2": 400, "App3": 220, "App4": 150, "none": 100, "App5": 100}


def generate(ctx, quick, rnd):
    jobs = []   # (key, cfg kwargs, tlc kwargs, cap per program)
    # (1) BFS depth 1: every invocation of the pools on the initial sandbox, for ten programs
    for progs in ("ProgsBfsA", "ProgsBfsB"):
        jobs.append((("bfs", progs), dict(progs=progs, depth=1, mode="bfs"), dict(workers=1 if quick else 2, timeout=1800), CAPS if quick else None))
    # (2) the same place written twice / new --out and back
    jobs.append((("twice", "ProgsTwice"), dict(progs="ProgsTwice", depth=2, mode="twice"), dict(workers=2, timeout=1800),
                 {"*": 150} if quick else None))
    if not quick:
        jobs.append((("twice", "ProgsTwiceMore"), dict(progs="ProgsTwiceMore", depth=2, mode="twice"), dict(workers=2, timeout=1800), None))
    jobs.append((("round", "ProgEmpty1"), dict(progs="ProgEmpty1", depth=3, mode="round"), dict(workers=1, timeout=1800),
                 {"*": 100} if quick else None))
    again = "ProgSmall1" if quick else "ProgsTwice"
    jobs.append((("again", again), dict(progs=again, depth=3, mode="again"), dict(workers=1 if quick else 2, timeout=1800),
                 {"*": 60} if quick else None))
    # (3) random walks over all sixteen programs
    nsim, dsim, num = (2, 12, 36) if quick else (10, 16, 120)
    for k in range(nsim):
        jobs.append((("sim", k), dict(progs="ProgsAll", depth=dsim, mode="sim"),
                     dict(workers=1, timeout=1800, simulate="num=%d" % num, depth=dsim + 2, seed=ctx.seed * 100 + k), None))

    # (0) design level: the mechanisms as the code had them violate their law (counterexample), the repaired ones do not
    for cfg, inv in DESIGN:
        jobs.append((("design", cfg, inv), None, dict(workers=1, timeout=600), None))

    def one(job):
        key, cfg, kw, cap = job
        d = ctx.scratch("gen-" + "-".join(str(x) for x in key[:2]))
        if key[0] == "design":
            return key, core.run_tlc(d, "CliImpl", key[1] + ".cfg", **kw), cap
        gen_cfg(os.path.join(d, "X.cfg"), cfg["progs"], cfg["depth"], cfg["mode"])
        r = core.run_tlc(d, "CliGen", "X.cfg", files=[(os.path.join(d, "X.cfg"), "X.cfg")], **kw)
        return key, r, cap

    with ThreadPoolExecutor(max_workers=max(2, core.NCPU)) as ex:
        results = list(ex.map(one, jobs))
    cases = []
    for key, r, cap in results:
        if key[0] == "design":
            ok = (r.rc == 12 and r.violated == key[2]) if key[2] else r.rc == 0
            ctx.extra["design_" + key[1]] = ("violates " + key[2]) if key[2] else "holds"
            if not ok:
                raise core.Infra("CliImpl/%s: expected %s, got rc=%d violated=%s (the design model lost its teeth)" % (
                    key[1], ("a counterexample to " + key[2]) if key[2] else "no violation", r.rc, r.violated))
            if not key[2]:
                ctx.add_tlc(r)
            continue
        if r.rc != 0:
            raise core.Infra("CliGen %s violates its own invariant %s" % (key, r.violated))
        cs = uniq_cases(r.values)
        if key[0] != "sim":
            ctx.add_tlc(r)
        else:
            ctx.transitions += sum(len(c["invs"]) for c in cs)
        name = "_".join(str(x) for x in key)
        ctx.extra["gen_%s_generated" % name] = len(cs)
        if not cs:
            raise core.Infra("generator %s produced nothing (vacuous)" % (key,))
        groups = {}
        for c in cs:
            groups.setdefault(prog_name(c["P"]), []).append(c)
        kept = []
        for pname in sorted(groups):
            g = groups[pname]
            n = None if cap is None else cap.get(pname.split(":")[0], cap.get("*"))
            if n and (pname.endswith(":p1+p1") or pname.endswith(":folder+out")):
                n = 60      # programs whose flag names clash: every flag-parsing command is the same case
            if n and len(g) > n:
                rnd.shuffle(g)
                g = g[:n]
            for c in g:
                c["tag"] = "%s:%s" % (key[0], pname)
            if key[0] == "bfs":
                ctx.extra["bfs_%s" % pname] = "%d of %d" % (len(g), len(groups[pname]))
            kept += g
        ctx.extra["gen_%s" % name] = len(kept)
        cases += kept
    return cases


# --------------------------------------------------------------------------
# execution in sandboxes (parallel chunks) and judgement
# --------------------------------------------------------------------------

def execute(ctx, vh, cases, name):
    d = ctx.scratch(name)
    n = max(1, min(core.NCPU, (len(cases) + 19) // 20))
    size = (len(cases) + n - 1) // n
    chunks = [(i, cases[i:i + size]) for i in range(0, len(cases), size)]

    def one(ch):
        base, cs = ch
        cp = os.path.join(d, "c%06d.ndjson" % base)
        tp = os.path.join(d, "t%06d.ndjson" % base)
        wd = os.path.join(d, "w%06d" % base)
        core.write_ndjson(cp, cs)
        core.run_vh(vh, ["cli-exec", "-in", cp, "-out", tp, "-work", wd, "-base", str(base)], timeout=3000)
        with open(tp) as f:
            lines = f.readlines()
        os.remove(tp)
        os.remove(cp)
        shutil.rmtree(wd, ignore_errors=True)
        return lines

    with ThreadPoolExecutor(max_workers=n) as ex:
        parts = list(ex.map(one, chunks))
    return [ln for p in parts for ln in p]


def judge(ctx, raw, name, stats):
    res = core.validate_sharded(ctx, name, "TraceCli", "TraceCli.cfg", raw, timeout=3000, heap="4g")
    findings = []
    for sh, r in res:
        for v in r.values:
            if not isinstance(v, dict):
                continue
            if "stat" in v:
                if isinstance(v["stat"], dict):
                    for k, n in v["stat"].items():
                        stats[k] = stats.get(k, 0) + n
            elif "bad" in v:
                findings.append((json.loads(sh[v["l"] - 1]), v))
    ctx.evaluations += len(raw)
    return findings


def describe(ln):
    fs = ["%s%s" % (e["p"], "/" if e["k"] == "d" else "") for e in ln["fs"]]
    return "%s -> %s%s%s; App.Out %s (%d bytes), stdout %d bytes; sandbox afterwards: %s" % (
        " ".join(json.dumps(a) if (" " in a or a == "") else a for a in ln["argv"]), ln["res"],
        (" %d" % ln["code"]) if ln["res"] == "exit" else "", (" [" + ln["note"][:160].replace("\n", " | ") + "]") if ln["note"] else "",
        ln["oa"]["kind"], ln["oa"]["n"], ln["os"]["n"], " ".join(fs)[:400])


def report(ctx, cases, findings, seen_sigs):
    findings.sort(key=lambda x: (x[0]["h"], x[0]["i"]))
    for ln, v in findings:
        if "Route.Mismatch" in v["bad"]:
            raise core.Infra("trace line is not an invocation of the model (case %d invocation %d): %s" % (ln["h"], ln["i"], json.dumps(ln.get("inv"))))
        for p in v["bad"]:
            sig = "%s/%s/%s/%s" % (p, v["cmd"] or "none", v["why"], v["mg"])
            if v["class"] == "clash":      # one defect whatever the command: the flag set is built before anything else
                sig = "%s/%s" % (p, v["why"])
            seen_sigs[sig] = seen_sigs.get(sig, 0) + 1
            if seen_sigs[sig] > 1:
                continue
            c = cases[ln["h"]]
            ctx.violation(sig, "%s: a %s invocation (%s, application %s) of program %s: %s" % (
                p, v["class"], v["why"], v["mg"], c.get("tag"), describe(ln)),
                {"family": "xcli", "case": {"P": c["P"], "fix": c["fix"], "invs": c["invs"][:ln["i"] + 1], "tag": c.get("tag")}})


REQUIRED = [   # class/command/why prefixes that must have been exercised (vacuity guard)
    "ok/generate/", "ok/zip/", "ok/outline/", "ok/mermaid/", "ok/swagger/", "ok/help/", "ok/new/", "http/http/",
    "reject/generate/unknown-flag", "reject/generate/bad-value", "reject/generate/missing-value", "reject/generate/stray-argument",
    "reject/generate/blocked-target", "reject/zip/blocked-target", "reject/zip/unknown-flag", "reject/outline/unknown-flag",
    "reject/outline/stray-argument", "reject/new/unknown-flag", "reject/mermaid/blocked-target", "reject/swagger/blocked-target",
    "reject/generate/missing-graph", "reject/generate/graph-is-dir", "reject/generate/garbage-graph", "reject/help/missing-graph",
    "reject/bogus/unknown-command", "reject/documentation/unknown-command", "helpflag/generate/", "helpflag/zip/",
    "uneval/generate/", "uneval/zip/", "clash/generate/", "clash/zip/",
]


def run(ctx):
    quick = ctx.tier == "quick"
    rnd = random.Random(ctx.seed)
    phases = {}
    t0 = time.time()
    vh = core.build_vh()
    phases["build"] = round(time.time() - t0, 1)
    t0 = time.time()
    cases = generate(ctx, quick, rnd)
    phases["generate"] = round(time.time() - t0, 1)
    t0 = time.time()
    raw = execute(ctx, vh, cases, "exec")
    phases["execute"] = round(time.time() - t0, 1)
    t0 = time.time()
    stats, seen = {}, {}
    findings = judge(ctx, raw, "judge", stats)
    report(ctx, cases, findings, seen)
    phases["judge"] = round(time.time() - t0, 1)
    ninv = sum(len(c["invs"]) for c in cases)
    repeated = {k[1:]: stats.pop(k) for k in list(stats) if k.startswith("@")}
    if sum(stats.values()) != ninv:
        raise core.Infra("judged %d invocation lines for %d generated invocations" % (sum(stats.values()), ninv))
    ctx.extra["repeated_read_only_invocations_compared"] = repeated
    if sum(repeated.values()) == 0:
        raise core.Infra("no read-only invocation was run twice in one history (X08.Repeatable vacuous)")
    ctx.traces += len(cases)
    ctx.extra["invocations_judged"] = ninv
    ctx.extra["invocations_by_class"] = {c: sum(n for k, n in stats.items() if k.startswith(c + "/"))
                                         for c in sorted({k.split("/")[0] for k in stats})}
    ctx.extra["distinct_class_cmd_why"] = len(stats)
    missing = [p for p in REQUIRED if not any(k.startswith(p) for k in stats)]
    if missing:
        raise core.Infra("invocation classes never exercised (vacuous): %s" % missing)
    ctx.extra["rejections_by_signature"] = dict(sorted(seen.items()))
    ctx.extra["phase_wall_s"] = phases
    if ctx.tier == "thorough":
        selftest(ctx, vh, cases)
    ctx.nontrivial = len({json.dumps([c["P"], c["invs"]], sort_keys=True) for c in cases})
    ctx.rule = ("cases = TLC BFS of CliGen (every invocation of the path / parameter-flag / junk / argument / new / http pools on "
                "the initial sandbox, per program), two writers into the same place, new --out and back, class-weighted random "
                "walks over 16 programs; each invocation runs generator.App.Run in a child process inside a sandbox directory; "
                "outcome, App.Out, stdout and the whole tree after every invocation are judged by TraceCli; distinct by program "
                "+ invocation list")
    for tag in ("bfs:App2", "twice:App1", "sim:"):
        for c in cases:
            if c["tag"].startswith(tag):
                ctx.sample({"tag": tag, "argv": [[i["gfa"], i["cmd"]] + [(t["n"], t["form"], t["v"]) for t in i["toks"]] for i in c["invs"][:4]]})
                break
    ctx.assumptions += [
        "the projection of documents (outline, swagger, mermaid, help, new) and of archive entries in harness/clifam/project.go is faithful",
        "`edit` (starts a server) is not run; parameter kinds without a CLI form (vectors, colours, boxes, files, images) carry no flag",
        "the checks run as root: a directory of mode 000 is judged by its permission bits, not by failing to enter it",
    ]


def selftest(ctx, vh, cases):
    """Corrupt one observed field of an accepted trace; TLC must reject exactly that line."""
    pick = [c for c in cases if c["tag"].startswith("sim")][:6]
    raw = execute(ctx, vh, pick, "selftest-exec")
    rows = [json.loads(x) for x in raw]

    def last(pred):
        ks = [i for i, r in enumerate(rows) if r["k"] == "inv" and pred(r)]
        if not ks:
            raise core.Infra("self-test: no suitable line")
        return ks[-1]

    def fresh_texts(i):
        """text files of line i that the line before did not have: written by this invocation"""
        before = {e["p"] for e in rows[i - 1]["fs"]}
        return [e for e in rows[i]["fs"] if e["d"]["kind"] == "text" and e["p"] not in before]

    k1 = last(lambda r: r["res"] == "ok" and r["inv"]["cmd"] in ("generate", "gen") and fresh_texts(rows.index(r)))
    fresh_texts(k1)[0]["d"]["t"] += "x"
    k2 = last(lambda r: r["res"] == "exit" and r["code"] == 2)
    rows[k2]["res"], rows[k2]["code"] = "ok", 0
    want = {k1: "X08.Files", k2: "X08.Rejects"}
    d = ctx.scratch("selftest")
    tp = os.path.join(d, "trace.ndjson")
    core.write_ndjson(tp, rows)
    r = core.run_tlc(os.path.join(d, "v"), "TraceCli", "TraceCli.cfg", files=[(tp, "trace.ndjson")], timeout=900)
    got = {v["l"] - 1: set(v["bad"]) for v in r.values if isinstance(v, dict) and "bad" in v}
    for k, p in want.items():
        if p not in got.get(k, set()):
            raise core.Infra("self-test: corrupted field at line %d was not rejected with %s (got %s)" % (k, p, got.get(k)))
    ctx.extra["selftest_corruptions_rejected"] = len(want)


def replay(ctx, path):
    obj = json.load(open(path))["case"]
    vh = core.build_vh()
    cases = [obj["case"]]
    raw = execute(ctx, vh, cases, "replay")
    stats, seen = {}, {}
    findings = judge(ctx, raw, "replay-judge", stats)
    for ln, v in findings:
        print("replay:", v["bad"], "at invocation", ln.get("i"), v.get("why"), describe(ln))
    report(ctx, cases, findings, seen)
    ctx.traces += 1
    ctx.rule = "replay"
    ctx.nontrivial = 1
    ctx.sample({"replayed": path})
