"""X01 (extra coverage): the concurrent maps of generator/sync.

Sequential contract of NestedSyncMap / SyncMap (SyncTree.tla) replayed on the real types and
judged after every step (TraceSyncMap.tla); linearizability of concurrent histories of the bare
map and of the metadata paths of a real generator.App (TraceSyncLin.tla); design-level checks on
SyncMap / SyncHeap / SyncSave; the Go race detector as auxiliary observer.
"""
import json
import os
import random
import re

from vlib import core

SEQ_OPS = ["set", "del", "get", "exists", "data", "over", "hset", "hdel", "fset", "fget"]
# every one of these situations must have been judged at least once (anti-vacuity)
SEQ_REQUIRED = SEQ_OPS + ["panic:set", "panic:get", "panic:del", "exists:true", "exists:false-last-absent",
                          "snapshot:map-changed-under-live-handle", "isolated:client-write-judged",
                          "set:creates-parents", "set:replaces-subtree", "del:subtree", "del:absent",
                          "probe:exists", "probe:absent-leaf", "probe:get-panics", "probe:get-map"]


MAX_REPLAYS_PER_SIGNATURE = 3


def violation(ctx, sig, what, obj):
    """ctx.violation writes one replay file per call: keep a few per signature (a broken tree yields thousands)."""
    seen = ctx.__dict__.setdefault("_x01_seen", {})
    seen[sig] = seen.get(sig, 0) + 1
    if seen[sig] <= MAX_REPLAYS_PER_SIGNATURE:
        ctx.violation(sig, what, obj)


def tla_set(xs):
    return "{" + ",".join('"%s"' % x for x in xs) + "}"


def map_cfg(path, nk, maxlen, depth, nh, ops, rich, mode):
    with open(path, "w") as f:
        f.write("CONSTANTS NK = %d MaxLen = %d Depth = %d NH = %d Rich = %s\n  Ops = %s\n" %
                (nk, maxlen, depth, nh, "TRUE" if rich else "FALSE", tla_set(ops)))
        if mode == "state":      # one history per distinct state, laws and frames checked
            f.write("SPECIFICATION Spec\nINVARIANTS WFInv Laws Emit\nPROPERTY Frames\nVIEW ViewState\n")
        elif mode == "hist":     # every history up to Depth
            f.write("SPECIFICATION Spec\nINVARIANTS WFInv Emit\nPROPERTY Frames\nVIEW ViewHist\n")
        elif mode == "sim":
            f.write("SPECIFICATION Spec\nINVARIANTS WFInv EmitLeaf\n")
        elif mode == "heap-copy":
            f.write("CONSTANT CopyOut = TRUE\nSPECIFICATION HSpec\nINVARIANTS Refines Isolated\nVIEW HView\n")
        elif mode == "heap-lent":
            f.write("CONSTANT CopyOut = TRUE\nSPECIFICATION HSpec\nINVARIANTS Isolated\nVIEW HView\n")
        elif mode == "heap-alias":
            f.write("CONSTANT CopyOut = FALSE\nSPECIFICATION HSpec\nINVARIANTS EmitRisky\nCONSTRAINT WhileRefines\nVIEW HView\n")
        f.write("CHECK_DEADLOCK FALSE\n")


def save_cfg(path, kind, nw, copy, maxw, maxr, schedlen, nwops, mode):
    with open(path, "w") as f:
        f.write('CONSTANTS NW = %d CopyOut = %s MaxW = %d MaxR = %d SchedLen = %d Kind = "%s" NWOps = %d\nSPECIFICATION Spec\n' %
                (nw, "TRUE" if copy else "FALSE", maxw, maxr, schedlen, kind, nwops))
        if mode == "verify":
            f.write("INVARIANTS Atomic Isolated\nVIEW View\n")
        elif mode == "verify-emit":
            f.write("INVARIANTS Atomic Isolated EmitSched\n")
        elif mode == "attack":
            f.write("INVARIANTS EmitTorn\nCONSTRAINT StopWhenTorn\n")
        f.write("CHECK_DEADLOCK FALSE\n")


def tlc(ctx, d, module, cfgname, writer, *a, **kw):
    p = os.path.join(d, cfgname)
    writer(p, *a)
    workers = 1 if kw.get("simulate") else min(core.NCPU, 8)
    return core.run_tlc(d, module, cfgname, files=[(p, cfgname)], workers=workers, timeout=1500, **kw)


def drop_prefixes(hists):
    ser = [tuple(json.dumps(s, sort_keys=True) for s in h["steps"]) for h in hists]
    full = set(ser)
    prefixes = set()
    for s in full:
        for k in range(1, len(s)):
            prefixes.add(s[:k])
    out, seen = [], set()
    for h, s in zip(hists, ser):
        if s in prefixes or s in seen:
            continue
        seen.add(s)
        out.append(h)
    return out


# --------------------------------------------------------------------------
# sequential part
# --------------------------------------------------------------------------

def collect_histories(ctx, vh):
    quick = ctx.tier == "quick"
    rnd = random.Random(ctx.seed)
    hists, notes = [], {}
    d = ctx.scratch("gen")
    tree_ops = ["set", "del", "get", "exists", "data", "over", "hset", "hdel"]

    # (1) contract machine, one history per distinct state; WFInv, Laws, Frames checked on the way
    depth = 3 if quick else 4
    r = tlc(ctx, d, "SyncMap", "State.cfg", map_cfg, 2, 2, depth, 1 if quick else 2, tree_ops, False, "state")
    if r.rc != 0:
        raise core.Infra("SyncMap violates its own property %s (spec bug)" % r.violated)
    ctx.add_tlc(r)
    bfs = drop_prefixes([v for v in r.values if isinstance(v, dict) and "steps" in v])
    notes["l1_states_depth%d" % depth] = r.distinct
    if quick:
        rnd.shuffle(bfs)
        bfs = bfs[:900]
    for h in bfs:
        h.update(tag="bfs-state", nh=2, sweep=3)
    notes["bfs_state_histories"] = len(bfs)
    hists += bfs

    # (2) every history of length <= 2 over the full operation alphabet (all pairs state x operation)
    r = tlc(ctx, d, "SyncMap", "Hist.cfg", map_cfg, 2, 2, 2, 1, SEQ_OPS, False, "hist")
    if r.rc != 0:
        raise core.Infra("SyncMap violates its own property %s (spec bug)" % r.violated)
    ctx.add_tlc(r)
    pairs = drop_prefixes([v for v in r.values if isinstance(v, dict) and "steps" in v])
    notes["all_histories_len2"] = len(pairs)
    if quick:
        rnd.shuffle(pairs)
        pairs = pairs[:1200]
    for h in pairs:
        h.update(tag="bfs-pairs", nh=1, sweep=2)
    hists += pairs

    # (3) deeper laws on longer paths (thorough): MaxLen 3
    if not quick:
        r = tlc(ctx, d, "SyncMap", "Deep.cfg", map_cfg, 2, 3, 3, 1, ["set", "del", "over", "data"], True, "state")
        if r.rc != 0:
            raise core.Infra("SyncMap (paths of length 3) violates %s (spec bug)" % r.violated)
        ctx.add_tlc(r)
        deep = drop_prefixes([v for v in r.values if isinstance(v, dict) and "steps" in v])
        notes["l1_states_len3"] = r.distinct
        rnd.shuffle(deep)
        deep = deep[:6000]
        for h in deep:
            h.update(tag="bfs-deep", nh=1, sweep=3)
        hists += deep

    # (4) implementation-shaped heap model: the copying design refines the contract; the aliasing
    #     design (sync.go as found) does not - its shortest refuting histories are replayed
    hd = 3
    r = tlc(ctx, d, "SyncHeap", "HeapCopy.cfg", map_cfg, 2, 2, hd, 1, ["set", "del", "get", "data", "over", "hset", "hdel"], False, "heap-copy")
    ctx.add_tlc(r)
    if r.rc != 0:
        raise core.Infra("SyncHeap with CopyOut violates %s: L2 model bug" % r.violated)
    notes["heap_copyout_states"] = r.distinct
    r = tlc(ctx, d, "SyncHeap", "HeapAlias.cfg", map_cfg, 2, 2, hd, 1, ["set", "del", "get", "data", "over", "hset", "hdel"], False, "heap-alias")
    ctx.add_tlc(r)
    risky = [v for v in r.values if isinstance(v, dict) and v.get("risky")]
    notes["heap_alias_refuting_histories"] = len(risky)
    if not risky:
        raise core.Infra("aliasing heap model produced no refuting history: generator lost its teeth")
    # the stated NON-guarantee: a caller that keeps the map it passed to OverwriteData shares it with the map
    r = tlc(ctx, d, "SyncHeap", "HeapLent.cfg", map_cfg, 2, 1, 2, 1, ["set", "overk", "hset"], False, "heap-lent")
    ctx.add_tlc(r)
    if r.violated != "Isolated":
        raise core.Infra("SyncHeap no longer shows that OverwriteData adopts its argument (expected a counterexample to Isolated)")
    notes["adoption_counterexample_found"] = True
    risky = sorted(risky, key=lambda v: json.dumps(v, sort_keys=True))
    if quick:
        rnd.shuffle(risky)
        risky = risky[:400]
    for h in risky:
        h.pop("risky", None)
        h.update(tag="risky", nh=1, sweep=2)
    hists += risky

    # (5) random walks of the contract machine over a larger alphabet
    # (TLC simulates with one worker: several processes with different seeds run side by side)
    from concurrent.futures import ThreadPoolExecutor
    parts = 2 if quick else min(core.NCPU, 8)
    per = 20 if quick else 250

    def one_sim(k):
        ds = ctx.scratch("sim%d" % k)
        return tlc(ctx, ds, "SyncMap", "Sim.cfg", map_cfg, 3, 3, 14, 2, SEQ_OPS + ["close"], True, "sim",
                   simulate="num=%d" % per, depth=16, seed=ctx.seed * 100 + k)
    with ThreadPoolExecutor(max_workers=parts) as ex:
        rs = list(ex.map(one_sim, range(parts)))
    sim = {}
    for r in rs:
        if r.rc != 0:
            raise core.Infra("SyncMap violates %s in simulation" % r.violated)
        for v in r.values:
            if isinstance(v, dict) and "steps" in v:
                sim[json.dumps(v["steps"], sort_keys=True)] = v
    sim = [sim[k] for k in sorted(sim)]
    ctx.transitions += sum(len(h["steps"]) for h in sim)
    for h in sim:
        h.update(tag="sim", nh=2, sweep=2)
    notes["sim_histories"] = len(sim)
    hists += sim

    # (6) seeded random histories from the harness (other key tables: "", "nodes", non-ASCII; 3 handles)
    dr = ctx.scratch("rnd")
    n, steps = (60, 40) if quick else (600, 60)
    core.run_vh(vh, ["xsync-random", "-out", os.path.join(dr, "h.ndjson"), "-seed", str(ctx.seed), "-n", str(n), "-steps", str(steps)])
    rn = core.read_ndjson(os.path.join(dr, "h.ndjson"))
    notes["random_histories"] = len(rn)
    hists += rn
    return hists, notes


def execute_seq(ctx, vh, hists, name="seq"):
    d = ctx.scratch(name + "-exec")
    hp = os.path.join(d, "hist.ndjson")
    core.write_ndjson(hp, hists)
    tp = os.path.join(d, "trace.ndjson")
    core.run_vh(vh, ["xsync-exec", "-in", hp, "-out", tp], timeout=1800)
    raw = open(tp).readlines()
    results = core.validate_sharded(ctx, name, "TraceSyncMap", "TraceSyncMap.cfg", raw, timeout=3000)
    judged = ctx.extra.setdefault("situations_judged", {})
    findings = []
    for sh, r in results:
        for v in r.values:
            if isinstance(v, dict) and "judged" in v:
                for k, n in v["judged"].items():
                    judged[k] = judged.get(k, 0) + n
            if not (isinstance(v, dict) and "bad" in v):
                continue
            ln = json.loads(sh[v["l"] - 1])
            for pred in v["bad"]:
                findings.append({"pred": pred, "site": ln["step"]["op"] if ln["k"] == "step" else "new", "h": ln["h"], "i": ln["i"],
                                 "res": ln["res"], "exp": v.get("exp")})
            for pred in v.get("pbad", []):
                findings.append({"pred": pred, "site": "sweep", "h": ln["h"], "i": ln["i"], "res": ln["res"], "exp": None})
    ctx.traces += len(hists)
    ctx.evaluations += len(raw)
    return findings


def report_seq(ctx, hists, findings):
    for f in findings:
        if f["pred"].startswith("Harness."):
            raise core.Infra("harness inconsistency %s at history %d step %d" % (f["pred"], f["h"], f["i"]))
        h = hists[f["h"]]
        sig = "%s/%s" % (f["pred"], f["site"])
        what = "%s rejected step %d of a %s history (%s); answered %s" % (
            f["pred"], f["i"], h.get("tag"), json.dumps(h["steps"][f["i"]]) if h["steps"] else "new map", json.dumps(f["res"]))
        hh = dict(h)
        hh["steps"] = h["steps"][:f["i"] + 1]
        violation(ctx, sig, what, {"family": "syncseq", "history": hh, "expected": f["exp"]})


# --------------------------------------------------------------------------
# concurrent part
# --------------------------------------------------------------------------

def blank_line(k, h):
    return {"k": k, "seq": 0, "h": h, "c": 0, "op": "none", "p": [], "val": {"v": -1, "sub": []},
            "res": {"st": "ok", "v": 0, "sub": []}, "init": [], "nc": 0}


def run_conc(ctx, binary, cases, name, race_log=None):
    """Execute cases; a process killed by a Go fatal error loses only the case that caused it
    (recorded as a history with a 'crash' line). Returns (bad histories, rows by case)."""
    d = ctx.scratch(name)
    env = {}
    if race_log:
        env["GORACE"] = "halt_on_error=0 exitcode=0 log_path=%s" % race_log
    rows_by_case = []
    crashes = 0
    pos = 0
    while pos < len(cases):
        cp = os.path.join(d, "cases-%d.ndjson" % pos)
        tp = os.path.join(d, "trace-%d.ndjson" % pos)
        core.write_ndjson(cp, cases[pos:])
        p = core.run_vh(binary, ["xsync-conc", "-in", cp, "-out", tp], timeout=1800, env_extra=env, check=False)
        rows = core.read_ndjson(tp) if os.path.exists(tp) else []
        done = []
        for r in rows:
            if r["k"] == "reset":
                done.append([])
            done[-1].append(r)
        rows_by_case += done
        pos += len(done)
        if p.returncode != 0:
            if "fatal error" not in p.stderr and "concurrent map" not in p.stderr:
                raise core.Infra("vh xsync-conc failed (%d):\n%s" % (p.returncode, p.stderr[-3000:]))
            crashes += 1
            core.log("[x01] harness process died in case %d: %s" % (pos, p.stderr.strip().splitlines()[0][:200]))
            rows_by_case.append([blank_line("reset", 0), dict(blank_line("crash", 0), op=p.stderr.strip().splitlines()[0][:120])])
            pos += 1
            if crashes > 20:
                break
    raw = []
    for i, rs in enumerate(rows_by_case):
        for r in rs:
            r["h"] = i
            raw.append(json.dumps(r, separators=(",", ":")) + "\n")
    res = core.validate_sharded(ctx, name, "TraceSyncLin", "TraceSyncLin.cfg", raw, timeout=1800, check_consumed=False, heap="4g")
    bad = []
    for sh, r in res:
        hs = [json.loads(ln)["h"] for ln in sh if ln.startswith('{"k":"reset"')]
        for v in r.values:
            if isinstance(v, dict) and "bad" in v:
                # far = last line some clean path consumed; the next line of the history is the one nothing explains
                h = hs[v["h"] - 1]
                nxt = json.loads(sh[v["far"]]) if 0 < v["far"] < len(sh) else None
                if v["far"] == 0:     # nothing consumed: the line after the reset
                    k = [i for i, ln in enumerate(sh) if ln.startswith('{"k":"reset"') and json.loads(ln)["h"] == h][0]
                    nxt = json.loads(sh[k + 1]) if k + 1 < len(sh) else None
                stuck = nxt if nxt is not None and nxt["h"] == h and nxt["k"] != "reset" else None
                bad.append((h, stuck))
    ctx.traces += len(rows_by_case)
    ctx.evaluations += len(raw)
    return sorted(bad, key=lambda b: b[0]), rows_by_case


def overlap_stats(rows_by_case):
    """reads of a whole map (data/save/getm/schema answering a map) during which a write completed"""
    n = 0
    for rs in rows_by_case:
        open_reads = {}
        hit = set()
        for r in rs:
            if r["k"] == "inv" and r["op"] in ("data", "save", "getm", "schema"):
                open_reads[r["c"]] = r["seq"]
            elif r["k"] == "resp" and r["op"] in ("set", "del", "over") and r["res"]["st"] == "ok":
                hit |= set(open_reads)
            elif r["k"] == "resp" and r["c"] in open_reads:
                if r["c"] in hit and r["res"]["v"] == 0 and r["res"]["st"] == "ok":
                    n += 1
                open_reads.pop(r["c"])
                hit.discard(r["c"])
    return n


def report_conc(ctx, cases, bad, rows_by_case):
    for h, stuck in bad:
        c = cases[h]
        lines = rows_by_case[h]
        hang = any(l["k"] == "hang" for l in lines)
        crash = any(l["k"] == "crash" for l in lines)
        pred = "X01.Hang" if hang else ("X01.Crash" if crash else "X01.Linearizable")
        # the operation whose answer no linearization explains (for a crash: the operation mix of the case)
        site = stuck["op"] if stuck is not None and stuck["k"] == "resp" else "+".join(sorted({o["op"] for p in c["progs"] for o in p}))
        if crash:
            site = "reader+writer"
        sig = "%s/%s/%s" % (pred, c["kind"], site)
        violation(ctx, sig, "%s: no linearization of a %s history on kind %s (answer not explained: %s): %s" % (
            pred, c.get("tag"), c["kind"], json.dumps(stuck["res"]) if stuck else "-",
            [(l["k"], l["c"], l["op"], l["p"], l["res"]["st"], l["res"]["v"], [(e["p"], e["v"]) for e in l["res"]["sub"]])
             for l in lines if l["k"] != "reset"][:10]),
            {"family": "syncconc", "case": c})


_FRAME = re.compile(r"^\s+(\S+)\(\)\s*$")


def race_reports(prefix):
    """Go race detector logs -> [(signature, text)] for reports with a polyform frame."""
    out = []
    d = os.path.dirname(prefix)
    for f in sorted(os.listdir(d)):
        if not f.startswith(os.path.basename(prefix)):
            continue
        txt = open(os.path.join(d, f), errors="replace").read()
        for blk in txt.split("WARNING: DATA RACE")[1:]:
            parts = re.split(r"^(?:Write|Read|Previous write|Previous read) at .*$", blk, flags=re.M)[1:3]
            tops = []
            for part in parts:
                top = None
                for ln in part.splitlines():
                    if ln.startswith("Goroutine "):
                        break
                    m = _FRAME.match(ln)
                    if m and "EliCDavis/polyform/" in m.group(1):
                        top = m.group(1).split("polyform/")[-1]
                        break
                tops.append(top)
            poly = sorted(t for t in tops if t)
            if not poly:
                # no polyform frame on top of either stack: memory that reached a reader without synchronisation.
                # The harness synchronises all of its own shared state, so this is memory of a map polyform handed
                # out (keys / values written by another client's Set and read by the caller that serialises the map).
                if any(f in blk for f in ("encoding/json.", "syncfam.Keys.project")):
                    out.append(("X01.RaceFree/memory-of-a-handed-out-map", blk[:1800]))
                    continue
                raise core.Infra("data race report without a polyform frame:\n" + blk[:1500])
            other = "caller-serialising-a-handed-out-map" if len(poly) == 1 else poly[1]
            out.append(("X01.RaceFree/%s+%s" % (poly[0], other), blk[:1800]))
    return out


def conc_cases(ctx):
    """Design-level checks of SyncSave and the directed cases it generates."""
    quick = ctx.tier == "quick"
    rnd = random.Random(ctx.seed * 7 + 1)
    d = ctx.scratch("save-model")
    cases = []
    for kind in ("map", "app"):
        # with copies handed out every read is atomic and isolated
        for nw, maxw, sl, nwops in ([(1, 3, 7, 5)] if quick else [(1, 4, 9, 7), (2, 2, 8, 5)]):
            r = tlc(ctx, d, "SyncSave", "V.cfg", save_cfg, kind, nw, True, maxw, 2, sl, nwops, "verify")
            ctx.add_tlc(r)
            if r.rc != 0:
                raise core.Infra("SyncSave(%s) with CopyOut violates %s (model bug)" % (kind, r.violated))
            ctx.extra["save_model_copyout_states_%s_nw%d" % (kind, nw)] = r.distinct
        # the aliasing design: attack schedules (torn reads)
        for nw, maxw, sl, nwops in ([(1, 3, 7 if kind == "map" else 8, 5)] if quick else [(1, 3, 9, 7), (2, 2, 8, 4)]):
            r = tlc(ctx, d, "SyncSave", "A.cfg", save_cfg, kind, nw, False, maxw, 1, sl, nwops, "attack")
            ctx.add_tlc(r)
            att = {json.dumps(v, sort_keys=True): v for v in r.values if isinstance(v, dict) and "sched" in v}
            att = [att[k] for k in sorted(att)]
            ctx.extra["attack_schedules_%s_nw%d" % (kind, nw)] = len(att)
            if not att:
                raise core.Infra("aliasing SyncSave(%s) produced no torn schedule: generator lost its teeth" % kind)
            rnd.shuffle(att)
            att = att[:300 if quick else 4000]
            cases += [dict(kind=kind, init=v["init"], progs=v["progs"], sched=v["sched"], mode="directed", proj="now",
                           seed=ctx.seed, tag="attack") for v in att]
        # ordinary behaviours of the copying design
        r = tlc(ctx, d, "SyncSave", "E.cfg", save_cfg, kind, 1, True, 2, 2, 6, 5, "verify-emit")
        ctx.add_tlc(r)
        if r.rc != 0:
            raise core.Infra("SyncSave(%s) with CopyOut violates %s (model bug)" % (kind, r.violated))
        sch = {json.dumps(v, sort_keys=True): v for v in r.values if isinstance(v, dict) and "sched" in v}
        sch = [sch[k] for k in sorted(sch)]
        rnd.shuffle(sch)
        sch = sch[:150 if quick else 2500]
        cases += [dict(kind=kind, init=v["init"], progs=v["progs"], sched=v["sched"], mode="directed", proj="now",
                       seed=ctx.seed, tag="sched") for v in sch]
    return cases


def stress_cases(ctx, vh):
    quick = ctx.tier == "quick"
    d = ctx.scratch("stress-gen")
    out = []
    # (kind, serialise handed-out maps now/late, cases, max clients, ops per client); one client = a sequential
    # history of the application paths (SetMetadata / DeleteMetadata / App.Schema / Instance.Schema)
    plan = [("map", "now", 120 if quick else 1500, 4, 4 if quick else 5), ("map", "late", 60 if quick else 700, 4, 4 if quick else 5),
            ("app", "now", 60 if quick else 700, 4, 4 if quick else 5), ("app", "now", 40 if quick else 500, 1, 10)]
    for i, (kind, proj, n, clients, ops) in enumerate(plan):
        p = os.path.join(d, "c%d.ndjson" % i)
        core.run_vh(vh, ["xsync-stress", "-out", p, "-seed", str(ctx.seed * 10 + i), "-n", str(n), "-kind", kind,
                         "-clients", str(clients), "-ops", str(ops), "-proj", proj])
        cs = core.read_ndjson(p)
        if clients == 1:
            for c in cs:
                c["tag"] = "app-sequential"
        out += cs
    return out


def run(ctx):
    quick = ctx.tier == "quick"
    vh = core.build_vh()
    vhr = core.build_vh(race=True)

    # ---- sequential contract --------------------------------------------------------------
    hists, notes = collect_histories(ctx, vh)
    findings = execute_seq(ctx, vh, hists)
    ctx.extra.update(notes)
    report_seq(ctx, hists, findings)
    judged = ctx.extra.get("situations_judged", {})
    missing = [k for k in SEQ_REQUIRED if judged.get(k, 0) == 0]
    ctx.extra["situations_never_judged"] = missing
    if missing:
        raise core.Infra("situations never judged (vacuous): %s" % missing)

    # ---- concurrent histories ---------------------------------------------------------------
    directed = conc_cases(ctx)
    ctx.extra["directed_cases"] = len(directed)
    bad, rows = run_conc(ctx, vh, directed, "directed")
    report_conc(ctx, directed, bad, rows)
    att_rows = [rs for c, rs in zip(directed, rows) if c["tag"] == "attack"]
    realised = overlap_stats(att_rows)
    ctx.extra["attack_schedules_realised_on_real_goroutines"] = realised
    if realised < len(att_rows) // 2:
        raise core.Infra("only %d of %d attack schedules were realised: the gates do not control the real goroutines" % (realised, len(att_rows)))

    st = stress_cases(ctx, vh)
    ctx.extra["stress_cases"] = len(st)
    bad, rows_s = run_conc(ctx, vh, st, "stress")
    report_conc(ctx, st, bad, rows_s)
    racelog = os.path.join(ctx.scratch("race"), "race")
    sample = st[:: 2 if quick else 3] + directed[:: max(1, len(directed) // (80 if quick else 600))]
    bad, rows_r = run_conc(ctx, vhr, sample, "race", race_log=racelog)
    report_conc(ctx, sample, bad, rows_r)
    ctx.extra["reads_overlapped_by_a_completed_write"] = overlap_stats(rows) + overlap_stats(rows_s) + overlap_stats(rows_r)
    races = race_reports(racelog)
    ctx.extra["race_reports_in_polyform"] = len(races)
    ctx.extra["violations_by_signature"] = dict(ctx.__dict__.get("_x01_seen", {}))
    for sig, txt in races:
        violation(ctx, sig, "Go race detector report involving polyform", {"family": "syncconc", "race": txt})

    if not quick:
        selftest(ctx, vh, hists, directed)

    allc = directed + st
    ctx.nontrivial = (len({json.dumps(h["steps"], sort_keys=True) for h in hists if len(h["steps"]) >= 2}) +
                      len({json.dumps([c["kind"], c["progs"], c["sched"]], sort_keys=True) for c in allc
                           if sum(len(p) for p in c["progs"]) >= 2}))
    ctx.rule = ("sequential cases = operation histories: TLC BFS of SyncMap (one per distinct state; every history of length <= 2), "
                "refuting histories of the aliasing heap model SyncHeap, TLC -simulate walks, seeded random histories; "
                "concurrent cases = (programs, schedule) pairs of SyncSave (torn-read attack schedules of the aliasing model, "
                "behaviours of the copying model) imposed on real goroutines through gate leaves, plus seeded free-running stress "
                "cases (bare map and generator.App); distinct by step list / (kind, programs, schedule); non-trivial = at least two operations")
    ctx.sample({"tag": hists[0].get("tag"), "steps": hists[0]["steps"][:6]})
    ctx.sample({"tag": directed[0]["tag"], "kind": directed[0]["kind"], "progs": directed[0]["progs"], "sched": directed[0]["sched"]})
    ctx.sample({"tag": "stress", "kind": st[-1]["kind"], "progs": st[-1]["progs"]})
    ctx.assumptions += [
        "the tree is observed through Data()/Get()/PathExists() and plain Go map reads of handed-out values; keys are projected through the harness' id table",
        "a map passed to Set/OverwriteData is built fresh for the call and dropped by the caller (ownership transfer: what every caller in polyform does); retaining it is outside the contract",
        "[]any values are opaque leaves: the map never writes a slice in place",
        "data-race clause decided by the Go race detector on the executed schedules (auxiliary observer, not TLA+)",
        "invoke/response order taken from one counter under a mutex in the client goroutines",
        "a client that does not reach its next gate within 250 ms is treated as blocked (affects only which schedule is realised, never the verdict)",
    ]


def selftest(ctx, vh, hists, directed):
    """Demonstrate the binding: corrupt logged fields of accepted traces; TLC must reject exactly those."""
    d = ctx.scratch("selftest")
    # (a) sequential: one tree entry of a step, and one handle that 'moved'
    pick = [h for h in hists if len(h["steps"]) >= 3 and h["steps"][0]["op"] == "set" and h["steps"][1]["op"] == "data"
            and h["steps"][2]["op"] == "set"][:1]
    if not pick:
        pick = [{"nk": 2, "nh": 1, "sweep": 2, "steps": [
            {"op": "set", "p": [1], "val": {"v": 1, "sub": []}, "h": 0},
            {"op": "data", "p": [], "val": {"v": -1, "sub": []}, "h": 1},
            {"op": "set", "p": [2], "val": {"v": 1, "sub": []}, "h": 0}]}]
    hp, tp = os.path.join(d, "hist.ndjson"), os.path.join(d, "trace.ndjson")
    core.write_ndjson(hp, pick)
    core.run_vh(vh, ["xsync-exec", "-in", hp, "-out", tp])
    rows = core.read_ndjson(tp)
    r0 = core.run_tlc(os.path.join(d, "v0"), "TraceSyncMap", "TraceSyncMap.cfg", files=[(tp, "trace.ndjson")], timeout=600)
    if any(isinstance(v, dict) and "bad" in v for v in r0.values):
        raise core.Infra("self-test: the uncorrupted trace is not accepted")
    rows[1]["tree"][0]["v"] += 1                                   # line 2: the first set stored another value
    rows[3]["hs"][0]["t"] = rows[3]["tree"]                        # line 4: the handle follows the map
    core.write_ndjson(tp, rows)
    r = core.run_tlc(os.path.join(d, "v1"), "TraceSyncMap", "TraceSyncMap.cfg", files=[(tp, "trace.ndjson")], timeout=600)
    got = {(v["l"], p) for v in r.values if isinstance(v, dict) and "bad" in v for p in v["bad"]}
    if (2, "X01.Tree") not in got or (4, "X01.Snapshot") not in got:
        raise core.Infra("self-test: corrupted tree / moved handle were not rejected (%s)" % sorted(got))
    # (b) concurrent: make the answer of an overlapped read a mixture of two states
    pick = [c for c in directed if c["tag"] == "attack" and c["kind"] == "map"][:3]
    cp, tp = os.path.join(d, "cases.ndjson"), os.path.join(d, "ctrace.ndjson")
    core.write_ndjson(cp, pick)
    core.run_vh(vh, ["xsync-conc", "-in", cp, "-out", tp])
    rows = core.read_ndjson(tp)
    r0 = core.run_tlc(os.path.join(d, "c0"), "TraceSyncLin", "TraceSyncLin.cfg", files=[(tp, "trace.ndjson")], workers=1, timeout=600)
    if any(isinstance(v, dict) and "bad" in v for v in r0.values):
        raise core.Infra("self-test: the uncorrupted concurrent trace is not accepted")
    k = [i for i, r in enumerate(rows) if r["k"] == "resp" and r["op"] in ("data", "getm") and r["h"] == 1 and r["res"]["sub"]]
    if not k:
        raise core.Infra("self-test: no whole-map answer in history 1")
    leafs = [e for e in rows[k[0]]["res"]["sub"] if e["v"] not in (0, 9)]
    leafs[-1]["v"] = 8                                             # a value no operation of the history ever wrote
    core.write_ndjson(tp, rows)
    r = core.run_tlc(os.path.join(d, "c1"), "TraceSyncLin", "TraceSyncLin.cfg", files=[(tp, "trace.ndjson")], workers=1, timeout=600)
    badh = sorted(v["h"] for v in r.values if isinstance(v, dict) and "bad" in v)
    stuck = [v["far"] + 1 for v in r.values if isinstance(v, dict) and "bad" in v]
    if badh != [2] or stuck != [k[0] + 1]:
        raise core.Infra("self-test: corrupted read should make exactly history 2 non-linearizable, got %s" % badh)
    ctx.extra["selftest_corruptions_rejected"] = 3


def replay(ctx, path):
    obj = json.load(open(path))["case"]
    vh = core.build_vh()
    ctx.nontrivial = 2
    ctx.sample({"replayed": path})
    if obj.get("family") == "syncseq":
        h = obj["history"]
        findings = execute_seq(ctx, vh, [h], name="replay")
        for f in findings:
            print("replay: %s at step %d (%s)" % (f["pred"], f["i"], f["site"]))
        report_seq(ctx, [h], [f for f in findings if not f["pred"].startswith("Harness.")])
        ctx.rule = "replay of one recorded history"
        return
    if "case" not in obj:
        print("race reports are replayed by re-running the check")
        ctx.rule = "replay"
        return
    cases = [obj["case"]] * 20
    bad, rows = run_conc(ctx, vh, cases, "replay")
    report_conc(ctx, cases, bad, rows)
    ctx.rule = "replay x20"
