from checks import extfam


def run(ctx):
    extfam.run(ctx)


def replay(ctx, path):
    extfam.replay(ctx, path)
