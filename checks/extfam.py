"""X06 - extrusion and repeat generators (modeling/extrude, modeling/repeat): orchestration only.

TLC generates the inputs (ExtGenPaths: lattice paths x parameter tuples; ExtGenTuples: screw and
repeat.* tuples), `vh ext-exec` runs them on the real packages and projects the results to
integers, TLC judges every recorded line (TraceExt.tla) and checks the specification's own
reference surface (ExtrudeRef.tla).  Nothing in this file compares observed values.
"""
import json
import os
import time

from vlib import core
from checks.surf import write_mc

PID = "X06"
MAX_CONFIRM = 6
STAT_KEYS = ["ext", "regular", "degenerate", "reject", "refused", "closedpath", "planes", "radii", "zerorings", "outward",
             "tris", "rep", "placed", "copies", "reprefused"]

AXES = [(1, 0, 0), (-1, 0, 0), (0, 1, 0), (0, -1, 0), (0, 0, 1), (0, 0, -1)]
STENCILS = [
    ((4, 0), (0, 4), (-4, 0), (0, -4)),          # square on the axes
    ((3, 0), (-1, 2), (-1, -2)),                   # triangle
    ((2, 2), (-2, 2), (-2, -2), (2, -2), (4, -3)),  # irregular pentagon, off centre
]


def tier_consts(ctx):
    q = ctx.tier == "quick"
    paths = dict(
        MaxPts=4 if q else 5,
        StepSet=set(AXES) | {(0, 0, 0)} | (set() if q else {(2, 0, 0), (0, 0, -2)}),
        FullPts=3, Thin=8 if q else 12, Seed=ctx.seed,
        SidesSet={2, 3, 4, 7} if q else {2, 3, 4, 5, 8, 12},
        ProfileSet={0, 1, 2} if q else {0, 1, 2, 3},
        StencilSet=set(STENCILS[:2]) if q else set(STENCILS),
        SplineNs={1, 2, 4} if q else {0, 1, 2, 4, 6},
        LineWidths={0, 2} if q else {0, 1, 3},
        Gens={"polygon", "circle", "shape", "line", "spline"},
    )
    ends = {((0, 0, 0), (4, 0, 0)), ((1, 2, 3), (-2, 0, 5)), ((1, 1, 1), (1, 1, 1))}
    polylines = {((0, 0, 0), (2, 0, 0)), ((0, 0, 0), (2, 0, 0), (2, 2, 0)), ((0, 0, 0), (0, 0, -1), (0, 3, -1), (1, 3, -1)),
                 ((0, 0, 0), (0, -2, 0), (1, -2, 0)), ((0, 0, 0),)}
    xfs = [dict(t=(0, 0, 0), a=0, q=0, s=(4, 4, 4)), dict(t=(1, 2, 3), a=1, q=1, s=(4, 8, 4)),
           dict(t=(-2, 0, 1), a=0, q=2, s=(2, 2, 2)), dict(t=(0, 5, 0), a=2, q=3, s=(4, 4, 12))]
    if not q:
        xfs += [dict(t=(3, 3, 3), a=1, q=2, s=(8, 4, 2)), dict(t=(0, 0, -4), a=2, q=1, s=(4, 4, 4))]
    tuples = dict(
        MaxSeg=5 if q else 9, RevSet={0, 1, 4, 6} if q else {0, 1, 2, 3, 4, 6, 8},
        MaxN=5 if q else 9, RadSet={0, 4, 6} if q else {0, 1, 4, 6, 8},
        EndSet=ends, MaxCircle=9 if q else 24, MaxFib=9 if q else 24, PathSet=polylines,
        XfSet=XfSetLit(xfs), MaxCopies=2 if q else 3,
    )
    return paths, tuples


class Lit(str):
    """A TLA+ expression passed through write_mc verbatim."""


def XfSetLit(xfs):
    def one(x):
        return "[t |-> <<%d, %d, %d>>, a |-> %d, q |-> %d, s |-> <<%d, %d, %d>>]" % (
            x["t"] + (x["a"], x["q"]) + x["s"])
    return Lit("{" + ", ".join(one(x) for x in xfs) + "}")


def _write_mc(d, name, base, consts, spec, inv):
    """write_mc of the surface family, plus verbatim TLA+ literals."""
    lits = dict((k, v) for k, v in consts.items() if isinstance(v, Lit))
    plain = dict((k, (0 if k in lits else v)) for k, v in consts.items())
    mod, cfg, files = write_mc(d, name, base, plain, spec, inv)
    if lits:
        p = os.path.join(d, mod + ".tla")
        txt = open(p).read()
        for k, v in lits.items():
            txt = txt.replace("c_%s == 0\n" % k, "c_%s == %s\n" % (k, v))
        open(p, "w").write(txt)
    return mod, cfg, files


def design_check(ctx):
    """The specification's reference surface keeps the contract's promises (bounded)."""
    q = ctx.tier == "quick"
    d = ctx.scratch("design")
    mod, cfg, files = _write_mc(d, "ExtrudeRef", "ExtrudeRef", dict(MaxRings=6 if q else 9, MaxSlots=6 if q else 9),
                                "Spec", ["RefOriented", "RefClosed", "RefLoops", "RefEuler", "RefCounts"])
    r = core.run_tlc(ctx.scratch("design-run"), mod, cfg, files=files, workers=2, timeout=900)
    if r.rc != 0 or r.distinct == 0:
        raise core.Infra("design-level check ExtrudeRef failed: %s (the specification is wrong, not the code)" % r.violated)
    ctx.add_tlc(r)
    ctx.extra["design_states"] = r.distinct


def generate(ctx):
    paths, tuples = tier_consts(ctx)
    d = ctx.scratch("gencfg")
    from concurrent.futures import ThreadPoolExecutor

    def run_paths():
        mod, cfg, files = _write_mc(d, "ExtGenPaths", "ExtGenPaths", paths, "Spec", ["GenOK", "Emit"])
        return core.run_tlc(ctx.scratch("gen-paths"), mod, cfg, files=files, workers=min(core.NCPU, 4), timeout=1500, heap="4g")

    def run_tuples():
        mod, cfg, files = _write_mc(d, "ExtGenTuples", "ExtGenTuples", tuples, "Spec", ["GenOK", "Emit"])
        return core.run_tlc(ctx.scratch("gen-tuples"), mod, cfg, files=files, workers=2, timeout=1500, heap="4g")

    with ThreadPoolExecutor(max_workers=2) as ex:
        fp, ft = ex.submit(run_paths), ex.submit(run_tuples)
        rp, rt = fp.result(), ft.result()
    for r, name in ((rp, "ExtGenPaths"), (rt, "ExtGenTuples")):
        if r.rc != 0:
            raise core.Infra("%s violates %s (generator bug)" % (name, r.violated))
        ctx.add_tlc(r)
    per_path = [v for v in rp.values if isinstance(v, dict) and "cases" in v]
    if len(per_path) != rp.distinct:
        raise core.Infra("ExtGenPaths printed %d of %d paths" % (len(per_path), rp.distinct))
    cases = [c for v in per_path for c in v["cases"]]
    tup = [v["case"] for v in rt.values if isinstance(v, dict) and "case" in v]
    if len(tup) != rt.distinct:
        raise core.Infra("ExtGenTuples printed %d of %d tuples" % (len(tup), rt.distinct))
    ctx.extra["paths_tlc"] = rp.distinct
    ctx.extra["cases_from_paths"] = len(cases)
    ctx.extra["cases_from_tuples"] = len(tup)
    return cases + tup


def seeded(ctx, vh):
    q = ctx.tier == "quick"
    d = ctx.scratch("rnd")
    p = os.path.join(d, "rnd.ndjson")
    core.run_vh(vh, ["ext-random", "-seed", str(ctx.seed), "-n", str(150 if q else 2500), "-maxpts", str(8 if q else 12),
                     "-out", p])
    rnd = core.read_ndjson(p)
    ctx.extra["cases_seeded"] = len(rnd)
    return rnd


def execute(ctx, vh, cases, name):
    d = ctx.scratch(name + "-exec")
    cp = os.path.join(d, "cases.ndjson")
    core.write_ndjson(cp, cases)
    tp = os.path.join(d, "trace.ndjson")
    t0 = time.time()
    core.run_vh(vh, ["ext-exec", "-in", cp, "-out", tp, "-par", str(min(core.NCPU, 8))], timeout=1800)
    core.log("[exec] %s: %d cases in %.1fs" % (name, len(cases), time.time() - t0))
    with open(tp) as f:
        raw = f.readlines()
    if len(raw) != len(cases):
        raise core.Infra("ext-exec returned %d lines for %d cases" % (len(raw), len(cases)))
    return raw


def judge(ctx, raw, name, nshards=None):
    """TLC (TraceExt) over raw trace lines -> (findings, stats)."""
    results = core.validate_sharded(ctx, name, "TraceExt", "TraceExt.cfg", raw, nshards=nshards,
                                    is_boundary=lambda ln: True, timeout=3000, heap="3g")
    findings = []
    stats = dict((k, 0) for k in STAT_KEYS)
    base = 0
    for sh, r in results:
        got = False
        for v in r.values:
            if isinstance(v, dict) and "stats" in v:
                got = True
                for k in STAT_KEYS:
                    stats[k] += v["stats"].get(k, 0)
            elif isinstance(v, dict) and "bad" in v:
                for pred in v["bad"]:
                    findings.append({"pred": pred, "line": base + v["l"] - 1, "info": v.get("info")})
        if not got:
            raise core.Infra("trace shard of %s printed no statistics" % name)
        base += len(sh)
    ctx.evaluations += len(raw)
    return findings, stats


def path_kind(c):
    """Coarse shape label of the input (signature discriminator, reports only)."""
    if c["kind"] == "rep":
        return "n=%s" % ("neg" if c["n"] < 0 else c["n"] if c["n"] <= 2 else "many")
    if c["gen"] == "screw":
        return "screw"
    p = c["path"]
    if len(p) < 2:
        return "short"
    segs = [tuple(b[i] - a[i] for i in range(3)) for a, b in zip(p, p[1:])]
    if any(s == (0, 0, 0) for s in segs):
        return "repeat"
    cross = lambda u, w: (u[1] * w[2] - u[2] * w[1], u[2] * w[0] - u[0] * w[2], u[0] * w[1] - u[1] * w[0])
    dot = lambda u, w: sum(x * y for x, y in zip(u, w))
    turns = [(cross(u, w), dot(u, w)) for u, w in zip(segs, segs[1:])]
    if any(cr == (0, 0, 0) and d < 0 for cr, d in turns):
        return "reversal"
    if all(cr == (0, 0, 0) for cr, d in turns):
        return "straight"
    if any(cr == (0, 0, 0) for cr, d in turns):
        return "bent+collinear"
    if p[0] == p[-1]:
        return "returning"
    return "bent"


def signature(pred, case, info=None):
    if pred == "X06.Oriented" and (info or {}).get("flip") == "geometric-quad-flip":
        # classified by TLC (Extrude!FlipClass): one root cause whatever the path is
        return "%s/polygon-family/geometric-quad-flip" % pred
    if pred == "X06.NoTwist" and (info or {}).get("twist") == "bend-axis-frame-on-spatial-path":
        # classified by TLC (Extrude!TwistClass): Shape's frame on a path that leaves its plane
        return "%s/shape-family/bend-axis-frame-on-spatial-path" % pred
    cls = (info or {}).get("class", "")
    return "%s/%s/%s/%s" % (pred, case["gen"] if case["kind"] == "ext" else "repeat." + case["gen"], cls, path_kind(case))


def describe(c):
    if c["kind"] == "rep":
        return "repeat.%s n=%d a=%s b=%s rad/4=%d path=%s xfs=%s mesh=%d" % (
            c["gen"], c["n"], c["a"], c["b"], c["rad"], c["path"], c["xfs"], c["mesh"])
    return "extrude.%s path=%s sides=%d rad/4=%d radii/4=%s close=%s uv=%s stencil=%s n=%d up=%s h=%d rev=%d" % (
        c["gen"], c["path"], c["sides"], c["rad"], c["radii"], c["close"], c["uv"], c["stencil"], c["n"], c["up"],
        c["h"], c["rev"])


def report(ctx, vh, cases, raw, findings):
    confirmed = {}
    for f in findings:
        case = cases[f["line"]]
        if f["pred"].startswith("Harness."):
            raise core.Infra("harness inconsistency %s on %s" % (f["pred"], describe(case)))
        sig = signature(f["pred"], case, f["info"])
        if sig in confirmed:
            confirmed[sig] += 1
            continue
        if len(confirmed) < MAX_CONFIRM:        # re-execute and re-judge (the first few distinct signatures)
            again, _ = judge(ctx, execute(ctx, vh, [case], "confirm"), "confirm", nshards=1)
            ctx.evaluations -= 1
            if not any(a["pred"] == f["pred"] for a in again):
                raise core.Infra("rejection %s of %s did not reproduce on re-execution" % (f["pred"], describe(case)))
        confirmed[sig] = 1
        o = json.loads(raw[f["line"]])
        what = "%s rejected the real result (%s%s, %d triangles, %d positions, %d transforms, finite=%s) of %s" % (
            f["pred"], o["res"], (": " + o["err"][:100]) if o["err"] else "", len(o["tris"]), len(o["pos"]),
            len(o["trs"]), o["fin"] and all(t["fin"] for t in o["trs"]), describe(case))
        ctx.violation(sig, what, {"family": "ext", "cases": [case]})
    if confirmed:
        ctx.extra["rejections_per_signature"] = confirmed


# --------------------------------------------------------------------------
# self-test of the binding (thorough): corrupt one logged field of an accepted line
# --------------------------------------------------------------------------

def corruptions(raw, rejected):
    ok = [json.loads(ln) for i, ln in enumerate(raw) if i not in rejected and '"res":"OK"' in ln]

    def first(pred):
        for o in ok:
            if pred(o):
                return json.loads(json.dumps(o))
        return None

    out = []
    reg = lambda o: path_kind(o["case"]) in ("bent", "straight", "bent+collinear")     # a regular path
    tube = lambda o: (o["k"] == "ext" and o["case"]["gen"] == "circle" and len(o["case"]["path"]) >= 3 and o["tris"]
                      and o["case"]["sides"] >= 3 and not o["case"]["radii"] and o["case"]["rad"] > 0 and reg(o))
    a = first(tube)
    if a:
        a["tris"][0] = [a["tris"][0][0], a["tris"][0][2], a["tris"][0][1]]
        out.append((a, "X06.Oriented"))
    a = first(tube)
    if a:
        del a["tris"][-1]
        out.append((a, "X06.Rings"))
    a = first(tube)
    if a:
        a["tris"][-1] = list(a["tris"][0])
        out.append((a, "X06.Strips"))
    a = first(tube)
    if a:
        a["pos"][1] = [a["pos"][1][0] + 9, a["pos"][1][1] + 9, a["pos"][1][2] + 9]
        out.append((a, "X06.Radius"))
    a = first(tube)
    if a:
        a["pos"][0] = [a["pos"][0][0] + 3, a["pos"][0][1] + 3, a["pos"][0][2] + 3]
        out.append((a, "X06.Seam"))
    a = first(tube)
    if a:
        a["nn"] -= 1
        out.append((a, "X06.Arrays"))
    a = first(tube)
    if a:
        a["fin"] = False
        out.append((a, "X06.WellFormed"))
    a = first(lambda o: tube(o) and o["case"]["close"] and len(o["case"]["path"]) >= 3)
    if a:
        n = 2 * a["case"]["sides"]
        a["tris"] = a["tris"][:-n] + a["tris"][:n]          # the closing strip replaced by a copy of the first
        out.append((a, "X06.Closed"))
    a = first(lambda o: tube(o) and not o["case"]["close"] and path_kind(o["case"]) == "straight")
    if a:
        a["tris"] = [[t[0], t[2], t[1]] for t in a["tris"]]   # the whole tube inside out (still consistent)
        out.append((a, "X06.Outward"))
    a = first(lambda o: o["k"] == "ext" and o["case"]["gen"] == "shape" and len(o["case"]["path"]) >= 3 and o["tris"] and reg(o))
    if a:
        m = len(a["case"]["stencil"])
        for i in range(m, 2 * m):                           # ring 1 pushed along +x+y+z: off its plane
            a["pos"][i] = [a["pos"][i][0] + 40, a["pos"][i][1] + 40, a["pos"][i][2] + 40]
        out.append((a, "X06.OnPlane"))
    a = first(lambda o: o["k"] == "ext" and o["case"]["gen"] == "shape" and path_kind(o["case"]) == "straight"
              and len(o["case"]["path"]) >= 3 and o["tris"] and o["case"]["stencil"][0] == [4, 0])
    if a:
        m = len(a["case"]["stencil"])                       # the square: ring 1 turned by half a turn about the path
        ring = a["pos"][m:2 * m]
        a["pos"][m:2 * m] = ring[2:] + ring[:2]
        out.append((a, "X06.NoTwist"))
    a = first(lambda o: o["k"] == "ext" and o["case"]["gen"] == "screw" and len(o["tris"]) > 2)
    if a:
        a["pos"][-1] = [a["pos"][-1][0] + 5, a["pos"][-1][1], a["pos"][-1][2]]
        out.append((a, "X06.Screw"))
    a = first(lambda o: o["k"] == "ext" and o["case"]["gen"] == "line" and o["tris"] and o["case"]["rad"] > 0 and reg(o))
    if a:
        a["pos"][1] = [a["pos"][1][0] + 5, a["pos"][1][1] + 5, a["pos"][1][2] + 5]
        out.append((a, "X06.Ribbon"))
    a = first(lambda o: o["k"] == "rep" and o["case"]["gen"] == "circle" and o["case"]["n"] >= 5 and o["case"]["rad"] > 0)
    if a:
        a["trs"][2], a["trs"][3] = a["trs"][3], a["trs"][2]
        out.append((a, "X06.Placement"))
    a = first(lambda o: o["k"] == "rep" and o["case"]["gen"] == "line" and o["case"]["n"] >= 2)
    if a:
        del a["trs"][0]
        out.append((a, "X06.Count"))
    a = first(lambda o: o["k"] == "rep" and o["case"]["gen"] == "fib" and o["case"]["n"] >= 6 and o["case"]["rad"] >= 4)
    if a:
        a["trs"][2]["p"] = [-a["trs"][2]["p"][0], a["trs"][2]["p"][1], -a["trs"][2]["p"][2]]   # azimuth + pi
        out.append((a, "X06.Placement"))
    a = first(lambda o: o["k"] == "rep" and o["case"]["gen"] == "mesh" and len(o["case"]["xfs"]) >= 2 and len(o["bt"]) >= 4)
    if a:
        a["pos"][-1] = [a["pos"][-1][0], a["pos"][-1][1] + 7, a["pos"][-1][2]]
        out.append((a, "X06.Copies"))
    return out


def selftest(ctx, raw, rejected):
    items = corruptions(raw, rejected)
    if len(items) < 12:
        raise core.Infra("self-test found only %d lines to corrupt" % len(items))
    lines = [json.dumps(o, separators=(",", ":")) + "\n" for o, _ in items]
    findings, _ = judge(ctx, lines, "selftest", nshards=2)
    for i, (o, want) in enumerate(items):
        got = set(f["pred"] for f in findings if f["line"] == i)
        if want not in got:
            raise core.Infra("self-test: corrupted line %d (%s) was expected to be rejected by %s, TLC said %s" %
                             (i, o["case"]["gen"], want, sorted(got)))
    ctx.extra["selftest_corruptions_rejected"] = len(items)
    ctx.evaluations -= len(lines)


# --------------------------------------------------------------------------
# entry points
# --------------------------------------------------------------------------

def run(ctx):
    vh = core.build_vh()
    design_check(ctx)
    cases = generate(ctx) + seeded(ctx, vh)
    for i, c in enumerate(cases):
        c["id"] = i
    raw = execute(ctx, vh, cases, "main")
    findings, stats = judge(ctx, raw, "main")
    ctx.traces += len(cases)
    ctx.extra.update(("judged_" + k, stats[k]) for k in STAT_KEYS)
    next_ = sum(1 for c in cases if c["kind"] == "ext")
    if stats["ext"] != next_ or stats["rep"] != len(cases) - next_:
        raise core.Infra("judge counted %s for %d ext + %d rep cases" % (stats, next_, len(cases) - next_))
    need = ["regular", "degenerate", "reject", "refused", "closedpath", "planes", "radii", "zerorings", "outward", "tris",
            "placed", "copies", "reprefused"]
    if any(stats[k] == 0 for k in need):
        raise core.Infra("vacuous run: %s" % stats)
    ctx.nontrivial = stats["regular"] + sum(1 for c in cases if c["kind"] == "rep")
    report(ctx, vh, cases, raw, findings)
    if ctx.tier != "quick" or os.environ.get("VERIF_SELFTEST") == "1":
        selftest(ctx, raw, set(f["line"] for f in findings))
    gens = {}
    for c in cases:
        k = ("extrude." if c["kind"] == "ext" else "repeat.") + c["gen"]
        gens[k] = gens.get(k, 0) + 1
    ctx.extra["cases_per_generator"] = gens
    ctx.rule = ("TLC enumerates every axis-parallel lattice path of up to MaxPts points (6 directions + the repeated "
                "point; thorough also steps of 2) x sides x radius profile x close/uv x stencil x spline resolution x "
                "ribbon up/width/height (full product up to 3 points, every Thin-th tuple beyond), the screw and "
                "repeat.* tuples exhaustively for small counts, plus seeded longer walks; a case is one generator "
                "call; it is non-trivial if it is a regular (non-degenerate, accepted) extrusion or a repeat call")
    ctx.sample(dict((k, cases[0][k]) for k in ("gen", "path", "sides", "radii", "close")))
    mid = cases[len(cases) // 3]
    ctx.sample(dict((k, mid[k]) for k in ("gen", "path", "sides", "radii", "close", "stencil", "n")))
    ctx.sample(dict((k, cases[-1][k]) for k in ("gen", "path", "sides", "radii", "close", "stencil", "n")))
    ctx.assumptions += [
        "positions are projected to round(world*256); plane band 2 units per unit of |d|_1, distance band 3 units",
        "ring direction of the contract: unit(in)+unit(out) for the polygon family, in+out (chord) for Shape, "
        "one-sided at both ends also when the path is closed (what the code documents by construction)",
        "the spline handed to CircleAlongSpline / repeat.Spline is the harness' exact arc-length lattice polyline "
        "(curves.Spline is an interface); Catmull-Rom splines are not covered",
        "sines of the closed forms: BigNat 28-bit fixed point, pi = 355/113; golden angle constants to 2^-14",
        "TLC evaluates the specifications correctly",
    ]


def replay(ctx, path):
    with open(path) as f:
        obj = json.load(f)
    vh = core.build_vh()
    cases = obj["case"]["cases"]
    raw = execute(ctx, vh, cases, "replay")
    findings, _ = judge(ctx, raw, "replay", nshards=1)
    ctx.traces += len(cases)
    for f in findings:
        print("replay: %s on %s" % (f["pred"], describe(cases[f["line"]])))
        if f["pred"].startswith(PID + "."):
            ctx.violation(signature(f["pred"], cases[f["line"]], f["info"]), "replayed", obj["case"])
    ctx.rule = "replay of one recorded case"
    ctx.nontrivial = len(cases)
    ctx.sample({"replayed": path})
