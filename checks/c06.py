"""C06 -- glTF/GLB output is structurally loadable and carries exactly the scene data.

generator (TLC: specs/GltfWriter.tla, the implementation-shaped writer model, BFS and
-simulate; plus the seeded generator of the harness for sizes TLC does not enumerate)
  -> executor (vh gltf-exec: real gltf.WriteBinary / gltf.WriteText, independent parser)
  -> judge (TLC: specs/TraceGltf.tla evaluating specs/GltfDoc.tla on every produced file).

Also checked on the specification itself: the design properties of GltfWriter in three
configurations (repaired design, current tree, offsets as writer.go).
"""
import copy
import json
import os
import random
import shutil
from concurrent.futures import ThreadPoolExecutor

from vlib import core

PID = "C06"


# --------------------------------------------------------------------------
# design-level check of the L2 writer model
# --------------------------------------------------------------------------

def _cfg(path, consts, invariants, emit=None):
    def fmt(v):
        if isinstance(v, bool):
            return "TRUE" if v else "FALSE"
        if isinstance(v, (set, list, tuple)):
            return "{" + ", ".join(str(x) for x in sorted(v)) + "}"
        return str(v)
    with open(path, "w") as f:
        f.write("CONSTANTS\n")
        for k, v in consts.items():
            f.write("  %s = %s\n" % (k, fmt(v)))
        f.write("SPECIFICATION Spec\n")
        inv = list(invariants) + ([emit] if emit else [])
        if inv:
            f.write("INVARIANTS %s\n" % " ".join(inv))
        f.write("CHECK_DEADLOCK FALSE\n")


def design_check(ctx, notes):
    """TLC on GltfWriter itself. Returns nothing; raises Infra when the model disagrees with
    what is established about the code (a model bug, never a verdict)."""
    runs = [("GltfWriterFixed.cfg", None), ("GltfWriterCode.cfg", None), ("GltfWriterUnaligned.cfg", "L2Aligned")]
    # export histories in one process: the pool of payload buffers as a design constant
    sess = [("GltfSessionFresh.cfg", None), ("GltfSessionReset.cfg", None), ("GltfSessionDirty.cfg", "SessionContract")]
    if ctx.tier == "thorough":
        runs += [("GltfWriterPinnedEq.cfg", "L2MatRef"), ("GltfWriterPinnedOnce.cfg", "L2MatOnce")]
        # a deeper bound on the repaired design and on the current tree
        d = ctx.scratch("design-cfg")
        deep = dict(MeshIds={1, 2, 4, 5}, MatIds={0, 1, 2, 3, 5, 6}, InstCounts={0, 1}, TrsKinds={0}, MaxModels=3, MaxLights=1,
                    Pad=True, DeepEq=True)
        _cfg(os.path.join(d, "DeepFixed.cfg"), deep, ["L2All", "L2Aligned", "L2MatRef", "L2MatOnce"])
        deep2 = dict(deep, Pad=False)
        _cfg(os.path.join(d, "DeepCode.cfg"), deep2, ["L2All", "L2MatRef", "L2MatOnce"])
        runs += [(os.path.join(d, "DeepFixed.cfg"), None), (os.path.join(d, "DeepCode.cfg"), None)]

    def one(item):
        cfg, expect = item
        name = os.path.basename(cfg)
        files = [(cfg, name)] if os.path.isabs(cfg) else []
        module = "GltfSession" if name.startswith("GltfSession") else "GltfWriter"
        r = core.run_tlc(ctx.scratch("design-" + name), module, name, files=files, workers=2, timeout=1200, heap="4g")
        return name, expect, r

    runs += sess
    with ThreadPoolExecutor(max_workers=max(1, min(len(runs), core.NCPU // 2))) as ex:
        results = list(ex.map(one, runs))
    design = {}
    for name, expect, r in results:
        ctx.add_tlc(r)
        design[name] = {"states": r.distinct, "transitions": r.generated, "violated": r.violated}
        if expect is None and r.rc != 0:
            raise core.Infra("%s: design property %s fails on a configuration that must satisfy it (model bug)" %
                             (name, r.violated))
        if expect is not None and r.violated != expect:
            raise core.Infra("%s: expected the counterexample to %s, TLC reported %s" % (name, expect, r.violated))
    notes["design"] = design
    notes["l2_unaligned_counterexample"] = design["GltfWriterUnaligned.cfg"]["violated"] == "L2Aligned"
    notes["session_dirty_pool_counterexample"] = design["GltfSessionDirty.cfg"]["violated"] == "SessionContract"


# --------------------------------------------------------------------------
# cases
# --------------------------------------------------------------------------

ALL_MATS = set(range(0, 12))


def generator_plan(tier, seed):
    """(name, constants, simulate-args|None)"""
    if tier == "quick":
        return [
            ("layout", dict(MeshIds={1, 2, 3, 4, 5, 6}, MatIds={0, 1}, InstCounts={0, 2}, TrsKinds={0}, MaxModels=2, MaxLights=1), None),
            ("trs", dict(MeshIds={1, 2}, MatIds={0}, InstCounts={0, 1}, TrsKinds={0, 1, 2}, MaxModels=2, MaxLights=0), None),
            ("dedup", dict(MeshIds={1, 7}, MatIds=ALL_MATS, InstCounts={0}, TrsKinds={0}, MaxModels=2, MaxLights=0), None),
            ("width", dict(MeshIds={1, 8, 9}, MatIds={0}, InstCounts={0}, TrsKinds={0}, MaxModels=2, MaxLights=0), None),
            # Round 2: meshes 10..15 carry NaN / Inf / -0 / float32-limit values (every ordered pair with each other and mesh 1)
            ("special", dict(MeshIds={1, 10, 11, 12, 13, 14, 15}, MatIds={0}, InstCounts={0}, TrsKinds={0}, MaxModels=2, MaxLights=0),
             None),
            ("walks", dict(MeshIds={1, 2, 3, 4, 5, 6, 7, 10, 13}, MatIds=ALL_MATS, InstCounts={0, 1, 2}, TrsKinds={0, 1, 2}, MaxModels=4,
                           MaxLights=2), dict(num=40, depth=8)),
        ]
    return [
        ("layout", dict(MeshIds={1, 2, 3, 4, 5, 6, 7}, MatIds={0, 1, 5}, InstCounts={0, 2}, TrsKinds={0, 2}, MaxModels=2, MaxLights=1), None),
        ("layout3", dict(MeshIds={1, 2, 4, 5}, MatIds={0, 1}, InstCounts={0, 1}, TrsKinds={0}, MaxModels=3, MaxLights=1), None),
        ("trs", dict(MeshIds={1, 2, 3}, MatIds={0}, InstCounts={0, 1, 2}, TrsKinds={0, 1, 2}, MaxModels=2, MaxLights=0), None),
        ("dedup", dict(MeshIds={1, 7}, MatIds=ALL_MATS, InstCounts={0}, TrsKinds={0}, MaxModels=2, MaxLights=0), None),
        ("dedup3", dict(MeshIds={1}, MatIds=ALL_MATS, InstCounts={0}, TrsKinds={0}, MaxModels=3, MaxLights=0), None),
        ("width", dict(MeshIds={1, 2, 8, 9}, MatIds={0, 1}, InstCounts={0, 1}, TrsKinds={0}, MaxModels=2, MaxLights=0), None),
        ("special", dict(MeshIds={1, 2, 10, 11, 12, 13, 14, 15}, MatIds={0, 1}, InstCounts={0, 1}, TrsKinds={0}, MaxModels=2,
                         MaxLights=0), None),
        ("special3", dict(MeshIds={1, 10, 13, 14, 15}, MatIds={0}, InstCounts={0}, TrsKinds={0}, MaxModels=3, MaxLights=0), None),
        ("walks", dict(MeshIds={1, 2, 3, 4, 5, 6, 7, 10, 13, 15}, MatIds=ALL_MATS, InstCounts={0, 1, 2, 3}, TrsKinds={0, 1, 2}, MaxModels=6,
                       MaxLights=2), dict(num=1200, depth=10)),
    ]


def generate_cases(ctx, notes):
    """TLC enumerates / samples scenes of the L2 writer model."""
    d = ctx.scratch("gen-cfg")
    plan = generator_plan(ctx.tier, ctx.seed)

    def one(item):
        name, consts, sim = item
        consts = dict(consts, Pad=False, DeepEq=True)
        cfg = os.path.join(d, "Gen_%s.cfg" % name)
        _cfg(cfg, consts, [], emit="EmitLeaf" if sim else "Emit")
        kw = {}
        if sim:
            kw = dict(simulate="num=%d" % sim["num"], depth=sim["depth"], seed=ctx.seed, workers=1)
        else:
            kw = dict(workers=max(1, min(4, core.NCPU // 2)))
        r = core.run_tlc(ctx.scratch("gen-" + name), "GltfWriter", os.path.basename(cfg), files=[(cfg, os.path.basename(cfg))],
                         timeout=1500, heap="6g", **kw)
        if r.rc != 0:
            raise core.Infra("generator GltfWriter/%s failed (%s)" % (name, r.violated))
        return name, sim, r

    with ThreadPoolExecutor(max_workers=max(1, min(len(plan), core.NCPU // 2))) as ex:
        results = list(ex.map(one, plan))
    cases, seen = [], set()
    per = {}
    for name, sim, r in results:
        n = 0
        for v in r.values:
            if not (isinstance(v, dict) and "models" in v):
                continue
            key = json.dumps([v["models"], v["lights"]], sort_keys=True)
            if key in seen:
                continue
            seen.add(key)
            v["tag"] = "l2-" + name
            v["risk"] = sorted(v.get("risk", []))
            # every tenth scene is also written a second time from the same objects (harness: Container)
            k = (len(cases) + ctx.seed) % 20
            if k in (0, 10):
                v["kinds"] = ["glb", "text", "glb-again" if k == 0 else "text-again"]
            cases.append(v)
            n += 1
        per[name] = n
        if sim:
            ctx.transitions += r.generated
        else:
            ctx.add_tlc(r)
    notes["generated_scenes"] = per
    return cases


def random_cases(ctx, vh, notes):
    d = ctx.scratch("rnd")
    # nsp: scenes with special IEEE values; mid: power-of-two-ish mesh sizes (quick: 2 of the 11, rotated by the seed)
    if ctx.tier == "quick":
        n, maxv, big, nsp, mid = 350, 12, 4, 70, 2
    else:
        n, maxv, big, nsp, mid = 9000, 40, 15, 1500, 11
    p = os.path.join(d, "r.ndjson")
    core.run_vh(vh, ["gltf-random", "-out", p, "-seed", str(ctx.seed), "-n", str(n), "-maxv", str(maxv), "-big", str(big),
                     "-special", str(nsp), "-mid", str(mid)])
    cases = core.read_ndjson(p)
    notes["random_scenes"] = len(cases)
    return cases


# --------------------------------------------------------------------------
# execute on the real code and judge
# --------------------------------------------------------------------------

def judge_trace(ctx, name, raw):
    """TLC judges raw trace lines. Returns list of (line_no, verdict dict)."""
    results = core.validate_sharded(ctx, name, "TraceGltf", "TraceGltf.cfg", raw, is_boundary=lambda ln: True,
                                    timeout=3000, heap="3g")
    out = []
    base = 0
    for sh, r in results:
        got = {}
        for v in r.values:
            if isinstance(v, dict) and "bad" in v and "l" in v:
                got[v["l"]] = v
        if len(got) != len(sh):
            raise core.Infra("judge printed %d verdicts for %d lines in a shard of %s" % (len(got), len(sh), name))
        for i in range(len(sh)):
            out.append((base + i, got[i + 1]))
        base += len(sh)
    return out


def signature(pred, det):
    short = pred.split(".", 1)[1]
    ds = sorted(x.split(":", 1)[1] for x in det if x.startswith(short + ":"))
    return pred + ("/" + "+".join(ds) if ds else "")


def execute_and_judge(ctx, vh, cases, name="main", batch=4000):
    """Returns (findings, exercised counter, nlines). A finding: dict(pred, sig, case, kind, c)."""
    findings, ex = [], {}
    nlines = 0
    agree = [0, 0]     # L2 model's alignment prediction vs the judged file: [agree, disagree]
    for b0 in range(0, len(cases), batch):
        part = cases[b0:b0 + batch]
        d = ctx.scratch("%s-exec-%d" % (name, b0))
        cp = os.path.join(d, "cases.ndjson")
        core.write_ndjson(cp, part)
        tp = os.path.join(d, "trace.ndjson")
        core.run_vh(vh, ["gltf-exec", "-in", cp, "-out", tp], timeout=3000)
        with open(tp) as f:
            raw = f.readlines()
        nlines += len(raw)
        for i, v in judge_trace(ctx, "%s-%d" % (name, b0), raw):
            for e in v["ex"]:
                ex[e] = ex.get(e, 0) + 1
            head = json.loads(raw[i][:raw[i].index(',"src"')] + "}")
            if head["tag"].startswith("l2-") and "nonfinite-refused" not in v["ex"]:    # a refused scene has no file to be aligned
                predicted = "L2Aligned" in part[head["c"]].get("risk", [])
                agree[0 if predicted == ("C06.Aligned" in v["bad"]) else 1] += 1
            if not v["bad"]:
                continue
            for pred in v["bad"]:
                findings.append({"pred": pred, "sig": signature(pred, v["det"]), "case": part[head["c"]], "kind": head["kind"],
                                 "c": b0 + head["c"], "tag": head["tag"]})
        if ctx.tier == "thorough" and os.environ.get("VERIF_KEEP_WORK") != "1":
            shutil.rmtree(d, ignore_errors=True)
            for f in os.listdir(ctx.work):
                if f.startswith("%s-%d-shard" % (name, b0)):
                    shutil.rmtree(os.path.join(ctx.work, f), ignore_errors=True)
    ctx.traces += len(cases)
    ctx.evaluations += nlines
    ctx.extra["l2_alignment_prediction"] = {"agrees": agree[0] + ctx.extra.get("l2_alignment_prediction", {}).get("agrees", 0),
                                            "disagrees": agree[1] + ctx.extra.get("l2_alignment_prediction", {}).get("disagrees", 0)}
    return findings, ex, nlines


REQUIRED = ["glb", "text", "glb-again", "text-again", "multi-model", "empty-model-skipped", "mesh-pointer-shared", "mesh-shared-other-material",
            "material-pointer-shared", "material-value-duplicate", "materials-distinct", "texture-value-duplicate",
            "texture-collapsed", "textured-material", "instances", "lights", "trs", "point-topology", "triangle-topology",
            "scalar-attribute", "joint-bytes", "custom-attribute", "big-mesh", "nv=65535", "nv=65536", "non-identity-indices",
            "minmax-declared", "minmax-not-float32-representable", "index-u16", "index-u32", "ubyte-accessor",
            "material-extension", "texture-transform", "extension-required", "odd-u16-index-view", "bin-chunk-padded", "no-buffer",
            # Round 2: special IEEE values really reached the payload and were judged there
            "nonfinite-source", "nonfinite-written", "nan-stored-vec2", "nan-stored-vec3", "nan-stored-big",
            "minmax-with-nan-judged", "minmax-all-nan-component", "inf-stored", "negative-zero-stored", "subnormal-stored",
            "max-float32-stored"]


def shrink(case, kind):
    """Replay object: the scene restricted to one container."""
    c = copy.deepcopy(case)
    c["kinds"] = [kind]
    return c


def report(ctx, findings):
    for f in findings:
        if f["pred"].startswith("Harness."):
            raise core.Infra("harness inconsistency %s on case %d (%s)" % (f["pred"], f["c"], f["tag"]))
    seen = set()
    for f in findings:
        if not f["pred"].startswith(PID + "."):
            continue
        first = f["sig"] not in seen
        seen.add(f["sig"])
        if not first:
            continue
        nm = len(f["case"]["models"])
        what = "%s rejected the %s file written for a %s scene with %d model(s)" % (f["pred"], f["kind"], f["tag"], nm)
        ctx.violation(f["sig"], what, {"family": "gltf", "scene": shrink(f["case"], f["kind"]), "pred": f["pred"]})


def confirm(ctx, vh, findings):
    """Every distinct signature is re-executed once from its replay object before it is reported."""
    firsts = {}
    for f in findings:
        if f["pred"].startswith(PID + "."):
            firsts.setdefault(f["sig"], f)
    if not firsts:
        return
    sigs = sorted(firsts)
    again, _, _ = execute_and_judge(ctx, vh, [shrink(firsts[s]["case"], firsts[s]["kind"]) for s in sigs], name="confirm")
    got = {(f["c"], f["sig"]) for f in again}
    for i, s in enumerate(sigs):
        if (i, s) not in got:
            raise core.Infra("finding %s did not reproduce when its scene was executed again" % s)



# --------------------------------------------------------------------------
# export histories within one process (specs/GltfSession.tla -> vh gltf-session-exec -> specs/TraceGltfSession.tla)
# --------------------------------------------------------------------------

SESSION_ENTRIES = ["WriteBinary", "WriteText", "SaveBinary", "SaveText", "Save", "FromScene+WriteGLB", "FromScene+ToGLTF",
                   "AddScene+WriteGLB"]
SESSION_FAILS = ["nilmesh", "alphacutoff", "anim"]


def _q(xs):
    return "{" + ", ".join('"%s"' % x for x in xs) + "}"


def session_plan(tier):
    """(name, constants, simulate-args|None)"""
    base = dict(PoolPolicy='"fresh"', Entries=_q(SESSION_ENTRIES), FailKinds=_q(SESSION_FAILS))
    if tier == "quick":
        return [
            # every (export, valid export) pair over all entry points: 56 x 8
            ("pairs", dict(base, ShapeIds={2}, MaxPos=1, MaxLen=2), None),
            ("walks", dict(base, ShapeIds={1, 2, 3, 4}, MaxPos=3, MaxLen=3), dict(num=12, depth=5, cap=150)),
        ]
    return [
        ("pairs", dict(base, ShapeIds={2, 3}, MaxPos=2, MaxLen=2), None),
        ("walks", dict(base, ShapeIds={1, 2, 3, 4}, MaxPos=3, MaxLen=3), dict(num=300, depth=5, cap=3000)),
        ("walks4", dict(base, ShapeIds={1, 2, 3, 4}, MaxPos=3, MaxLen=4), dict(num=300, depth=6, cap=3000)),
    ]


def generate_histories(ctx, notes):
    d = ctx.scratch("sess-cfg")
    plan = session_plan(ctx.tier)

    def one(item):
        name, consts, sim = item
        cfg = os.path.join(d, "Sess_%s.cfg" % name)
        _cfg(cfg, consts, [], emit="EmitLeaf" if sim else "Emit")
        if sim:
            kw = dict(simulate="num=%d" % sim["num"], depth=sim["depth"], seed=ctx.seed, workers=1)
        else:
            kw = dict(workers=2)
        r = core.run_tlc(ctx.scratch("sess-gen-" + name), "GltfSession", os.path.basename(cfg), files=[(cfg, os.path.basename(cfg))],
                         timeout=900, heap="4g", **kw)
        if r.rc != 0:
            raise core.Infra("generator GltfSession/%s failed (%s)" % (name, r.violated))
        return name, sim, r

    with ThreadPoolExecutor(max_workers=len(plan)) as ex:
        results = list(ex.map(one, plan))
    hists, seen, per = [], set(), {}
    for name, sim, r in results:
        got = []
        for v in r.values:
            if not (isinstance(v, dict) and "session" in v):
                continue
            key = json.dumps(v, sort_keys=True)
            if key in seen:
                continue
            seen.add(key)
            v["concurrent"] = False
            got.append(v)
        if sim and len(got) > sim["cap"]:
            # -simulate evaluates the invariant on every candidate successor of a walk: a seeded sample of what it printed
            got = random.Random(ctx.seed).sample(got, sim["cap"])
        hists += got
        per[name] = len(got)
        if sim:
            ctx.transitions += r.generated
        else:
            ctx.add_tlc(r)
    if not hists:
        raise core.Infra("GltfSession printed no history")
    # extra history kind: valid exports of the histories above, all at once (one goroutine each)
    valid, vseen = [], set()
    for h in hists:
        for e in h["session"]:
            k = json.dumps([e["entry"], e["scene"]["models"]], sort_keys=True)
            if e["expect"] == "OK" and k not in vseen:
                vseen.add(k)
                valid.append(e)
    nconc = 12 if ctx.tier == "quick" else 200
    conc = []
    for i in range(nconc):
        pick = [valid[(ctx.seed * 7 + i * 5 + j * 3) % len(valid)] for j in range(6)]
        conc.append({"session": pick, "concurrent": True})
    per["concurrent"] = len(conc)
    notes["generated_histories"] = per
    return hists + conc


def _after(exports, i):
    """(fk, fd, j): the nearest failed export executed in the process before export i."""
    for j in range(i - 1, -1, -1):
        if exports[j]["expect"] == "FAIL":
            return exports[j]["fk"], exports[j]["fd"], j
    return "none", 0, -1


def session_exec_and_judge(ctx, vh, hists, name="session"):
    """Executes all histories in ONE process, TLC judges every export. Returns (findings, exercised, nlines, stats)."""
    d = ctx.scratch(name + "-exec")
    cp, tp = os.path.join(d, "histories.ndjson"), os.path.join(d, "trace.ndjson")
    core.write_ndjson(cp, hists)
    core.run_vh(vh, ["gltf-session-exec", "-in", cp, "-out", tp], timeout=1500)
    with open(tp) as f:
        raw = f.readlines()
    if len(raw) != sum(len(h["session"]) for h in hists):
        raise core.Infra("gltf-session-exec wrote %d lines for %d exports" % (len(raw), sum(len(h["session"]) for h in hists)))
    heads = []
    for ln in raw:
        try:
            heads.append(json.loads(ln[:ln.index(',"src"')] + "}"))
        except ValueError:
            raise core.Infra("gltf-session-exec wrote a line without a header")
    results = core.validate_sharded(ctx, name, "TraceGltfSession", "TraceGltfSession.cfg", raw, is_boundary=lambda ln: True,
                                    timeout=1500, heap="3g")
    verdicts, base = [], 0
    for sh, r in results:
        got = {v["l"]: v for v in r.values if isinstance(v, dict) and "bad" in v and "l" in v}
        if len(got) != len(sh):
            raise core.Infra("session judge printed %d verdicts for %d lines" % (len(got), len(sh)))
        verdicts += [got[i + 1] for i in range(len(sh))]
        base += len(sh)
    findings, ex = [], {}
    stats = {"valid_after_failure_with_payload": 0, "valid_exports": 0, "refused_exports": 0}
    for i, (hd, v) in enumerate(zip(heads, verdicts)):
        for e in v["ex"]:
            ex[e] = ex.get(e, 0) + 1
        hist = hists[hd["h"]]
        if hd["expect"] == "OK":
            stats["valid_exports"] += 1
            if i > 0 and heads[i - 1]["expect"] == "FAIL" and heads[i - 1]["fd"] >= 1 and not hist["concurrent"]:
                stats["valid_after_failure_with_payload"] += 1
        else:
            stats["refused_exports"] += 1
        if not v["bad"]:
            continue
        fk, fd, j = _after(heads, i)
        for pred in v["bad"]:
            if hist["concurrent"]:
                where = "%s-concurrent" % hd["entry"]
            elif pred == "C06.SessionOutcome":
                dets = sorted(x.split(":", 1)[1] for x in v["det"] if x.startswith("SessionOutcome:"))
                where = "%s-%s@%d-%s" % (hd["entry"], hd["fk"], hd["fd"], "+".join(dets))
            else:
                where = "%s-after-%s@%d" % (hd["entry"], fk, fd)
            # replay: the whole history (and the history of the failed export before it, when that is another one)
            need = [hist]
            if j >= 0 and heads[j]["h"] != hd["h"]:
                need = [hists[heads[j]["h"]], hist]
            findings.append({"pred": pred, "sig": "%s/session:%s" % (pred, where), "histories": need, "entry": hd["entry"],
                             "h": hd["h"], "p": hd["p"], "after": "%s@%d" % (fk, fd), "base": signature(pred, v["det"])})
    ctx.traces += len(hists)
    ctx.evaluations += len(raw)
    return findings, ex, len(raw), stats


def session_report(ctx, findings):
    for f in findings:
        if f["pred"].startswith("Harness."):
            raise core.Infra("harness inconsistency %s on export %d of history %d" % (f["pred"], f["p"], f["h"]))
    seen = set()
    for f in findings:
        if not f["pred"].startswith(PID + ".") or f["sig"] in seen:
            continue
        seen.add(f["sig"])
        what = ("%s rejected export %d (%s) of a history of %d exports executed in one process; the failed export before it: %s "
                "(kind@models already in the payload); as a single scene the predicate reads %s" %
                (f["pred"], f["p"], f["entry"], len(f["histories"][-1]["session"]), f["after"], f["base"]))
        ctx.violation(f["sig"], what, {"family": "gltf", "session": {"histories": f["histories"]}, "pred": f["pred"]})


def session_confirm(ctx, vh, findings):
    """Every distinct signature is re-executed from its replay object (whole histories, a new process)."""
    firsts = {}
    for f in findings:
        if f["pred"].startswith(PID + "."):
            firsts.setdefault(f["sig"], f)
    for n, (sig, f) in enumerate(sorted(firsts.items())[:6]):
        for attempt in range(3):
            again, _, _, _ = session_exec_and_judge(ctx, vh, f["histories"], name="session-confirm-%d-%d" % (n, attempt))
            if any(a["sig"] == sig for a in again):
                break
        else:
            raise core.Infra("session finding %s did not reproduce when its histories were executed again (3 attempts)" % sig)


SESSION_REQUIRED = ["session-written", "session-refused-nilmesh", "session-refused-alphacutoff", "session-refused-anim", "glb", "text",
                    "multi-model", "instances", "empty-model-skipped", "mesh-pointer-shared"]


def session_stage(ctx, vh, notes):
    hists = generate_histories(ctx, notes)
    findings, ex, nlines, stats = session_exec_and_judge(ctx, vh, hists)
    session_confirm(ctx, vh, findings)
    notes["session"] = dict(stats, histories=len(hists), lines_judged=nlines, exercised=dict(sorted(ex.items())))
    by = {}
    for f in findings:
        by[f["sig"]] = by.get(f["sig"], 0) + 1
    notes["session_rejections_by_signature"] = by
    missing = [t for t in SESSION_REQUIRED if ex.get(t, 0) == 0]
    if not findings and (missing or stats["valid_after_failure_with_payload"] == 0):
        raise core.Infra("vacuity guard (session): not exercised %s, valid exports right after a failure with payload: %d" %
                         (missing, stats["valid_after_failure_with_payload"]))
    return findings


# --------------------------------------------------------------------------
# binding self-test: corrupt one logged field of an accepted line, TLC must reject it
# --------------------------------------------------------------------------

def _corruptions():
    def acc_val(ln):
        # an element strictly between the bounds: min/max stay true, only the content changes
        def key(b):
            return b if b >= 0 else -(b + 2147483647) - 1
        o = ln["out"]
        for m in o["meshes"]:
            p = m["prims"][0]
            if p["idx"] < 0 or not o["accs"][p["idx"]]["full"]:
                continue
            referenced = {v[0] for v in o["accs"][p["idx"]]["vals"]}
            for at in p["attrs"]:
                a = o["accs"][at["acc"]]
                if a["comp"] == 5126 and a["full"] and a["count"] >= 3:
                    ks = [key(v[0]) for v in a["vals"]]
                    for i, k in enumerate(ks):
                        if i in referenced and min(ks) + 4 < k < max(ks) - 4 and a["vals"][i][0] > 0:
                            a["vals"][i][0] ^= 1
                            return True
        return False

    def view_off(ln):
        # shift a view that is not the last one of its buffer (it stays inside the buffer)
        o = ln["out"]
        used = {a["view"] for a in o["accs"] if a["comp"] == 5126}
        for i, v in enumerate(o["views"]):
            if i in used and v["off"] + v["len"] + 2 <= o["buffers"][v["buf"]]["len"]:
                v["off"] += 2
                return True
        return False

    def decl_min(ln):
        for a in ln["out"]["accs"]:
            if a["hasMin"] and a["comp"] == 5126 and a["min"][0] >= 0:
                a["min"][0] += 1
                return True
        return False

    def ext_used(ln):
        if ln["out"]["extUsed"]:
            ln["out"]["extUsed"] = ln["out"]["extUsed"][1:]
            return True
        return False

    def node_t(ln):
        for n in ln["out"]["nodes"]:
            if n["mesh"] != -1 and n["t"]:
                n["t"][0][2] ^= 1
                return True
        return False

    def mat_leaf(ln):
        for m in ln["out"]["mats"]:
            for lf in m["leaves"]:
                if lf["p"] == "pbrMetallicRoughness.metallicFactor":
                    lf["v"] += 125
                    return True
        return False

    def total(ln):
        if ln["out"]["cont"]["kind"] == "glb":
            ln["out"]["cont"]["total"] += 4
            return True
        return False

    def index(ln):
        for m in ln["out"]["meshes"]:
            p = m["prims"][0]
            if p["idx"] >= 0 and p["attrs"]:
                ia = ln["out"]["accs"][p["idx"]]
                if ia["full"]:
                    n = ln["out"]["accs"][p["attrs"][0]["acc"]]["count"]
                    ia["vals"][0][0] = n
                    ia["sum"]["max"][0] = max(ia["sum"]["max"][0], n)
                    ia["sum"]["emax"][0] = ia["sum"]["max"][0]
                    return True
        return False

    def src_value(ln):
        for m in ln["src"]["meshes"]:
            if not m["big"] and m["ni"] > 0:
                for a in m["attrs"]:
                    if a["data"]:
                        a["data"][m["idx"][0]][0] ^= 1
                        return True
        return False

    def drop_mat(ln):
        for m in ln["out"]["meshes"]:
            if m["prims"][0]["mat"] >= 0:
                m["prims"][0]["mat"] = -1
                return True
        return False

    def is_nan(b):
        return (b & 0x7F800000) == 0x7F800000 and (b & 0x007FFFFF) != 0

    def short_payload(ln):
        # what a writer that counts an element it did not append produces: fewer bytes than byteLength
        for b in ln["out"]["buffers"]:
            if b["payload"] >= b["len"] >= 8:
                b["payload"] = b["len"] - 8
                return True
        return False

    def nan_accessors(ln):
        o = ln["out"]
        for m in o["meshes"]:
            p = m["prims"][0]
            if p["idx"] < 0 or not o["accs"][p["idx"]]["full"]:
                continue
            referenced = {v[0] for v in o["accs"][p["idx"]]["vals"]}
            for at in p["attrs"]:
                a = o["accs"][at["acc"]]
                if a["comp"] == 5126 and a["full"]:
                    yield a, referenced

    def resum(a):
        # keep the harness summaries of the corrupted accessor consistent: the self-test is about the property
        # predicates, Harness.Decode would stop the judge before them
        def key(b):
            return b if b >= 0 else -(b + 2147483647) - 1
        nc = len(a["vals"][0])
        clean = [row for row in a["vals"] if not any(is_nan(b) for b in row)]
        a["sum"]["enan"] = len(a["vals"]) - len(clean)
        for c in range(nc):
            good = [row[c] for row in a["vals"] if not is_nan(row[c])]
            a["sum"]["nan"][c] = len(a["vals"]) - len(good)
            a["sum"]["min"][c] = min(good, key=key) if good else 0
            a["sum"]["max"][c] = max(good, key=key) if good else 0
            a["sum"]["emin"][c] = min((r[c] for r in clean), key=key) if clean else 0
            a["sum"]["emax"][c] = max((r[c] for r in clean), key=key) if clean else 0

    def nan_to_number(ln):
        for a, referenced in nan_accessors(ln):
            for i, row in enumerate(a["vals"]):
                for c, b in enumerate(row):
                    if i in referenced and is_nan(b):
                        row[c] = 0
                        resum(a)
                        return True
        return False

    def number_to_nan(ln):
        for a, referenced in nan_accessors(ln):
            for i, row in enumerate(a["vals"]):
                if i in referenced and not any(is_nan(b) for b in row):
                    row[0] = 0x7FC00000
                    resum(a)
                    return True
        return False

    def nan_bound(ln):
        # the declared maximum of a component that holds NaNs AND numbers
        for a, _ in nan_accessors(ln):
            if not a["hasMax"]:
                continue
            for c in range(len(a["max"])):
                col = [row[c] for row in a["vals"]]
                if any(is_nan(b) for b in col) and any(not is_nan(b) for b in col) and 0 <= a["max"][c] < 0x7F000000:
                    a["max"][c] += 1
                    return True
        return False

    return [
        ("payload shorter than byteLength", short_payload, {"C06.BufferPayload"}),
        ("stored NaN replaced by a number", nan_to_number, {"C06.AttrData"}),
        ("stored number replaced by a NaN", number_to_nan, {"C06.AttrData"}),
        ("declared maximum of a component holding NaNs", nan_bound, {"C06.MinMax"}),
        ("decoded accessor element", acc_val, {"C06.AttrData", "C06.Instances"}),
        ("buffer view offset", view_off, {"C06.Aligned"}),
        ("declared minimum", decl_min, {"C06.MinMax"}),
        ("extensionsUsed entry", ext_used, {"C06.ExtDeclared"}),
        ("node translation", node_t, {"C06.NodeTRS"}),
        ("material factor", mat_leaf, {"C06.MaterialRef"}),
        ("GLB total length", total, {"C06.Container"}),
        ("index value", index, {"C06.IndexValues"}),
        ("source attribute value", src_value, {"C06.AttrData"}),
        ("primitive material reference", drop_mat, {"C06.MaterialRef"}),
    ]


def self_test(ctx, vh, notes):
    d = ctx.scratch("selftest")
    p = os.path.join(d, "r.ndjson")
    core.run_vh(vh, ["gltf-random", "-out", p, "-seed", str(ctx.seed + 1000), "-n", "150", "-maxv", "8", "-big", "0",
                     "-special", "80"])
    tp = os.path.join(d, "trace.ndjson")
    core.run_vh(vh, ["gltf-exec", "-in", p, "-out", tp])
    with open(tp) as f:
        raw = f.readlines()
    verdicts = judge_trace(ctx, "selftest-base", raw)
    accepted = [json.loads(raw[i]) for i, v in verdicts if not v["bad"]]
    if len(accepted) < 20:
        raise core.Infra("self-test: only %d accepted lines to corrupt" % len(accepted))
    lines, expect = [], []
    for what, fn, preds in _corruptions():
        done = False
        for ln in accepted:
            c = copy.deepcopy(ln)
            if fn(c):
                lines.append(json.dumps(c, separators=(",", ":")) + "\n")
                expect.append((what, preds))
                done = True
                break
        if not done:
            raise core.Infra("self-test: no accepted line offers a '%s' to corrupt" % what)
    res = judge_trace(ctx, "selftest-corrupt", lines)
    caught = {}
    for (i, v), (what, preds) in zip(res, expect):
        if not (set(v["bad"]) & preds):
            raise core.Infra("binding self-test: corrupting the %s of an accepted trace line was not rejected by %s (got %s)" %
                             (what, sorted(preds), v["bad"]))
        caught[what] = sorted(set(v["bad"]))
    notes["self_test_corruptions_rejected"] = caught


# --------------------------------------------------------------------------

def run(ctx):
    vh = core.build_vh()
    notes = {}
    design_check(ctx, notes)
    cases = generate_cases(ctx, notes)
    cases += random_cases(ctx, vh, notes)
    findings, ex, nlines = execute_and_judge(ctx, vh, cases)
    confirm(ctx, vh, findings)
    sfindings = session_stage(ctx, vh, notes)
    if ctx.tier == "thorough":
        self_test(ctx, vh, notes)
    ctx.extra.update(notes)
    ctx.extra["exercised_lines"] = dict(sorted(ex.items()))
    ctx.extra["lines_judged"] = nlines
    ctx.extra["index_width_not_narrowest"] = ex.get("index-width-not-narrowest", 0)
    by_pred = {}
    for f in findings:
        by_pred[f["sig"]] = by_pred.get(f["sig"], 0) + 1
    ctx.extra["rejections_by_signature"] = by_pred
    ctx.rule = ("a case is a scene (models over pools of mesh / material / texture objects, TRS, GPU instances, lights) written "
                "by the real code once as .glb and once as .gltf; scenes come from TLC (BFS / -simulate of the GltfWriter model) "
                "and from the seeded generator (larger meshes, arbitrary doubles, 65 535 / 65 536 vertices, power-of-two sizes); "
                "some meshes / GPU instances carry special IEEE values (NaN, +-Inf, -0, subnormal, float32 limits and beyond); "
                "every 10th / 4th scene is also written a second time from the same objects; distinct by "
                "(models, lights, pools); non-trivial if it has >= 2 live models or instances, lights, a material")
    ctx.nontrivial = len({json.dumps(c, sort_keys=True) for c in cases
                          if len(c["models"]) >= 2 or c["lights"] or any(m["mat"] or m["inst"] for m in c["models"])})
    for c in cases[:1] + cases[-1:]:
        ctx.sample({"tag": c["tag"], "models": [dict(mesh=m["mesh"], mat=m["mat"], inst=len(m["inst"])) for m in c["models"]],
                    "lights": len(c["lights"])})
    report(ctx, findings)
    session_report(ctx, sfindings)
    # vacuity guard (a rejected file may hide what it would have exercised: verdicts go first)
    missing = [t for t in REQUIRED if ex.get(t, 0) == 0]
    known = {k["signature"] for k in core.load_known() if k.get("property") == PID and k.get("status") == "open"}
    if missing and all(v["signature"] in known for v in ctx.violations):
        raise core.Infra("vacuity guard: no produced file exercised %s" % missing)
    ctx.extra["not_exercised"] = missing
    ctx.assumptions += [
        "the independent reader (harness/gltffam/parse.go) and the source projection (srcproj.go) are faithful",
        "float32 images are compared on IEEE bit patterns (any NaN equals any NaN); declared min/max are rounded to float32 as "
        "glTF 2.0 prescribes and are per-component bounds of the stored values that are numbers",
        "a returned error is an allowed outcome only for a scene holding a NaN / +-Inf (no glTF document can carry it)",
        "mesh nodes of the default scene are matched to non-empty models by order",
        "material colours are judged within the writer's documented 3-decimal rounding (1/2000)",
        "TLC evaluates GltfDoc / TraceGltf correctly",
    ]


def replay(ctx, path):
    with open(path) as f:
        obj = json.load(f)
    vh = core.build_vh()
    if "session" in obj["case"]:
        # the whole history is executed again in one new process
        sf, _, _, _ = session_exec_and_judge(ctx, vh, obj["case"]["session"]["histories"], name="replay-session")
        for f in sf:
            print("replay: %s (export %d of history %d)" % (f["sig"], f["p"], f["h"]))
        session_report(ctx, sf)
        ctx.rule = "replay of one recorded export history"
        ctx.nontrivial = 1
        ctx.sample({"replayed": path})
        return
    findings, ex, _ = execute_and_judge(ctx, vh, [obj["case"]["scene"]], name="replay")
    for f in findings:
        print("replay: %s (%s file)" % (f["sig"], f["kind"]))
    report(ctx, findings)
    ctx.rule = "replay of one recorded scene"
    ctx.nontrivial = 1
    ctx.sample({"replayed": path})
