"""X07 -- skinned and animated models survive the glTF writer (extra coverage, on top of C06).

generator (TLC: specs/GltfAnimWriter.tla, the implementation-shaped model of AddScene's node /
skin / animation bookkeeping, BFS and -simulate; plus the seeded generator of the harness for
skeletons, sequences and scenes of sizes TLC does not enumerate)
  -> executor (vh xanim-exec: real gltf.WriteBinary / gltf.WriteText on real animation.Skeleton /
     animation.Sequence objects, independent reader of gltffam + skins / animations tables)
  -> judge (TLC: specs/TraceGltfAnim.tla evaluating specs/GltfAnim.tla and, for everything C06
     already says about a file, specs/GltfDoc.tla through specs/TraceGltf.tla).

Also checked on the specification itself: the design properties of GltfAnimWriter in the repaired
configuration, and one counterexample per behaviour of the tree as it was found.
"""
import copy
import json
import os
import shutil
from concurrent.futures import ThreadPoolExecutor

from vlib import core

PID = "X07"


def _cfg(path, consts, invariants, emit=None):
    def fmt(v):
        if isinstance(v, bool):
            return "TRUE" if v else "FALSE"
        if isinstance(v, (set, list, tuple)):
            return "{" + ", ".join(str(x) for x in sorted(v)) + "}"
        return str(v)
    with open(path, "w") as f:
        f.write("CONSTANTS\n")
        for k, v in consts.items():
            f.write("  %s = %s\n" % (k, fmt(v)))
        f.write("SPECIFICATION Spec\n")
        inv = list(invariants) + ([emit] if emit else [])
        if inv:
            f.write("INVARIANTS %s\n" % " ".join(inv))
        f.write("CHECK_DEADLOCK FALSE\n")


FIXED = dict(HardOffset=False, Overwrite=False, SamplerI=False, Mutate=False, Dedup=True, Validate=True, AllowUnrigged=False)


# --------------------------------------------------------------------------
# design-level check of the L2 model
# --------------------------------------------------------------------------

ORIG = [("GltfAnimWriterOrigOffset.cfg", "L2Joints"), ("GltfAnimWriterOrigOffsetChildren.cfg", "L2Children"),
        ("GltfAnimWriterOrigOverwrite.cfg", "L2SkinRef"), ("GltfAnimWriterOrigSampler.cfg", "L2Sampler"),
        ("GltfAnimWriterOrigMutate.cfg", "L2CallerUntouched"), ("GltfAnimWriterOrigNoDedup.cfg", "L2SharedOnce"),
        ("GltfAnimWriterOrigNoValidate.cfg", "L2NoPanic"), ("GltfAnimWriterOrigWritesBad.cfg", "L2NothingBadWritten")]


def design_check(ctx, notes):
    d = ctx.scratch("design-cfg")
    runs = list(ORIG)
    if ctx.tier == "quick":
        small = dict(MeshIds={1, 2, 3, 6}, SkelIds={2, 4, 6}, AnimKinds={0, 3, 5, 7}, TrsKinds={0}, MaxModels=2, MaxLights=1, **FIXED)
        _cfg(os.path.join(d, "Fixed2.cfg"), small, ["L2All"])
        runs += [(os.path.join(d, "Fixed2.cfg"), None)]
    else:
        runs += [("GltfAnimWriterFixed.cfg", None)]
        deep = dict(MeshIds={1, 2, 3, 5, 6}, SkelIds={1, 4, 6, 9}, AnimKinds={0, 4, 10}, TrsKinds={0}, MaxModels=3, MaxLights=1, **FIXED)
        _cfg(os.path.join(d, "DeepFixed.cfg"), deep, ["L2All"])
        runs += [(os.path.join(d, "DeepFixed.cfg"), None)]

    def one(item):
        cfg, expect = item
        name = os.path.basename(cfg)
        files = [(cfg, name)] if os.path.isabs(cfg) else []
        r = core.run_tlc(ctx.scratch("design-" + name), "GltfAnimWriter", name, files=files, workers=2, timeout=1500, heap="4g")
        return name, expect, r

    with ThreadPoolExecutor(max_workers=max(1, min(len(runs), core.NCPU // 2))) as ex:
        results = list(ex.map(one, runs))
    design = {}
    for name, expect, r in results:
        ctx.add_tlc(r)
        design[name] = {"states": r.distinct, "transitions": r.generated, "violated": r.violated}
        if expect is None and r.rc != 0:
            raise core.Infra("GltfAnimWriter/%s: design property %s fails on the repaired design (model bug)" % (name, r.violated))
        if expect is not None and r.violated != expect:
            raise core.Infra("GltfAnimWriter/%s: expected the counterexample to %s, TLC reported %s" % (name, expect, r.violated))
    notes["design"] = design


# --------------------------------------------------------------------------
# cases
# --------------------------------------------------------------------------

ALL_SK = set(range(1, 10))
ALL_AN = set(range(0, 11))


def generator_plan(tier):
    """(name, constants, simulate-args|None)"""
    if tier == "quick":
        return [
            # every skeleton shape x every kind of sequence list, one model
            ("shapes", dict(MeshIds={2, 3, 5}, SkelIds=ALL_SK, AnimKinds=ALL_AN, TrsKinds={0}, MaxModels=1, MaxLights=0), None),
            # every ordered pair: plain / skinned / animated / invalid / skipped, shared and distinct skeletons, then a light
            ("pairs", dict(MeshIds={1, 2, 6}, SkelIds={2, 6}, AnimKinds={0, 3, 5}, TrsKinds={0}, MaxModels=2, MaxLights=1), None),
            # a skeleton on a mesh without Joint / Weight (mesh 1) or rigged for more joints than it has (mesh 5 on 1, 2)
            ("unrigged", dict(MeshIds={1, 2, 5}, SkelIds={1, 2, 5}, AnimKinds={0, 1}, TrsKinds={0}, MaxModels=1, MaxLights=0,
                              AllowUnrigged=True), None),
            ("walks", dict(MeshIds={1, 2, 3, 4, 5, 6}, SkelIds=ALL_SK, AnimKinds={0, 1, 2, 3, 4}, TrsKinds={0, 1}, MaxModels=4, MaxLights=1),
             dict(num=100, depth=6)),
        ]
    return [
        ("shapes", dict(MeshIds={2, 3, 4, 5}, SkelIds=ALL_SK, AnimKinds=ALL_AN, TrsKinds={0, 1}, MaxModels=1, MaxLights=1), None),
        ("pairs", dict(MeshIds={1, 2, 4, 6}, SkelIds={2, 6, 8}, AnimKinds={0, 3, 5, 8}, TrsKinds={0}, MaxModels=2, MaxLights=1), None),
        ("triples", dict(MeshIds={1, 2, 6}, SkelIds={2, 4}, AnimKinds={0, 3, 6}, TrsKinds={0}, MaxModels=3, MaxLights=0), None),
        ("unrigged", dict(MeshIds={1, 2, 3, 5}, SkelIds={1, 2, 5}, AnimKinds={0, 1, 5}, TrsKinds={0}, MaxModels=2, MaxLights=0,
                          AllowUnrigged=True), None),
        ("walks", dict(MeshIds={1, 2, 3, 4, 5, 6}, SkelIds=ALL_SK, AnimKinds=ALL_AN, TrsKinds={0, 1}, MaxModels=5, MaxLights=2),
         dict(num=1000, depth=8)),
    ]


def generate_cases(ctx, notes):
    d = ctx.scratch("gen-cfg")
    plan = generator_plan(ctx.tier)

    def one(item):
        name, consts, sim = item
        consts = dict(FIXED, **consts)
        cfg = os.path.join(d, "Gen_%s.cfg" % name)
        _cfg(cfg, consts, [], emit="EmitLeaf" if sim else "Emit")
        if sim:
            kw = dict(simulate="num=%d" % sim["num"], depth=sim["depth"], seed=ctx.seed, workers=1)
        else:
            kw = dict(workers=max(1, min(4, core.NCPU // 2)))
        r = core.run_tlc(ctx.scratch("gen-" + name), "GltfAnimWriter", os.path.basename(cfg), files=[(cfg, os.path.basename(cfg))],
                         timeout=1500, heap="4g", **kw)
        if r.rc != 0:
            raise core.Infra("generator GltfAnimWriter/%s failed (%s)" % (name, r.violated))
        return name, sim, r

    with ThreadPoolExecutor(max_workers=max(1, min(len(plan), core.NCPU // 2))) as ex:
        results = list(ex.map(one, plan))
    cases, seen, per = [], set(), {}
    for name, sim, r in results:
        n = 0
        for v in r.values:
            if not (isinstance(v, dict) and "xm" in v):
                continue
            key = json.dumps([v["models"], v["lights"], v["xm"]], sort_keys=True)
            if key in seen:
                continue
            seen.add(key)
            v["tag"] = "l2-" + name
            # every fifth scene is also written a second time from the same objects (skeleton pointers included)
            k = (len(cases) + ctx.seed) % 10
            if k in (0, 5):
                v["kinds"] = ["glb", "text", "glb-again" if k == 0 else "text-again"]
            elif ctx.tier == "quick":
                # nothing X07 adds depends on the container (C06 judges both for every scene of its own): the quick tier
                # writes the other scenes in one container, alternating; the thorough tier in both
                v["kinds"] = ["glb" if len(cases) % 2 == 0 else "text"]
            cases.append(v)
            n += 1
        per[name] = n
        if sim:
            ctx.transitions += r.generated
        else:
            ctx.add_tlc(r)
    notes["generated_scenes"] = per
    return cases


def random_cases(ctx, vh, notes):
    d = ctx.scratch("rnd")
    n, maxv, maxj, maxf = (240, 10, 8, 8) if ctx.tier == "quick" else (2000, 24, 14, 30)
    p = os.path.join(d, "r.ndjson")
    core.run_vh(vh, ["xanim-random", "-out", p, "-seed", str(ctx.seed), "-n", str(n), "-maxv", str(maxv), "-maxj", str(maxj),
                     "-maxf", str(maxf)])
    cases = core.read_ndjson(p)
    if ctx.tier == "quick":
        for i, c in enumerate(cases):
            if not c["kinds"]:
                c["kinds"] = ["glb" if i % 2 == 0 else "text"]
    notes["random_scenes"] = len(cases)
    return cases


# --------------------------------------------------------------------------
# execute on the real code and judge
# --------------------------------------------------------------------------

def judge_trace(ctx, name, raw):
    results = core.validate_sharded(ctx, name, "TraceGltfAnim", "TraceGltfAnim.cfg", raw, is_boundary=lambda ln: True,
                                    timeout=3000, heap="3g")
    out, base = [], 0
    for sh, r in results:
        got = {}
        for v in r.values:
            if isinstance(v, dict) and "bad" in v and "l" in v:
                got[v["l"]] = v
        if len(got) != len(sh):
            raise core.Infra("judge printed %d verdicts for %d lines in a shard of %s" % (len(got), len(sh), name))
        for i in range(len(sh)):
            out.append((base + i, got[i + 1]))
        base += len(sh)
    return out


def signature(pred, det):
    short = pred.split(".", 1)[1]
    ds = sorted(x.split(":", 1)[1] for x in det if x.startswith(short + ":"))
    return pred + ("/" + "+".join(ds) if ds else "")


def execute_and_judge(ctx, vh, cases, name="main", batch=4000):
    findings, ex, nlines = [], {}, 0
    for b0 in range(0, len(cases), batch):
        part = cases[b0:b0 + batch]
        d = ctx.scratch("%s-exec-%d" % (name, b0))
        cp = os.path.join(d, "cases.ndjson")
        core.write_ndjson(cp, part)
        tp = os.path.join(d, "trace.ndjson")
        core.run_vh(vh, ["xanim-exec", "-in", cp, "-out", tp], timeout=3000)
        with open(tp) as f:
            raw = f.readlines()
        nlines += len(raw)
        for i, v in judge_trace(ctx, "%s-%d" % (name, b0), raw):
            for e in v["ex"]:
                ex[e] = ex.get(e, 0) + 1
            if not v["bad"]:
                continue
            head = json.loads(raw[i][:raw[i].index(',"src"')] + "}")
            for pred in v["bad"]:
                findings.append({"pred": pred, "sig": signature(pred, v["det"]), "case": part[head["c"]], "kind": head["kind"],
                                 "c": b0 + head["c"], "tag": head["tag"]})
        if ctx.tier == "thorough" and os.environ.get("VERIF_KEEP_WORK") != "1":
            shutil.rmtree(d, ignore_errors=True)
            for f in os.listdir(ctx.work):
                if f.startswith("%s-%d-shard" % (name, b0)):
                    shutil.rmtree(os.path.join(ctx.work, f), ignore_errors=True)
    ctx.traces += len(cases)
    ctx.evaluations += nlines
    return findings, ex, nlines


REQUIRED = ["glb", "text", "glb-again", "text-again", "scene-valid", "scene-invalid", "invalid-refused",
            "invalid-no-skeleton", "invalid-mesh-not-rigged", "invalid-unknown-joint", "invalid-no-frames", "invalid-times-not-increasing", "invalid-negative-time",
            "skinned", "no-skin", "skinned-and-plain", "skinned-not-first", "two-skeletons", "skeleton-shared",
            "empty-skinned-model-skipped", "skeleton-single-joint", "skeleton-chain", "skeleton-star", "skeleton-tree",
            "skeleton-depth>=3", "joint-oriented", "positions-off-lattice", "skinned-no-sequence", "sequence-one-frame",
            "sequence-several-frames", "several-sequences", "sequence-on-inner-joint", "two-animated-models", "skinned-with-light",
            "skinned-with-trs", "rigged-mesh-without-skin", "bind-pose-judged", "rig-judged", "weight-sum-judged",
            "skin-accessor-after-odd-indices", "l2-agrees"]


def shrink(case, kind):
    c = copy.deepcopy(case)
    c["kinds"] = [kind]
    return c


def describe(case):
    return [dict(mesh=m["mesh"], skel=x["skel"], seqs=[len(q["fr"]) for q in x["anims"]]) for m, x in zip(case["models"], case["xm"])]


def report(ctx, findings):
    for f in findings:
        if f["pred"].startswith("Harness."):
            raise core.Infra("harness inconsistency %s on case %d (%s)" % (f["pred"], f["c"], f["tag"]))
    seen = set()
    for f in findings:
        if not f["pred"].startswith(PID + ".") or f["sig"] in seen:
            continue
        seen.add(f["sig"])
        what = "%s rejected the %s file written for a %s scene: models %s" % (f["pred"], f["kind"], f["tag"],
                                                                            json.dumps(describe(f["case"]))[:300])
        ctx.violation(f["sig"], what, {"family": "xanim", "scene": shrink(f["case"], f["kind"]), "pred": f["pred"]})


def confirm(ctx, vh, findings):
    """Every distinct signature is re-executed once from its replay object before it is reported."""
    firsts = {}
    for f in findings:
        if f["pred"].startswith(PID + "."):
            firsts.setdefault(f["sig"], f)
    if not firsts:
        return
    sigs = sorted(firsts)
    again, _, _ = execute_and_judge(ctx, vh, [shrink(firsts[s]["case"], firsts[s]["kind"]) for s in sigs], name="confirm")
    got = {(f["c"], f["sig"]) for f in again}
    for i, s in enumerate(sigs):
        if (i, s) not in got:
            raise core.Infra("finding %s did not reproduce when its scene was executed again" % s)


# --------------------------------------------------------------------------
# binding self-test: corrupt one logged field of an accepted line, TLC must reject it
# --------------------------------------------------------------------------

def _resum(a):
    """keep the harness summaries of a corrupted accessor consistent: the self-test is about the property predicates,
    Harness.Decode (GltfDoc!SumConsistent) would stop the judge before them"""
    def key(b):
        if a["comp"] != 5126:
            return b
        return b if b >= 0 else -(b + 2147483647) - 1

    def is_nan(b):
        return a["comp"] == 5126 and (b & 0x7F800000) == 0x7F800000 and (b & 0x007FFFFF) != 0
    nc = len(a["vals"][0])
    clean = [row for row in a["vals"] if not any(is_nan(b) for b in row)]
    a["sum"]["enan"] = len(a["vals"]) - len(clean)
    for c in range(nc):
        good = [row[c] for row in a["vals"] if not is_nan(row[c])]
        a["sum"]["nan"][c] = len(a["vals"]) - len(good)
        a["sum"]["min"][c] = min(good, key=key) if good else 0
        a["sum"]["max"][c] = max(good, key=key) if good else 0
        a["sum"]["emin"][c] = min((r[c] for r in clean), key=key) if clean else 0
        a["sum"]["emax"][c] = max((r[c] for r in clean), key=key) if clean else 0


def _corruptions():

    def joint_ref(ln):          # skin.joints names another node
        for s in ln["xo"]["skins"]:
            if len(s["joints"]) >= 2:
                s["joints"][0], s["joints"][1] = s["joints"][1], s["joints"][0]
                return True
        return False

    def ibm_count(ln):          # one matrix more than the skin has joints
        for s in ln["xo"]["skins"]:
            if len(s["joints"]) >= 2 and s["ibm"] >= 0:
                s["joints"] = s["joints"][:-1]
                return True
        return False

    def ibm_value(ln):          # one component of a stored inverse bind matrix
        for s in ln["xo"]["skins"]:
            if s["ibm"] >= 0 and ln["out"]["accs"][s["ibm"]]["full"]:
                a = ln["out"]["accs"][s["ibm"]]
                a["vals"][0][12] ^= 1 << 22
                _resum(a)
                return True
        return False

    def ibm_source(ln):         # one component of Skeleton.InverseBindMatrix on the source side
        for m, sm in zip(ln["xs"]["models"], ln["src"]["models"]):
            if m["skel"] and not sm["empty"]:
                ln["xs"]["skels"][m["skel"] - 1]["ibm"][0][13] ^= 1 << 22
                return True
        return False

    def ibm_lattice(ln):        # the integer image of the same matrix (bind pose)
        for s in ln["xo"]["skins"]:
            if s["ibmx"] and s["ibmq"]:
                s["ibmq"][0][13] += 1024
                return True
        return False

    def child(ln):              # a joint node loses a child
        for s in ln["xo"]["skins"]:
            for j in s["joints"]:
                n = ln["out"]["nodes"][j]
                if n["children"]:
                    n["children"] = n["children"][1:]
                    return True
        return False

    def node_skin(ln):          # the mesh node forgets its skin
        for n in ln["out"]["nodes"]:
            if n["skin"] >= 0:
                n["skin"] = -1
                return True
        return False

    def joint_t(ln):            # a joint node's translation
        for s in ln["xo"]["skins"]:
            n = ln["out"]["nodes"][s["joints"][-1]]
            if n["t"]:
                n["t"][1][2] ^= 1
                return True
        return False

    def joint_index(ln):        # a JOINTS_0 value beyond the skin
        o = ln["out"]
        for n in o["nodes"]:
            if n["skin"] >= 0 and n["mesh"] >= 0:
                nj = len(ln["xo"]["skins"][n["skin"]]["joints"])
                for at in o["meshes"][n["mesh"]]["prims"][0]["attrs"]:
                    if at["sem"] == "JOINTS_0":
                        a = o["accs"][at["acc"]]
                        a["vals"][0][0] = nj
                        _resum(a)
                        return True
        return False

    def weight(ln):             # a weight row that no longer sums to one
        o = ln["out"]
        for n in o["nodes"]:
            if n["skin"] >= 0 and n["mesh"] >= 0:
                for at in o["meshes"][n["mesh"]]["prims"][0]["attrs"]:
                    if at["sem"] == "WEIGHTS_0":
                        a = o["accs"][at["acc"]]
                        for r in a["vals"]:
                            if r[0] == 1065353216:
                                r[0] = 1056964608      # 1.0 -> 0.5
                                _resum(a)
                                return True
        return False

    def anim(ln):
        return ln["xo"]["anims"]

    def sampler_ref(ln):
        for a in anim(ln):
            a["channels"][0]["sampler"] = len(a["samplers"])
            return True
        return False

    def target(ln):
        for a in anim(ln):
            for s in ln["xo"]["skins"]:
                if len(s["joints"]) >= 2:
                    c = a["channels"][0]
                    c["node"] = [j for j in s["joints"] if j != c["node"]][0]
                    return True
        return False

    def path(ln):
        for a in anim(ln):
            a["channels"][0]["path"] = "scale"
            return True
        return False

    def interp(ln):
        for a in anim(ln):
            a["samplers"][a["channels"][0]["sampler"]]["interp"] = "STEP"
            return True
        return False

    def time_order(ln):         # two equal key times in the stored input
        for a in anim(ln):
            acc = ln["out"]["accs"][a["samplers"][a["channels"][0]["sampler"]]["input"]]
            if acc["full"] and acc["count"] >= 3:
                acc["vals"][1][0] = acc["vals"][2][0]
                _resum(acc)
                return True
        return False

    def time_value(ln):         # a key time of the SOURCE
        for m, sm in zip(ln["xs"]["models"], ln["src"]["models"]):
            for q in ([] if sm["empty"] else m["anims"]):
                if len(q["t"]) >= 3:
                    q["t"][1] += 1
                    return True
        return False

    def key_value(ln):
        for a in anim(ln):
            acc = ln["out"]["accs"][a["samplers"][a["channels"][0]["sampler"]]["output"]]
            if acc["full"] and acc["count"] >= 3:
                acc["vals"][1][1] ^= 1
                _resum(acc)
                return True
        return False

    def out_count(ln):
        for a in anim(ln):
            acc = ln["out"]["accs"][a["samplers"][a["channels"][0]["sampler"]]["output"]]
            if acc["full"] and acc["count"] >= 2:
                acc["count"] -= 1
                acc["vals"] = acc["vals"][:-1]
                _resum(acc)
                return True
        return False

    def no_min(ln):
        for a in anim(ln):
            acc = ln["out"]["accs"][a["samplers"][a["channels"][0]["sampler"]]["input"]]
            acc["hasMin"], acc["min"] = False, []
            return True
        return False

    def second_skin(ln):        # the skeleton two models share is stored twice
        o, xo = ln["out"], ln["xo"]
        nodes = [i for i, n in enumerate(o["nodes"]) if n["skin"] >= 0]
        if len(nodes) >= 2 and len({o["nodes"][i]["skin"] for i in nodes}) == 1 and len(xo["skins"]) == 1:
            xo["skins"].append(copy.deepcopy(xo["skins"][0]))
            o["nskins"] += 1
            o["nodes"][nodes[1]]["skin"] = 1
            return True
        return False

    def refused(ln):            # an invalid scene reported as written
        if ln["out"]["status"] == "FAIL":
            ln["out"]["status"] = "PANIC"
            return True
        return False

    return [
        ("skin.joints entry", joint_ref, {"X07.SkinMirrors", "X07.JointTRS"}),
        ("number of joints against the inverse bind accessor count", ibm_count, {"X07.SkinMatrices"}),
        ("stored inverse bind matrix", ibm_value, {"X07.InverseBind"}),
        ("source inverse bind matrix", ibm_source, {"X07.InverseBind"}),
        ("lattice image of an inverse bind matrix", ibm_lattice, {"X07.BindPose"}),
        ("children of a joint node", child, {"X07.SkinMirrors"}),
        ("node.skin", node_skin, {"X07.SkinAttached"}),
        ("joint node translation", joint_t, {"X07.JointTRS"}),
        ("JOINTS_0 value", joint_index, {"X07.JointIndices"}),
        ("WEIGHTS_0 row", weight, {"X07.Weights"}),
        ("channel.sampler", sampler_ref, {"X07.AnimRefs"}),
        ("channel.target.node", target, {"X07.AnimTarget"}),
        ("channel.target.path", path, {"X07.AnimTarget"}),
        ("sampler.interpolation", interp, {"X07.AnimInterp"}),
        ("order of stored key times", time_order, {"X07.AnimInput"}),
        ("source key time", time_value, {"X07.AnimTimes"}),
        ("stored key value", key_value, {"X07.AnimValues"}),
        ("output accessor count", out_count, {"X07.AnimOutput"}),
        ("declared minimum of the key times", no_min, {"X07.AnimInput"}),
        ("shared skeleton stored twice", second_skin, {"X07.SharedSkeleton"}),
        ("status of a refused scene", refused, {"X07.Refused"}),
    ]


def self_test(ctx, vh, notes):
    d = ctx.scratch("selftest")
    p = os.path.join(d, "r.ndjson")
    core.run_vh(vh, ["xanim-random", "-out", p, "-seed", str(ctx.seed + 1000), "-n", "300", "-maxv", "8", "-maxj", "6", "-maxf", "6"])
    tp = os.path.join(d, "trace.ndjson")
    core.run_vh(vh, ["xanim-exec", "-in", p, "-out", tp])
    with open(tp) as f:
        raw = f.readlines()
    verdicts = judge_trace(ctx, "selftest-base", raw)
    accepted = [json.loads(raw[i]) for i, v in verdicts if not v["bad"]]
    if len(accepted) < 40:
        raise core.Infra("self-test: only %d accepted lines to corrupt" % len(accepted))
    lines, expect = [], []
    cors = _corruptions()
    last = cors[-1][1]
    for what, fn, preds in cors:
        done = False
        for ln in accepted:
            if (ln["out"]["status"] == "OK") != (fn is not last):
                continue        # only the last corruption is about a refused scene; the others need a judged file
            c = copy.deepcopy(ln)
            if fn(c):
                lines.append(json.dumps(c, separators=(",", ":")) + "\n")
                expect.append((what, preds))
                done = True
                break
        if not done:
            raise core.Infra("self-test: no accepted line offers a '%s' to corrupt" % what)
    res = judge_trace(ctx, "selftest-corrupt", lines)
    caught = {}
    for (i, v), (what, preds) in zip(res, expect):
        if not (set(v["bad"]) & preds):
            raise core.Infra("binding self-test: corrupting the %s of an accepted trace line was not rejected by %s (got %s)" %
                             (what, sorted(preds), v["bad"]))
        caught[what] = sorted(set(v["bad"]))
    notes["self_test_corruptions_rejected"] = caught


# --------------------------------------------------------------------------

def nontrivial(c):
    return any(x["skel"] for x in c["xm"]) or any(x["anims"] for x in c["xm"])


def run(ctx):
    vh = core.build_vh()
    notes = {}
    design_check(ctx, notes)
    cases = generate_cases(ctx, notes)
    cases += random_cases(ctx, vh, notes)
    findings, ex, nlines = execute_and_judge(ctx, vh, cases)
    confirm(ctx, vh, findings)
    if ctx.tier == "thorough":
        self_test(ctx, vh, notes)
    ctx.extra.update(notes)
    ctx.extra["exercised_lines"] = dict(sorted(ex.items()))
    ctx.extra["lines_judged"] = nlines
    ctx.extra["l2_prediction"] = {"agrees": ex.get("l2-agrees", 0), "disagrees": ex.get("l2-disagrees", 0)}
    by_sig = {}
    for f in findings:
        by_sig[f["sig"]] = by_sig.get(f["sig"], 0) + 1
    ctx.extra["rejections_by_signature"] = by_sig
    ctx.rule = ("a case is a scene (models over pools of mesh and *animation.Skeleton objects; every model may carry a skeleton "
                "pointer and a list of Sequences; lights) written by the real code once as .glb and once as .gltf; scenes come from "
                "TLC (BFS / -simulate of the GltfAnimWriter model: 9 skeleton shapes, 11 kinds of sequence lists incl. 6 the format "
                "cannot carry, 6 meshes incl. an empty one) and from the seeded generator (random trees of up to 14 joints, up to 30 "
                "key frames, decimal positions, several skeletons); every fifth / fourth scene is also written a second time from "
                "the same objects; distinct by (models, skeleton references, sequences, lights); non-trivial if some model has a "
                "skeleton or a sequence")
    ctx.nontrivial = len({json.dumps([c["models"], c["xm"], c["lights"], c["skels"] if c["tag"].startswith("seeded") else 0], sort_keys=True)
                          for c in cases if nontrivial(c)})
    for c in cases[:1] + cases[-1:]:
        ctx.sample({"tag": c["tag"], "models": describe(c), "lights": len(c["lights"])})
    report(ctx, findings)
    missing = [t for t in REQUIRED if ex.get(t, 0) == 0]
    known = {k["signature"] for k in core.load_known() if k.get("property") == PID and k.get("status") == "open"}
    if missing and all(v["signature"] in known for v in ctx.violations):
        raise core.Infra("vacuity guard: no produced file exercised %s" % missing)
    if ex.get("l2-disagrees", 0) and all(v["signature"] in known for v in ctx.violations):
        raise core.Infra("the L2 model (GltfAnimWriter, repaired switches) predicts another status / node / skin / animation count than "
                         "the real writer produced on %d accepted lines" % ex["l2-disagrees"])
    ctx.extra["not_exercised"] = missing
    ctx.assumptions += [
        "the independent reader (harness/gltffam/parse.go, harness/xanimfam/proj.go) and the source projections are faithful",
        "skeletons and sequences are observed through the public API of modeling/animation before the writer is called",
        "mesh nodes of the default scene are matched to non-empty models by order, animations to Sequences by order",
        "matrices are compared as numbers (+0 = -0), key times / values and node translations on IEEE bit patterns",
        "a returned error is the only allowed outcome for a scene glTF cannot carry (a Sequence without skeleton, for an unknown "
        "joint, without key frame, with times negative or not strictly increasing; a skeleton on a mesh that is not rigged for "
        "it) and is not allowed for any other scene of the generators",
        "TLC evaluates GltfDoc / GltfAnim / TraceGltf / TraceGltfAnim correctly",
    ]


def replay(ctx, path):
    with open(path) as f:
        obj = json.load(f)
    vh = core.build_vh()
    findings, ex, _ = execute_and_judge(ctx, vh, [obj["case"]["scene"]], name="replay")
    for f in findings:
        print("replay: %s (%s file)" % (f["sig"], f["kind"]))
    report(ctx, findings)
    ctx.rule = "replay of one recorded scene"
    ctx.nontrivial = 1
    ctx.sample({"replayed": path})
