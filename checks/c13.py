"""C13: concurrent parameter updates / reads / artifact generation are linearizable."""
import json
import os
import random
import re

from vlib import core
from checks import httpresp


def ps_cfg(path, nc, lock, maxops, schedlen, mode, opfilter="all", defer=True):
    with open(path, "w") as f:
        f.write('CONSTANTS NC = %d UseLock = %s MaxOps = %d SchedLen = %d OpFilter = "%s" DeferUnlock = %s\nSPECIFICATION Spec\n' %
                (nc, "TRUE" if lock else "FALSE", maxops, schedlen, opfilter, "TRUE" if defer else "FALSE"))
        if mode == "locked":
            f.write("INVARIANTS Atomic MutualExclusion LockHeldByActive\nVIEW View\n")
        elif mode == "leak":
            f.write("INVARIANTS LockHeldByActive\nVIEW View\n")
        elif mode == "locked-emit":
            f.write("INVARIANTS Atomic MutualExclusion EmitSched\n")
        elif mode == "attack":
            f.write("INVARIANTS EmitTorn\nCONSTRAINT StopWhenTorn\n")
        f.write("CHECK_DEADLOCK FALSE\n")


def run_cases(ctx, binary, cases, name, race_log=None):
    d = ctx.scratch(name)
    cp = os.path.join(d, "cases.ndjson")
    core.write_ndjson(cp, cases)
    tp = os.path.join(d, "trace.ndjson")
    env = {}
    if race_log:
        env["GORACE"] = "halt_on_error=0 exitcode=0 log_path=%s" % race_log
    core.run_vh(binary, ["ps-exec", "-in", cp, "-out", tp], timeout=1800, env_extra=env)
    raw = open(tp).readlines()
    res = core.validate_sharded(ctx, name, "TraceParamServer", "TraceParamServer.cfg", raw, timeout=1800,
                                check_consumed=False, heap="4g")
    bad = []
    for sh, r in res:
        hs = [json.loads(ln)["h"] for ln in sh if ln.startswith('{"k":"reset"')]
        for v in r.values:
            if isinstance(v, dict) and "bad" in v:
                h = hs[v["h"] - 1]
                lines = [json.loads(ln) for ln in sh if json.loads(ln)["h"] == h]
                bad.append((h, v["bad"], lines))
    ctx.traces += len(cases)
    ctx.evaluations += len(raw)
    return bad, raw


def race_reports(prefix):
    """Parse Go race detector logs; return list of (signature, text) for races inside polyform."""
    out = []
    d = os.path.dirname(prefix)
    for f in os.listdir(d):
        if not f.startswith(os.path.basename(prefix)):
            continue
        txt = open(os.path.join(d, f), errors="replace").read()
        for blk in txt.split("WARNING: DATA RACE")[1:]:
            frames = re.findall(r"^\s+(github\.com/EliCDavis/polyform/[^\s(]+)", blk, re.M)
            if frames:
                out.append(("C13.Race/" + frames[0].split("polyform/")[-1], blk[:1500]))
    return out


def run(ctx):
    quick = ctx.tier == "quick"
    vh = core.build_vh()
    vhr = core.build_vh(race=True)
    rnd = random.Random(ctx.seed)
    if os.environ.get("VERIF_ONLY_RESP") == "1":     # debugging aid: only the HTTP response phase
        httpresp.run_resp(ctx, "C13", vh, vhr)
        ctx.nontrivial = ctx.traces
        ctx.rule = "response phase only (VERIF_ONLY_RESP)"
        ctx.sample({"only": "resp"})
        return
    # (1) design level: with the lock, artifacts are atomic
    d = ctx.scratch("model")
    for nc, sl in ([(2, 8)] if quick else [(2, 10), (3, 9)]):
        ps_cfg(os.path.join(d, "L.cfg"), nc, True, 2, sl, "locked")
        r = core.run_tlc(d, "ParamServer", "L.cfg", files=[(os.path.join(d, "L.cfg"), "L.cfg")], workers=core.NCPU, timeout=1500)
        ctx.add_tlc(r)
        if r.rc != 0:
            raise core.Infra("ParamServer with the lock violates %s (model bug)" % r.violated)
    # ... and releasing the mutex only on the normal way out of Artifact leaves it held after a panicking producer
    ps_cfg(os.path.join(d, "P.cfg"), 2, True, 2, 8, "leak", "panic", defer=False)
    r = core.run_tlc(d, "ParamServer", "P.cfg", files=[(os.path.join(d, "P.cfg"), "P.cfg")], workers=4, timeout=900)
    ctx.extra["design_unlock_without_defer_counterexample"] = (r.violated == "LockHeldByActive")
    if r.violated != "LockHeldByActive":
        raise core.Infra("ParamServer without the deferred unlock does not leak the mutex (got %s): model lost its teeth" % r.violated)
    # (2) attack schedules from the lock-free model + schedules of the locked model
    cases = []
    for nc, sl in ([(2, 7)] if quick else [(2, 8), (3, 7)]):
        ps_cfg(os.path.join(d, "A.cfg"), nc, False, 2, sl, "attack")
        r = core.run_tlc(d, "ParamServer", "A.cfg", files=[(os.path.join(d, "A.cfg"), "A.cfg")], workers=core.NCPU, timeout=1500)
        ctx.add_tlc(r)
        att = {json.dumps(v, sort_keys=True): v for v in r.values if isinstance(v, dict) and "sched" in v}
        att = [att[k] for k in sorted(att)]
        ctx.extra["attack_schedules_nc%d" % nc] = len(att)
        if not att:
            raise core.Infra("lock-free model produced no torn schedule: generator lost its teeth")
        if quick:
            rnd.shuffle(att)
            att = att[:250]
        cases += [{"progs": v["progs"], "sched": v["sched"], "mode": "directed", "seed": ctx.seed, "tag": "attack"} for v in att]
    ps_cfg(os.path.join(d, "E.cfg"), 2, True, 2, 6, "locked-emit")
    r = core.run_tlc(d, "ParamServer", "E.cfg", files=[(os.path.join(d, "E.cfg"), "E.cfg")], workers=core.NCPU, timeout=1500)
    ctx.add_tlc(r)
    lk = {json.dumps(v, sort_keys=True): v for v in r.values if isinstance(v, dict) and "sched" in v}
    lk = [lk[k] for k in sorted(lk)]
    rnd.shuffle(lk)
    lk = lk[:150 if quick else 2000]
    cases += [{"progs": v["progs"], "sched": v["sched"], "mode": "directed", "seed": ctx.seed, "tag": "locked"} for v in lk]
    # all behaviours over the slice-valued parameter only (artifact written after Artifact() returned)
    ps_cfg(os.path.join(d, "V.cfg"), 2, True, 2, 7, "locked-emit", "vec")
    r = core.run_tlc(d, "ParamServer", "V.cfg", files=[(os.path.join(d, "V.cfg"), "V.cfg")], workers=core.NCPU, timeout=1500)
    ctx.add_tlc(r)
    vec = {json.dumps(v, sort_keys=True): v for v in r.values if isinstance(v, dict) and "sched" in v}
    vec = [vec[k] for k in sorted(vec)]
    vec = [v for v in vec if any(o["op"] == "art" for p in v["progs"] for o in p) and
           sum(1 for p in v["progs"] for o in p if o["op"] == "upd") >= 2]
    rnd.shuffle(vec)
    vec = vec[:700 if quick else 5000]
    ctx.extra["slice_parameter_schedules"] = len(vec)
    cases += [{"progs": v["progs"], "sched": v["sched"], "mode": "directed", "seed": ctx.seed, "tag": "vec"} for v in vec]
    # all behaviours over a producer that panics for one value of p1 (every later call must still be served)
    ps_cfg(os.path.join(d, "Q.cfg"), 2, True, 2, 7, "locked-emit", "panic")
    r = core.run_tlc(d, "ParamServer", "Q.cfg", files=[(os.path.join(d, "Q.cfg"), "Q.cfg")], workers=core.NCPU, timeout=1500)
    ctx.add_tlc(r)
    pan = {json.dumps(v, sort_keys=True): v for v in r.values if isinstance(v, dict) and "sched" in v}
    pan = [pan[k] for k in sorted(pan)]
    pan = [v for v in pan if any(o["op"] == "art" for p in v["progs"] for o in p) and
           any(o["op"] == "upd" and o["v"] == 66 for p in v["progs"] for o in p)]
    rnd.shuffle(pan)
    pan = pan[:300 if quick else 3000]
    ctx.extra["panicking_producer_schedules"] = len(pan)
    if not pan:
        raise core.Infra("no schedule with a panicking producer was generated")
    cases += [{"progs": v["progs"], "sched": v["sched"], "mode": "directed", "seed": ctx.seed, "tag": "panic"} for v in pan]
    ctx.extra["directed_cases"] = len(cases)
    bad, _ = run_cases(ctx, vh, cases, "directed")
    report(ctx, cases, bad)
    # (3) free-running stress histories under the race detector
    d2 = ctx.scratch("stress")
    n = 60 if quick else 600
    core.run_vh(vh, ["ps-stress", "-out", os.path.join(d2, "c.ndjson"), "-seed", str(ctx.seed), "-n", str(n),
                     "-clients", "4" if quick else "5", "-ops", "4"])
    st = core.read_ndjson(os.path.join(d2, "c.ndjson"))
    racelog = os.path.join(d2, "race")
    bad, _ = run_cases(ctx, vhr, st, "stress", race_log=racelog)
    report(ctx, st, bad)
    # a sample of the directed schedules under the race detector too
    sample = cases[:: max(1, len(cases) // (60 if quick else 400))]
    bad, _ = run_cases(ctx, vhr, sample, "directed-race", race_log=racelog)
    report(ctx, sample, bad)
    # (4) the same property one layer up: the edit server's response write phase (specs/HttpResp.tla): gated
    #     ResponseWriters, artifacts around the buffer sizes, schedules of the broken and the right design
    rcases, rfree = httpresp.run_resp(ctx, "C13", vh, vhr, racelog=racelog)
    races = race_reports(racelog)
    for sig, txt in races:
        ctx.violation(sig, "Go race detector report inside polyform", {"family": "paramserver", "race": txt})
    if ctx.tier == "thorough":
        selftest(ctx, vh, cases)
    ctx.extra["stress_cases"] = len(st)
    ctx.extra["race_reports_in_polyform"] = len(races)
    ctx.nontrivial = len({json.dumps([c["progs"], c["sched"]], sort_keys=True) for c in cases + st
                          if sum(len(p) for p in c["progs"]) >= 2})
    ctx.rule = ("cases = TLC-generated (programs, schedule) pairs of ParamServer (lock-free model: torn-snapshot attack schedules; "
                "locked model: sampled behaviours) imposed on real goroutines through gated node processors, plus seeded "
                "free-running stress cases under -race; non-trivial = at least two operations overall; distinct by (programs, schedule)")
    ctx.sample(cases[0])
    ctx.sample(st[0])
    ctx.assumptions += ["data-race clause decided by the Go race detector on the executed schedules (auxiliary observer, not TLA+)",
                        "invoke/response order taken from one atomic counter in the client goroutines",
                        "a client that does not reach its next gate within 15 ms is treated as blocked by the scheduler (affects only which schedules are realised, never the verdict)"]


def selftest(ctx, vh, cases):
    """Corrupt one logged artifact of an accepted history; TLC must find no linearization for it."""
    pick = [c for c in cases if any(o["op"] == "art" for p in c["progs"] for o in p)][:3]
    d = ctx.scratch("selftest")
    cp = os.path.join(d, "cases.ndjson")
    core.write_ndjson(cp, pick)
    tp = os.path.join(d, "trace.ndjson")
    core.run_vh(vh, ["ps-exec", "-in", cp, "-out", tp])
    rows = core.read_ndjson(tp)
    k = [i for i, r in enumerate(rows) if r["k"] == "resp" and r["op"] == "art" and r["h"] == 1]
    if not k:
        raise core.Infra("self-test: no artifact response in history 1")
    rows[k[0]]["res"] = rows[k[0]]["res"].replace(":", ":9", 1) + "!"
    core.write_ndjson(tp, rows)
    r = core.run_tlc(os.path.join(d, "v"), "TraceParamServer", "TraceParamServer.cfg", files=[(tp, "trace.ndjson")], workers=1, timeout=600)
    bad = sorted(v["h"] for v in r.values if isinstance(v, dict) and "bad" in v)
    if bad != [2]:
        raise core.Infra("self-test: corrupted artifact should make exactly history 2 non-linearizable, got %s" % bad)
    ctx.extra["selftest_corruption_rejected"] = True


def report(ctx, cases, bad):
    for h, preds, lines in bad:
        c = cases[h]
        hang = any(l["k"] == "hang" for l in lines)
        # a panic is only a crash of polyform when the history holds no value that makes the harness processor panic
        panic = any(l.get("res") == "PANIC" for l in lines) and not any(
            l["k"] == "inv" and l["op"] == "upd" and l["p"] == 1 and l["v"] == 66 for l in lines)
        pred = "C13.Hang" if hang else ("C13.Crash" if panic else "C13.Linearizable")
        ops = sorted({l["op"] for l in lines if l["k"] == "inv"})
        sig = "%s/%s" % (pred, "+".join(ops))
        ctx.violation(sig, "%s: no linearization of a %s history: %s" % (
            pred, c.get("tag"), [(l["k"], l["c"], l["op"], l["p"], l["v"], l["res"]) for l in lines if l["k"] != "reset"][:12]),
            {"family": "paramserver", "case": c})


def replay(ctx, path):
    obj = json.load(open(path))["case"]
    if obj.get("family") == "httpresp":
        httpresp.replay_case(ctx, "C13", obj["case"])
        ctx.rule = "replay x10 (response phase)"
        ctx.nontrivial = 2
        ctx.sample({"replayed": path})
        return
    vh = core.build_vh()
    if "case" not in obj:
        print("race reports are replayed by re-running the check")
        ctx.rule = "replay"
        ctx.nontrivial = 2
        ctx.sample({"replayed": path})
        return
    cases = [obj["case"]] * 20   # concurrency: repeat
    bad, _ = run_cases(ctx, vh, cases, "replay")
    report(ctx, cases, bad)
    ctx.rule = "replay x20"
    ctx.nontrivial = 2
    ctx.sample({"replayed": path})
