"""OBJ family (C05): generators (TLC) -> executor (real formats/obj) -> judge (TLC, TraceObj.tla).

Cases
  wr  a list of named triangle meshes -> obj.WriteMeshes/WriteMesh -> independent tokeniser
      -> obj.ReadMesh; judged: file validity + denotation, and the read-back meshes (sentence 1)
  ld  a valid OBJ text -> obj.ReadMesh -> obj.WriteMeshes -> tokeniser; judged: no face lost or
      invented by the load or by the save, saved text valid (sentence 2)
Sources of cases
  ObjMeshGen  (TLC BFS / -simulate)  mesh lists, lattice values; design checks on the ObjImpl models
  ObjTextGen  (TLC BFS / -simulate)  g/usemtl/f arrangements; design checks on the ObjImpl models
  vh obj-random (seeded)             float32-fidelity mesh lists (incl. float32 boundary values), long random texts
  ObjStlSizes (TLC)                  size profiles: a mesh / group whose vertex, face or corner count is m*T-1, m*T,
                                     m*T+1 for round numbers T, placed first / last / in the middle / twice; the
                                     harness draws the values from the seed
Every case is run with one reader variant and one writer variant (harness/objstl/iomodes.go: plain, one byte per
Read, half reads, data together with EOF, ragged, 1000-byte chunks, obj.Load of a file; bytes.Buffer, a bare
io.Writer, a 16-byte bufio.Writer, obj.Save for a single unnamed mesh); the case records which.
"""
import json
import os
import random

from vlib import core


# reader / writer variants by case position (lengths 16 and 5 are coprime: every pair occurs)
READER_ROT = [0, 1, 2, 0, 3, 4, 0, 5, 6, 0, 7, 8, 0, 9, 10, 11]
WRITER_ROT = [0, 1, 0, 2, 3]
def assign_io(cases, seed):
    for i, c in enumerate(cases):
        c["cid"] = i        # what the harness varies with the case number stays the same in a replay
        if "io" not in c:
            c["io"] = READER_ROT[(seed + i) % len(READER_ROT)]
            c["wio"] = WRITER_ROT[(seed * 3 + i) % len(WRITER_ROT)]
            c["rep"] = 2 if (seed + i) % 7 == 3 else 1      # every 7th case calls everything twice


def sized_profiles(ctx, cfg):
    """Size profiles from specs/ObjStlSizes.tla (TLC enumerates them and checks the coverage ASSUMEs).
    quick: every profile the specification marks as core plus the rotation class of the seed; thorough: all."""
    d = ctx.scratch("gen-sizes-" + cfg.replace(".cfg", ""))
    r = core.run_tlc(d, "ObjStlSizes", cfg, workers=2, timeout=600, heap="2g")
    if r.rc != 0:
        raise core.Infra("ObjStlSizes/%s violates its own property %s (spec bug)" % (cfg, r.violated))
    ctx.add_tlc(r)
    prof = [v for v in r.values if isinstance(v, dict) and v.get("tag") == "sized"]
    if not prof:
        raise core.Infra("ObjStlSizes/%s printed no profile" % cfg)
    prof.sort(key=lambda v: json.dumps(v, sort_keys=True))      # TLC's print order depends on its workers
    nrot = 1 + max(v["rot"] for v in prof)
    sel = [v for v in prof if ctx.tier != "quick" or v["core"] or v["rot"] == ctx.seed % nrot]
    out = []
    for i, v in enumerate(sel):
        c = {k: x for k, x in v.items() if k not in ("w", "rot", "core")}
        c["weight"] = v["w"]
        for key in ("seeded", "text"):
            if key in c:
                c[key]["seed"] = ctx.seed * 1000003 + i
        out.append(c)
    return r, out, len(prof)


def _key(c):
    return json.dumps({k: c.get(k) for k in ("k", "meshes", "gen", "seeded", "text")}, sort_keys=True)


def name_disc(case):
    """Discriminator of a names case for signatures: the class of the special character of the names."""
    nm = case.get("nm")
    if not nm:
        return ""
    cls = {"#": "hash", "/": "slash", "\\": "backslash"}.get(nm["c"])
    if cls is None:
        cls = "unicode" if nm["c"].startswith("<U+") else ("alnum" if nm["c"].isalnum() else "punct")
    return "name:" + cls


def _tlc_gen(ctx, name, module, cfg, *, simulate=None, depth=None, workers=None, timeout=900):
    d = ctx.scratch(name)
    r = core.run_tlc(d, module, cfg, workers=workers or (1 if simulate else core.NCPU), timeout=timeout,
                     simulate=simulate, depth=depth, seed=ctx.seed if simulate else None, heap="6g")
    if r.rc != 0:
        raise core.Infra("%s/%s: the specification violates its own design property %s (spec bug)"
                         % (module, cfg, r.violated))
    if not simulate:
        ctx.add_tlc(r)
    cases, risky = [], {}
    for v in r.values:
        if not isinstance(v, dict):
            continue
        if "risky" in v:
            c = v["risky"]
            risky[_key(c)] = sorted(set(v.get("why", [])) | set(v.get("writer", [])) | set(v.get("reader", [])))
        elif "k" in v:
            cases.append(v)
    return r, cases, risky


def collect_cases(ctx, vh):
    tier, seed = ctx.tier, ctx.seed
    notes = {}
    cases = []
    risky = {}

    def add(r, cs, rk, label):
        notes[label + "_states"] = r.distinct
        notes[label + "_cases"] = len(cs)
        cases.extend(cs)
        risky.update(rk)

    # (1) mesh lists: all single meshes over every layout/material pattern, all pairs, triples
    add(*_tlc_gen(ctx, "gen-mesh1", "ObjMeshGen", "ObjMeshGen1.cfg"), "meshgen1")
    add(*_tlc_gen(ctx, "gen-mesh2", "ObjMeshGen", "ObjMeshGen2.cfg"), "meshgen2")
    if tier == "quick":
        add(*_tlc_gen(ctx, "gen-mesh3", "ObjMeshGen", "ObjMeshGen3Sim.cfg", simulate="num=40", depth=3), "meshgen3sim")
    else:
        add(*_tlc_gen(ctx, "gen-mesh3", "ObjMeshGen", "ObjMeshGen3.cfg"), "meshgen3")
    # (2) OBJ texts: every arrangement up to a depth, deeper random walks
    if tier == "quick":
        add(*_tlc_gen(ctx, "gen-text", "ObjTextGen", "ObjTextGen4.cfg"), "textgen")
        add(*_tlc_gen(ctx, "gen-textsim", "ObjTextGen", "ObjTextGenSim.cfg", simulate="num=150", depth=9), "textsim")
    else:
        add(*_tlc_gen(ctx, "gen-text", "ObjTextGen", "ObjTextGen6.cfg", timeout=1500), "textgen")
        add(*_tlc_gen(ctx, "gen-textsim", "ObjTextGen", "ObjTextGenSim.cfg", simulate="num=1500", depth=9), "textsim")
    # (2b) name alphabet (round 5): group / material names over every character class at every position of an
    # item and in every blank shape, skip lines (comments in every shape, o / s) between the statements; the
    # design-level part: a reader that splits lines into items satisfies ReaderDesign, one that drops everything
    # behind the first number sign of a line must be refuted by TLC
    add(*_tlc_gen(ctx, "gen-names", "ObjNames", "ObjNamesItems.cfg" if tier == "quick" else "ObjNamesAll.cfg"), "namegen")
    dcut = ctx.scratch("design-names-cut")
    rcut = core.run_tlc(dcut, "ObjNames", "ObjNamesCut.cfg", workers=1, timeout=300, heap="1g")
    if rcut.rc == 0 or "ReaderDesign" not in str(rcut.violated):
        raise core.Infra("ObjNames/ObjNamesCut.cfg: the cut-at-number-sign reader design was not refuted (spec bug)")
    notes["design_cut_reader_refuted"] = 1
    # de-duplicate (BFS prints a prefix of every longer list; simulation revisits)
    seen, uniq = set(), []
    for c in cases:
        k = _key(c)
        if k in seen:
            continue
        seen.add(k)
        if k in risky:
            c["tag"] = "risky"
        c.pop("sk", None)
        uniq.append(c)
    cases = uniq
    notes["model_risky_cases"] = sum(1 for c in cases if c.get("tag") == "risky")
    # (3) seeded recorder inputs
    d = ctx.scratch("rnd")
    nwr, nld = (150, 200) if tier == "quick" else (4000, 5000)
    core.run_vh(vh, ["obj-random", "-out", os.path.join(d, "r.ndjson"), "-seed", str(seed),
                     "-nwr", str(nwr), "-nld", str(nld), "-maxtris", "10" if tier == "quick" else "40",
                     "-maxstmts", "50" if tier == "quick" else "120"])
    rnd = core.read_ndjson(os.path.join(d, "r.ndjson"))
    notes["random_cases"] = len(rnd)
    cases += rnd
    # (4) size profiles (round 2): vertex / face / corner counts around multiples of round numbers
    r, sized, nprof = sized_profiles(ctx, "ObjStlSizesObjQuick.cfg" if tier == "quick" else "ObjStlSizesObjBig.cfg")
    notes["size_profiles_enumerated"] = nprof
    notes["size_profiles_run"] = len(sized)
    notes["size_profile_sizes"] = sorted({c["size"] for c in sized})
    cases += sized
    random.Random(seed).shuffle(cases)      # lines are independent; the judge balances its shards by weight
    # text style (number format, blanks, line ends, comments) varies with seed and position
    for i, c in enumerate(cases):
        if c["k"] == "ld" and "style" not in c:
            c["style"] = (seed * 7919 + i * 31) % 100003
    assign_io(cases, seed)
    return cases, notes


def op_of(pred, case):
    p = pred.split(".", 1)[1]
    single = case["k"] == "wr" and not case.get("seeded") and len(case.get("meshes", [])) == 1 \
        and case["meshes"][0]["name"] == ""
    w = "WriteMesh" if single else "WriteMeshes"
    if case["k"] == "wr":
        return w if p.startswith("Wr") else w + "+ReadMesh"
    return "ReadMesh" if p.startswith("Load") else "ReadMesh+WriteMeshes"


def execute_and_judge(ctx, vh, cases, name="main", keep=None):
    """Run cases on the real code and validate the trace with TLC.
    Returns (findings, exercised counters, raw trace lines)."""
    d = ctx.scratch(name + "-exec")
    cp = os.path.join(d, "cases.ndjson")
    core.write_ndjson(cp, cases)
    tp = os.path.join(d, "trace.ndjson")
    args = ["obj-exec", "-in", cp, "-out", tp, "-budget", "300" if ctx.tier == "quick" else "2400"]
    if keep:
        os.makedirs(keep, exist_ok=True)
        args += ["-keep", keep]
    core.run_vh(vh, args, timeout=1800)
    with open(tp) as f:
        raw = f.readlines()
    stopped = None
    if raw and raw[-1].startswith('{"k":"stop"'):
        # the harness ended the run early (results far larger than their inputs account for, or the code
        # under test slower by orders of magnitude): the lines before the stop line are judged; if none of
        # them is rejected this is an infrastructure failure, never a pass (see run_family)
        stopped = json.loads(raw.pop())
        core.log("[exec] harness stopped after %d of %d cases: %s" % (stopped["done"], len(cases), stopped["why"]))
        del cases[stopped["done"]:]
        ctx.extra["stopped_early"] = stopped
    if len(raw) != len(cases):
        raise core.Infra("obj-exec wrote %d lines for %d cases" % (len(raw), len(cases)))
    findings, ex = judge_lines(ctx, name, raw)
    ctx.traces += len(cases)
    ctx.evaluations += len(raw)
    return findings, ex, raw


def judge_lines(ctx, name, raw, module="TraceObj"):
    """Validate ndjson lines (one case per line, lines are independent) with specs/<module>.tla.
    The lines are spread over TLC processes (NCPU at a time) by WEIGHT (bytes of the line, a good measure of
    the judge's work), heaviest first onto the lightest shard, so that a few large cases do not make
    one shard the straggler.  Returns (findings [{pred, case, why}], exercise counters summed)."""
    from concurrent.futures import ThreadPoolExecutor
    findings, ex = [], {}
    # at most NCPU shards run at a time; a shard holds at most ~64 MB of trace (TLC needs about 20x the
    # bytes of a trace as heap: 3 GB per process, 6 processes - the machine is shared)
    total = sum(len(ln) for ln in raw)
    nsh = max(1, min(max(min(core.NCPU, 16), -(-total // 64_000_000)), 96, len(raw)))
    shards = [[] for _ in range(nsh)]           # lists of case numbers
    load = [0] * nsh
    for i in sorted(range(len(raw)), key=lambda i: -len(raw[i])):
        k = load.index(min(load))
        shards[k].append(i)
        load[k] += len(raw[i]) + 2000           # a small per-line cost keeps short lines spread as well
    shards = [sorted(sh) for sh in shards if sh]
    heap = "3g" if max(load) < 100e6 else "6g"        # only a single line of > 100 MB gets there

    def one(k):
        d = ctx.scratch("%s-shard%02d" % (name, k))
        with open(os.path.join(d, "trace.ndjson"), "w") as f:
            f.write("".join(raw[i] for i in shards[k]))
        return core.run_tlc(d, module, module + ".cfg", timeout=3000, heap=heap, workers=1)

    with ThreadPoolExecutor(max_workers=min(len(shards), core.NCPU)) as pool:
        results = list(pool.map(one, range(len(shards))))
    for sh, r in zip(shards, results):
        ctx.add_tlc(r)
        if r.postcondition_failed or r.distinct != len(sh) + 1:
            raise core.Infra("trace shard of %s not fully consumed (%d states for %d lines)" % (name, r.distinct, len(sh)))
        got_ex = False
        for v in r.values:
            if not isinstance(v, dict):
                continue
            if "ex" in v:
                got_ex = True
                for k, n in v["ex"].items():
                    ex[k] = ex.get(k, 0) + n
            elif "bad" in v:
                idx = sh[v["l"] - 1]
                for pred in v["bad"]:
                    findings.append({"pred": pred, "case": idx, "why": sorted(v.get("why", []))})
        if not got_ex:
            raise core.Infra("%s shard printed no exercise counters" % module)
    findings.sort(key=lambda f: (f["case"], f["pred"]))
    return findings, ex


PREDICATES = ["C05.WriteOk", "C05.WriteValid", "C05.WrGroups", "C05.WrCorners", "C05.WrMaterials", "C05.WrEmptyGroup",
              "C05.ReadOk", "C05.RtGroups", "C05.RtCorners", "C05.RtMaterials", "C05.RtEmptyGroup",
              "C05.LoadOk", "C05.LoadFacesLost", "C05.LoadFacesInvented",
              "C05.SaveOk", "C05.SaveValid", "C05.SaveFacesLost", "C05.SaveFacesInvented"]


def signature(f, case):
    sig = "%s/%s" % (f["pred"], op_of(f["pred"], case))
    # the reason the format machine / the harness gave (pool name, PANIC, ...) discriminates
    p = f["pred"].split(".", 1)[1]
    why = [w for w in f["why"] if w]
    if p in ("WriteValid", "SaveValid"):
        why = [w for w in why if w not in ("PANIC", "ERROR", "TIMEOUT")]
    elif p in ("WriteOk", "ReadOk", "LoadOk", "SaveOk"):
        why = [w for w in why if w in ("PANIC", "ERROR", "TIMEOUT") or w.startswith("PROJECT-")]
    else:
        why = []
    if why:
        sig += "/" + "+".join(why)
    if name_disc(case):
        sig += "/" + name_disc(case)
    return sig


def nontrivial(case):
    if case["k"] == "wr":
        if case.get("seeded"):
            return case["seeded"]["nmesh"] >= 2
        ms = case["meshes"]
        kinds = {(bool(m["uv"]), bool(m["nrm"])) for m in ms}
        return len(ms) >= 2 and (len(kinds) >= 2 or any(len(m["mats"]) >= 1 for m in ms))
    if case.get("text"):
        return len(case["text"]["groups"]) >= 2
    kinds = [s["t"] for s in case["gen"]]
    return kinds.count("f") >= 2 and ("g" in kinds or "usemtl" in kinds)


def selftest(ctx, raw):
    """Binding self-test: corrupt one logged field of accepted lines; TLC must reject each."""
    picks = []
    want = {"wr-rd": None, "wr-stmts": None, "ld-stmts2": None, "ld-rd": None}
    for ln in raw:
        o = json.loads(ln)
        if o["k"] == "wr" and o["werr"] == "" and o["rerr"] == "" and any(m["idx"] for m in o["rd"]):
            if want["wr-rd"] is None and any(m["nrm"] for m in o["rd"]) and len(o["rd"]) >= 2:
                c = json.loads(ln)
                m = [m for m in c["rd"] if m["nrm"]][0]
                m["nrm"][m["idx"][0]][1] += 1          # one normal component of a referenced vertex
                want["wr-rd"] = (c, "C05.RtCorners")
            if want["wr-stmts"] is None:
                c = json.loads(ln)
                fs = [s for s in c["stmts"] if s["t"] == "f"]
                if fs:
                    fs[-1]["c"][2][0] = 1 if fs[-1]["c"][2][0] != 1 else 2   # a face corner points elsewhere
                    want["wr-stmts"] = (c, "C05.WrCorners")
        if o["k"] == "ld" and o["rerr"] == "" and o["werr"] == "":
            fs = [s for s in o["stmts2"] if s["t"] == "f"]
            if want["ld-stmts2"] is None and len(fs) >= 2:
                c = json.loads(ln)
                k = max(i for i, s in enumerate(c["stmts2"]) if s["t"] == "f")
                del c["stmts2"][k]                      # the saved text lost its last face
                want["ld-stmts2"] = (c, "C05.SaveFacesLost")
            if want["ld-rd"] is None and any(len(m["idx"]) >= 6 for m in o["rd"]):
                c = json.loads(ln)
                m = [m for m in c["rd"] if len(m["idx"]) >= 6][0]
                m["idx"] = m["idx"][:-3]                # the loaded mesh lost a triangle
                want["ld-rd"] = (c, "C05.LoadFacesLost")
        if all(v is not None for v in want.values()):
            break
    missing = [k for k, v in want.items() if v is None]
    if missing:
        raise core.Infra("self-test: no accepted line to corrupt for %s" % missing)
    order = sorted(want)
    lines = [json.dumps(want[k][0], separators=(",", ":")) + "\n" for k in order]
    findings, _ = judge_lines(ctx, "selftest", lines)
    for i, k in enumerate(order):
        preds = {f["pred"] for f in findings if f["case"] == i}
        if want[k][1] not in preds:
            raise core.Infra("self-test: corrupted trace (%s) was not rejected with %s (got %s)" %
                             (k, want[k][1], sorted(preds)))
    return len(order)


def run_family(ctx, prefix="C05"):
    vh = core.build_vh()
    cases, notes = collect_cases(ctx, vh)
    findings, ex, raw = execute_and_judge(ctx, vh, cases)
    ctx.extra.update(notes)
    ctx.extra["exercised"] = {k: ex.get(k, 0) for k in PREDICATES}
    ctx.extra["strict_obj_material_leaks"] = ex.get("strictLeak", 0)
    ctx.extra["cases_by_kind"] = {k: sum(1 for c in cases if c["k"] == k) for k in ("wr", "ld")}
    ctx.extra["cases_by_reader_variant"] = {str(m): sum(1 for c in cases if c["io"] == m) for m in sorted(set(READER_ROT))}
    ctx.extra["cases_by_writer_variant"] = {str(m): sum(1 for c in cases if c["wio"] == m) for m in sorted(set(WRITER_ROT))}
    ctx.extra["cases_by_tag"] = {}
    for c in cases:
        ctx.extra["cases_by_tag"][c.get("tag", "")] = ctx.extra["cases_by_tag"].get(c.get("tag", ""), 0) + 1
    ctx.nontrivial = sum(1 for c in cases if nontrivial(c))
    ctx.rule = ("cases: TLC BFS of ObjMeshGen (all single meshes, all pairs%s) and ObjTextGen (all g/usemtl/f "
                "arrangements to the depth bound), TLC -simulate walks, seeded recorder (float32 mesh lists incl. boundary "
                "values, long texts), TLC-enumerated size profiles (a mesh / group with m*T-1, m*T, m*T+1 vertices or faces "
                "first, last, in the middle or twice in a list, sizes up to %d%s); every case with one of 12 reader and 4 "
                "writer variants; distinct by mesh list / statement list; non-trivial: >=2 meshes differing in attributes "
                "or carrying materials, or a text with >=2 faces and a g or usemtl"
                % (", triples sampled" if ctx.tier == "quick" else ", all triples",
                   max([c["size"] for c in cases if c.get("tag") == "sized"] + [0]),
                   ", the heavier ones rotating with the seed" if ctx.tier == "quick" else ""))
    for c in (cases[1], cases[-1]):
        ctx.sample({"k": c["k"], "tag": c.get("tag"),
                    "shape": [(m["name"], len(m["idx"]) // 3, bool(m["uv"]), bool(m["nrm"]), len(m["mats"])) for m in c["meshes"]]
                    if c.get("meshes") else (c.get("seeded") or c.get("text") or [s["t"] for s in c["gen"]][:30])})
    per_sig, aux = {}, {}
    for f in findings:
        if f["pred"].startswith("Harness."):
            raise core.Infra("harness inconsistency %s at case %d (%s)" % (f["pred"], f["case"], f["why"]))
        if not f["pred"].startswith(prefix + "."):
            aux[f["pred"]] = aux.get(f["pred"], 0) + 1      # Aux.*: beyond the statement, reported only
            continue
        c = cases[f["case"]]
        sig = signature(f, c)
        per_sig[sig] = per_sig.get(sig, 0) + 1
        if per_sig[sig] > 3:        # a few replay files per signature are enough
            continue
        what = "%s rejected a %s %s case (%s; reader variant %d, writer variant %d%s)" % (
            f["pred"], c.get("tag", ""), c["k"], ",".join(f["why"]) or "see replay", c["io"], c["wio"],
            "; size profile %s %s %s" % (c["size"], c["shape"], c["place"]) if c.get("tag") == "sized" else "")
        ctx.violation(sig, what, {"family": "obj", "case": c})
    ctx.extra["rejections_by_signature"] = per_sig
    ctx.extra["aux_flags_beyond_statement"] = aux
    if aux:
        core.log("[note] flags beyond the statement of %s (not a verdict): %s" % (prefix, aux))
    # vacuity guard: every predicate must have been evaluated with its antecedent true (a defect that
    # stops the pipeline early is reported as the violation it is, not as vacuity)
    idle = [p for p in PREDICATES if ex.get(p, 0) == 0]
    known = {k["signature"] for k in core.load_known() if k.get("property") == ctx.pid and k.get("status") == "open"}
    fresh = [v for v in ctx.violations if v["signature"] not in known]
    if ctx.extra.get("stopped_early") and not fresh:
        raise core.Infra("the harness stopped early (%s) but no executed case was rejected" % ctx.extra["stopped_early"]["why"])
    if idle and not fresh:
        raise core.Infra("predicates never exercised: %s" % idle)
    if ctx.tier == "thorough" and not fresh:
        ctx.extra["selftest_corruptions_rejected"] = selftest(ctx, raw)
    ctx.assumptions += [
        "the independent tokeniser (harness/objstl/obj_tok.go) reads OBJ text as the format description says",
        "projection of meshes through public observers is faithful; lattice values are exactly float32 representable",
        "material of a face is judged with polyform's group-local convention (a usemtl does not carry across g); "
        "faces that would inherit a material under the strict reading are counted in strict_obj_material_leaks",
        "TLC evaluates ObjFormat/TraceObj correctly",
    ]


def replay_family(ctx, path, prefix="C05"):
    with open(path) as f:
        obj = json.load(f)
    c = obj["case"]["case"]
    vh = core.build_vh()
    keep = os.path.join(core.REPLAYS, ctx.pid, "files")
    findings, ex, raw = execute_and_judge(ctx, vh, [c], name="replay", keep=keep)
    for f in findings:
        print("replay: %s (%s)" % (f["pred"], ",".join(f["why"])))
        if f["pred"].startswith(prefix + "."):
            ctx.violation(signature(f, c), "replayed", obj["case"])
    print("replay: OBJ texts kept in %s" % keep)
    ctx.rule = "replay of one recorded case"
    ctx.nontrivial = 1
    ctx.sample({"replayed": path})
