"""STL family (C07): generators (TLC) -> executor (real formats/stl) -> judge (TLC, TraceStl.tla).

Cases
  sw  a triangle mesh -> stl.WriteMesh -> independent record parser -> stl.ReadMesh;
      judged: size law, records = corners through the index at float32 precision, facet normal
      = normalised mean of the corner normals (zero / geometric when none stored), read-back mesh
  sr  a well-formed record list -> independent encoder -> stl.ReadMesh -> stl.WriteMesh -> parser;
      judged: the mesh read is the records, writing it again reproduces them
  sz  sizes only, for large triangle counts (around multiples of 32768 / 65536): the size law and the
      triangle count, mesh -> file -> mesh and records -> mesh -> file
  sb  a well-formed record list -> independent encoder -> stl.Read -> stl.Write -> parser (the record
      level API); judged: the records come back exactly (normals bit for bit, attribute words), twice
Sources: StlGen (TLC BFS: every index pattern / every short record list; -simulate for more
triangles), vh stl-random (seeded, arbitrary float values judged on bit patterns, up to 200 triangles;
boundary values of float32, NaN/Inf positions, corner normals scaled by 2^-100..2^100),
ObjStlSizes (TLC: size profiles - triangle / vertex / record counts m*T-1, m*T, m*T+1 around round
numbers T; values drawn by the harness from the seed).
Every case is run with one reader variant and one writer variant (harness/objstl/iomodes.go: plain,
one byte per Read, half reads, data together with EOF, ragged, 1000-byte chunks, stl.Load / stl.Save of
a file; bytes.Buffer, a bare io.Writer, a 16-byte bufio.Writer); the case records which.
"""
import json
import os
import random

from checks.objfam import judge_lines, sized_profiles, assign_io, READER_ROT, WRITER_ROT
from vlib import core

PREDICATES = ["C07.WriteOk", "C07.SizeLaw", "C07.RecPositions", "C07.RecNormal", "C07.RecNormal.mean", "C07.RecNormal.none",
              "C07.ReadOk", "C07.RtCount", "C07.RtPositions", "C07.RtNormal", "C07.RtNormal.mean", "C07.RtNormal.none",
              "C07.RdCount", "C07.RdPositions", "C07.RdNormal", "C07.RdNormal.mixed",
              "C07.RwOk", "C07.RwSize", "C07.RwPositions", "C07.RwNormal", "C07.RwNormal.mixed", "C07.RwAttr",
              "C07.SizeLaw.large", "C07.RtCount.large", "C07.RdCount.large", "C07.RwSize.large",
              "C07.BinReadOk", "C07.BinRecords", "C07.BinRecords.attr", "C07.BinWriteOk", "C07.BinSize", "C07.BinRewrite"]

def _key(c):
    return json.dumps({k: c.get(k) for k in ("k", "dir", "mesh", "gen", "seeded")}, sort_keys=True)


def _as_sb(c):
    """The same record list through the record level API."""
    d = json.loads(json.dumps(c))
    d["k"] = "sb"
    return d


def _tlc_gen(ctx, name, cfg, *, simulate=None, depth=None):
    d = ctx.scratch(name)
    r = core.run_tlc(d, "StlGen", cfg, workers=1 if simulate else core.NCPU, timeout=900,
                     simulate=simulate, depth=depth, seed=ctx.seed if simulate else None, heap="4g")
    if r.rc != 0:
        raise core.Infra("StlGen/%s violates its own property %s (spec bug)" % (cfg, r.violated))
    if not simulate:
        ctx.add_tlc(r)
    return r, [v for v in r.values if isinstance(v, dict) and "k" in v]


def collect_cases(ctx, vh):
    tier, seed = ctx.tier, ctx.seed
    notes, cases = {}, []

    def add(r, cs, label):
        notes[label + "_states"] = r.distinct
        notes[label + "_cases"] = len(cs)
        cases.extend(cs)

    if tier == "quick":
        add(*_tlc_gen(ctx, "gen-mesh3", "StlGenMeshQuick.cfg"), "meshgen_nv034")
        add(*_tlc_gen(ctx, "gen-mesh4", "StlGenMesh4Quick.cfg"), "meshgen_nv45")
        add(*_tlc_gen(ctx, "gen-meshsim", "StlGenMeshSim.cfg", simulate="num=30", depth=12), "meshsim")
        add(*_tlc_gen(ctx, "gen-recs", "StlGenRecs.cfg"), "recsgen")
    else:
        add(*_tlc_gen(ctx, "gen-mesh", "StlGenMeshBig.cfg"), "meshgen")
        add(*_tlc_gen(ctx, "gen-meshsim", "StlGenMeshSim.cfg", simulate="num=5000", depth=12), "meshsim")
        add(*_tlc_gen(ctx, "gen-recs", "StlGenRecs5.cfg"), "recsgen")
    cases += [_as_sb(c) for c in cases if c["k"] == "sr"]
    seen, uniq = set(), []
    for c in cases:
        k = _key(c)
        if k not in seen:
            seen.add(k)
            uniq.append(c)
    cases = uniq
    d = ctx.scratch("rnd")
    nsw, nsr, nsb, maxtris = (120, 120, 60, 60) if tier == "quick" else (20000, 20000, 5000, 200)
    core.run_vh(vh, ["stl-random", "-out", os.path.join(d, "r.ndjson"), "-seed", str(seed),
                     "-nsw", str(nsw), "-nsr", str(nsr), "-nsb", str(nsb), "-maxtris", str(maxtris)])
    rnd = core.read_ndjson(os.path.join(d, "r.ndjson"))
    notes["random_cases"] = len(rnd)
    cases += rnd
    # size profiles (round 2): counts around multiples of round numbers
    r, sized, nprof = sized_profiles(ctx, "ObjStlSizesStlQuick.cfg" if tier == "quick" else "ObjStlSizesStlBig.cfg")
    notes["size_profiles_enumerated"] = nprof
    notes["size_profiles_run"] = len(sized)
    notes["size_profile_triangle_counts"] = sorted({c["seeded"]["ntris"] for c in sized})
    cases += sized
    random.Random(seed).shuffle(cases)      # lines are independent; the judge balances its shards by weight
    assign_io(cases, seed)
    return cases, notes


def execute_and_judge(ctx, vh, cases, name="main", keep=None):
    d = ctx.scratch(name + "-exec")
    cp = os.path.join(d, "cases.ndjson")
    core.write_ndjson(cp, cases)
    tp = os.path.join(d, "trace.ndjson")
    args = ["stl-exec", "-in", cp, "-out", tp, "-budget", "300" if ctx.tier == "quick" else "2400"]
    if keep:
        os.makedirs(keep, exist_ok=True)
        args += ["-keep", keep]
    core.run_vh(vh, args, timeout=1800)
    with open(tp) as f:
        raw = f.readlines()
    stopped = None
    if raw and raw[-1].startswith('{"k":"stop"'):
        # the harness ended the run early (results far larger than their inputs account for, or the code
        # under test slower by orders of magnitude): the lines before the stop line are judged; if none of
        # them is rejected this is an infrastructure failure, never a pass (see run_family)
        stopped = json.loads(raw.pop())
        core.log("[exec] harness stopped after %d of %d cases: %s" % (stopped["done"], len(cases), stopped["why"]))
        del cases[stopped["done"]:]
        ctx.extra["stopped_early"] = stopped
    if len(raw) != len(cases):
        raise core.Infra("stl-exec wrote %d lines for %d cases" % (len(raw), len(cases)))
    findings, ex = judge_lines(ctx, name, raw, module="TraceStl")
    ctx.traces += len(cases)
    ctx.evaluations += len(raw)
    return findings, ex, raw


def signature(f, case):
    p = f["pred"].split(".", 1)[1]
    if case["k"] == "sw" or (case["k"] == "sz" and case["dir"] == "w"):
        op = "WriteMesh" if p in ("WriteOk", "SizeLaw", "RecPositions", "RecNormal") else "WriteMesh+ReadMesh"
    elif case["k"] == "sb":
        op = "Read" if p in ("BinReadOk", "BinRecords") else "Read+Write"
    else:
        op = "ReadMesh" if p in ("ReadOk", "RdCount", "RdPositions", "RdNormal") else "ReadMesh+WriteMesh"
    sig = "%s/%s" % (f["pred"], op)
    why = [w for w in f["why"] if w in ("PANIC", "ERROR", "TIMEOUT") or w.startswith("PROJECT-")]
    if p in ("WriteOk", "ReadOk", "RwOk", "BinReadOk", "BinWriteOk") and why:
        sig += "/" + "+".join(why)
    return sig


def nontrivial(case):
    if case.get("seeded"):
        return case["seeded"]["ntris"] >= 1
    if case["k"] == "sw":
        idx = case["mesh"]["idx"]
        return len(idx) >= 3 and idx != list(range(len(idx)))      # at least one triangle, not the identity pattern
    return len(case["gen"]) >= 1


def selftest(ctx, raw):
    """Binding self-test: corrupt one logged field of accepted lines; TLC must reject each."""
    want = {"sw-size": None, "sw-rec": None, "sw-normal": None, "sw-rd": None, "sr-rd": None, "sr-f2": None,
            "sb-attr": None, "sb-f2": None, "sz-size": None, "sz-count": None}
    for ln in raw:
        o = json.loads(ln)
        if o["k"] == "sw" and o["werr"] == "" and o["rerr"] == "" and 2 <= len(o["f"]["recs"]) <= 300:
            if want["sw-size"] is None:
                c = json.loads(ln)
                c["f"]["nbytes"] += 2                       # two stray bytes
                c["f"]["rem"] = 2
                want["sw-size"] = (c, "C07.SizeLaw")
            if want["sw-rec"] is None and o["src"]["idx"][:3] != o["src"]["idx"][3:6]:
                c = json.loads(ln)
                r = c["f"]["recs"]
                r[0]["v"], r[1]["v"] = r[1]["v"], r[0]["v"]   # two records swapped
                if r[0]["v"] != r[1]["v"]:
                    want["sw-rec"] = (c, "C07.RecPositions")
            if want["sw-normal"] is None and o["src"]["nrm"]:
                c = json.loads(ln)
                n = c["f"]["recs"][0]["n"]
                c["f"]["recs"][0]["n"] = [-n[0], -n[1], -n[2]]   # flipped facet normal
                want["sw-normal"] = (c, "C07.RecNormal")
            if want["sw-rd"] is None:
                c = json.loads(ln)
                c["rd"]["idx"] = c["rd"]["idx"][:-3]           # a triangle missing after reading back
                want["sw-rd"] = (c, "C07.RtCount")
        if o["k"] == "sr" and o["rerr"] == "" and o["werr"] == "" and 2 <= len(o["gen"]) <= 300:
            if want["sr-rd"] is None:
                c = json.loads(ln)
                p = c["rd"]["pos"][c["rd"]["idx"][1]]
                p[2] += 1                                    # one coordinate of a corner
                want["sr-rd"] = (c, "C07.RdPositions")
            if want["sr-f2"] is None:
                c = json.loads(ln)
                c["f2"]["count"] -= 1                       # count field disagrees with the records
                want["sr-f2"] = (c, "C07.RwSize")
        if o["k"] == "sz" and o["rerr"] == "" and o["werr"] == "":
            if want["sz-size"] is None and o["dir"] == "w":
                c = json.loads(ln)
                c["f"]["nbytes"] -= 50                      # one record short, the count field still says n
                c["f"]["nrecs"] -= 1
                want["sz-size"] = (c, "C07.SizeLaw")
            if want["sz-count"] is None and o["dir"] == "r":
                c = json.loads(ln)
                c["rdn"] -= 65536                           # a 16 bit counter wrapped
                want["sz-count"] = (c, "C07.RdCount")
        if o["k"] == "sb" and o["rerr"] == "" and o["werr"] == "" and len(o["gen"]) >= 1:
            if want["sb-attr"] is None:
                c = json.loads(ln)
                c["bin"][-1]["a"] += 1                       # an attribute word changed by Read
                want["sb-attr"] = (c, "C07.BinRecords")
            if want["sb-f2"] is None:
                c = json.loads(ln)
                c["f2"]["recs"][0]["n"][0] ^= 1             # last bit of a stored normal changed by Write
                want["sb-f2"] = (c, "C07.BinRewrite")
        if all(v is not None for v in want.values()):
            break
    missing = [k for k, v in want.items() if v is None]
    if missing:
        raise core.Infra("self-test: no accepted line to corrupt for %s" % missing)
    order = sorted(want)
    lines = [json.dumps(want[k][0], separators=(",", ":")) + "\n" for k in order]
    findings, _ = judge_lines(ctx, "selftest", lines, module="TraceStl")
    for i, k in enumerate(order):
        preds = {f["pred"] for f in findings if f["case"] == i}
        if want[k][1] not in preds:
            raise core.Infra("self-test: corrupted trace (%s) was not rejected with %s (got %s)" %
                             (k, want[k][1], sorted(preds)))
    return len(order)


def run_family(ctx, prefix="C07"):
    vh = core.build_vh()
    cases, notes = collect_cases(ctx, vh)
    findings, ex, raw = execute_and_judge(ctx, vh, cases)
    ctx.extra.update(notes)
    ctx.extra["exercised"] = {k: ex.get(k, 0) for k in PREDICATES}
    ctx.extra["non_finite_normal_written_for_degenerate_zero_normal_record"] = ex.get("note.nonFiniteNormalWritten", 0)
    ctx.extra["cases_by_kind"] = {k: sum(1 for c in cases if c["k"] == k) for k in ("sw", "sr", "sb", "sz")}
    ctx.extra["max_triangles"] = max([c["seeded"]["ntris"] for c in cases if c.get("seeded") and c["k"] != "sz"] + [0])
    ctx.extra["max_triangles_sizes_only"] = max([c["seeded"]["ntris"] for c in cases if c["k"] == "sz"] + [0])
    ctx.extra["cases_by_reader_variant"] = {str(m): sum(1 for c in cases if c["io"] == m) for m in sorted(set(READER_ROT))}
    ctx.extra["cases_by_writer_variant"] = {str(m): sum(1 for c in cases if c["wio"] == m) for m in sorted(set(WRITER_ROT))}
    ctx.nontrivial = sum(1 for c in cases if nontrivial(c))
    ctx.rule = ("cases: TLC BFS of StlGen (every index pattern of <=2 triangles over 3,4%s vertices, with/without normals; "
                "every list of <=%d records from 6 templates, through ReadMesh/WriteMesh and through Read/Write), TLC "
                "-simulate walks (4 triangles), seeded recorder (arbitrary floats incl. float32 boundary values, up to %d "
                "triangles), TLC-enumerated size profiles (counts m*T-1, m*T, m*T+1 up to %d triangles%s; up to %d triangles "
                "judged on the size law and the triangle count only); every case "
                "with one of 12 reader and 4 writer variants; distinct by mesh / record list; non-trivial: >=1 triangle "
                "and a non-identity index pattern, or >=1 record"
                % ("" if ctx.tier == "quick" else ",5", 3 if ctx.tier == "quick" else 5,
                   max([c["seeded"]["ntris"] for c in cases if c.get("tag") == "random"] + [0]),
                   ctx.extra["max_triangles"],
                   ", the heavier ones rotating with the seed" if ctx.tier == "quick" else "",
                   ctx.extra["max_triangles_sizes_only"]))
    for c in (cases[5], cases[-1]):
        ctx.sample({"k": c["k"], "tag": c.get("tag"),
                    "shape": c.get("seeded") or (c["mesh"]["idx"] if c["k"] == "sw" else [r["n"] for r in c["gen"]])})
    per_sig = {}
    for f in findings:
        if f["pred"].startswith("Harness."):
            raise core.Infra("harness inconsistency %s at case %d" % (f["pred"], f["case"]))
        if not f["pred"].startswith(prefix + "."):
            continue
        c = cases[f["case"]]
        sig = signature(f, c)
        per_sig[sig] = per_sig.get(sig, 0) + 1
        if per_sig[sig] > 3:
            continue
        what = "%s rejected a %s %s case%s (reader variant %d, writer variant %d)" % (
            f["pred"], c.get("tag", ""), c["k"],
            " of %d triangles" % c["seeded"]["ntris"] if c.get("seeded") else "", c["io"], c["wio"])
        ctx.violation(sig, what, {"family": "stl", "case": c})
    ctx.extra["rejections_by_signature"] = per_sig
    # vacuity guard: every predicate must have been evaluated with its antecedent true (a defect that
    # stops the pipeline early is reported as the violation it is, not as vacuity)
    idle = [p for p in PREDICATES if ex.get(p, 0) == 0]
    known = {k["signature"] for k in core.load_known() if k.get("property") == ctx.pid and k.get("status") == "open"}
    fresh = [v for v in ctx.violations if v["signature"] not in known]
    if ctx.extra.get("stopped_early") and not fresh:
        raise core.Infra("the harness stopped early (%s) but no executed case was rejected" % ctx.extra["stopped_early"]["why"])
    if idle and not fresh:
        raise core.Infra("predicates never exercised: %s" % idle)
    if ctx.tier == "thorough" and not fresh:
        ctx.extra["selftest_corruptions_rejected"] = selftest(ctx, raw)
    ctx.assumptions += [
        "the independent record parser/encoder (harness/objstl/stl_rec.go) implements the binary STL layout",
        "normals are compared in units of 1/4096 with the explicit bands of StlFormat.UnitAlong "
        "(about 2.4e-4 rad, 5e-4 in length); positions exactly (float32 neighbours of the source value)",
        "a mesh read back without a Normal attribute carries the geometric normal implicitly",
        "the attribute word cannot be represented in a mesh: only a zero word must be reproduced",
        "TLC evaluates StlFormat/TraceStl correctly",
    ]


def replay_family(ctx, path, prefix="C07"):
    with open(path) as f:
        obj = json.load(f)
    c = obj["case"]["case"]
    vh = core.build_vh()
    keep = os.path.join(core.REPLAYS, ctx.pid, "files")
    findings, ex, raw = execute_and_judge(ctx, vh, [c], name="replay", keep=keep)
    for f in findings:
        print("replay: %s (%s)" % (f["pred"], ",".join(f["why"])))
        if f["pred"].startswith(prefix + "."):
            ctx.violation(signature(f, c), "replayed", obj["case"])
    print("replay: STL files kept in %s" % keep)
    ctx.rule = "replay of one recorded case"
    ctx.nontrivial = 1
    ctx.sample({"replayed": path})
