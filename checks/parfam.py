"""Parallel-variants family (C10): generator (TLC) -> executor (real goroutines under the
generated schedule) -> judge (TLC on TracePar).

  ParScan.tla   L2 model of the worker-pool partition; design check; all interleavings for
                small (n, w), sampled interleavings up to n=40, w=17          -> scan cases
  ParField.tla  L2 model of AddFieldParallel's job queue / block list; design check (NoRace);
                all job orders for small (attributes, blocks, workers)        -> field cases
  ParFieldGeom.tla  L2 model of the job geometry along one axis (block borders, empty and
                whole-block jobs) and of several fields accumulated on ONE canvas; design check;
                every history of 1..2 ranges with its classification          -> geometry cases
  vh par-exec   runs the sequential counterpart and the parallel entry point; the harness
                callbacks block every invocation, a controller releases them in the order of
                the generated schedule; events are written in release order
  TracePar.tla  judges every event / result against the contract (ParContract.tla)
  vh-race       the same cases on a -race build: auxiliary observer for the race-freedom clause
"""
import json
import os
import random
import re
import subprocess
import time
import zlib
from concurrent.futures import ThreadPoolExecutor

from vlib import core

VARIANTS = ["ScanF1", "ScanF2", "ScanF3", "ModF1", "ModF2", "ModF3",
            "Prim:triangle", "Prim:point", "Prim:line strip"]
ARITY = {"ScanF1": 1, "ScanF2": 2, "ScanF3": 3, "ModF1": 1, "ModF2": 2, "ModF3": 3}
API = {"ScanF1": "ScanFloat1AttributeParallel", "ScanF2": "ScanFloat2AttributeParallel",
       "ScanF3": "ScanFloat3AttributeParallel", "ModF1": "ModifyFloat1AttributeParallel",
       "ModF2": "ModifyFloat2AttributeParallel", "ModF3": "ModifyFloat3AttributeParallel",
       "Prim": "ScanPrimitivesParallel"}


def api_name(c):
    if c["kind"] == "field":
        return c["api"]
    return API[c["variant"]] + ("" if c.get("defpool") else "WithPoolSize")


# --------------------------------------------------------------------------
# inputs
# --------------------------------------------------------------------------

def scan_input(variant, n, salt):
    """Element values / mesh for n elements. Values are small integers, distinct per element."""
    v, _, topo = variant.partition(":")
    c = {"variant": v, "topo": topo, "idx": [], "in": [], "n": n}
    if v != "Prim":
        ar = ARITY[v]
        c["in"] = [[(7 * i + 3 + salt % 5) if k == 0 else ((13 * i + 5 * k + salt) % 97) for k in range(ar)]
                   for i in range(n)]
        return c
    pos = lambda j: [j, (j * j + salt) % 7, (3 * j) % 5]
    if topo == "triangle":
        if salt % 2 == 0:                       # shared vertices, non-identity index buffer
            nv = n + 2 if n > 0 else 0
            c["idx"] = [t + k for t in range(n) for k in range(3)]
        else:                                   # triangle soup, reversed corner order
            nv = 3 * n
            c["idx"] = [3 * t + k for t in range(n) for k in (2, 1, 0)]
    elif topo == "point":
        nv = n
        c["idx"] = list(range(n)) if salt % 2 == 0 else list(range(n - 1, -1, -1))
    else:                                       # line strip: n segments need n+1 indices
        nv = n + 1
        c["idx"] = list(range(n + 1)) if salt % 2 == 0 else list(range(n, -1, -1))
    c["in"] = [pos(j) for j in range(nv)]
    return c


def mk_scan(variant, n, w, *, sched=None, gated=True, salt=0, seed=0, defpool=False, procs=0, tag=""):
    c = {"kind": "scan", "id": 0, "defpool": defpool, "w": w, "fa": 2 + salt % 2, "fb": 1 + salt % 3,
         "gated": gated, "prio": [], "hint": [], "seed": seed, "procs": procs, "tag": tag}
    c.update(scan_input(variant, n, salt))
    if sched is not None:
        c["prio"] = [s["i"] for s in sched]
        c["hint"] = [s["en"] for s in sched]
    return c


def block_box(shape, neg, thin):
    """A domain box (in cells) touching shape[k] blocks along axis k."""
    lo, hi = [], []
    for k in range(3):
        base = -200 if neg else 0
        if shape[k] == 1:
            a, b = base + 3 + k, base + 8 + k + (0 if thin else 2)
        elif shape[k] == 2:
            a, b = base + 96 + k % 2, base + 103 - k % 2
        else:                                   # three blocks along this axis
            a, b = base + 97, base + 202
        lo.append(a)
        hi.append(b)
    return lo, hi


def mk_field(api, shape, attrs, order, *, pre=False, cpu=1, neg=False, ncpu=0, march=False, cuts2=(0,),
             reps=(0,), mattrs=(1,), gated=True, tag=""):
    lo, hi = block_box(shape, neg, thin=max(shape) > 2)
    c2 = [lo[k] + hi[k] + (1 if k == 0 else 0) for k in range(3)]          # centre (x off-lattice by half a cell)
    r2 = max(3, min(hi[k] - lo[k] for k in range(3)) - 1)
    fields = []
    if pre:       # a first field creates the blocks of attribute 1; the judged add finds them
        fields.append({"lo": lo, "hi": hi, "attrs": [attrs[0]], "c2": [c2[0] + 2, c2[1], c2[2] - 1], "r2": r2})
    fields.append({"lo": lo, "hi": hi, "attrs": list(attrs), "c2": c2, "r2": r2})
    return {"kind": "field", "id": 0, "api": api, "cpu": cpu, "fields": fields, "cuts2": list(cuts2),
            "march": march, "mattrs": list(mattrs), "reps": list(reps), "gated": gated, "prio": list(order),
            "ncpu": ncpu, "noseq": False, "shape": list(shape), "tag": tag}


# ---- geometry cases (ParFieldGeom) ----------------------------------------

GEOM_S = 4                                  # block edge of the model


def geom_real(m, mid):
    """model coordinate -> real cell: the residue classes first / second / inside / last cell of a block"""
    return 100 * (m // GEOM_S) + (0, 1, mid, 99)[m % GEOM_S]


def n_blocks(lo, hi):
    """blocks a domain lo..hi (cells) registers: the canvas range is [lo-1, hi+1) and its exclusive end counts"""
    return [(hi[k] + 1) // 100 - (lo[k] - 1) // 100 + 1 for k in range(3)]


def finish_field_case(c, rnd, attrs):
    """shape (blocks per axis of the union of all fields), job priorities"""
    lo = [min(f["lo"][k] for f in c["fields"]) for k in range(3)]
    hi = [max(f["hi"][k] for f in c["fields"]) for k in range(3)]
    c["shape"] = n_blocks(lo, hi)
    nj = max(n_blocks(f["lo"], f["hi"])[0] * n_blocks(f["lo"], f["hi"])[1] * n_blocks(f["lo"], f["hi"])[2]
             for f in c["fields"]) * len(attrs)
    c["prio"] = rnd.sample(range(1, nj + 1), nj)
    return c


def mk_geom(api, axis, ranges, rnd, *, attrs=(1,), cpu=1, ncpu=2, cuts2=(0,), apis=None, marchevery=False,
            reps=(), gated=True, thin=(40, 51), tag="geom", labels=None):
    """Fields that are thin in two axes and have the canvas range [MN, MX) along `axis`: quantised cylinders
    along that axis which the domain cuts off at both ends, so the surface reaches the first and the last
    sample layer and crosses every block border in between."""
    fields = []
    for i, (mn, mx) in enumerate(ranges):
        lo, hi = [thin[0] - i] * 3, [thin[1] + i] * 3
        lo[axis], hi[axis] = mn + 1, mx - 1
        c2 = [thin[0] + thin[1] + (1 if k == (axis + 1) % 3 else 0) for k in range(3)]
        c2[axis] = mn + mx
        f = {"lo": lo, "hi": hi, "attrs": list(attrs if i == len(ranges) - 1 else attrs[:1]), "c2": c2,
             "r2": 6 + 2 * i, "axis": axis + 1, "fkind": "", "api": (apis[i] if apis else "")}
        fields.append(f)
    c = {"kind": "field", "id": 0, "api": api, "cpu": cpu, "fields": fields, "cuts2": list(cuts2), "march": True,
         "mattrs": [attrs[0]], "reps": list(reps), "gated": gated, "prio": [], "ncpu": ncpu, "noseq": False,
         "bits": False, "marchevery": marchevery, "tag": tag, "labels": labels or {}}
    return finish_field_case(c, rnd, attrs)


def mk_fullblock(api, per_axis, order, rnd, *, attrs=(1,), cpu=1, ncpu=3, cuts2=(-5,), apis=None, gated=False,
                 marchevery=False, tag="fullblock"):
    """A field whose canvas range covers a COMPLETE block (per_axis: the range [MN, MX) of every axis, taken from
    the model's histories with a whole-block job) on a canvas that holds, or later receives, a small field inside
    that block. order: sequence of "thin" / "full"."""
    blk = [((mn + 100) // 100 * 100 if mn % 100 else mn) for mn, mx in per_axis]     # origin of the covered block
    ctr = [b + 50 for b in blk]
    fields = []
    for i, what in enumerate(order):
        if what == "full":
            lo = [mn + 1 for mn, mx in per_axis]
            hi = [mx - 1 for mn, mx in per_axis]
            r2 = 24 + 2 * sum(1 for w in order[:i] if w == "full")
        else:
            lo, hi = [c - 7 for c in ctr], [c + 7 for c in ctr]
            r2 = 8
        f = {"lo": lo, "hi": hi, "attrs": list(attrs if i == len(order) - 1 else attrs[:1]),
             "c2": [2 * ctr[0] + 1, 2 * ctr[1], 2 * ctr[2]], "r2": r2, "axis": 0, "fkind": "",
             "api": (apis[i] if apis else "")}
        fields.append(f)
    c = {"kind": "field", "id": 0, "api": api, "cpu": cpu, "fields": fields, "cuts2": list(cuts2), "march": True,
         "mattrs": [attrs[0]], "reps": [], "gated": gated, "prio": [], "ncpu": ncpu, "noseq": False,
         "bits": False, "marchevery": marchevery, "tag": tag,
         "labels": {"full": [1 if w == "full" else 0 for w in order],
                    "over": [1 if w == "full" and i > 0 else 0 for i, w in enumerate(order)]}}
    return finish_field_case(c, rnd, attrs)


def mk_bits(api, shape, rnd, *, ncpu=0, neg=False, reps=(0,), pre=False, cpu=1):
    """A real-valued tube wall (true distance, irrational values; radius 25 cells, wall 3 cells, 5 layers long)
    along the axis that straddles two blocks: its inner and outer surface cross the face between the blocks in two
    circles of ~150 cells. The vertices on that face are computed by BOTH neighbouring blocks; on x- and z-faces
    the two blocks interpolate one of the in-face edge directions from opposite ends, so the two copies agree only
    up to the last bit (about one vertex in a hundred differs) and the result depends on which copy survives the
    merge of the block meshes."""
    base = -200 if neg else 0
    main = list(shape).index(2)
    lo, hi = [], []
    for k in range(3):
        a, b = (98, 101) if k == main else (70, 135) if shape[k] == 2 else (15, 80)
        lo.append(base + a)
        hi.append(base + b)
    c2 = [lo[k] + hi[k] + (2, -3, 1)[k] for k in range(3)]
    fields = []
    if pre:
        fields.append({"lo": lo, "hi": hi, "attrs": [1], "c2": [c2[0] + 6, c2[1] - 4, c2[2] + 2], "r2": 30, "axis": main + 1,
                       "fkind": "ring", "api": ""})
    fields.append({"lo": lo, "hi": hi, "attrs": [1], "c2": c2, "r2": 50, "axis": main + 1, "fkind": "ring", "api": ""})
    c = {"kind": "field", "id": 0, "api": api, "cpu": cpu, "fields": fields, "cuts2": [0], "march": True, "mattrs": [1],
         "reps": list(reps), "gated": True, "prio": [], "ncpu": ncpu, "noseq": False, "bits": True, "marchevery": False,
         "tag": "bits", "labels": {}}
    return finish_field_case(c, rnd, (1,))


# ---- seam cases (ParSeam) ---------------------------------------------------

SEAM_S = 4                                  # block edge of the ParSeam model
SEAM_REACH = 11                             # real cells a slab reaches from the seam (model: S - 1)


def mk_seam(api, axes, g, ks, rnd, *, ncpu=2, thin=(40, 51), cpu=1, tag="seam"):
    """A ParSeam scenario on the real 100-cell blocks: a lattice slab (orthant solid / plate, values in
    {-2,-1,1,2}) that is thin across the axis, positioned relative to the seam at cell ks[axis] (a multiple of
    100) along every axis of `axes` (one axis: face seam; two / three: edge / corner seam). The model's canvas
    ranges [mn, mx) are mapped end by end (distance from the seam -3/0/3 model cells -> -11/0/11 real cells; the
    early field of a "padded" lower block ends exactly on that block's low border)."""
    sc = g["seam"]
    d = lambda m: (m - SEAM_S) * SEAM_REACH // (SEAM_S - 1)
    ranges = [("main", g["main"])]
    if sc["low"] == "padded":
        ranges.insert(0, ("early", g["early"]))
    fields = []
    for what, (mn, mx) in ranges:
        lo, hi = [thin[0]] * 3, [thin[1]] * 3
        c2, mask = [0, 0, 0], 0
        for a in axes:
            k = ks[a]
            if what == "main":
                rmn, rmx = k + d(mn), k + d(mx)
            else:
                rmn, rmx = k - 100 - SEAM_REACH, k - 100
            lo[a], hi[a] = rmn + 1, rmx - 1
            c2[a] = 2 * (k + g["t"] - SEAM_S) - 1
            mask |= 1 << a
        fields.append({"lo": lo, "hi": hi, "attrs": [1], "c2": c2, "r2": 2 * sc["thick"], "axis": 0, "fkind": "orth",
                       "api": "", "mask": mask, "sgn": sc["sgn"], "shapes": []})
    c = {"kind": "field", "id": 0, "api": api, "cpu": cpu, "fields": fields, "cuts2": [sc["cut"]], "march": True,
         "mattrs": [1], "reps": [0], "gated": False, "prio": [], "ncpu": ncpu, "noseq": False, "bits": False,
         "marchevery": False, "tag": tag,
         "labels": {"seam": sc, "axes": list(axes), "lowkind": g["lowkind"], "upkind": g["upkind"], "seamx": g["seamx"],
                    "uown": g["uown"], "ncross": g["ncross"]}}
    return finish_field_case(c, rnd, (1,))


# ---- closure cases (ParClosure) ------------------------------------------------

def mk_closure(api, g, axis, k, rnd, *, ncpu=0, cpu=1, salt=0, tag="closure"):
    """A field of the marching package whose sampling closure has shared internal structure (CombineFields of
    g["parts"] shapes, or MultiSegmentLine with that many segments), spanning g["span"] storage blocks along
    `axis` around the block border at cell k (1: inside one block; 2: straddling the border; 3: reaching over the
    next border as well). Real-valued: compared bit by bit."""
    n, span = g["parts"], g["span"]
    a0, a1 = {1: (k + 30, k + 62), 2: (k - 9, k + 10), 3: (k - 8, k + 107)}[span]
    side = [37 + salt % 5, 44 - salt % 3]               # position in the two other axes
    others = [q for q in range(3) if q != axis]
    steps = n if g["ckind"] == "msline" else max(1, n - 1)

    def pt(t, j):
        p = [0, 0, 0]
        p[axis] = a0 + (a1 - a0) * t // steps
        for i, q in enumerate(others):
            p[q] = side[i] + (j % 3) - 1
        return p

    shapes, lo, hi = [], [10 ** 6] * 3, [-10 ** 6] * 3

    def grow(p, m):
        for q in range(3):
            lo[q], hi[q] = min(lo[q], p[q] - m), max(hi[q], p[q] + m)

    if g["ckind"] == "msline":
        for j in range(n + 1):
            p = pt(j, j)
            shapes.append([3] + p)
            grow(p, 9)
        r2 = 5
    else:
        r2 = 0
        for j in range(n):
            p = pt(j, j)
            kind = (j + salt) % 3
            if kind == 0:
                shapes.append([0] + p + [5 + j % 2])
                grow(p, 8)
            elif kind == 1:
                shapes.append([1] + p + [9, 7 + j % 2, 8])
                grow(p, 8)
            else:
                q = pt(min(j + 1, n - 1), j + 1) if j + 1 < n else [p[0] + 3, p[1] + 2, p[2] - 2]
                shapes.append([2] + p + q + [2])
                grow(p, 6)
                grow(q, 6)
    f = {"lo": lo, "hi": hi, "attrs": [1], "c2": [0, 0, 0], "r2": r2, "axis": 0, "fkind": g["ckind"], "api": "",
         "mask": 0, "sgn": 1, "shapes": shapes}
    c = {"kind": "field", "id": 0, "api": api, "cpu": cpu, "fields": [f], "cuts2": [0], "march": True, "mattrs": [1],
         "reps": [0] if span > 1 else [], "gated": False, "prio": [], "ncpu": ncpu, "noseq": False, "bits": True,
         "marchevery": False, "tag": tag, "labels": {"closure": g, "axis": axis, "border": k}}
    return finish_field_case(c, rnd, (1,))


# --------------------------------------------------------------------------
# generators (TLC)
# --------------------------------------------------------------------------

def retry_killed(f, tries=3):
    """Re-run f when TLC was killed from outside (exit 137/143: another job on a shared machine
    cleaning up java processes); any other failure propagates."""
    for k in range(tries):
        try:
            return f()
        except core.Infra as e:
            if k == tries - 1 or not re.search(r"exited (137|143|130)\b", str(e)):
                raise
            core.log("[retry] %s" % str(e).splitlines()[0])
            time.sleep(2)


def dedupe(values, key):
    seen, out = set(), []
    for v in values:
        if not (isinstance(v, dict) and key in v):
            continue
        s = json.dumps(v, sort_keys=True)
        if s not in seen:
            seen.add(s)
            out.append(v)
    return out


def run_generators(ctx, notes):
    tier, seed = ctx.tier, ctx.seed
    quick = tier == "quick"
    nsim = 300 if quick else 8000
    jobs = {
        "scan": lambda: core.run_tlc(ctx.scratch("gen-scan"), "ParScan",
                                     "ParScanQuick.cfg" if quick else "ParScanFixed.cfg",
                                     workers=2 if quick else min(4, core.NCPU), timeout=900),
        "scanpinned": lambda: core.run_tlc(ctx.scratch("gen-scanpinned"), "ParScan", "ParScanPinned.cfg", timeout=300),
        "scansim": lambda: core.run_tlc(ctx.scratch("gen-scansim"), "ParScan", "ParScanSim.cfg", timeout=900,
                                        simulate="num=%d" % nsim, depth=100, seed=seed),
        "field": lambda: core.run_tlc(ctx.scratch("gen-field"), "ParField", "ParFieldFixed.cfg",
                                      workers=2 if quick else min(4, core.NCPU), timeout=900),
        "fieldpinned": lambda: core.run_tlc(ctx.scratch("gen-fieldpinned"), "ParField", "ParFieldPinned.cfg", timeout=300),
        "geom": lambda: core.run_tlc(ctx.scratch("gen-geom"), "ParFieldGeom", "ParFieldGeom.cfg", workers=2, timeout=600),
        "geomskip": lambda: core.run_tlc(ctx.scratch("gen-geomskip"), "ParFieldGeom", "ParFieldGeomSkip.cfg", timeout=300),
        "geomcopy": lambda: core.run_tlc(ctx.scratch("gen-geomcopy"), "ParFieldGeom", "ParFieldGeomCopy.cfg", timeout=300),
        "seam": lambda: core.run_tlc(ctx.scratch("gen-seam"), "ParSeam", "ParSeam.cfg", timeout=300),
        "seamskip": lambda: core.run_tlc(ctx.scratch("gen-seamskip"), "ParSeam", "ParSeamSkip.cfg", timeout=300),
        "closure": lambda: core.run_tlc(ctx.scratch("gen-closure"), "ParClosure", "ParClosure.cfg", timeout=300),
        "closureshared": lambda: core.run_tlc(ctx.scratch("gen-closureshared"), "ParClosure", "ParClosureShared.cfg",
                                              timeout=300),
        "closuresharedpure": lambda: core.run_tlc(ctx.scratch("gen-closuresharedpure"), "ParClosure",
                                                  "ParClosureSharedPure.cfg", timeout=300),
    }
    with ThreadPoolExecutor(max_workers=min(len(jobs), max(2, core.NCPU // 2))) as ex:
        futs = {k: ex.submit(retry_killed, f) for k, f in jobs.items()}
        res = {k: f.result() for k, f in futs.items()}
    # design-level results on the models themselves
    for k in ("scan", "field", "geom", "seam", "closure"):
        if res[k].rc != 0:
            raise core.Infra("model %s violates its own property %s (spec bug)" % (k, res[k].violated))
        ctx.add_tlc(res[k])
    if res["scansim"].rc != 0:
        raise core.Infra("ParScan violates %s in simulation (spec bug)" % res["scansim"].violated)
    for k in ("scanpinned", "fieldpinned", "geomskip", "geomcopy", "seamskip", "closureshared", "closuresharedpure"):
        ctx.add_tlc(res[k])
    # round 5: the designs "a block job skips a block that is uniform in its own samples" and "the closure keeps
    # its hit list in a shared buffer" are refuted at design level
    got = (res["seamskip"].violated, res["closureshared"].violated, res["closuresharedpure"].violated)
    if got != ("MarchEqual", "NoRace", "Pure"):
        raise core.Infra("ParSeam / ParClosure: the skip-uniform-block / shared-scratch shapes are expected to be refuted "
                         "(MarchEqual / NoRace / Pure), got %s" % (got,))
    notes["model_seam_skip_uniform_refuted"] = got[0]
    notes["model_closure_shared_scratch_refuted"] = "%s, %s" % got[1:]
    notes["model_scan_states"] = res["scan"].distinct
    notes["model_scan_transitions"] = res["scan"].generated
    notes["model_field_states"] = res["field"].distinct
    notes["model_field_transitions"] = res["field"].generated
    notes["model_pinned_loop_shape_refuted"] = res["scanpinned"].violated
    notes["model_pinned_field_shape_refuted"] = res["fieldpinned"].violated
    if res["scanpinned"].violated != "Termination" or res["fieldpinned"].violated != "NoRace":
        raise core.Infra("the pinned-shape models are expected to be refuted (Termination / NoRace), got %s / %s" %
                         (res["scanpinned"].violated, res["fieldpinned"].violated))
    # the two shapes of the round-2 seeded changes are refuted at design level
    if res["geomskip"].violated != "RegOK" or res["geomcopy"].violated != "ContentOK":
        raise core.Infra("ParFieldGeom: the skip-empty-job / copy-whole-block shapes are expected to be refuted "
                         "(RegOK / ContentOK), got %s / %s" % (res["geomskip"].violated, res["geomcopy"].violated))
    geoms = dedupe(res["geom"].values, "f")
    notes["model_geom_states"] = res["geom"].distinct
    notes["geom_histories"] = len(geoms)
    scheds = dedupe(res["scan"].values, "sched")
    sims = [s for s in dedupe(res["scansim"].values, "sched") if s["n"] > 0]
    orders = dedupe(res["field"].values, "order")
    notes["bfs_schedules"] = len(scheds)
    notes["sim_schedules"] = len(sims)
    notes["field_job_orders"] = len(orders)
    seams = sorted(dedupe(res["seam"].values, "seam"), key=lambda g: json.dumps(g["seam"], sort_keys=True))
    closures = sorted(dedupe(res["closure"].values, "ckind"), key=lambda g: (g["ckind"], g["span"], g["parts"]))
    notes["seam_scenarios"] = len(seams)
    notes["closure_classes"] = len(closures)
    geoms = {"geoms": geoms, "seams": seams, "closures": closures}
    return scheds, sims, orders, geoms


# --------------------------------------------------------------------------
# cases
# --------------------------------------------------------------------------

def build_cases(ctx, scheds, sims, orders, geoms):
    quick = ctx.tier == "quick"
    seed = ctx.seed
    rnd = random.Random(1000 + seed)
    cases = []

    # (1) every interleaving of the small model, variants rotating; every (variant, n, w) at least once
    groups = {}
    for s in scheds:
        groups.setdefault((s["n"], s["w"]), []).append(s)
    k = seed
    for (n, w), ss in sorted(groups.items()):
        reps = max(len(ss), len(VARIANTS))
        for j in range(reps):
            s = ss[j % len(ss)]
            cases.append(mk_scan(VARIANTS[k % len(VARIANTS)], n, w, sched=s["sched"], salt=k, tag="bfs"))
            k += 1
    # (2) sampled interleavings at larger sizes
    for j, s in enumerate(sims):
        cases.append(mk_scan(VARIANTS[(j + seed) % len(VARIANTS)], s["n"], s["w"], sched=s["sched"], salt=j, tag="sim"))
    # (3) seeded gated runs with random priorities (no model hint)
    for j in range(60 if quick else 1000):
        n = rnd.choice([0, 1, 2, 3, 5, 8, 13, 21, 34, 55, rnd.randint(0, 60)])
        w = rnd.choice([1, 2, 3, 4, 7, 16, 17, 33, rnd.randint(1, 64)])
        c = mk_scan(VARIANTS[(j + seed) % len(VARIANTS)], n, w, salt=rnd.randint(0, 99), tag="gated-random")
        c["prio"] = rnd.sample(range(n), n)
        cases.append(c)
    # (4) free-running perturbed runs at sizes the gate would make slow; default pool entry points
    for j in range(200 if quick else 3000):
        n = rnd.choice([0, 1, 2, 7, 16, 31, 64, 100, rnd.randint(0, 300), rnd.randint(100, 300 if quick else 400)])
        w = rnd.choice([1, 2, 3, 5, 8, 16, 17, 40, rnd.randint(1, 64), n + 1])
        defpool = j % 6 == 5
        c = mk_scan(VARIANTS[(j + seed) % len(VARIANTS)], n, w, gated=False, salt=rnd.randint(0, 99),
                    seed=rnd.randint(1, 1 << 30), defpool=defpool, procs=rnd.choice([0, 0, 1, 2, 4]), tag="free")
        cases.append(c)
    # (5) systematic sweep: every n <= 40, w <= 17 (quick: one entry point per pair, rotating; thorough: all nine)
    for n in range(0, 41):
        for w in range(1, 18):
            for vi, variant in enumerate(VARIANTS):
                if quick and (n * 17 + w + seed) % len(VARIANTS) != vi:
                    continue
                gated = (n + w + vi) % 2 == 0
                c = mk_scan(variant, n, w, gated=gated, salt=n + w + vi, seed=1 + n * 31 + w, tag="sweep")
                if gated:
                    c["prio"] = rnd.sample(range(n), n)
                cases.append(c)
    # the degenerate mesh: a line strip without indices (PrimitiveCount() is -1)
    for w in (1, 2, 3, 5):
        c = mk_scan("Prim:line strip", 0, w, salt=0, tag="empty-strip")
        c["idx"], c["in"] = [], []
        cases.append(c)
        c = dict(c, gated=False, seed=w)
        cases.append(c)

    # (6) field accumulation: every job order of the small model on real multi-block canvases
    axes = [(2, 1, 1), (1, 2, 1), (1, 1, 2)]
    fcases = []
    for j, o in enumerate(orders):
        shape = (1, 1, 1) if o["b"] == 1 else axes[(j + seed) % 3]
        attrs = [1, 21][:o["a"]]
        for api in ("AddFieldParallel", "AddFieldParallel2"):
            if api == "AddFieldParallel2" and (j + seed) % 3 != 0 and quick:
                continue
            fcases.append(mk_field(api, shape, attrs, o["order"], pre=bool(o["pre"]), ncpu=o["w"],
                                   neg=(j % 4 == 3), cpu=(2 if j % 5 == 4 else 1), tag="model-order"))
    # more jobs than workers, many blocks, all CPUs, one CPU (sequential fallback)
    extra = [((3, 1, 1), [1, 21, 22], 2), ((2, 2, 1), [1, 21], 3), ((2, 2, 2), [1], 5), ((2, 1, 1), [1, 21, 22, 23], 0),
             ((1, 1, 1), [1], 1), ((2, 1, 1), [1, 21], 1)]
    if not quick:
        extra += [((3, 3, 1), [1, 21], 4), ((2, 2, 2), [1, 21, 22], 7), ((3, 2, 1), [1], 2), ((1, 3, 2), [1, 21], 0)]
    for j, (shape, attrs, ncpu) in enumerate(extra):
        nj = shape[0] * shape[1] * shape[2] * len(attrs)
        for r in range(2 if quick else 6):
            order = rnd.sample(range(1, nj + 1), nj)
            for api in ("AddFieldParallel", "AddFieldParallel2"):
                fcases.append(mk_field(api, shape, attrs, order, ncpu=ncpu, neg=(r % 2 == 1), gated=(r % 3 != 2),
                                       tag="seeded-order"))
    # marching comparisons (expensive: a block costs ~0.4 s per sequential march)
    mplan = [((1, 1, 1), [1], 0, 1, False, (0, -20)), ((2, 1, 1), [1], 3, 1, False, (0, -3, 3)),
             ((1, 2, 1), [1], 0, 2, True, (0,)), ((1, 1, 2), [1, 21], 2, 1, False, (0,))]
    if not quick:
        mplan += [((2, 2, 1), [1], 0, 1, False, (0, 3)), ((2, 2, 2), [1], 5, 1, True, (0,)),
                  ((2, 1, 2), [1, 21], 3, 2, False, (0, -3)), ((3, 1, 1), [1], 0, 1, False, (0,)),
                  ((1, 2, 2), [1], 2, 4, True, (0, 3))]
    for j, (shape, attrs, ncpu, cpu, neg, cuts2) in enumerate(mplan):
        nj = shape[0] * shape[1] * shape[2] * len(attrs)
        for r in range(1 if quick else 3):
            order = rnd.sample(range(1, nj + 1), nj)
            c = mk_field("AddFieldParallel" if (j + r) % 3 else "AddFieldParallel2", shape, attrs, order, ncpu=ncpu,
                         cpu=cpu, neg=neg, march=True, cuts2=cuts2, mattrs=attrs[:1],
                         reps=(0, 2) if quick else (0, 1, 3), pre=(j % 2 == 1), tag="march")
            fcases.append(c)
    fcases += geometry_cases(ctx, geoms["geoms"], rnd)
    fcases += seam_cases(ctx, geoms["seams"], rnd)
    fcases += closure_cases(ctx, geoms["closures"], rnd)
    cases += fcases
    for i, c in enumerate(cases):
        c["id"] = i
        if c["kind"] == "field":
            c.setdefault("bits", False)
            c.setdefault("marchevery", False)
            for f in c["fields"]:
                f.setdefault("axis", 0)
                f.setdefault("fkind", "")
                f.setdefault("api", "")
                f.setdefault("mask", 0)
                f.setdefault("sgn", 1)
                f.setdefault("shapes", [])
    return cases


def seam_class(g):
    return (g["seam"]["pos"], g["lowkind"], g["upkind"], g["seamx"], g["uown"])


def seam_cases(ctx, seams, rnd):
    """(11) round 5: iso-surfaces in every position relative to a block seam (ParSeam): lower block / exactly in
    the seam cell layer / upper block, x what the blocks hold (uniform, all zero, absent, crossing), per axis, plus
    edge / corner seams. Every run contains, for every axis, a scenario in which a block that is uniform in its
    own samples owns a crossing seam cell (the class the model refutes the skip-uniform design with)."""
    quick, seed = ctx.tier == "quick", ctx.seed
    ncpus = (2, 3, 5, 0)
    borders = (100, 0, -100, 200)
    out = []
    owned = [g for g in seams if g["uown"] and g["seam"]["pos"] == "seam" and g["seamx"]]
    classes = {}
    for g in seams:
        classes.setdefault(seam_class(g), []).append(g)
    keys = sorted(classes)
    plan = []                                                       # (scenario, axes)
    for axis in range(3):
        for r in range(1 if quick else len(owned)):
            plan.append((owned[(seed * 5 + axis * 7 + r) % len(owned)], (axis,)))
    if quick:
        for j in range(3):
            gs = classes[keys[(seed * 7 + j * 11) % len(keys)]]
            plan.append((gs[(seed + j) % len(gs)], ((j + seed) % 3,)))
    else:
        for j, key in enumerate(keys):
            for r in range(2):
                plan.append((classes[key][(seed + r * 5) % len(classes[key])], ((j + r + seed) % 3,)))
    # edge / corner seams: the same scenario along two / three axes at once (orthant solids); no early field
    multi = [g for g in owned if g["seam"]["low"] != "padded"]
    pairs = ((0, 1), (1, 2), (0, 2))
    plan.append((multi[(seed * 3) % len(multi)], pairs[seed % 3]))
    if not quick:
        plan += [(multi[(seed * 3 + 1 + j) % len(multi)], p) for j, p in enumerate(pairs)]
        plan.append((multi[(seed * 3 + 5) % len(multi)], (0, 1, 2)))
    for j, (g, axes) in enumerate(plan):
        ks = [borders[(j + seed + a) % len(borders)] for a in range(3)]
        thin = THINS[(j + seed) % len(THINS)]
        out.append(mk_seam(PAR_APIS[(j + seed) % 2], axes, g, ks, rnd, ncpu=ncpus[(j + seed) % 4], thin=thin,
                           cpu=(1, 1, 2)[(j + seed) % 3], tag="seam"))
    return out


def closure_cases(ctx, closures, rnd):
    """(12) round 5: fields whose sampling closure has shared internal structure (ParClosure): CombineFields of 2..k
    shapes, MultiSegmentLine, spanning one, two and more storage blocks, through EVERY parallel entry point."""
    quick, seed = ctx.tier == "quick", ctx.seed
    borders = (0, 100, -100)
    out = []
    by = {}
    for g in closures:
        by.setdefault((g["ckind"], g["span"]), []).append(g)
    plan = []
    if quick:
        for j, key in enumerate((("union", 2), ("msline", 2 + seed % 2), ("union", 3), ("msline", 3 - seed % 2),
                                 (("union", "msline")[seed % 2], 1))):
            plan.append(by[key][(seed + j) % len(by[key])])
    else:
        plan = list(closures)
    for j, g in enumerate(plan):
        for ai, api in enumerate(PAR_APIS):
            if quick and g["span"] == 1 and ai != seed % 2:
                continue
            out.append(mk_closure(api, g, (j + seed) % 3, borders[(j + seed + ai) % 3], rnd, ncpu=(0, 3, 0, 2)[(j + ai) % 4],
                                  cpu=(1, 2)[(j + seed) % 2], salt=j + seed))
    return out


PAR_APIS = ("AddFieldParallel", "AddFieldParallel2")
THINS = ((40, 51), (-60, -49), (3, 14), (150, 161))


def geometry_cases(ctx, geoms, rnd):
    """(7)-(10): the dimensions added in round 2 (NOTES-c10.md): where a field starts and ends relative to the
    block borders, whole-block jobs, several fields on ONE canvas, bit-exact comparison on real-valued fields."""
    quick, seed = ctx.tier == "quick", ctx.seed
    mid = (50, 98, 2, 37, 63)[seed % 5]
    real = lambda r: (geom_real(r[0], mid), geom_real(r[1], mid))
    usable = [g for g in geoms if all(real(r)[1] - real(r)[0] >= 2 for r in g["f"])]
    singles = sorted((g for g in usable if len(g["f"]) == 1), key=lambda g: g["f"])
    pairs = sorted((g for g in usable if len(g["f"]) == 2), key=lambda g: g["f"])
    out = []
    ncpus = (2, 3, 5, 0)
    cpus = (1, 1, 2, 1, 4, 1, 3, 1, 10)

    def labels(g):
        return {k: g[k] for k in ("f", "cls", "empty", "full", "over", "rel")}

    # (7) one field: every class of (start residue, end residue, blocks) of the model along one axis
    ending = [g for g in singles if g["empty"][0] > 0]             # the end is an exact multiple of the block size
    others = [g for g in singles if g["empty"][0] == 0]
    plan = []                                                       # (history, axis, api)
    if quick:
        for axis in range(3):
            for ai, api in enumerate(PAR_APIS):                     # always: an empty last job on every axis, both entries
                plan.append((ending[(seed * 7 + axis * 5 + ai * 3) % len(ending)], axis, api))
        for j in range(6):                                          # rotating: the other classes
            plan.append((others[(seed * 11 + j * 13) % len(others)], (j + seed) % 3, PAR_APIS[(j + seed) % 2]))
    else:
        for j, g in enumerate(singles):
            axis = (j + seed) % 3
            both = g["empty"][0] > 0 or g["full"][0] > 0 or g["cls"][0][0] in (0, 3)
            for ai, api in enumerate(PAR_APIS):
                if both or (j + seed + ai) % 2 == 0:
                    plan.append((g, (axis + ai) % 3, api))
    for j, (g, axis, api) in enumerate(plan):
        cuts2 = (0,) if quick or j % 4 else (0, 3)                  # 1.5: a sheet along the whole grown domain
        out.append(mk_geom(api, axis, [real(g["f"][0])], rnd, ncpu=ncpus[(j + seed) % 4], cpu=cpus[(j + seed) % len(cpus)],
                           cuts2=cuts2, thin=THINS[(j + seed) % len(THINS)], gated=(j % 3 != 2),
                           attrs=(1, 21) if j % 5 == 4 else (1,), tag="geom", labels=labels(g)))

    # (8) two fields on ONE canvas: one history per class (relation, whole-block job over earlier samples,
    #     empty jobs, whole-block jobs); the earlier field goes in through any of the three entry points
    classes = {}
    for g in pairs:
        key = (g["rel"], g["over"][1] > 0, g["empty"][1] > 0, g["empty"][0] > 0, g["full"][1] > 0, g["full"][0] > 0)
        classes.setdefault(key, []).append(g)
    keys = sorted(classes)
    chosen = [keys[(seed * 5 + j * 21) % len(keys)] for j in range(4)] if quick else keys
    for j, key in enumerate(chosen):
        gs = classes[key]
        g = gs[(seed * 17 + j) % len(gs)]
        api = PAR_APIS[(j + seed) % 2]
        first = ("", "AddField", PAR_APIS[(j + seed + 1) % 2])[(j + seed) % 3]
        cuts2 = (0, -5) if g["rel"] not in ("touch", "apart") else (0,)
        out.append(mk_geom(api, (j + seed) % 3, [real(r) for r in g["f"]], rnd, ncpu=ncpus[(j + seed + 1) % 4],
                           cuts2=cuts2, apis=[first, ""], marchevery=(j % 4 == 1), thin=THINS[(j + seed) % 2],
                           gated=(j % 3 != 0), tag="geom-pair", labels=labels(g)))

    # (9) a field covering a COMPLETE block (10^6 samples in one job) on a canvas that holds / later receives others
    fulls = [real(g["f"][0]) for g in singles if g["full"][0] == 1 and g["cls"][0][2] == 2]      # two blocks per axis
    fulls3 = [real(g["f"][0]) for g in singles if g["full"][0] == 1 and g["cls"][0][2] == 3]
    pick = lambda lst, k: lst[(seed * 3 + k) % len(lst)]
    fplan = [(PAR_APIS[1], ("thin", "full"), 0), (PAR_APIS[0], ("thin", "full"), 1)]
    if not quick:
        fplan += [(PAR_APIS[1], ("full", "thin"), 2), (PAR_APIS[0], ("full", "thin"), 3),
                  (PAR_APIS[1], ("full", "full"), 4), (PAR_APIS[1], ("thin", "full", "thin"), 5),
                  (PAR_APIS[0], ("full", "full"), 6)]
    for j, (api, order, k) in enumerate(fplan):
        per_axis = [pick(fulls, k + 2 * a) for a in range(3)]
        if not quick and j == 5:
            per_axis[seed % 3] = pick(fulls3, k)
        first = ("", "AddField")[(j + seed) % 2] if order[0] == "thin" else ""
        out.append(mk_fullblock(api, per_axis, order, rnd, ncpu=ncpus[(j + seed) % 3], apis=[first] + [""] * (len(order) - 1),
                                cuts2=(-5,) if quick else (-5, 0), attrs=(1, 21) if j == 4 else (1,),
                                cpu=2 if j == 3 else 1))

    # (10) real-valued fields, triangle corners compared bit by bit: the surface crosses block faces, where both
    #      neighbouring blocks compute the shared vertices
    bplan = [((2, 1, 1), (1, 1, 2))[seed % 2]]
    if not quick:
        bplan += [((1, 1, 2), (2, 1, 1))[seed % 2], (1, 2, 1), (2, 2, 1), (1, 2, 2), (2, 1, 2)]
    for j, shape in enumerate(bplan):
        for r in range(1 if quick else 2):
            out.append(mk_bits(PAR_APIS[(j + r + seed) % 2], shape, rnd, ncpu=(0, 3, 2)[(j + r) % 3], neg=(j + r) % 2 == 1,
                               reps=(0, 1, 2, 3) if quick else (0, 1, 2, 3, 5), pre=(r == 1)))
    return out


def race_subset(ctx, cases):
    """Cases re-run on the -race build (auxiliary observer)."""
    quick = ctx.tier == "quick"
    out = []
    per = {}
    for c in cases:
        if c["kind"] == "scan":
            key = (c["variant"], c["topo"], c["gated"])
            lim = (6 if quick else 40)
            if c["n"] >= 2 and c["w"] >= 2 and c["n"] <= 64 and per.get(key, 0) < lim:
                per[key] = per.get(key, 0) + 1
                out.append(dict(c))
        else:
            key = (c["api"], c["march"], c["tag"])
            lim = {"march": 1 if quick else 3, "model-order": 10 if quick else 80, "seeded-order": 6 if quick else 40,
                   "geom": 2 if quick else 8, "geom-pair": 2 if quick else 8, "fullblock": 0 if quick else 1,
                   "bits": 0, "seam": 0 if quick else 2, "closure": 2 if quick else 12}[c["tag"]]
            if c["tag"] == "closure" and c["labels"]["closure"]["span"] == 1:
                continue                            # one job: nothing runs concurrently
            nb = c["shape"][0] * c["shape"][1] * c["shape"][2]
            if c["tag"] == "march" and nb > 2:
                continue
            if per.get(key, 0) < lim and c["ncpu"] != 1:
                per[key] = per.get(key, 0) + 1
                d = dict(c, noseq=True)
                if d["tag"] != "march":
                    d["march"] = False          # the accumulation is what these cases add; marching races: tag "march"
                if d["march"]:
                    d["cuts2"], d["reps"], d["mattrs"] = d["cuts2"][:1], [0], d["mattrs"][:1]
                out.append(d)
    return out


# --------------------------------------------------------------------------
# execution
# --------------------------------------------------------------------------

_CASE = re.compile(r"^CASE (-?\d+)$", re.M)


def exec_cases(binary, workdir, name, cases, *, ncpu=0, race=False, timeout=1500):
    """Run cases in order; restart after a crash/timeout of the process. Returns (trace lines, stderr)."""
    os.makedirs(workdir, exist_ok=True)
    cp = os.path.join(workdir, name + ".cases.ndjson")
    tp = os.path.join(workdir, name + ".trace.ndjson")
    core.write_ndjson(cp, cases)
    if os.path.exists(tp):
        os.remove(tp)
    env = core.goenv()
    if race:
        env["GORACE"] = "halt_on_error=0 history_size=2"
    cpus = None
    if ncpu:
        avail = sorted(os.sched_getaffinity(0))
        start = zlib.crc32(name.encode()) % len(avail)
        cpus = {avail[(start + k) % len(avail)] for k in range(min(ncpu, len(avail)))}
    skip, errs, t0 = 0, [], time.time()
    retried = set()
    while skip < len(cases):
        if time.time() - t0 > timeout:
            raise core.Infra("vh par-exec %s exceeded %ss" % (name, timeout))
        try:
            p = subprocess.run([binary, "par-exec", "-in", cp, "-out", tp, "-skip", str(skip)],
                               stdout=subprocess.PIPE, stderr=subprocess.PIPE, text=True, env=env,
                               timeout=timeout, preexec_fn=(lambda: os.sched_setaffinity(0, cpus)) if cpus else None)
        except subprocess.TimeoutExpired:
            raise core.Infra("vh par-exec %s timed out" % name)
        errs.append(p.stderr)
        ids = [int(x) for x in _CASE.findall(p.stderr)]
        if p.returncode in (0, 66) and ids and ids[-1] == -1:
            break
        if not ids or ids[-1] == -1 or p.returncode not in (2, 4):
            raise core.Infra("vh par-exec %s failed (%d):\n%s" % (name, p.returncode, p.stderr[-3000:]))
        # the process died inside case ids[-1]: a goroutine of the code under test panicked (2) or hung (4)
        pos = next(i for i, c in enumerate(cases) if c["id"] == ids[-1])
        if p.returncode == 4 and ids[-1] not in retried:
            # a hang may be an overloaded machine: drop the case's partial lines, run it once more
            retried.add(ids[-1])
            with open(tp) as f:
                keep = f.readlines()
            while keep and not keep[-1].startswith('{"k":"case"'):
                keep.pop()
            with open(tp, "w") as f:
                f.write("".join(keep[:-1]))
            errs[-1] = errs[-1][:errs[-1].rfind("CASE %d\n" % ids[-1])]
            skip = pos
            continue
        if p.returncode == 2:
            c = cases[pos]
            with open(tp, "a") as f:
                if c["kind"] == "scan":
                    f.write(json.dumps({"k": "done", "out": [], "src": [], "st": "CRASH", "ex": True},
                                       separators=(",", ":")) + "\n")
                else:
                    f.write(json.dumps({"k": "field", "fi": 0, "seq": [], "par": [], "sst": "SKIP", "pst": "CRASH",
                                        "late": 0, "offlat": False, "jobs": []}, separators=(",", ":")) + "\n")
        skip = pos + 1
    with open(tp) as f:
        lines = f.readlines()
    return lines, "".join(errs)


_FRAME = re.compile(r"^  (\S+)\(\)$")


def short_fn(t):
    """github.com/EliCDavis/polyform/modeling/marching.(*MarchingCanvas).addFloat1Range -> addFloat1Range ;
    .../modeling.Mesh.ModifyFloat3AttributeParallelWithPoolSize.func1 -> ModifyFloat3AttributeParallelWithPoolSize.func1"""
    t = t.split("/")[-1]
    t = t.split(".", 1)[1] if "." in t else t
    t = re.sub(r"^\(\*?\w+\)\.", "", t)
    t = re.sub(r"^(Mesh|MarchingCanvas)\.", "", t)
    return re.sub(r"\.gowrap\d+$", "", t)


def parse_races(stderr):
    """race detector reports per case id: {id: [(polyform?, fnA, fnB)]}."""
    res = {}
    cur = None
    blocks = []
    for seg in re.split(r"^(CASE -?\d+)$", stderr, flags=re.M):
        m = re.match(r"CASE (-?\d+)$", seg)
        if m:
            cur = int(m.group(1))
            continue
        if cur is None:
            continue
        for rep in seg.split("WARNING: DATA RACE")[1:]:
            tops = []
            for part in re.split(r"^(?:Write|Read|Previous write|Previous read|Atomic write|Previous atomic write|"
                                 r"Atomic read|Previous atomic read) at .*$", rep, flags=re.M)[1:3]:
                top = "?"
                for ln in part.splitlines():
                    fm = _FRAME.match(ln)
                    if fm and not fm.group(1).startswith("runtime."):
                        top = fm.group(1)
                        break
                    if ln.startswith("Goroutine ") or ln.startswith("=========="):
                        break
                tops.append(top)
            while len(tops) < 2:
                tops.append("?")
            poly = all(t.startswith("github.com/EliCDavis/polyform/") for t in tops)
            short = sorted(short_fn(t) for t in tops)
            res.setdefault(cur, []).append((poly, short[0], short[1]))
    return res


def execute(ctx, vh, vhr, cases, rcases, notes):
    """Run everything, return list of (case-by-id dict, trace lines) units for validation."""
    wd = ctx.scratch("exec")
    scans = [c for c in cases if c["kind"] == "scan"]
    fields = [c for c in cases if c["kind"] == "field"]
    tasks = []          # (name, binary, cases, ncpu, race)
    nsplit = max(1, min(core.NCPU // 2, 4))
    for k in range(nsplit):
        tasks.append(("scan%d" % k, vh, scans[k::nsplit], 0, False))
    # field cases: grouped by worker count (CPU affinity decides runtime.NumCPU()); marching ones alone
    groups = {}
    for c in fields:
        if c["march"]:
            tasks.append(("march%d" % c["id"], vh, [c], c["ncpu"], False))
        else:
            groups.setdefault(c["ncpu"], []).append(c)
    for ncpu, cs in sorted(groups.items()):
        half = (len(cs) + 1) // 2
        for k, part in enumerate([cs[:half], cs[half:]]):
            if part:
                tasks.append(("field-w%d-%d" % (ncpu, k), vh, part, ncpu, False))
    # race runs: one process per variant (the detector reports a racing pair once per process)
    rg = {}
    for c in rcases:
        if c["kind"] == "scan":
            rg.setdefault("race-%s-%s" % (c["variant"], c["topo"].replace(" ", "")), []).append(c)
        else:
            rg["race-field%d" % c["id"]] = [c]
    for name, cs in sorted(rg.items()):
        tasks.append((name, vhr, cs, cs[0].get("ncpu", 0) if cs[0]["kind"] == "field" else 0, True))
    tasks.sort(key=lambda t: (0 if t[0].startswith("march") else 1 if t[4] else 2))

    def one(t):
        name, binary, cs, ncpu, race = t
        t0 = time.time()
        lines, err = exec_cases(binary, wd, name, cs, ncpu=ncpu, race=race)
        return t, lines, err, time.time() - t0

    with ThreadPoolExecutor(max_workers=max(2, core.NCPU)) as ex:
        results = list(ex.map(one, tasks))
    trace = []
    nrace_reports = 0
    for (name, binary, cs, ncpu, race), lines, err, wall in results:
        core.log("[exec] %s: %d cases, %d lines, %.1fs" % (name, len(cs), len(lines), wall))
        if not race:
            trace += lines
            continue
        races = parse_races(err)
        # attach one race line per case right after the case's own lines
        byid = {}
        cur = None
        for ln in lines:
            if ln.startswith('{"k":"case"'):
                cur = json.loads(ln)["c"]["id"]
            byid.setdefault(cur, []).append(ln)
        for c in cs:
            reps = races.get(c["id"], [])
            nrace_reports += len(reps)
            n = sum(1 for r in reps if r[0])
            rl = {"k": "race", "n": n, "h": len(reps) - n,
                  "fns": sorted({"%s+%s" % (r[1], r[2]) for r in reps})}
            trace += byid.get(c["id"], [])
            trace.append(json.dumps(rl, separators=(",", ":")) + "\n")
    notes["race_reports"] = nrace_reports
    return trace


# --------------------------------------------------------------------------
# judging
# --------------------------------------------------------------------------

def judge(ctx, name, trace):
    """Validate trace lines with TLC; returns findings [(pred, case dict, line dict, race line or None)]."""
    # core.shard_trace cuts by line count: spread the few heavy units (marching results with 10^3..10^5
    # triangles) evenly among the many light ones so that every shard gets its share of them
    units = []
    for ln in trace:
        if ln.startswith('{"k":"case"') or not units:
            units.append([])
        units[-1].append(ln)
    heavy = [u for u in units if sum(map(len, u)) > 50000]
    light = [u for u in units if sum(map(len, u)) <= 50000]
    heavy.sort(key=lambda u: -sum(map(len, u)))
    nsh = min(core.NCPU, 16)
    heavy = [u for k in range(nsh) for u in heavy[k::nsh]]          # consecutive runs of similar total weight
    step = (len(light) // len(heavy) + 1) if heavy else 0
    trace = []
    for k, u in enumerate(heavy):
        for v in light[k * step:(k + 1) * step]:
            trace += v
        trace += u
    for v in light[len(heavy) * step:]:
        trace += v
    results = retry_killed(lambda: core.validate_sharded(
        ctx, name, "TracePar", "TracePar.cfg", trace,
        is_boundary=lambda ln: ln.startswith('{"k":"case"'), timeout=3000))
    findings = []
    for sh, r in results:
        for v in r.values:
            if not (isinstance(v, dict) and "bad" in v):
                continue
            k = v["l"] - 1
            ln = json.loads(sh[k])
            while not sh[k].startswith('{"k":"case"'):
                k -= 1
            c = json.loads(sh[k])["c"]
            for pred in v["bad"]:
                findings.append((pred, c, ln))
    return findings


def entry_point(c, ln):
    """the parallel entry point a rejected line is about"""
    if ln.get("k") == "march" and ln.get("what") == "marchpar":
        return "MarchOnAttributeParallel"
    if c["kind"] == "field" and ln.get("k") == "field" and ln.get("api"):
        return ln["api"]                        # the entry point that added this field (may differ from the case's)
    if c["kind"] == "field" and ln.get("k") == "march":
        # the canvas was filled by every field up to fi: name the parallel entry points among them
        upto = c["fields"][:ln.get("fi", len(c["fields"]) - 1) + 1]
        par = sorted({f.get("api") or c["api"] for f in upto} - {"AddField"})
        return "+".join(par) if par else c["api"]
    return api_name(c)


def signature(pred, c, ln):
    sig = "%s/%s" % (pred, entry_point(c, ln))
    if c["kind"] == "scan" and c["variant"] == "Prim":
        sig += "/" + c["topo"].replace(" ", "-")
    if pred == "C10.RaceFree":
        sig += "/" + ",".join(ln.get("fns", []))
    return sig


def describe(pred, c, ln):
    if c["kind"] == "scan":
        return "%s rejected a %s run of %s: n=%d elements, pool size %d%s (%s case); line %s" % (
            pred, "gated" if c["gated"] else "free", api_name(c), c["n"], c["w"],
            (", topology " + c["topo"]) if c["topo"] else "", c.get("tag"), json.dumps(ln)[:300])
    return "%s rejected %s on a canvas with %s blocks, attributes %s, %s workers (%s case); line %s" % (
        pred, entry_point(c, ln), "x".join(map(str, c.get("shape", []))), c["fields"][-1]["attrs"], c.get("ncpu") or "all",
        c.get("tag"), json.dumps(ln)[:300])


def report(ctx, findings, prefix="C10."):
    other = 0
    best = {}
    count = {}
    for pred, c, ln in findings:
        if pred.startswith("Harness."):
            raise core.Infra("harness inconsistency %s in case %s: %s" % (pred, c.get("id"), json.dumps(ln)[:300]))
        if not pred.startswith(prefix):
            other += 1
            core.log("[flag] %s in case %s (not a C10 predicate)" % (pred, c.get("id")))
            continue
        sig = signature(pred, c, ln)
        count[sig] = count.get(sig, 0) + 1
        size = (c.get("n", 0) + c.get("w", 0)) if c["kind"] == "scan" else len(json.dumps(c))
        if sig not in best or size < best[sig][0]:
            best[sig] = (size, pred, c, ln)
    for sig, (size, pred, c, ln) in sorted(best.items()):
        ctx.violation(sig, describe(pred, c, ln) + " [%d rejected lines with this signature]" % count[sig],
                      {"family": "parfam", "case": c, "pred": pred, "race": pred == "C10.RaceFree"})
    ctx.extra["flags_for_other_properties"] = other
    ctx.extra["rejected_lines"] = sum(count.values())


# --------------------------------------------------------------------------
# conformance self-test (thorough): corrupt accepted traces, TLC must reject
# --------------------------------------------------------------------------

def selftest(ctx, trace, findings):
    """Take accepted units of the trace, corrupt one logged field, require the matching rejection."""
    units, cur = [], []
    for ln in trace:
        if ln.startswith('{"k":"case"') and cur:
            units.append(cur)
            cur = []
        cur.append(ln)
    if cur:
        units.append(cur)
    badids = {c.get("id") for _, c, _ in findings}

    def pick(pred):
        for u in units:
            rows = [json.loads(x) for x in u]
            if rows[0]["c"].get("id") in badids or any(r["k"] == "race" for r in rows):
                continue
            if pred(rows):
                return rows
        raise core.Infra("self-test: no accepted trace unit of the required shape")

    def gated_scan(rows, variants=None, minv=3):
        c = rows[0]["c"]
        return (c["kind"] == "scan" and c["gated"] and sum(1 for r in rows if r["k"] == "visit") >= minv
                and (variants is None or c["variant"] in variants) and rows[1]["k"] == "seq")

    def visits(rows):
        return [i for i, r in enumerate(rows) if r["k"] == "visit"]

    tests = []      # (name, rows, expected predicate or None (= must be accepted))

    rows = pick(lambda r: gated_scan(r, ["ScanF1", "ScanF2", "ScanF3"]))
    a = json.loads(json.dumps(rows)); v = visits(a); a[v[1]]["i"] = a[v[0]]["i"]
    tests.append(("duplicate-index", a, "C10.Once"))
    a = json.loads(json.dumps(rows)); v = visits(a); a[v[-1]]["v"][0] += 1
    tests.append(("foreign-value", a, "C10.OwnValue"))
    a = json.loads(json.dumps(rows)); v = visits(a); del a[v[1]]
    tests.append(("dropped-visit", a, "C10.All"))
    a = json.loads(json.dumps(rows)); v = visits(a); a[v[0]]["i"] = a[0]["c"]["n"]
    tests.append(("index-out-of-range", a, "C10.Index"))
    a = json.loads(json.dumps(rows)); v = visits(a); a[v[-1]]["late"] = True
    tests.append(("callback-after-return", a, "C10.Joined"))
    a = json.loads(json.dumps(rows)); v = visits(a); a[v[0]], a[v[-1]] = a[v[-1]], a[v[0]]
    tests.append(("reordered-visits-accepted", a, None))
    rows = pick(lambda r: gated_scan(r, ["Prim"]))
    a = json.loads(json.dumps(rows)); v = visits(a); a[v[0]]["v"][3] += 1
    tests.append(("foreign-primitive", a, "C10.OwnValue"))
    rows = pick(lambda r: gated_scan(r, ["ModF1", "ModF2", "ModF3"]))
    a = json.loads(json.dumps(rows)); a[-1]["out"][1][0] += 1
    tests.append(("wrong-output", a, "C10.Output"))
    a = json.loads(json.dumps(rows)); a[-1]["src"][0][0] += 1
    tests.append(("source-modified", a, "C10.SourceIntact"))
    a = json.loads(json.dumps(rows)); a[-1]["st"] = "FAIL"
    tests.append(("status-differs", a, "C10.Status"))
    rows = pick(lambda r: r[0]["c"]["kind"] == "scan" and not r[0]["c"]["gated"] and r[0]["c"]["n"] >= 3
                and r[-1]["k"] == "run" and r[-1]["st"] == "OK")
    a = json.loads(json.dumps(rows)); a[-1]["ev"][0][0] = a[-1]["ev"][1][0]
    tests.append(("free-run-duplicate", a, "C10.Once"))
    a = json.loads(json.dumps(rows)); del a[-1]["ev"][2]
    tests.append(("free-run-missing", a, "C10.All"))
    rows = pick(lambda r: r[0]["c"]["kind"] == "field" and len(r) >= 2 and r[1]["k"] == "field" and len(r[1]["par"]) >= 1
                and r[1]["par"][0][1:3] != r[1]["par"][0][5:7] and r[1]["par"][0][1] < r[1]["par"][0][2]
                and r[1]["sst"] == "OK")
    a = json.loads(json.dumps(rows)); a[1]["par"][0][7] = 2
    tests.append(("sample-twice", a, "C10.FieldOnce"))
    a = json.loads(json.dumps(rows)); a[1]["par"][0][2] -= 1
    tests.append(("sample-missing", a, "C10.FieldSamples"))
    a = json.loads(json.dumps(rows)); b = a[1]["par"][0]; b[1], b[2], b[5], b[6] = b[5], b[6], b[1], b[2]
    tests.append(("sample-xz-swapped", a, "C10.FieldSamples"))

    def has_march(r, what):
        return any(x["k"] == "march" and x["what"] == what and len(x["tris"]) > 4 for x in r)
    rows = pick(lambda r: r[0]["c"]["kind"] == "field" and has_march(r, "marchpar") and has_march(r, "fieldpar"))
    mi = next(i for i, x in enumerate(rows) if x["k"] == "march" and x["what"] == "marchpar" and len(x["tris"]) > 4)
    fi = next(i for i, x in enumerate(rows) if x["k"] == "march" and x["what"] == "fieldpar" and len(x["tris"]) > 4)
    a = json.loads(json.dumps(rows)); del a[mi]["tris"][2]
    tests.append(("triangle-missing", a, "C10.MarchEqual"))
    a = json.loads(json.dumps(rows)); t = a[mi]["tris"][1]; a[mi]["tris"][1] = t[3:] + t[:3]; a[mi]["tris"].reverse()
    tests.append(("triangles-rotated-and-reordered-accepted", a, None))
    a = json.loads(json.dumps(rows)); t = a[mi]["tris"][1]; a[mi]["tris"][1] = t[3:6] + t[0:3] + t[6:9]
    tests.append(("triangle-flipped", a, "C10.MarchEqual"))
    a = json.loads(json.dumps(rows)); a[fi]["tris"][0][0] += 1
    tests.append(("field-result-differs", a, "C10.FieldResult"))
    a = json.loads(json.dumps(rows)); a[fi]["tris"][-1][-1] += 1                # stays sorted and canonical: fast path
    tests.append(("field-result-last-corner-differs", a, "C10.FieldResult"))
    a = json.loads(json.dumps(rows)); del a[fi]["tris"][-1]
    tests.append(("field-result-triangle-missing", a, "C10.FieldResult"))
    rows = pick(lambda r: r[0]["c"]["kind"] == "field" and r[0]["c"].get("bits") and has_march(r, "marchpar"))
    mi = next(i for i, x in enumerate(rows) if x["k"] == "march" and x["what"] == "marchpar" and len(x["tris"]) > 4)
    a = json.loads(json.dumps(rows)); t = a[mi]["tris"][3]; t[-1] ^= 1          # one corner differs in its last bit
    tests.append(("one-ulp", a, "C10.MarchEqual"))
    a = json.loads(json.dumps(rows)); a.append({"k": "race", "n": 1, "h": 0, "fns": ["x+y"]})
    tests.append(("race-report", a, "C10.RaceFree"))

    lines, spans = [], []
    for name, rows_, exp in tests:
        spans.append((len(lines), len(lines) + len(rows_), name, exp))
        lines += [json.dumps(r, separators=(",", ":")) + "\n" for r in rows_]
    d = ctx.scratch("selftest")
    with open(os.path.join(d, "trace.ndjson"), "w") as f:
        f.write("".join(lines))
    r = retry_killed(lambda: core.run_tlc(d, "TracePar", "TracePar.cfg", timeout=600, heap="3g"))
    ctx.add_tlc(r)
    if r.postcondition_failed or r.distinct != len(lines) + 1:
        raise core.Infra("self-test trace not fully consumed")
    got = {}
    for v in r.values:
        if isinstance(v, dict) and "bad" in v:
            for lo, hi, name, exp in spans:
                if lo < v["l"] <= hi:
                    got.setdefault(name, set()).update(v["bad"])
    for lo, hi, name, exp in spans:
        g = got.get(name, set())
        if exp is None and g:
            raise core.Infra("self-test %s: an equivalent trace was rejected (%s)" % (name, sorted(g)))
        if exp is not None and exp not in g:
            raise core.Infra("self-test %s: TLC did not reject the corrupted trace with %s (got %s)" % (name, exp, sorted(g)))
    ctx.extra["selftest_corruptions_rejected"] = sum(1 for t in tests if t[2])
    ctx.extra["selftest_equivalent_accepted"] = sum(1 for t in tests if not t[2])


# --------------------------------------------------------------------------
# entry points
# --------------------------------------------------------------------------

def stats(ctx, cases, rcases, trace, notes):
    scans = [c for c in cases if c["kind"] == "scan"]
    fields = [c for c in cases if c["kind"] == "field"]
    nb = lambda c: c["shape"][0] * c["shape"][1] * c["shape"][2]
    notes.update({
        "scan_cases": len(scans),
        "scan_cases_gated": sum(1 for c in scans if c["gated"]),
        "scan_cases_free": sum(1 for c in scans if not c["gated"]),
        "scan_cases_n_lt_w": sum(1 for c in scans if 0 < c["n"] < c["w"]),
        "scan_cases_n_not_divisible": sum(1 for c in scans if c["w"] > 1 and c["n"] % c["w"]),
        "scan_cases_default_pool": sum(1 for c in scans if c["defpool"]),
        "scan_distinct_variant_n_w": len({(c["variant"], c["topo"], c["n"], c["w"]) for c in scans}),
        "scan_max_n": max(c["n"] for c in scans), "scan_max_w": max(c["w"] for c in scans),
        "per_variant": {v: sum(1 for c in scans if (c["variant"] + (":" + c["topo"] if c["topo"] else "")) == v)
                        for v in VARIANTS},
        "field_cases": len(fields),
        "field_cases_multi_block": sum(1 for c in fields if nb(c) > 1),
        "field_cases_more_jobs_than_workers": sum(1 for c in fields if c["ncpu"] and nb(c) * len(c["fields"][-1]["attrs"]) > c["ncpu"]),
        "field_cases_AddFieldParallel2": sum(1 for c in fields if c["api"] == "AddFieldParallel2"),
        "march_cases": sum(1 for c in fields if c["march"]),
        "race_cases": len(rcases),
        # round-2 dimensions
        "field_cases_empty_last_job": sum(1 for c in fields if any(c.get("labels", {}).get("empty", []))),
        "field_cases_whole_block_job": sum(1 for c in fields if c["tag"] == "fullblock"),
        "field_cases_whole_block_over_earlier_samples": sum(1 for c in fields if c["tag"] == "fullblock" and
                                                            any(c["labels"]["over"])),
        "field_cases_several_fields_one_canvas": sum(1 for c in fields if len(c["fields"]) > 1),
        "field_cases_march_after_every_field": sum(1 for c in fields if c.get("marchevery") and len(c["fields"]) > 1),
        "field_cases_earlier_field_by_other_entry": sum(1 for c in fields if any(f.get("api") for f in c["fields"])),
        "field_cases_bit_exact_real_valued": sum(1 for c in fields if c.get("bits")),
        "geom_classes_executed": len({json.dumps(c["labels"]["cls"]) for c in fields if c["tag"] in ("geom", "geom-pair")}),
        # round-5 dimensions
        "seam_cases": sum(1 for c in fields if c["tag"] == "seam"),
        "seam_classes_executed": len({json.dumps([c["labels"][k] for k in ("lowkind", "upkind", "seamx", "uown")] +
                                                 [c["labels"]["seam"]["pos"]]) for c in fields if c["tag"] == "seam"}),
        "seam_axes_with_uniform_block_owning_a_crossing_cell": len({c["labels"]["axes"][0] for c in fields
                                                                    if c["tag"] == "seam" and c["labels"]["uown"]
                                                                    and len(c["labels"]["axes"]) == 1 and c["ncpu"] != 1}),
        "seam_cases_edge_or_corner": sum(1 for c in fields if c["tag"] == "seam" and len(c["labels"]["axes"]) > 1),
        "closure_cases": sum(1 for c in fields if c["tag"] == "closure"),
        "closure_entry_points_multi_block": len({c["api"] for c in fields if c["tag"] == "closure" and nb(c) > 1}),
        "closure_kinds_multi_block": len({c["labels"]["closure"]["ckind"] for c in fields if c["tag"] == "closure" and nb(c) > 1}),
        "closure_race_cases": sum(1 for c in rcases if c.get("tag") == "closure"),
    })
    kinds = {}
    tri = 0
    cur, vis, gen, exact_ = None, [], 0, 0
    for ln in trace:
        k = ln[6:ln.index('"', 6)]
        kinds[k] = kinds.get(k, 0) + 1
        if k == "march" and '"tris":[[' in ln:
            tri += 1
            notes["march_triangles_max"] = max(notes.get("march_triangles_max", 0), ln.count("],[") + 1)
        # how faithfully the controller imposed the generated interleavings (a measurement, not a verdict)
        if k == "case":
            cur, vis = json.loads(ln)["c"], []
        elif k == "visit":
            vis.append(json.loads(ln)["i"])
        elif k == "done" and cur.get("tag") in ("bfs", "sim") and cur.get("n", 0) > 1:
            gen += 1
            exact_ += vis == cur["prio"]
    notes["model_schedules_executed"] = gen
    notes["model_schedules_imposed_exactly"] = exact_
    # vacuity guard: every part of the judge must have had something to judge
    need = {"visit lines": kinds.get("visit", 0), "done lines": kinds.get("done", 0), "run lines": kinds.get("run", 0),
            "field lines": kinds.get("field", 0), "march comparisons with triangles": tri, "race lines": kinds.get("race", 0),
            "cases with n < w": notes["scan_cases_n_lt_w"], "cases with n % w != 0": notes["scan_cases_n_not_divisible"],
            "multi-block field cases": notes["field_cases_multi_block"],
            "field cases with more jobs than workers": notes["field_cases_more_jobs_than_workers"],
            "field cases whose last job is empty (end on a block border)": notes["field_cases_empty_last_job"],
            "field cases with a whole-block job over earlier samples": notes["field_cases_whole_block_over_earlier_samples"],
            "cases with several fields on one canvas": notes["field_cases_several_fields_one_canvas"],
            "bit-exact cases": notes["field_cases_bit_exact_real_valued"],
            "seam cases in which a uniform block owns a crossing seam cell on every axis":
                1 if notes["seam_axes_with_uniform_block_owning_a_crossing_cell"] == 3 else 0,
            "multi-block closure fields (CombineFields and MultiSegmentLine) through both parallel entry points":
                1 if notes["closure_entry_points_multi_block"] == 2 and notes["closure_kinds_multi_block"] == 2 else 0,
            "multi-block closure fields under the race detector": notes["closure_race_cases"],
            "model schedules imposed exactly": exact_}
    empty = [k for k, v in need.items() if v == 0]
    if empty:
        raise core.Infra("vacuous run: no %s" % ", ".join(empty))
    if min(notes["per_variant"].values()) == 0:
        raise core.Infra("vacuous run: an entry point was never called: %s" % notes["per_variant"])
    notes["trace_lines_by_kind"] = kinds
    notes["march_comparisons_with_triangles"] = tri


def run_family(ctx):
    notes = {}
    vh = core.build_vh()
    vhr = core.build_vh(race=True)
    scheds, sims, orders, geoms = run_generators(ctx, notes)
    cases = build_cases(ctx, scheds, sims, orders, geoms)
    rcases = race_subset(ctx, cases)
    for i, c in enumerate(rcases):
        c["id"] = len(cases) + i
    t0 = time.time()
    trace = execute(ctx, vh, vhr, cases, rcases, notes)
    notes["exec_wall_s"] = round(time.time() - t0, 1)
    t0 = time.time()
    findings = judge(ctx, "main", trace)
    notes["judge_wall_s"] = round(time.time() - t0, 1)
    stats(ctx, cases, rcases, trace, notes)
    report(ctx, findings)
    if ctx.tier == "thorough":
        selftest(ctx, trace, findings)
    ctx.extra.update(notes)
    ctx.traces += len(cases) + len(rcases)
    ctx.evaluations += len(trace)
    ctx.nontrivial = len({json.dumps([c.get("variant"), c.get("topo"), c.get("n"), c.get("w"), c.get("prio"), c.get("api"),
                                      c.get("shape"), c.get("ncpu"), c.get("fields") if c.get("labels") is not None else 0])
                          for c in cases
                          if (c["kind"] == "scan" and c["n"] >= 2 and c["w"] >= 2) or
                          (c["kind"] == "field" and c["shape"] != [1, 1, 1])})
    ctx.rule = ("scan cases: every interleaving of the ParScan model (n<=%d, w<=%d), sampled interleavings up to n=40,w=17, "
                "a sweep over all n<=40, w<=17, seeded priorities and free-running perturbed runs up to n=400,w=64, over 9 entry points; field cases: every "
                "job order of the ParField model plus seeded orders on canvases of 1-9 blocks with 2..16 workers (CPU "
                "affinity), AddFieldParallel and AddFieldParallel2, March vs MarchParallel; field geometry: the histories "
                "of the ParFieldGeom model (1-2 fields on one canvas, every class of start/end residue relative to the "
                "block size incl. ends on a block border, whole-block jobs, %s), fields covering a complete 100^3 block "
                "before/after another field, real-valued fields compared bit by bit; seam scenarios of the ParSeam model "
                "(surface in the lower block / exactly in the seam cell layer / in the upper block x blocks uniform, all "
                "zero, absent, crossing; per axis, edge and corner seams; always one scenario per axis in which a block "
                "uniform in its own samples owns a crossing cell); closure fields of the ParClosure model (CombineFields of "
                "2..4 shapes, MultiSegmentLine, spanning 1, 2, 3 blocks, both entry points, also under -race); a case is distinct by (entry "
                "point, n, w, schedule) / (entry point, block shape, workers, order, fields); non-trivial: n>=2 and w>=2, "
                "or more than one block" % (((6, 4) if ctx.tier == "quick" else (8, 5)) +
                                             (("a seed-rotated subset plus always one empty last job per axis and entry point",)
                                              if ctx.tier == "quick" else
                                              ("every single-range class, one pair per relation class",))))
    for c in ([c for c in cases if c["kind"] == "scan" and c["n"] >= 5 and c["w"] >= 3][:2] +
              [c for c in cases if c["kind"] == "field" and c["shape"] != [1, 1, 1]][:1] +
              [c for c in cases if c["kind"] == "field" and c["march"]][1:2]):
        ctx.sample({k: c[k] for k in c if k not in ("in", "idx", "hint")})
    ctx.assumptions += [
        "the harness callbacks block every invocation; the controller releases one at a time after the goroutines are "
        "quiescent (hint from the model, else a stability window): the recorded order is what really happened and is what "
        "TLC judges, whether or not it equals the generated schedule",
        "MarchParallel has no user callback: its schedules are the natural ones under varied GOMAXPROCS, not imposed",
        "race freedom is decided by the Go race detector on the generated schedules (trusted auxiliary observer), "
        "reports are attributed to polyform when both racing accesses are in polyform frames",
        "worker counts of AddFieldParallel/MarchParallel are runtime.NumCPU(): varied by CPU affinity of the harness process",
        "lattice cases: values are small integers (exact in float64), at most two fields overlap per attribute, "
        "triangle corners are integers in units of 1/1680 cell; bit-exact cases: real-valued fields, every corner "
        "coordinate is logged as its IEEE-754 bit pattern and compared for identity",
        "the sample multiset of a field is logged as boxes in a canonical form (maximal runs merged along x, y, z): "
        "lossless, and equal multisets have equal encodings; triangle lists are logged in the canonical form of the "
        "multiset, TLC checks the form (SortedCanon) before it compares lists by equality and falls back to the "
        "general multiset comparison otherwise",
    ]


def replay_family(ctx, path):
    with open(path) as f:
        obj = json.load(f)
    c = obj["case"]["case"]
    race = obj["case"].get("race", False)
    vh = core.build_vh(race=race)
    wd = ctx.scratch("replay")
    hits = 0
    for attempt in range(1 if c.get("gated") and not race else 5):
        cc = dict(c)
        if race and cc["kind"] == "field":
            cc["noseq"] = True
        lines, err = exec_cases(vh, wd, "replay%d" % attempt, [cc], ncpu=cc.get("ncpu", 0) if cc["kind"] == "field" else 0,
                                race=race)
        if race:
            reps = parse_races(err).get(cc["id"], [])
            n = sum(1 for r in reps if r[0])
            lines.append(json.dumps({"k": "race", "n": n, "h": len(reps) - n,
                                     "fns": sorted({"%s+%s" % (r[1], r[2]) for r in reps})}) + "\n")
        findings = judge(ctx, "replay%d" % attempt, lines)
        for pred, c2, ln in findings:
            print("replay: %s at %s" % (pred, json.dumps(ln)[:200]))
            if pred == obj["case"]["pred"]:
                hits += 1
                ctx.violation(signature(pred, c2, ln), "replayed", obj["case"])
        if hits:
            break
    ctx.rule = "replay of one recorded case"
    ctx.nontrivial = 1
    ctx.traces += 1
    ctx.sample({"replayed": path, "reproduced": bool(hits)})
