"""Response write phase of the edit server (specs/HttpResp.tla, TraceHttpResp.tla, harness/httpfam/resp.go).

Shared by C13 (signatures C13.Http*) and X04 (X04.Http*): TLC checks the design (a writer shared between requests
whose write phases may overlap violates Whole; per-request writers and a request-wide lock satisfy it), generates
(programs, schedule) cases from the broken and the right designs, the harness replays them on the real mux through
gated ResponseWriters over the byte ladder the spec defines, TLC judges the histories.
"""
import json
import os
import random
from concurrent.futures import ThreadPoolExecutor

from vlib import core


def _cfg(path, shared, scope, maxops, schedlen, sizes, opfilter, tail):
    with open(path, "w") as f:
        f.write('CONSTANTS NC = 2 MaxOps = %d SchedLen = %d SharedWriter = %s LockScope = "%s" Cap = 2 Sizes = {%s} '
                'OpFilter = "%s"\nSPECIFICATION Spec\n%s\nCHECK_DEADLOCK FALSE\n' %
                (maxops, schedlen, "TRUE" if shared else "FALSE", scope, ",".join(map(str, sizes)), opfilter, tail))


def generate(ctx, quick):
    d = ctx.scratch("resp-model")
    sl = 6 if quick else 7
    jobs = {
        # broken design: the generator of attack schedules, and it must violate Whole
        "attack": (True, "eval", 2, sl, [3, 5], "get", "INVARIANTS EmitTorn\nCONSTRAINT StopWhenTorn\nVIEW View"),
        "broken": (True, "eval", 2, 7, [3], "get", "INVARIANTS Whole\nVIEW View"),
        # right designs: must satisfy the contract; behaviours of the code's design are replayed too
        "perreq": (False, "eval", 2, sl, [1, 3], "all", "INVARIANTS Whole NoForeign EmitSched EmitLadder\nVIEW View"),
        "locked": (True, "request", 2, sl, [1, 3], "all", "INVARIANTS Whole NoForeign MutualExclusion\nVIEW View"),
    }

    def one(name):
        j = jobs[name]
        cfg = os.path.join(d, name + ".cfg")
        _cfg(cfg, *j)
        return name, core.run_tlc(os.path.join(d, name), "HttpResp", name + ".cfg", files=[(cfg, name + ".cfg")],
                                  workers=max(2, core.NCPU // 4), timeout=900)

    with ThreadPoolExecutor(max_workers=4) as ex:
        res = dict(ex.map(one, jobs))
    for r in res.values():
        ctx.add_tlc(r)
    if res["broken"].violated != "Whole":
        raise core.Infra("HttpResp: a shared writer outside the request lock does not violate Whole (got %s): model lost its teeth"
                         % res["broken"].violated)
    for name in ("perreq", "locked", "attack"):
        if res[name].rc != 0:
            raise core.Infra("HttpResp %s: TLC ended with %s / rc %s (model bug)" % (name, res[name].violated, res[name].rc))
    ctx.extra["resp_design_shared_writer_counterexample"] = True

    def cases_of(r):
        u = {json.dumps(v, sort_keys=True): v for v in r.values if isinstance(v, dict) and "sched" in v}
        return [u[k] for k in sorted(u)]
    ladder = [v for v in res["perreq"].values if isinstance(v, dict) and "ladder" in v]
    if not ladder:
        raise core.Infra("HttpResp printed no byte ladder")
    unit = ladder[0]["unit"]
    lad = sorted(ladder[0]["ladder"], key=lambda e: (e["n"], e["d"], e["w"]))
    att, ok = cases_of(res["attack"]), cases_of(res["perreq"])
    if not att:
        raise core.Infra("HttpResp: the broken design produced no torn schedule")
    return att, ok, lad, unit


def build_cases(ctx, quick, rnd, att, ok, lad, unit):
    rnd.shuffle(att)
    ok = [v for v in ok if any(o["op"] in ("get", "zip") for p in v["progs"] for o in p)]
    rnd.shuffle(ok)
    att = att[:140 if quick else 3000]
    ok = ok[:100 if quick else 3000]
    big = [e for e in lad if e["n"] * unit + e["d"] > 2 * unit]     # above the buffer: more than one flush
    cases = []
    for i, v in enumerate(att + ok):
        tag = "attack" if i < len(att) else "perreq"
        # attack schedules need artifacts above the buffer; the others walk the whole ladder
        pool = big if tag == "attack" else lad
        e1, e2 = pool[(i * 7 + ctx.seed) % len(pool)], pool[(i * 11 + 3 * ctx.seed) % len(pool)]
        size = [e1["n"] * unit + e1["d"], e2["n"] * unit + e2["d"]]
        # the model's schedule is in chunks of the buffer; a response of k flushes needs k releases: repeat the pattern
        reps = max(1, max(size) // (2 * unit))
        sched = list(v["sched"]) + [c for _ in range(reps) for c in v["sched"]]
        cases.append({"progs": v["progs"], "sched": sched, "size": size, "wsz": e1["w"], "mode": "directed",
                      "seed": ctx.seed, "tag": tag})
    # free-running cases (all gates open, jitter): the same programs, 3 clients
    free = []
    for i in range(40 if quick else 400):
        e1, e2 = lad[rnd.randrange(len(lad))], big[rnd.randrange(len(big))]
        progs = []
        ver = 2
        for c in range(3):
            prog = []
            for _ in range(3):
                k = rnd.randrange(5)
                if k == 0:
                    prog.append({"op": "upd", "p": 0, "v": ver})
                    ver += 1
                elif k == 1:
                    prog.append({"op": "zip", "p": 0, "v": 0})
                else:
                    prog.append({"op": "get", "p": 1 + rnd.randrange(2), "v": 0})
            progs.append(prog)
        free.append({"progs": progs, "sched": [], "size": [e1["n"] * unit + e1["d"], e2["n"] * unit + e2["d"]],
                     "wsz": e2["w"], "mode": "free", "seed": ctx.seed * 1000 + i, "tag": "free"})
    return cases, free


def execute(ctx, binary, cases, name, race_log=None):
    """Cases are independent (one fresh application each): run them in parallel chunks; history numbers are made global again."""
    nchunk = max(1, min(8, core.NCPU // 2, len(cases) // 10 or 1))
    per = (len(cases) + nchunk - 1) // nchunk

    def one(i):
        d = ctx.scratch("%s-%02d" % (name, i))
        cp, tp = os.path.join(d, "cases.ndjson"), os.path.join(d, "trace.ndjson")
        core.write_ndjson(cp, cases[i * per:(i + 1) * per])
        env = {}
        if race_log:
            env["GORACE"] = "halt_on_error=0 exitcode=0 log_path=%s" % race_log
        core.run_vh(binary, ["xh-resp", "-in", cp, "-out", tp], timeout=1500, env_extra=env)
        out = []
        for ln in open(tp):
            x = json.loads(ln)
            x["h"] += i * per
            # keys in the harness's order: shards are cut at lines that start with {"k":"reset"
            out.append(json.dumps(x, separators=(",", ":")) + "\n")
        return out

    with ThreadPoolExecutor(max_workers=nchunk) as ex:
        parts = list(ex.map(one, range(nchunk)))
    return [ln for part in parts for ln in part]


def judge(ctx, prop, cases, raw, name):
    res = core.validate_sharded(ctx, name, "TraceHttpResp", "TraceHttpResp.cfg", raw, timeout=1500,
                                check_consumed=False, heap="3g")
    n = 0
    for sh, r in res:
        rows = [json.loads(ln) for ln in sh]
        hs = [x["h"] for x in rows if x["k"] == "reset"]
        seen = set()
        for v in r.values:
            if not (isinstance(v, dict) and "bad" in v):
                continue
            h = hs[v["h"] - 1]
            lines = [x for x in rows if x["h"] == h]
            c = cases[h]
            for pred in sorted(v["bad"]):
                if pred == "HttpLinearizable" and any(x["k"] == "hang" for x in lines):
                    pred = "HttpHang"
                if pred == "HttpLinearizable":
                    disc = "+".join(sorted({x["op"] for x in lines if x["k"] == "inv"}))
                elif pred == "HttpWhole":
                    disc = "%s/%s" % (v["op"], v["shape"])
                else:
                    disc = v["op"]
                sig = "%s.%s/http/%s" % (prop, pred, disc)
                if (h, sig) in seen:
                    continue
                seen.add((h, sig))
                n += 1
                obs = [(x["k"], x["c"], x["op"], x["p"], x["v"], x["st"], x["len"], x["cl"], x["runs"][:4])
                       for x in lines if x["k"] != "reset"][:10]
                ctx.violation(sig, "%s: %s history, sizes %s, artifact Write calls of %d bytes: %s" %
                              (pred, c.get("tag"), c["size"], c["wsz"], obs), {"family": "httpresp", "case": c})
    ctx.traces += len(cases)
    ctx.evaluations += len(raw)
    return n


def run_resp(ctx, prop, vh, vhr=None, racelog=None):
    """Runs the response-phase cases; violations are reported as <prop>.Http*/http/... Returns a summary dict."""
    quick = ctx.tier == "quick"
    rnd = random.Random(ctx.seed * 7919 + 13)
    att, ok, lad, unit = generate(ctx, quick)
    cases, free = build_cases(ctx, quick, rnd, att, ok, lad, unit)
    raw = execute(ctx, vh, cases, "resp-directed")
    judge(ctx, prop, cases, raw, "resp-directed")
    rows = [json.loads(ln) for ln in raw]
    multi = sum(1 for x in rows if x["k"] == "resp" and x["wr"] >= 2)
    if not multi:
        raise core.Infra("response phase: no response was delivered in more than one Write (vacuous)")
    # how many histories really had two requests inside their write phase at the same time is decided by the server
    # (a request-wide lock makes the second one wait): not a vacuity condition
    if vhr:
        racelog = racelog or os.path.join(ctx.scratch("resp-free"), "race")
        raw2 = execute(ctx, vhr, free, "resp-free", race_log=racelog)
    else:
        raw2 = execute(ctx, vh, free, "resp-free")
    judge(ctx, prop, free, raw2, "resp-free")
    out = {"resp_directed_cases": len(cases), "resp_free_cases": len(free), "resp_attack_schedules": len(att),
           "resp_responses_in_several_writes": multi,
           "resp_sizes": sorted({s for c in cases + free for s in c["size"]})}
    ctx.extra.update(out)
    ctx.assumptions += ["response phase: a request that does not reach its next ResponseWriter.Write within 25 ms of being "
                        "released is treated as blocked by the scheduler (decides which schedules are realised, never the verdict)"]
    return cases, free


def replay_case(ctx, prop, case):
    vh = core.build_vh()
    cases = [case] * 10
    raw = execute(ctx, vh, cases, "resp-replay")
    judge(ctx, prop, cases, raw, "resp-replay")
