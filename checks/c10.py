from checks import parfam


def run(ctx):
    parfam.run_family(ctx)


def replay(ctx, path):
    parfam.replay_family(ctx, path)
