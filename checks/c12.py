"""C12: a saved graph reloads to the same graph, artifacts and bytes (GraphEdit.tla)."""
import glob
import json
import os

from vlib import core


def gen_cfg(path, prelude, depth, maxnodes, order, mode):
    with open(path, "w") as f:
        f.write('CONSTANTS Depth = %d MaxNodes = %d SaveOrder = "%s"\nCONSTANT Prelude <- %s\nSPECIFICATION Spec\n' %
                (depth, maxnodes, order, prelude))
        if mode == "bfs":
            f.write("INVARIANTS TypeOK Acyclic RoundTrip Emit\nVIEW View\n")
        elif mode == "sim":
            f.write("INVARIANTS TypeOK Acyclic RoundTrip EmitLeaf\n")
        else:
            f.write("INVARIANTS RoundTrip\n")
        f.write("CHECK_DEADLOCK FALSE\n")


def drop_prefixes(hists):
    ser = [tuple(json.dumps(s, sort_keys=True) for s in h["steps"]) for h in hists]
    pre = set()
    for s in set(ser):
        for k in range(1, len(s)):
            pre.add(s[:k])
    out, seen = [], set()
    for h, s in zip(hists, ser):
        if s in pre or s in seen:
            continue
        seen.add(s)
        out.append(h)
    return out


def judge(ctx, vh, hists, files, name, stride=1):
    d = ctx.scratch(name)
    hp = os.path.join(d, "h.ndjson")
    core.write_ndjson(hp, hists)
    tp = os.path.join(d, "trace.ndjson")
    core.run_vh(vh, ["ge-exec", "-in", hp, "-out", tp, "-stride", str(stride)], timeout=1800)
    raw = open(tp).readlines()
    if files:
        fp = os.path.join(d, "files.ndjson")
        core.run_vh(vh, ["ge-files", "-out", fp] + files, timeout=600)
        raw += open(fp).readlines()
        # parameter edits on the shipped graphs themselves (their parameters carry their own defaults)
        ep = os.path.join(d, "fileedits.ndjson")
        core.run_vh(vh, ["ge-fileedits", "-out", ep, "-maxparams", "60"] + files, timeout=900)
        lines = open(ep).readlines()
        ctx.extra["shipped_graph_parameter_edits"] = len(lines)
        raw += lines
        # one node of every registered type (chunks of 12 / 5 per application): save -> load -> save
        for chunk in (12, 5):
            ap = os.path.join(d, "alltypes%d.ndjson" % chunk)
            core.run_vh(vh, ["ge-alltypes", "-out", ap, "-chunk", str(chunk)], timeout=600)
            lines = open(ap).readlines()
            ctx.extra["registered_types_round_tripped"] = sum(json.loads(x)["nodes"] for x in lines)
            raw += lines
    res = core.validate_sharded(ctx, name, "TraceGraphEdit", "TraceGraphEdit.cfg", raw, timeout=1800)
    findings = []
    for sh, r in res:
        for v in r.values:
            if isinstance(v, dict) and "bad" in v:
                ln = json.loads(sh[v["l"] - 1])
                findings.append((ln, v))
    ctx.traces += len(hists) + len(files)
    ctx.evaluations += len(raw)
    return findings, raw


def report(ctx, hists, findings):
    """A history that shows any C12 violation is reported as such; a disagreement between the GraphEdit model and the
    real editor (Model.Mismatch) in a history WITHOUT a C12 violation is an infrastructure failure (the model is
    the vacuity guard, not the property)."""
    findings.sort(key=lambda x: (x[0].get("h", -1), x[0].get("i", 0)))
    by_hist = {}
    for ln, v in findings:
        c12 = [p for p in v["bad"] if p.startswith("C12.")]
        if ln["k"] == "file":
            for p in c12:
                ctx.violation("%s/file:%s" % (p, os.path.basename(ln["file"].split(" ")[0])), "%s for graph %s" % (p, ln["file"]),
                              {"family": "graphedit", "file": ln["file"]})
            continue
        by_hist.setdefault(ln["h"], []).append((ln, v, c12))
    mismatch = None
    for h, items in by_hist.items():
        if any(c12 for _, _, c12 in items):
            for ln, v, c12 in items:
                if not c12:
                    continue
                maxarr = max([len(n["arr"]) for n in ln["orig"]["nodes"]] + [0])
                types = sorted({n["type"] for n in ln["orig"]["nodes"]})
                for p in c12:
                    sig = "%s/%s" % (p, "arr>10" if maxarr > 10 else "types:" + ",".join(map(str, types)))
                    ctx.violation(sig, "%s after step %d (%s) of a %s history (max array inputs %d) %s" %
                                  (p, ln["i"], ln["st"]["op"], hists[h].get("tag"), maxarr, ln.get("note", "")[:120]),
                                  {"family": "graphedit", "history": {"steps": hists[h]["steps"][:ln["i"] + 1]}})
        elif mismatch is None:
            ln = items[0][0]
            mismatch = "GraphEdit model and the real editor disagree at history %d step %d (%s): %s" % (
                h, ln["i"], ln["st"], json.dumps(ln["orig"])[:600])
    if mismatch and not ctx.violations:
        raise core.Infra(mismatch)


def run(ctx):
    quick = ctx.tier == "quick"
    vh = core.build_vh()
    d = ctx.scratch("gen")
    hists = []
    # design level: the pinned lexicographic order breaks the round trip, index order does not
    gen_cfg(os.path.join(d, "Lex.cfg"), "PreludeTwelve", 1, 6, "lex", "design")
    r = core.run_tlc(d, "GraphEdit", "Lex.cfg", files=[(os.path.join(d, "Lex.cfg"), "Lex.cfg")], workers=4, timeout=600)
    ctx.extra["design_lex_order_counterexample"] = (r.rc == 12)
    if r.rc != 12:
        raise core.Infra("GraphEdit with lexicographic save order unexpectedly round-trips: model lost its teeth")
    plan = [("PreludeSmall", 2, 6), ("PreludeMixed", 1, 9), ("PreludeTwelve", 1, 6), ("PreludeEmpty", 3, 3)]
    if not quick:
        plan = [("PreludeSmall", 3, 6), ("PreludeMixed", 2, 9), ("PreludeTwelve", 2, 6), ("PreludeEmpty", 4, 3)]
    for prelude, depth, maxn in plan:
        gen_cfg(os.path.join(d, "G.cfg"), prelude, depth, maxn, "index", "bfs")
        r = core.run_tlc(d, "GraphEdit", "G.cfg", files=[(os.path.join(d, "G.cfg"), "G.cfg")], workers=core.NCPU,
                         timeout=2400, heap="8g")
        if r.rc != 0:
            raise core.Infra("GraphEdit violates its own invariant %s" % r.violated)
        ctx.add_tlc(r)
        hs = drop_prefixes([v for v in r.values if isinstance(v, dict) and "steps" in v])
        for h in hs:
            h["tag"] = "bfs:" + prelude
        ctx.extra["bfs_" + prelude] = len(hs)
        hists += hs
    # long walks of the same machine
    gen_cfg(os.path.join(d, "S.cfg"), "PreludeSmall", 30, 12, "index", "sim")
    r = core.run_tlc(d, "GraphEdit", "S.cfg", files=[(os.path.join(d, "S.cfg"), "S.cfg")], workers=1, timeout=1200,
                     simulate="num=%d" % (6 if quick else 60), depth=60, seed=ctx.seed)
    if r.rc != 0:
        raise core.Infra("GraphEdit violates its own invariant %s in simulation" % r.violated)
    sim = {json.dumps(v["steps"]): v for v in r.values if isinstance(v, dict) and "steps" in v}
    sim = [sim[k] for k in sorted(sim)][: (40 if quick else 600)]
    for h in sim:
        h["tag"] = "sim"
    ctx.extra["sim_histories"] = len(sim)
    ctx.transitions += sum(len(h["steps"]) for h in sim)
    hists += sim
    # seeded random histories (larger graphs, invalid steps included)
    rp = os.path.join(d, "r.ndjson")
    core.run_vh(vh, ["ge-random", "-out", rp, "-seed", str(ctx.seed), "-n", str(40 if quick else 400), "-steps", "90"])
    rnd = core.read_ndjson(rp)
    ctx.extra["random_histories"] = len(rnd)
    hists += rnd
    files = sorted(glob.glob(os.path.join(core.REPO, "examples", "graphs", "*.json")))
    ctx.extra["shipped_graph_files"] = len(files)
    findings, raw = judge(ctx, vh, hists, files, "main")
    report(ctx, hists, findings)
    # sparse observation: the same histories with the edited application evaluated only after every 2nd / 3rd
    # step (caches must survive several edits without an evaluation in between)
    for stride in (2, 3):
        sub = hists[stride::3] if quick else hists[stride::2]
        f2, raw2 = judge(ctx, vh, sub, [], "stride%d" % stride, stride=stride)
        report(ctx, sub, f2)
        ctx.extra["histories_stride_%d" % stride] = len(sub)
    # vacuity guards measured from the trace
    big = 0
    swaps = 0
    for ln in raw:
        if '"k":"step"' in ln:
            o = json.loads(ln)
            if max([len(n["arr"]) for n in o["orig"]["nodes"]] + [0]) >= 11:
                big += 1
            if o["st"]["op"] == "swap":
                swaps += 1
    ctx.extra["steps_with_11_or_more_array_inputs"] = big
    ctx.extra["swap_steps"] = swaps
    if big == 0:
        raise core.Infra("no step with >= 11 array inputs was exercised (vacuous)")
    ctx.nontrivial = len(hists)
    ctx.rule = ("histories = TLC BFS of GraphEdit from four preludes (one per distinct graph state), TLC simulation walks (60 steps), "
                "seeded random histories; after EVERY step: save, load into a fresh App, compare projections, artifacts and re-saved "
                "bytes; plus every shipped graph file through load-save-load-save; distinct by step list")
    ctx.sample({"tag": hists[0]["tag"], "steps": hists[0]["steps"][-4:]})
    ctx.sample({"tag": rnd[0]["tag"], "steps": rnd[0]["steps"][:10]})
    if ctx.tier == "thorough":
        selftest(ctx, vh, hists[:5])
    ctx.assumptions += ["projection of the App through Instance.Schema()/parameter accessors is faithful",
                        "artifact identity checked for deterministic text producers over string/float/int/bool parameters",
                        "file and image parameters are not exercised"]


def selftest(ctx, vh, hists):
    """Corrupt one logged field of an accepted trace; TLC must reject it."""
    d = ctx.scratch("selftest")
    hp = os.path.join(d, "h.ndjson")
    core.write_ndjson(hp, hists)
    tp = os.path.join(d, "trace.ndjson")
    core.run_vh(vh, ["ge-exec", "-in", hp, "-out", tp])
    rows = core.read_ndjson(tp)
    k = max(i for i, r in enumerate(rows) if r["k"] == "step" and r["reload"]["nodes"])
    rows[k]["reload"]["nodes"][0]["val"] += 1
    core.write_ndjson(tp, rows)
    r = core.run_tlc(os.path.join(d, "v"), "TraceGraphEdit", "TraceGraphEdit.cfg", files=[(tp, "trace.ndjson")], timeout=300)
    hit = [v for v in r.values if isinstance(v, dict) and "C12.Reload" in v.get("bad", []) and v["l"] == k + 1]
    if not hit:
        raise core.Infra("self-test: corrupted reload projection was not rejected")
    ctx.extra["selftest_corruption_rejected"] = True


def replay(ctx, path):
    obj = json.load(open(path))["case"]
    vh = core.build_vh()
    hists = [obj["history"]] if "history" in obj else []
    files = [obj["file"]] if "file" in obj else []
    findings, _ = judge(ctx, vh, hists, files, "replay")
    for ln, v in findings:
        print("replay:", v["bad"], "at", ln.get("i"))
    report(ctx, hists or [{}], findings)
    ctx.rule = "replay"
    ctx.nontrivial = 2
    ctx.sample({"replayed": path})
