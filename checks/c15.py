"""C15: gaussian-splat codecs keep every splat's fields within one quantisation step.

SplatGen.tla (TLC) enumerates SPZ headers x byte patterns and small edge-value
splat clouds and checks the layout law on the specification (every payload
byte named exactly once).  `vh splat-exec` gzip-frames the SPZ streams with the
reference encoder and runs the real spz.Read; runs splat.Write -> independent
record parser -> splat.Read and ply.SplatPly.Write -> independent PLY parser ->
ply.ReadMesh on the clouds; TraceSplat.tla (TLC) judges every line in exact
integer units.  Seeded random streams / clouds (0..50 splats) extend the sizes.
"""
import json
import os

from vlib import core

QUICK = dict(Versions="{1, 2}", Counts="{0, 1, 2, 3}", Degrees="{0, 1, 2, 3}", FracBits="{0, 12, 24, 30}",
             Patterns='{"perm", "ff", "80", "7f80"}', Frames='{"stored0", "deflate"}', CloudCounts="{0, 1, 2}",
             Profiles="{1, 2, 3, 4, 5}", EdgeCounts="{15}",
             # must contain FbLadderSet of SplatFormat.tla (SplatGen invariant FbLaw)
             FbLadder="{0, 1, 6, 7, 8, 9, 14, 15, 16, 17, 22, 23, 24, 25, 30, 31, 32, 33, 62, 63, 64, 65, 126, 127, 128, 129, 255}",
             Grans="{32768, 4096, 509}", LadderFrames='{"deflate"}', Deliveries="{0, 1, 7, 4096, 100001, 100013}")
THOROUGH = dict(QUICK, EdgeCounts="{15, 30}", FbLadder="{%s}" % ", ".join(str(i) for i in range(256)),
                Grans="{65536, 32768, 4096, 509, 61}", LadderFrames='{"deflate", "stored0"}',
                Deliveries="{0, 1, 2, 7, 31, 4096, 100001, 100013, 100512}", Counts="{0, 1, 2, 3, 4, 5}", FracBits="{%s}" % ", ".join(str(i) for i in range(31)),
                Patterns='{"perm", "perm2", "ff", "80", "00", "7f80"}', Frames='{"stored0", "stored5", "deflate"}',
                CloudCounts="{0, 1, 2, 3}")


def gen_cfg(path, consts):
    with open(path, "w") as f:
        f.write("CONSTANTS\n")
        for k, v in consts.items():
            f.write("  %s = %s\n" % (k, v))
        f.write("SPECIFICATION Spec\nINVARIANTS Emit Tiles Ordered HalfLaw LadderLaw EdgeLaw FbLaw\nCHECK_DEADLOCK FALSE\n")


def design_level(ctx):
    """SplatDelivery.tla: a decoder that completes every array (ReadFull) denotes the same cloud under every
    delivery; the single-Read design has a counterexample, and the size ladder hits exactly that design."""
    d = ctx.scratch("delivery")
    r = core.run_tlc(d, "SplatDelivery", "SplatDeliveryFull.cfg", workers=2, timeout=900)
    ctx.add_tlc(r)
    if r.rc != 0:
        raise core.Infra("SplatDelivery: the ReadFull design violates %s (specification bug)" % r.violated)
    r = core.run_tlc(d, "SplatDelivery", "SplatDeliveryOnce.cfg", workers=2, timeout=900)
    ctx.add_tlc(r)
    if r.rc != 0:
        raise core.Infra("SplatDelivery: the size ladder does not hit the single-Read design: %s (specification bug)" % r.violated)
    r = core.run_tlc(d, "SplatDelivery", "SplatDeliveryOnceWhole.cfg", workers=2, timeout=900)
    ctx.add_tlc(r)
    if r.rc == 0 or r.violated != "Whole":
        raise core.Infra("SplatDelivery: the single-Read design must violate Whole, got rc=%s %s" % (r.rc, r.violated))
    ctx.extra["design_delivery_once_counterexample"] = 1


def every_line(ln):
    return True


def execute(ctx, vh, name, cases):
    d = ctx.scratch(name)
    cp = os.path.join(d, "cases.ndjson")
    core.write_ndjson(cp, cases)
    tp = os.path.join(d, "trace.ndjson")
    core.run_vh(vh, ["splat-exec", "-in", cp, "-out", tp], timeout=1800)
    with open(tp) as f:
        return f.readlines()


def judge(ctx, name, raw):
    res = core.validate_sharded(ctx, name, "TraceSplat", "TraceSplat.cfg", raw, is_boundary=every_line,
                                timeout=2400, heap="4g")
    out = []
    for sh, r in res:
        for v in r.values:
            if isinstance(v, dict) and "bad" in v:
                out.append((json.loads(sh[v["l"] - 1]), v["bad"]))
    return out


def discriminator(ln, pred):
    if ln["k"] == "spz":
        h = ln["hdr"]
        tag = "v%d" % h[0]
        if h[0] == 2 and pred == "C15.SpzPos" and h[3] > 30:
            tag += "/fb=31..62" if h[3] <= 62 else "/fb>=63"
        elif ln.get("la"):
            tag += "/%s@%d" % (ln["la"], ln["lg"])       # size-ladder stream: array cut by a multiple of the granularity
        elif ln.get("pat") == "edge":
            tag += "/edge"                                # boundary-value stream
        elif ln.get("dl"):
            tag += "/dl"                                  # file delivered in pieces
        return tag
    if ln.get("dl"):
        return "dl"
    return "n=0" if ln["n"] == 0 else ("n=1" if ln["n"] == 1 else "n>1")


def report(ctx, findings, cases_by_id, source):
    model = [(b, ln.get("id")) for ln, bad in findings for b in bad if b.startswith("Model.")]
    if model:
        raise core.Infra("harness/specification binding broken (%s): %s" % (source, model[:5]))
    for ln, bad in findings:
        for p in bad:
            if not p.startswith("C15."):
                continue
            sig = "%s/%s/%s" % (p, {"spz": "spz.Read", "splat": "splat.Write+Read", "sply": "SplatPly.Write+ReadMesh"}[ln["k"]],
                                discriminator(ln, p))
            if ln["k"] == "spz":
                what = "%s: SPZ stream version %d, %d points, SH degree %d, %d fractional bits (%s framing, content %s, file delivered %s%s): %s" % (
                    p, ln["hdr"][0], ln["hdr"][1], ln["hdr"][2], ln["hdr"][3], ln["frame"], ln.get("pat") or "random bytes",
                    "at once" if not ln.get("dl") else "in pieces (code %d)" % ln["dl"],
                    "; a multiple of %d falls inside the %s array" % (ln["lg"], ln["la"]) if ln.get("la") else "",
                    ln.get("msg") or "decoded fields differ from the layout law")
            else:
                what = "%s: cloud of %d splats (%s) %s" % (p, ln["n"], source, ln.get("msg", ""))
            ctx.violation(sig, what, {"family": "splat", "case": cases_by_id[ln["id"]]})


def account(ctx, raw):
    ex = ctx.extra
    for s in raw:
        ln = json.loads(s)
        k = ln["k"]
        ex["lines_" + k] = ex.get("lines_" + k, 0) + 1
        if k == "spz":
            h = ln["hdr"]
            if h[1] > 0:
                ex["spz_nonempty_v%d" % h[0]] = ex.get("spz_nonempty_v%d" % h[0], 0) + 1
                ex["spz_fields_judged"] = ex.get("spz_fields_judged", 0) + h[1] * (3 + 1 + 3 + 3 + 4) + 3 * h[1] * {0: 0, 1: 3, 2: 8, 3: 15}[h[2]]
                if h[2] > 0:
                    ex["spz_with_sh"] = ex.get("spz_with_sh", 0) + 1
            if h[0] == 2 and h[1] > 0 and h[3] > 30:
                ex["spz_fracbits_above_30"] = ex.get("spz_fracbits_above_30", 0) + 1
            if ln.get("la"):
                ex["spz_size_ladder_streams"] = ex.get("spz_size_ladder_streams", 0) + 1
                ex["spz_size_ladder_max_points"] = max(ex.get("spz_size_ladder_max_points", 0), h[1])
                if ln["lg"] == 32768 and ln["la"] == "alpha":
                    ex["spz_alpha_across_inflate_window"] = ex.get("spz_alpha_across_inflate_window", 0) + 1
            if ln.get("pat") == "edge" and h[1] > 0:
                ex["spz_boundary_value_streams"] = ex.get("spz_boundary_value_streams", 0) + 1
            if ln.get("dl"):
                ex["spz_delivered_in_pieces"] = ex.get("spz_delivered_in_pieces", 0) + 1
            if any(p[0] != 0 for row in ln["dec"]["pos"] for p in row):
                ex["spz_nonfinite_halfs_judged"] = ex.get("spz_nonfinite_halfs_judged", 0) + 1
        elif k == "splat":
            if ln.get("dl") and ln["n"] > 0:
                ex["clouds_delivered_in_pieces"] = ex.get("clouds_delivered_in_pieces", 0) + 1
            ex["splats_round_tripped"] = ex.get("splats_round_tripped", 0) + ln["n"]
            for o in ln["orig"]:
                if any(c < 0 or c > 255000 for c in o["c"]):
                    ex["splat_colours_clamped"] = ex.get("splat_colours_clamped", 0) + 1
                if any(r in (0, 256000) for r in o["r"]):
                    ex["splat_rot_components_pm1"] = ex.get("splat_rot_components_pm1", 0) + 1
        elif k == "sply":
            ex["ply_cells_judged"] = ex.get("ply_cells_judged", 0) + ln["n"] * len(ln["props"])
            if len(ln["props"]) >= 59:
                ex["ply_with_45_f_rest"] = ex.get("ply_with_45_f_rest", 0) + 1


def run(ctx):
    quick = ctx.tier == "quick"
    vh = core.build_vh()
    design_level(ctx)
    d = ctx.scratch("gen")
    gen_cfg(os.path.join(d, "Gen.cfg"), QUICK if quick else THOROUGH)
    r = core.run_tlc(d, "SplatGen", "Gen.cfg", files=[(os.path.join(d, "Gen.cfg"), "Gen.cfg")],
                     workers=min(core.NCPU, 6), timeout=1800)
    if r.rc != 0:
        raise core.Infra("SplatGen violates its own law %s (specification bug)" % r.violated)
    ctx.add_tlc(r)
    cases = [v for v in r.values if isinstance(v, dict) and "kind" in v]
    cases.sort(key=lambda c: json.dumps(c, sort_keys=True))
    ctx.extra["generated_spz_streams"] = sum(1 for c in cases if c["kind"] == "spz")
    ctx.extra["generated_clouds"] = sum(1 for c in cases if c["kind"] == "cloud")
    for i, c in enumerate(cases):
        c["id"] = i
    run_cases = list(cases)
    quick_rnd = []
    if quick:   # one execution and one judging pass for the generated and the seeded cases (JVM starts dominate)
        rp = os.path.join(d, "rnd0.ndjson")
        core.run_vh(vh, ["splat-random", "-out", rp, "-seed", str(ctx.seed * 1000), "-nspz", "40", "-nclouds", "40",
                         "-maxn", "50"], timeout=1800)
        quick_rnd = core.read_ndjson(rp)
        ctx.extra["random_cases"] = len(quick_rnd)
        run_cases += quick_rnd
    # the heavy size-ladder streams sort next to each other: spread them over the shards
    weight = lambda c: len(c.get("pay") or []) + 1
    heavy = sorted(run_cases, key=weight, reverse=True)
    lanes = [[] for _ in range(16)]
    for i, c in enumerate(heavy):
        lanes[i % 16 if (i // 16) % 2 == 0 else 15 - i % 16].append(c)
    run_cases = [c for lane in lanes for c in lane]
    raw = execute(ctx, vh, "main", run_cases)
    account(ctx, raw)
    report(ctx, judge(ctx, "main", raw), {c["id"]: c for c in run_cases}, "TLC-generated and seeded cases")
    ctx.traces = len(run_cases)
    ctx.evaluations = len(raw)
    nontrivial = lambda lines: sum(1 for s in lines if '"n":0,' not in s[:60] and '"hdr":[1,0,' not in s[:60]
                                   and '"hdr":[2,0,' not in s[:60])
    ctx.nontrivial = nontrivial(raw)
    # seeded cases at sizes TLC does not enumerate, in rounds (bounded trace size per round)
    rounds = 0 if quick else 14
    ctx.extra.setdefault("random_cases", 0)
    for rd in range(rounds):
        rp = os.path.join(d, "rnd%d.ndjson" % rd)
        core.run_vh(vh, ["splat-random", "-out", rp, "-seed", str(ctx.seed * 1000 + rd), "-nspz", str(40 if quick else 3000),
                         "-nclouds", str(40 if quick else 2000), "-maxn", "50"], timeout=1800)
        rnd = core.read_ndjson(rp)
        for c in rnd:
            c["id"] += rd * 1000000
        ctx.extra["random_cases"] += len(rnd)
        raw = execute(ctx, vh, "rnd%d" % rd, rnd)
        account(ctx, raw)
        report(ctx, judge(ctx, "rnd%d" % rd, raw), {c["id"]: c for c in rnd}, "seeded cases, round %d" % rd)
        ctx.traces += len(rnd)
        ctx.evaluations += len(raw)
        ctx.nontrivial += nontrivial(raw)
        if not quick:
            import shutil
            shutil.rmtree(ctx.scratch("rnd%d" % rd), ignore_errors=True)
            for i in range(32):
                shutil.rmtree(os.path.join(ctx.work, "rnd%d-shard%02d" % (rd, i)), ignore_errors=True)
            os.remove(rp)
    # vacuity guards: each predicate family met its antecedent
    for key in ("spz_nonempty_v1", "spz_nonempty_v2", "spz_with_sh", "spz_nonfinite_halfs_judged", "splats_round_tripped",
                "splat_colours_clamped", "splat_rot_components_pm1", "ply_with_45_f_rest", "ply_cells_judged",
                "spz_fracbits_above_30", "spz_size_ladder_streams", "spz_alpha_across_inflate_window",
                "spz_boundary_value_streams", "spz_delivered_in_pieces", "clouds_delivered_in_pieces"):
        if not ctx.extra.get(key):
            raise core.Infra("vacuous run: %s = 0" % key)
    if ctx.extra["spz_size_ladder_max_points"] < 3276:
        raise core.Infra("vacuous run: no stream reaches the inflate window inside its arrays")
    ctx.sample({k: cases[len(cases) // 2][k] for k in cases[len(cases) // 2] if k != "pay"})
    ctx.sample({k: cases[-1][k] for k in cases[-1] if k != "pay"})
    ctx.rule = ("a case is an SPZ stream (header x byte pattern x gzip framing; TLC enumerates all headers within the "
                "constants; boundary-value streams; the fractional-bit ladder; size-ladder streams whose point count the layout model "
                "computes so that a multiple of a delivery granularity falls inside a given array; files delivered in pieces; "
                "seeded random headers with up to 50 points and random bytes) or a splat cloud (TLC: 0..2 "
                "splats from edge-value tables; seeded: 0..50 splats with random finite attributes) run through "
                ".splat write/read and the splat PLY export; non-trivial = at least one splat")
    ctx.assumptions += [
        "rotation components lie in [-1, 1] (unit quaternions); scales within |s| <= 80 so that exp(s) is a normal float32",
        "SPZ fractional bits over the whole 8 bit field 0..255: the dequantised value is fixed24 * 2^-fb exactly (a float64 holds it for every fb)",
        "delivery: pieces ending at multiples of g, optionally io.EOF together with the last piece (the io.Reader contract); the inflate reader's own pieces end at multiples of 32768 of the stream",
        "SPZ alpha is judged against the code's own raw a/255 (DESIGN C15: the published inverse sigmoid is a decoding convention, not layout)",
        "float32(x), exp, log, sigmoid of the Go runtime are the unit conversions of the projection (harness/splatfam)",
        "gzip framing by the reference encoder (stored blocks) and by the standard library compressor",
    ]
    if not quick:
        selftest(ctx, vh, cases)


def selftest(ctx, vh, cases):
    """Binding self-test: corrupt one logged field per line kind of an accepted trace; TLC must reject each."""
    pick = [c for c in cases if c["kind"] == "spz" and c["hdr"][0] == 2 and c["hdr"][1] == 2 and c["hdr"][2] == 1][:1]
    pick += [c for c in cases if c["kind"] == "cloud" and len(c["splats"]) == 1 and
             all(-1000 < x < 1000 for x in c["splats"][0]["r"])][:1]
    raw = execute(ctx, vh, "self", pick)
    if judge(ctx, "self-ok", raw):
        return   # the main run reports it
    objs = [json.loads(s) for s in raw]
    want = []
    for o in objs:
        if o["k"] == "spz":
            o["dec"]["sh"][1][0][2] += 1          # one SH coefficient of the second point
            want.append("C15.SpzSH")
        elif o["k"] == "splat":
            o["dec"][0]["r"][3] += 1500           # rotation off by 1.5 steps
            want.append("C15.SplatRot")
        elif o["k"] == "sply":
            o["props"][0]["v"][0][1] ^= 1          # one mantissa bit of x in the file
            want.append("C15.PlyBody")
    bad = [json.dumps(o, separators=(",", ":")) + "\n" for o in objs]
    got = set(b for _, bs in judge(ctx, "self-bad", bad) for b in bs)
    ctx.extra["selftest_corruptions_rejected"] = sum(1 for w in want if w in got)
    if len(want) != 3 or not all(w in got for w in want):
        raise core.Infra("binding self-test failed: wanted %s rejected, TraceSplat rejected %s" % (want, sorted(got)))


def replay(ctx, path):
    with open(path) as f:
        obj = json.load(f)
    case = obj["case"]["case"]
    vh = core.build_vh()
    raw = execute(ctx, vh, "replay", [case])
    account(ctx, raw)
    findings = judge(ctx, "replay", raw)
    for ln, bad in findings:
        print("replay: %s on %s line" % (",".join(bad), ln["k"]))
    report(ctx, findings, {case["id"]: case}, "replay")
    ctx.traces = 1
    ctx.evaluations = len(raw)
    ctx.rule = "replay of one recorded case"
    ctx.nontrivial = 1
    ctx.sample({"replayed": path})
