"""MTL / Save-Load family (extra-coverage property X03): generators (TLC) -> executor (real
formats/obj) -> judge (TLC, TraceMtl.tla).

Cases
  mw  material ranges of a list of meshes -> obj.WriteMaterials / WriteMaterialsFromMesh -> independent
      MTL tokeniser -> obj.ReadMaterials; judged: library validity + what it describes, what the reader
      returns for it, and the round trip
  mr  an MTL text -> obj.ReadMaterials; judged: a valid text reads as its denotation, an invalid one is
      refused with an error
  sv  meshes -> obj.Save / SaveAll at a path below a sandbox -> the files found there (tokenised) ->
      obj.Load of the same path; judged: files, directory modes, mtllib references, OBJ/MTL validity,
      groups, corners, usemtl names resolving to the source materials, and the loaded meshes
  pl  a hand-made pair (OBJ + libraries in several layouts) -> obj.Load
Sources of cases
  MtlGen     (TLC BFS / -simulate)  arrangements of ranges x material palettes (+ design checks on the
                                    MtlImpl models, + the paths "sv" cases save to)
  MtlTextGen (TLC BFS / -simulate)  library texts
  MtlPairGen (TLC BFS)              file layouts x usemtl/g/f arrangements
  MtlColour  (TLC)                  design check of the colour path over all 65 536 channel values
  vh mtl-random (seeded)            float32-fidelity materials, many ranges, long texts
"""
import json
import os
import random
import re

from vlib import core

PREDICATES = ["X03.MtlWriteOk", "X03.MtlValid", "X03.MtlDescribes", "X03.MtlReadOk", "X03.MtlReads", "X03.MtlRoundTrip",
              "X03.ReadOk", "X03.Reads", "X03.RejectsBad",
              "X03.SaveOk", "X03.SaveFiles", "X03.SaveDirMode", "X03.SaveMtllib", "X03.SaveObjValid", "X03.SaveGroups",
              "X03.SaveCorners", "X03.SaveMtlValid", "X03.SaveResolves",
              "X03.LoadOk", "X03.LoadGroups", "X03.LoadCorners", "X03.LoadMaterials",
              "X03.PairLoadOk", "X03.PairGroups", "X03.PairMaterials"]
# situations the statement names: each must have occurred with the predicates evaluated
ANTECEDENTS = ["ant.TokenName", "ant.BlankName", "ant.Colour", "ant.ColourOutOfRange", "ant.Texture", "ant.NilRange",
               "ant.SharedMaterial", "ant.SameName", "ant.TextOutOfRange", "ant.GreyForm", "ant.NoMaterials", "ant.Save",
               "ant.SaveAll", "ant.RelativePath", "ant.ExistingDir", "ant.TwoLibraries", "ant.UndefinedName"]


def _key(c):
    return json.dumps({k: c.get(k) for k in ("k", "pal", "meshes", "sk", "lay", "seeded", "path")}, sort_keys=True)


def _tlc_gen(ctx, name, module, cfg, *, simulate=None, depth=None, workers=None, timeout=900):
    d = ctx.scratch(name)
    r = core.run_tlc(d, module, cfg, workers=workers or (1 if simulate else min(core.NCPU, 6)), timeout=timeout,
                     simulate=simulate, depth=depth, seed=ctx.seed if simulate else None, heap="6g")
    if r.rc != 0:
        raise core.Infra("%s/%s: the specification violates its own design property %s (spec bug)"
                         % (module, cfg, r.violated))
    if not simulate:
        ctx.add_tlc(r)
    cases, risky, paths = [], {}, None
    for v in r.values:
        if not isinstance(v, dict):
            continue
        if "risky" in v:
            risky[json.dumps(v["risky"], sort_keys=True)] = sorted(set(v.get("writer", [])) | set(v.get("reader", [])))
        elif "paths" in v:
            paths = v["paths"]
        elif "k" in v:
            cases.append(v)
    return r, cases, risky, paths


def colour_design(ctx):
    """Design check on the specification: the colour path over all 65 536 channel values."""
    r = core.run_tlc(ctx.scratch("colour-fixed"), "MtlColour", "MtlColourFixed.cfg", workers=2, timeout=300)
    if r.rc != 0 or r.distinct != 65536:
        raise core.Infra("MtlColour: the repaired colour model leaves the bands of MtlFormat (%s)" % r.violated)
    ctx.add_tlc(r)
    p = core.run_tlc(ctx.scratch("colour-pinned"), "MtlColour", "MtlColourPinned.cfg", workers=1, timeout=300)
    if p.violated != "PinnedExact8":
        raise core.Infra("MtlColour: the pinned (truncating) model was expected to violate PinnedExact8")
    m = re.search(r"\bs = (\d+)", p.out)
    return {"colour_states": r.distinct, "pinned_truncation_counterexample_s16": int(m.group(1)) if m else None}


def collect_cases(ctx, vh):
    tier, seed = ctx.tier, ctx.seed
    notes, cases, risky = {}, [], {}
    notes.update(colour_design(ctx))

    def add(res, label):
        r, cs, rk, _ = res
        notes[label + "_states"] = r.distinct
        notes[label + "_cases"] = len(cs)
        cases.extend(cs)
        risky.update(rk)

    # (1) arrangements of material ranges x palettes; every one is executed in memory (mw) and through
    #     the file system (sv)
    res = _tlc_gen(ctx, "gen-mat", "MtlGen", "MtlGen3.cfg" if tier == "quick" else "MtlGen4.cfg")
    paths = res[3]
    if not paths:
        raise core.Infra("MtlGen printed no paths")
    add(res, "matgen")
    add(_tlc_gen(ctx, "gen-matsim", "MtlGen", "MtlGenSim.cfg", simulate="num=%d" % (60 if tier == "quick" else 1500),
                 depth=7), "matsim")
    # (2) library texts
    add(_tlc_gen(ctx, "gen-text", "MtlTextGen", "MtlTextGen4.cfg" if tier == "quick" else "MtlTextGen5.cfg",
                 timeout=1500), "textgen")
    add(_tlc_gen(ctx, "gen-textsim", "MtlTextGen", "MtlTextGenSim.cfg",
                 simulate="num=%d" % (200 if tier == "quick" else 4000), depth=12), "textsim")
    # (3) hand-made pairs
    add(_tlc_gen(ctx, "gen-pair", "MtlPairGen", "MtlPairGen3.cfg" if tier == "quick" else "MtlPairGen5.cfg",
                 timeout=1500), "pairgen")
    seen, uniq = set(), []
    for c in cases:
        k = _key(c)
        if k in seen:
            continue
        seen.add(k)
        uniq.append(c)
    cases = uniq
    # mw -> also sv; the path varies with the case, and the smallest arrangements meet EVERY path
    out = []
    n_sv = 0
    for c in cases:
        if c["k"] == "mw":
            rk = json.dumps({"pal": c["pal"], "arr": c.pop("arr")}, sort_keys=True)
            if rk in risky:
                c["tag"] = "risky"
                c["model"] = risky[rk]
            out.append(c)
            nr = sum(len(m["ranges"]) for m in c["meshes"])
            small = len(c["meshes"]) == 1 and nr <= 1 and c["pal"] == 1
            for p in (paths if small else [paths[(seed * 5 + n_sv) % len(paths)]]):
                s = dict(c)
                s["k"] = "sv"
                s["path"] = p
                out.append(s)
                n_sv += 1
        else:
            if c["k"] == "mr" and json.dumps({"sk": c["sk"]}, sort_keys=True) in risky:
                c["tag"] = "risky"
            out.append(c)
    cases = out
    notes["model_risky_cases"] = sum(1 for c in cases if c.get("tag") == "risky")
    notes["paths"] = len(paths)
    # (4) seeded recorder inputs
    d = ctx.scratch("rnd")
    nmw, nsv, nmr = (150, 150, 200) if tier == "quick" else (3000, 3000, 4000)
    core.run_vh(vh, ["mtl-random", "-out", os.path.join(d, "r.ndjson"), "-seed", str(seed),
                     "-nmw", str(nmw), "-nsv", str(nsv), "-nmr", str(nmr),
                     "-maxmeshes", "4" if tier == "quick" else "6", "-maxranges", "8" if tier == "quick" else "16",
                     "-maxblocks", "10" if tier == "quick" else "30"])
    rnd = core.read_ndjson(os.path.join(d, "r.ndjson"))
    notes["random_cases"] = len(rnd)
    cases += rnd
    random.Random(seed).shuffle(cases)      # lines are independent; shuffling balances the judge's shards
    for i, c in enumerate(cases):           # text layout (blanks, line ends, number format, comments) varies
        if c["k"] in ("mr", "pl") and not c.get("style"):
            c["style"] = (seed * 7919 + i * 31) % 100003
    return cases, notes


def execute_and_judge(ctx, vh, cases, name="main", keep=None):
    d = ctx.scratch(name + "-exec")
    cp = os.path.join(d, "cases.ndjson")
    core.write_ndjson(cp, cases)
    tp = os.path.join(d, "trace.ndjson")
    args = ["mtl-exec", "-in", cp, "-out", tp, "-sandbox", os.path.join(d, "sandbox")]
    if keep:
        os.makedirs(keep, exist_ok=True)
        args += ["-keep", keep]
    core.run_vh(vh, args, timeout=1800)
    left = os.listdir(os.path.join(d, "sandbox"))
    if left:
        raise core.Infra("mtl-exec left %d entries in its sandbox" % len(left))
    with open(tp) as f:
        raw = f.readlines()
    if len(raw) != len(cases):
        raise core.Infra("mtl-exec wrote %d lines for %d cases" % (len(raw), len(cases)))
    findings, ex = judge_lines(ctx, name, raw)
    ctx.traces += len(cases)
    ctx.evaluations += len(raw)
    return findings, ex, raw


def judge_lines(ctx, name, raw, module="TraceMtl"):
    """Validate ndjson lines (one case per line) with specs/<module>.tla, sharded.
    Returns (findings [{pred, detail, case}], exercise counters summed over the shards)."""
    findings, ex = [], {}
    results = core.validate_sharded(ctx, name, module, module + ".cfg", raw, timeout=3000,
                                    is_boundary=lambda ln: True)
    base = 0
    for sh, r in results:
        got_ex = False
        for v in r.values:
            if not isinstance(v, dict):
                continue
            if "ex" in v:
                got_ex = True
                for k, n in v["ex"].items():
                    ex[k] = ex.get(k, 0) + n
            elif "bad" in v:
                idx = base + v["l"] - 1
                for b in sorted(v["bad"]):       # one finding per (predicate, detail)
                    pred, _, detail = b.partition("/")
                    findings.append({"pred": pred, "detail": detail, "case": idx})
        if not got_ex:
            raise core.Infra("%s shard printed no exercise counters" % module)
        base += len(sh)
    return findings, ex


def op_of(pred, line):
    p = pred.split(".", 1)[1]
    k = line["k"]
    if k == "mw":
        return "WriteMaterials" if p in ("MtlWriteOk", "MtlValid", "MtlDescribes") else "WriteMaterials+ReadMaterials"
    if k == "mr":
        return "ReadMaterials"
    if k == "sv":
        return line["op"] if p.startswith("Save") else line["op"] + "+Load"
    return "Load"


def signature(f, line):
    sig = "%s/%s" % (f["pred"], op_of(f["pred"], line))
    if f["detail"]:
        sig += "/" + f["detail"]
    return sig


def nontrivial(case):
    k = case["k"]
    if case.get("seeded"):
        return True
    if k in ("mw", "sv"):
        slots = {r["slot"] for m in case["meshes"] for r in m["ranges"]}
        return sum(len(m["ranges"]) for m in case["meshes"]) >= 2 and bool(slots - {0})
    if k == "mr":
        kinds = [s["t"] for s in case["gen"]]
        return "newmtl" in kinds and len(kinds) >= 3
    return True


def _corrupt(raw, rejected):
    """Binding self-test inputs: accepted lines with ONE logged field changed -> predicate TLC must name."""
    want = {}

    def real(m):
        return not m["nil"]

    for i, ln in enumerate(raw):
        if i in rejected:
            continue
        o = json.loads(ln)
        k = o["k"]
        if k == "mw" and o["werr"] == "" and o["rerr"] == "" and o["rd"] and any(m["kd"] for m in o["rd"]):
            if "mw-rd-colour" not in want:
                c = json.loads(ln)
                m = [m for m in c["rd"] if m["kd"]][0]
                m["kd"][1] = (m["kd"][1] + 257 * 3) % 65536            # a read-back channel three levels off
                want["mw-rd-colour"] = (c, "X03.MtlReads")
            if "mw-text-colour" not in want and any(real(m) and m["kd"] for m in o["srcs"]):
                c = json.loads(ln)
                for s in c["stmts"]:
                    if s["t"] == "Kd":
                        s["x"][0] += 20                                # every Kd of the text says 0.002 more red
                want["mw-text-colour"] = (c, "X03.MtlDescribes")
            if "mw-rd-scalar" not in want and any(real(m) and m["ns"][0] != 0 for m in o["srcs"]):
                c = json.loads(ln)
                for m in c["rd"]:
                    m["ns"] += 2                                       # past the float32 neighbour as well
                want["mw-rd-scalar"] = (c, "X03.MtlRoundTrip")
        if k == "mr" and o["rerr"] == "" and o["rd"] and "mr-name" not in want:
            c = json.loads(ln)
            c["rd"][-1]["nm"] = c["rd"][-1]["nm"] + [95]
            want["mr-name"] = (c, "X03.Reads")
        if k == "sv" and o["serr"] == "" and o["lerr"] == "" and o["objhit"] == 1 and o["libs"] and \
                all(b["hit"] for b in o["libs"]):
            ranged = [m for m in o["ld"] if any(real(r["mat"]) and r["n"] >= 1 for r in m["ranges"])]
            src_real = any(real(r["mat"]) and r["mat"]["name"].strip() and r["mat"]["pid"] for m in o["src"] for r in m["ranges"])
            if "sv-ld-texture" not in want and ranged and src_real:
                c = json.loads(ln)
                for m in c["ld"]:
                    for r in m["ranges"]:
                        if real(r["mat"]):
                            r["mat"]["mapkd"] = ["other.png"]
                want["sv-ld-texture"] = (c, "X03.LoadMaterials")
            if "sv-lib" not in want:
                c = json.loads(ln)
                c["libs"][0]["hit"] = 0                                 # the mtllib name points nowhere
                want["sv-lib"] = (c, "X03.SaveMtllib")
            if "sv-dir" not in want and o["dirs"]:
                c = json.loads(ln)
                c["dirs"][0]["mode"] = 0o055                            # a created directory its owner cannot enter
                want["sv-dir"] = (c, "X03.SaveDirMode")
            if "sv-usemtl" not in want and src_real and any(s["t"] == "usemtl" for s in o["obj"]):
                c = json.loads(ln)
                for s in c["obj"]:
                    if s["t"] == "usemtl":
                        s["s"] += "_"                                   # the OBJ names materials the library lacks
                want["sv-usemtl"] = (c, "X03.SaveResolves")
            if "sv-face" not in want and any(len(m["idx"]) >= 6 for m in o["ld"]):
                c = json.loads(ln)
                m = [m for m in c["ld"] if len(m["idx"]) >= 6][0]
                m["idx"][0], m["idx"][1] = m["idx"][1], m["idx"][0]     # a loaded triangle turned over
                want["sv-face"] = (c, "X03.LoadCorners")
        if k == "pl" and o["lerr"] == "" and "pl-colour" not in want:
            mats = [r["mat"] for m in o["ld"] for r in m["ranges"] if real(r["mat"]) and r["mat"]["kd"] and r["n"] >= 1]
            if mats:
                c = json.loads(ln)
                for m in c["ld"]:
                    for r in m["ranges"]:
                        if r["mat"]["kd"] and r["n"] >= 1:
                            r["mat"]["kd"][2] = (r["mat"]["kd"][2] + 257 * 2) % 65536
                want["pl-colour"] = (c, "X03.PairMaterials")
        if len(want) == 10:
            break
    return want


def selftest(ctx, raw, rejected):
    want = _corrupt(raw, rejected)
    names = ["mw-rd-colour", "mw-text-colour", "mw-rd-scalar", "mr-name", "sv-ld-texture", "sv-lib", "sv-dir", "sv-usemtl",
             "sv-face", "pl-colour"]
    missing = [k for k in names if k not in want]
    if missing:
        raise core.Infra("self-test: no accepted line to corrupt for %s" % missing)
    lines = [json.dumps(want[k][0], separators=(",", ":")) + "\n" for k in names]
    findings, _ = judge_lines(ctx, "selftest", lines)
    for i, k in enumerate(names):
        preds = {f["pred"] for f in findings if f["case"] == i}
        if want[k][1] not in preds:
            raise core.Infra("self-test: corrupted trace (%s) was not rejected with %s (got %s)" %
                             (k, want[k][1], sorted(preds)))
    return len(names)


def _shape(c):
    if c.get("seeded"):
        return c["seeded"]
    if c["k"] in ("mw", "sv"):
        return {"pal": c["pal"], "meshes": [(m["name"], [(r["n"], r["slot"]) for r in m["ranges"]]) for m in c["meshes"]],
                "path": (c.get("path") or {}).get("rel")}
    if c["k"] == "mr":
        return c.get("sk") or [s["t"] for s in c["gen"]][:30]
    return {"lay": c.get("lay"), "sk": c.get("sk")}


def run_family(ctx, prefix="X03"):
    vh = core.build_vh()
    cases, notes = collect_cases(ctx, vh)
    findings, ex, raw = execute_and_judge(ctx, vh, cases)
    ctx.extra.update(notes)
    ctx.extra["exercised"] = {k: ex.get(k, 0) for k in PREDICATES + ANTECEDENTS}
    ctx.extra["out_of_range_texts_refused_by_reader"] = ex.get("rangeRejected", 0)
    ctx.extra["cases_by_kind"] = {k: sum(1 for c in cases if c["k"] == k) for k in ("mw", "mr", "sv", "pl")}
    ctx.extra["cases_by_tag"] = {}
    for c in cases:
        ctx.extra["cases_by_tag"][c.get("tag", "")] = ctx.extra["cases_by_tag"].get(c.get("tag", ""), 0) + 1
    ctx.nontrivial = sum(1 for c in cases if nontrivial(c))
    ctx.rule = ("cases: TLC BFS of MtlGen (every arrangement of <= %d material ranges over <= 3 meshes x 6 material palettes, "
                "each executed in memory and through Save/Load at a path of the 13 path kinds), MtlTextGen (every library "
                "text of <= %d statements over a 17-letter alphabet), MtlPairGen (9 file layouts x usemtl/g/f arrangements), "
                "TLC -simulate walks, seeded recorder (float32 scalars, 16-bit colours, many ranges, long texts); distinct by "
                "arrangement+palette+path / skeleton / layout+skeleton; non-trivial: >= 2 ranges with a real material, a text "
                "with a block and >= 3 statements, every pair" % ((3, 4) if ctx.tier == "quick" else (4, 5)))
    for c in (cases[1], cases[-1]):
        ctx.sample({"k": c["k"], "tag": c.get("tag"), "shape": _shape(c)})
    per_sig = {}
    lines = {}
    for f in findings:
        if f["pred"].startswith("Harness."):
            raise core.Infra("harness inconsistency %s at case %d (%s)" % (f["pred"], f["case"], _shape(cases[f["case"]])))
        if not f["pred"].startswith(prefix + "."):
            continue
        i = f["case"]
        if i not in lines:
            lines[i] = json.loads(raw[i])
        sig = signature(f, lines[i])
        per_sig[sig] = per_sig.get(sig, 0) + 1
        if per_sig[sig] > 3:        # a few replay files per signature are enough
            continue
        c = cases[i]
        what = "%s rejected a %s %s case %s: %s" % (f["pred"], c.get("tag", ""), c["k"], json.dumps(_shape(c))[:300],
                                                    (f["detail"] + " " + str(lines[i].get("note", ""))[:200]).strip())
        ctx.violation(sig, what, {"family": "mtl", "case": c})
    ctx.extra["rejections_by_signature"] = per_sig
    # vacuity guard: every predicate and every named situation must have been met (a defect that stops
    # the pipeline early is reported as the violation it is, not as vacuity)
    idle = [p for p in PREDICATES + ANTECEDENTS if ex.get(p, 0) == 0]
    known = {k["signature"] for k in core.load_known() if k.get("property") == ctx.pid and k.get("status") == "open"}
    fresh = [v for v in ctx.violations if v["signature"] not in known]
    if idle and not fresh:
        raise core.Infra("predicates never exercised: %s" % idle)
    if (ctx.tier == "thorough" or os.environ.get("VERIF_SELFTEST") == "1") and not fresh:
        ctx.extra["selftest_corruptions_rejected"] = selftest(ctx, raw, {f["case"] for f in findings})
    ctx.assumptions += [
        "the independent tokenisers (harness/mtlfam/tok.go) read OBJ / MTL text as the format descriptions say; "
        "inline comments, map options, spectral/xyz colours and Tr are not modelled and never generated",
        "materials and meshes are projected through public fields / observers; lattice values are exactly representable",
        "source colours are opaque (MTL colours carry no alpha)",
        "directory modes are read with lstat after the call; the harness runs as root, so a directory created without "
        "permissions does not stop the call itself",
        "TLC evaluates MtlFormat/ObjFormat/TraceMtl correctly",
    ]


def replay_family(ctx, path, prefix="X03"):
    with open(path) as f:
        obj = json.load(f)
    c = obj["case"]["case"]
    vh = core.build_vh()
    keep = os.path.join(core.REPLAYS, ctx.pid, "files")
    findings, ex, raw = execute_and_judge(ctx, vh, [c], name="replay", keep=keep)
    line = json.loads(raw[0])
    for f in findings:
        print("replay: %s (%s) %s" % (f["pred"], f["detail"], str(line.get("note", ""))[:200]))
        if f["pred"].startswith(prefix + "."):
            ctx.violation(signature(f, line), "replayed", obj["case"])
    print("replay: files kept in %s" % keep)
    ctx.rule = "replay of one recorded case"
    ctx.nontrivial = 1
    ctx.sample({"replayed": path})
