"""C11: node outputs are never stale, nodes recompute only on change (NodeGraph.tla)."""
import json
import os

from vlib import core


WIDE = 14   # array length of the wide fan-in starting shape (above sort.Slice's insertion-sort size, 12)


def write_cfg(path, np_, nn, depth, vals, mode, wide=0):
    with open(path, "w") as f:
        f.write("CONSTANTS NP = %d NN = %d Depth = %d Vals = {%s} Wide = %d\n" %
                (np_, nn, depth, ",".join(map(str, vals)), wide))
        if mode == "trace":
            f.write("SPECIFICATION TSpec\nPOSTCONDITION TraceAccepted\nCHECK_DEADLOCK FALSE\n")
        else:
            f.write("SPECIFICATION Spec\nINVARIANTS AcyclicInv CleanImpliesCone %s\nPROPERTY VersionMonotone\n" %
                    ("Emit" if mode == "bfs" else "EmitLeaf"))
            if mode == "bfs":
                f.write("VIEW View\n")
            f.write("CHECK_DEADLOCK FALSE\n")


def drop_prefixes(hists):
    ser = [tuple(json.dumps(s, sort_keys=True) for s in h["steps"]) for h in hists]
    full = set(ser)
    pre = set()
    for s in full:
        for k in range(1, len(s)):
            pre.add(s[:k])
    out, seen = [], set()
    for h, s in zip(hists, ser):
        if s in pre or s in seen:
            continue
        seen.add(s)
        out.append(h)
    return out


def judge(ctx, vh, hists, np_, nn, reps, name):
    d = ctx.scratch(name)
    hp = os.path.join(d, "h.ndjson")
    core.write_ndjson(hp, hists)
    tp = os.path.join(d, "trace.ndjson")
    # the process is part of the state (per-type caches, package-level tables): the histories are spread over
    # fresh process images, so many different histories are the first thing a process does
    procs = min(64, max(1, len(hists) // 8))
    ctx.extra["process_images"] = ctx.extra.get("process_images", 0) + procs
    core.run_vh(vh, ["ng-exec", "-in", hp, "-out", tp, "-reps", str(reps), "-procs", str(procs)], timeout=900)
    raw = open(tp).readlines()
    cfgp = os.path.join(core.SPECS, "_TraceNG_%s_%s.cfg" % (ctx.pid, name))
    write_cfg(cfgp, np_, nn, 0, [1], "trace")
    try:
        res = core.validate_sharded(ctx, name, "TraceNodeGraph", os.path.basename(cfgp), raw, timeout=1500)
    finally:
        os.remove(cfgp)
    findings = []
    for sh, r in res:
        for v in r.values:
            if isinstance(v, dict) and "bad" in v:
                ln = json.loads(sh[v["l"] - 1])
                for pred in v["bad"]:
                    k = next(k for k in range(procs) if k * len(hists) // procs <= ln["h"] < (k + 1) * len(hists) // procs)
                    findings.append({"pred": pred, "k": ln["k"], "h": ln["h"], "i": ln["i"], "detail": v,
                                     "first": k * len(hists) // procs})
    ctx.traces += len(hists) * reps
    ctx.evaluations += len(raw)
    return findings


def report(ctx, hists, findings, np_, nn):
    for f in findings:
        if f["pred"].startswith("Harness."):
            raise core.Infra("harness inconsistency %s (history %d step %d)" % (f["pred"], f["h"], f["i"]))
        h = hists[f["h"]]
        sig = "%s/%s" % (f["pred"], f["k"])
        case = {"family": "nodegraph", "np": np_, "nn": nn,
                "history": {"np": np_, "nn": nn, "steps": h["steps"][:f["i"] + 1]}}
        if f.get("first", f["h"]) != f["h"]:
            # what the process image did first (state the process carries: caches, package-level tables)
            case["process_first"] = hists[f["first"]]
        ctx.violation(sig, "%s at step %d (%s) of a %s history; executed=%s notdirty=%s" %
                      (f["pred"], f["i"], f["k"], h.get("tag"), f["detail"].get("executed"), f["detail"].get("notdirty")), case)


def run(ctx):
    vh = core.build_vh()
    quick = ctx.tier == "quick"
    # (1) exhaustive generator on the small configuration
    d = ctx.scratch("gen")
    write_cfg(os.path.join(d, "Gen.cfg"), 2, 3, 3 if quick else 4, [1, 13] if quick else [1, 2, 13], "bfs", wide=WIDE)   # 13: p1:13 makes processors fail
    r = core.run_tlc(d, "NodeGraph", "Gen.cfg", files=[(os.path.join(d, "Gen.cfg"), "Gen.cfg")],
                     workers=core.NCPU, timeout=2400, heap="10g")
    if r.rc != 0:
        raise core.Infra("NodeGraph violates its own invariant %s" % r.violated)
    ctx.add_tlc(r)
    bfs = drop_prefixes([v for v in r.values if isinstance(v, dict) and "steps" in v])
    for h in bfs:
        h["tag"] = "bfs"
    ctx.extra["bfs_histories"] = len(bfs)
    ctx.extra["bfs_states"] = r.distinct
    # (2) implementation-shaped model: sorted dependency order refines the contract
    d = ctx.scratch("impl")
    r = core.run_tlc(d, "NodeGraphImpl", "NodeGraphImplSorted.cfg", workers=core.NCPU, timeout=1200)
    ctx.add_tlc(r)
    if r.rc != 0:
        raise core.Infra("NodeGraphImpl (sorted dependencies) does not refine the contract: %s" % r.violated)
    r = core.run_tlc(d, "NodeGraphImpl", "NodeGraphImplMapOrder.cfg", workers=core.NCPU, timeout=1200)
    ctx.add_tlc(r)
    ctx.extra["impl_map_order_counterexample"] = (r.rc == 12)
    if r.rc != 12:
        raise core.Infra("NodeGraphImpl (map order) unexpectedly refines the contract: model lost its teeth")
    r = core.run_tlc(d, "NodeGraphImpl", "NodeGraphImplMapOrderNoStale.cfg", workers=core.NCPU, timeout=1200)
    ctx.add_tlc(r)
    if r.rc != 0:
        raise core.Infra("NodeGraphImpl (map order) admits a stale read: %s" % r.violated)
    reps = 2 if quick else 4
    findings = judge(ctx, vh, bfs, 2, 3, reps, "bfs")
    report(ctx, bfs, findings, 2, 3)
    # (3) seeded long histories on larger random DAGs
    d = ctx.scratch("rnd")
    n, steps = (40, 150) if quick else (400, 300)
    np_, nn = 4, 8
    core.run_vh(vh, ["ng-random", "-out", os.path.join(d, "h.ndjson"), "-seed", str(ctx.seed), "-n", str(n),
                     "-steps", str(steps), "-np", str(np_), "-nn", str(nn)])
    rnd = core.read_ndjson(os.path.join(d, "h.ndjson"))
    findings = judge(ctx, vh, rnd, np_, nn, reps, "rnd")
    report(ctx, rnd, findings, np_, nn)
    ctx.extra["random_histories"] = len(rnd)
    ctx.nontrivial = len(bfs) + len(rnd)
    ctx.rule = ("histories = TLC BFS of NodeGraph (2 params, 3 nodes, 3 start shapes, one per distinct abstract state) + seeded "
                "random histories on 8-node DAGs, each executed %d times (map iteration order is random per call); "
                "distinct by step list; all have >= 1 step after init" % reps)
    if ctx.tier == "thorough":
        selftest(ctx, vh, rnd)
    ctx.sample(bfs[len(bfs) // 2])
    ctx.sample({"random_first_steps": rnd[0]["steps"][:8]})
    ctx.assumptions += ["harness processors read all their inputs (a processor that skips an input leaves it stale forever; noted in DESIGN C11)",
                        "TLC evaluates NodeGraph/TraceNodeGraph correctly; execution counts come from the harness processor"]


def selftest(ctx, vh, hists):
    """Corrupt logged fields of an accepted trace; TLC must reject those lines."""
    h = [x for x in hists if sum(1 for s in x["steps"] if s["op"] == "read") >= 2][:1]
    if not h:
        raise core.Infra("self-test: no history with two reads")
    d = ctx.scratch("selftest")
    hp = os.path.join(d, "h.ndjson")
    core.write_ndjson(hp, h)
    tp = os.path.join(d, "trace.ndjson")
    core.run_vh(vh, ["ng-exec", "-in", hp, "-out", tp, "-reps", "1"])
    rows = core.read_ndjson(tp)
    reads = [i for i, r in enumerate(rows) if r["k"] == "read"]
    rows[reads[0]]["val"] += "x"                      # stale / wrong value -> C11.Fresh
    k = reads[-1]
    for j in range(k, len(rows)):                      # a node "executed" although nothing changed -> C11.Minimal or Version
        rows[j]["obs"]["execs"][0] += 1
    core.write_ndjson(tp, rows)
    cfgp = os.path.join(core.SPECS, "_TraceNG_selftest.cfg")
    write_cfg(cfgp, h[0]["np"], h[0]["nn"], 0, [1], "trace")
    try:
        r = core.run_tlc(os.path.join(d, "v"), "TraceNodeGraph", os.path.basename(cfgp), files=[(tp, "trace.ndjson")], timeout=600)
    finally:
        os.remove(cfgp)
    got = {(v["l"], p) for v in r.values if isinstance(v, dict) and "bad" in v for p in v["bad"]}
    if (reads[0] + 1, "C11.Fresh") not in got:
        raise core.Infra("self-test: corrupted read value not rejected (%s)" % sorted(got))
    if not any(l == k + 1 and p in ("C11.Minimal", "C11.Version", "C11.Once") for l, p in got):
        raise core.Infra("self-test: fabricated execution not rejected (%s)" % sorted(got))
    ctx.extra["selftest_corruptions_rejected"] = 2


def replay(ctx, path):
    obj = json.load(open(path))["case"]
    vh = core.build_vh()
    h = obj["history"]
    hs = [h]
    if "process_first" in obj:
        hs = [obj["process_first"], h]      # one process image: first what it did first, then the history
    findings = judge(ctx, vh, hs, obj["np"], obj["nn"], 5, "replay")
    for f in findings:
        print("replay: %s at step %d of history %d" % (f["pred"], f["i"], f["h"]))
    report(ctx, hs, findings, obj["np"], obj["nn"])
    ctx.rule = "replay"
    ctx.nontrivial = 2
    ctx.sample({"replayed": path})
