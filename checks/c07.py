from checks import stlfam


def run(ctx):
    stlfam.run_family(ctx, "C07")


def replay(ctx, path):
    stlfam.replay_family(ctx, path, "C07")
