from checks import objfam


def run(ctx):
    objfam.run_family(ctx, "C05")


def replay(ctx, path):
    objfam.replay_family(ctx, path, "C05")
