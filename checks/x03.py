from checks import mtlfam


def run(ctx):
    mtlfam.run_family(ctx, "X03")


def replay(ctx, path):
    mtlfam.replay_family(ctx, path, "X03")
