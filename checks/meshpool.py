"""Mesh-pool family (C01, C02, C03): generator (TLC) -> executor (real code) -> judge (TLC).

One pipeline serves the three properties; each property reports only the
predicates that belong to it (C01.Frame, C02.WellFormed, C03.Result/Post).
"""
import json
import os

from vlib import core

ALL_OPS = ["New", "Append", "SetIndices", "SetMaterial", "SetMaterials", "SetAttr", "ModifyAttr",
           "CopyAttr", "Translate", "Scale", "Rotate", "ApplyTRS", "TranslateAttr", "ScaleAttr",
           "RotateAttr", "CenterAttr", "ToPointCloud", "Unweld", "RemoveUnreferenced", "FlipWinding",
           "Weld", "RemoveNullFaces", "Split", "Filter", "Crop", "Repeat", "Export", "Scan",
           "Normalize", "FlatNormals", "SmoothNormals", "Laplacian", "Misc", "Prim", "SetAttrWindow"]

Q = 1024


def gen_cfg(path, nslots, depth, ops, simulate=False, bases="std"):
    with open(path, "w") as f:
        f.write("CONSTANTS\n  NSlots = %d\n  Depth = %d\n  Ops = {%s}\n  Walk = %s\n  BaseSet = \"%s\"\n" %
                (nslots, depth, ",".join('"%s"' % o for o in ops), "TRUE" if simulate else "FALSE", bases))
        f.write("SPECIFICATION Spec\nINVARIANTS Closed Laws %s\nPROPERTY Immutable\n" %
                ("EmitLeaf" if simulate else "Emit"))
        if not simulate:
            f.write("VIEW View\n")
        f.write("CHECK_DEADLOCK FALSE\n")


def drop_prefixes(hists):
    """Keep only histories that are not a proper prefix of another one."""
    keys = set()
    ser = []
    for h in hists:
        s = [json.dumps(st, sort_keys=True) for st in h["steps"]]
        ser.append(s)
    full = set(tuple(s) for s in ser)
    prefixes = set()
    for s in full:
        for k in range(1, len(s)):
            prefixes.add(s[:k])
    out = []
    for h, s in zip(hists, ser):
        t = tuple(s)
        if t in prefixes or t in keys:
            continue
        keys.add(t)
        out.append(h)
    return out


def base_mesh(k, tag, topo="triangle", extra=False):
    """k primitives, unwelded, positions distinct per tag."""
    size = 3 if topo == "triangle" else 1
    nv = k * size
    pos = [[(i % 7) * Q, (i // 7) * Q, tag * Q] for i in range(nv)]
    attrs = []
    if extra:
        attrs.append({"ar": 1, "id": 5, "data": [[(tag * 10 + i) * Q] for i in range(nv)]})
    attrs.append({"ar": 3, "id": 1, "data": pos})
    mats = [{"n": k, "m": tag}] if (topo == "triangle" and extra) else []
    return {"topo": topo, "idx": list(range(nv)), "attrs": attrs, "mats": mats, "exact": True, "bx": True, "fp": []}


def instantiate_shape(shape, k, topo, extra):
    steps = []
    nslots = 1
    tag = 0
    for st in shape:
        nslots = max([nslots, st["dst"]] + list(st["src"]))
        if st["op"] == "New":
            tag += 1
            steps.append({"op": "New", "dst": st["dst"], "src": [],
                          "args": {"z": 0, "mesh": base_mesh(k * st["n"], tag, topo, extra)}})
        elif st["op"] == "Share":
            steps.append({"op": "SetMaterial", "dst": st["dst"], "src": st["src"], "args": {"z": 0, "m": 3}})
        elif st["op"] == "Modify":
            steps.append({"op": "Translate", "dst": st["dst"], "src": st["src"],
                          "args": {"z": 0, "v": [Q, 0, 0]}})
        else:
            steps.append({"op": "Append", "dst": st["dst"], "src": st["src"], "args": {"z": 0}})
    return {"nslots": nslots, "steps": steps, "tag": "risky"}


def collect_histories(ctx, vh):
    """Returns list of histories (dicts) from all generators + notes for evidence."""
    tier, seed = ctx.tier, ctx.seed
    hists = []
    notes = {}

    # (1) contract-level generator, exhaustive to a bound (one history per distinct pool state)
    d = ctx.scratch("gen")
    depth = 3
    d2 = ctx.scratch("gencfg")
    gen_cfg(os.path.join(d2, "Gen.cfg"), 3, depth, ALL_OPS)
    r = core.run_tlc(d, "MeshPool", "Gen.cfg", files=[(os.path.join(d2, "Gen.cfg"), "Gen.cfg")],
                     workers=core.NCPU, timeout=1500, heap="8g")
    if r.rc != 0:
        raise core.Infra("MeshPool specification violates its own property %s (spec bug)" % r.violated)
    ctx.add_tlc(r)
    bfs = drop_prefixes([v for v in r.values if isinstance(v, dict) and "steps" in v])
    notes["bfs_depth"] = depth
    notes["bfs_pool_states"] = r.distinct
    notes["bfs_histories_generated"] = len(bfs)
    if tier == "quick":
        bfs = bfs[seed % 2::2]      # the quick tier executes a seed-rotated half of them; thorough all
    notes["bfs_histories"] = len(bfs)
    for h in bfs:
        h["tag"] = "bfs"
    hists += bfs

    # (1b) the topology dimension: bases of every other topology (quad, line, line strip, line loop) under the
    # operations whose contract does not depend on the topology, every exporter and the scans
    agnostic = ["New", "Append", "SetMaterial", "SetMaterials", "SetAttr", "ModifyAttr", "CopyAttr", "Translate", "Scale",
                "Rotate", "ApplyTRS", "TranslateAttr", "ScaleAttr", "RotateAttr", "CenterAttr", "ToPointCloud", "Repeat",
                "Export", "Scan"]
    gen_cfg(os.path.join(d2, "GenTopo.cfg"), 2, 3, agnostic, bases="topo")
    r = core.run_tlc(ctx.scratch("gentopo"), "MeshPool", "GenTopo.cfg", files=[(os.path.join(d2, "GenTopo.cfg"), "GenTopo.cfg")],
                     workers=core.NCPU, timeout=1500, heap="8g")
    if r.rc != 0:
        raise core.Infra("MeshPool specification (topology bases) violates its own property %s (spec bug)" % r.violated)
    ctx.add_tlc(r)
    topo = drop_prefixes([v for v in r.values if isinstance(v, dict) and "steps" in v])
    notes["topology_histories_generated"] = len(topo)
    if tier == "quick":
        topo = topo[seed % 4::4]
    notes["topology_histories"] = len(topo)
    if not topo:
        raise core.Infra("the topology generator emitted nothing")
    for h in topo:
        h["tag"] = "topo"
    hists += topo

    if tier == "thorough":
        # one level deeper over the operations that share / extend / re-index storage
        sharing = ["New", "Append", "SetIndices", "SetMaterials", "SetAttr", "ModifyAttr", "CopyAttr", "Translate", "Unweld",
                   "RemoveUnreferenced", "Weld", "Export", "Split", "Prim", "SetAttrWindow"]
        gen_cfg(os.path.join(d2, "Gen4.cfg"), 3, 4, sharing)
        r = core.run_tlc(ctx.scratch("gen4"), "MeshPool", "Gen4.cfg", files=[(os.path.join(d2, "Gen4.cfg"), "Gen4.cfg")],
                         workers=core.NCPU, timeout=3000, heap="10g")
        if r.rc != 0:
            raise core.Infra("MeshPool specification violates its own property %s (spec bug)" % r.violated)
        ctx.add_tlc(r)
        bfs4 = drop_prefixes([v for v in r.values if isinstance(v, dict) and "steps" in v])
        for h in bfs4:
            h["tag"] = "bfs4"
        notes["bfs_depth4_sharing_ops_histories"] = len(bfs4)
        hists += bfs4

    # (2) deeper random walks of the same specification
    d = ctx.scratch("sim")
    nsim = 1 if tier == "quick" else 25
    gen_cfg(os.path.join(d2, "Sim.cfg"), 4, 8, ALL_OPS, simulate=True)
    r = core.run_tlc(d, "MeshPool", "Sim.cfg", files=[(os.path.join(d2, "Sim.cfg"), "Sim.cfg")],
                     workers=1, timeout=900, simulate="num=%d" % nsim, depth=12, seed=seed)
    if r.rc != 0:
        raise core.Infra("MeshPool specification violates its own property %s in simulation" % r.violated)
    sim = drop_prefixes([v for v in r.values if isinstance(v, dict) and "steps" in v])
    ctx.transitions += sum(len(h["steps"]) for h in sim)
    for h in sim:
        h["tag"] = "sim"
    notes["sim_histories"] = len(sim)
    if not sim:
        raise core.Infra("the random walks of MeshPool emitted no history")
    hists += sim

    # (3) implementation-shaped heap model: design check + risky history shapes
    d = ctx.scratch("heap")
    r = core.run_tlc(d, "MeshHeap", "MeshHeapFixed.cfg", workers=core.NCPU, timeout=900)
    ctx.add_tlc(r)
    notes["heap_copy_on_append_refines"] = (r.rc == 0)
    if r.rc != 0:
        raise core.Infra("MeshHeap (CopyOnAppend) violates Refines: L2 model bug")
    shapes = {}
    for cfgname in ["MeshHeapRisky.cfg", "MeshHeapRiskyGoQuick.cfg" if tier == "quick" else "MeshHeapRiskyGo.cfg"]:
        r = core.run_tlc(d, "MeshHeap", cfgname, workers=core.NCPU, timeout=900)
        ctx.add_tlc(r)
        for v in r.values:
            if isinstance(v, dict) and "risky" in v:
                shapes[json.dumps(v["risky"], sort_keys=True)] = v["risky"]
    notes["risky_shapes"] = len(shapes)
    sizes = [1, 3] if tier == "quick" else [1, 2, 3, 5, 8, 13, 21, 40]
    shape_list = [shapes[k] for k in sorted(shapes)]
    if tier == "quick":
        shape_list = shape_list[seed % 2::2]
    risky = []
    for i, sh in enumerate(shape_list):
        for k in sizes:
            risky.append(instantiate_shape(sh, k, "triangle" if (i + k) % 4 else "point", (i + k) % 2 == 0))
    notes["risky_histories"] = len(risky)
    hists += risky

    # (3b) overlapping windows of one caller-owned array: a short and a long window on the same backing array are
    #      attributes of two live meshes; padding/extending the short one must not write into the long one
    win = []
    for n, extra in ([(1, 1), (3, 2), (3, 3)] if tier == "quick" else [(1, 1), (2, 3), (3, 2), (3, 3), (5, 8), (8, 5), (13, 21)]):
        a = base_mesh(n, 1, "point")
        b = base_mesh(n + extra, 2, "point")
        for ar, aid in ((1, 13), (3, 15), (2, 14), (4, 8)):
            data = [[(i + 1) * Q] * ar for i in range(n + extra)]
            win.append({"nslots": 5, "tag": "window", "steps": [
                {"op": "New", "dst": 1, "src": [], "args": {"z": 0, "mesh": a}},
                {"op": "New", "dst": 2, "src": [], "args": {"z": 0, "mesh": b}},
                {"op": "SetAttrWindow", "dst": 3, "src": [1], "args": {"z": 0, "ar": ar, "id": aid, "data": data, "n": n}},
                {"op": "SetAttrWindow", "dst": 4, "src": [2], "args": {"z": 0, "ar": ar, "id": aid, "data": data, "n": n + extra}},
                {"op": "Append", "dst": 5, "src": [3, 1], "args": {"z": 0}},
                {"op": "Append", "dst": 5, "src": [3, 3], "args": {"z": 0}},
                {"op": "Scan", "dst": 0, "src": [4], "args": {"z": 0}}]})
    notes["window_histories"] = len(win)
    hists += win

    # (3c) magnitude ladder of the position-keyed weld: pairs of triangles whose first corners are 2^(k+1) apart on
    #      one axis (+-2^k) and whose other corners coincide; the rounding cells differ, so nothing may be merged
    #      across the pair. Only value-free operations follow (the lattice budget of MeshOps!WeldBudget is 2^20).
    far = []
    ks = [20, 12] if tier == "quick" else list(range(8, 21))
    for k in ks:
        for axis in range(3):
            big = (1 << k) * Q

            def corner(sign, axis=axis, big=big):
                v = [0, 0, 0]
                v[axis] = sign * big
                return v
            others = [[Q if c == (axis + 1) % 3 else 0 for c in range(3)], [Q if c == (axis + 2) % 3 else 0 for c in range(3)]]
            pos = [corner(-1)] + others + [corner(1)] + others + [corner(-1)] + [others[1], others[0]]
            m = {"topo": "triangle", "idx": list(range(9)), "attrs": [
                {"ar": 1, "id": 5, "data": [[(i + 1) * Q] for i in range(9)]},
                {"ar": 3, "id": 1, "data": pos}], "mats": [], "exact": True, "bx": True, "fp": []}
            far.append({"nslots": 4, "tag": "far", "steps": [
                {"op": "New", "dst": 1, "src": [], "args": {"z": 0, "mesh": m}},
                {"op": "Weld", "dst": 2, "src": [1], "args": {"z": 0, "id": 1, "p10": 1}},
                {"op": "Unweld", "dst": 3, "src": [2], "args": {"z": 0}},
                {"op": "Weld", "dst": 4, "src": [3], "args": {"z": 0, "id": 1, "p10": 1}},
                {"op": "Append", "dst": 3, "src": [4, 2], "args": {"z": 0}},
                {"op": "Weld", "dst": 3, "src": [3], "args": {"z": 0, "id": 1, "p10": 1}},
                {"op": "Scan", "dst": 0, "src": [3], "args": {"z": 0}}]})
    notes["far_weld_histories"] = len(far)
    hists += far

    # (3d) pairs of generator calls: every primitive / extrusion / repeat generator twice with parameter tuples that
    #      agree in all but one place (or in all): a table, cache or buffer that one call leaves behind must not
    #      reach the mesh of the other (the earlier result, and a mesh derived from it, are re-read after the later call)
    pairs = []
    base = [2, 4, 2, 0]
    variants = [[4, 4, 2, 0], [2, 5, 2, 0], [2, 4, 3, 0], [2, 4, 2, 1]]
    # which tuples a generator accepts is asked of the generator itself (a rejected tuple leaves nothing to re-read)
    d = ctx.scratch("primpair")
    tuples = [{"gen": g, "p": t} for g in range(1, 16) for t in [base] + variants]
    core.write_ndjson(os.path.join(d, "gen.ndjson"), tuples)
    core.run_vh(vh, ["gen-exec", "-in", os.path.join(d, "gen.ndjson"), "-out", os.path.join(d, "shapes.ndjson")])
    accepted = {(t["gen"], tuple(t["p"])) for t, ln in zip(tuples, core.read_ndjson(os.path.join(d, "shapes.ndjson")))
                if ln["shape"]["topo"] != "FAIL"}
    k = 0
    for g in range(1, 16):
        combos = [(base, base)] + [(base, v) for v in variants] + [(v, base) for v in variants]
        for t1, t2 in combos:
            if (g, tuple(t1)) not in accepted or (g, tuple(t2)) not in accepted:
                continue
            pairs.append({"nslots": 4, "tag": "primpair", "steps": [
                {"op": "Prim", "dst": 1, "src": [], "args": {"z": 0, "gen": g, "p": t1}},
                {"op": "Translate", "dst": 3, "src": [1], "args": {"z": 0, "v": [Q, 0, 0]}},
                {"op": "Prim", "dst": 2, "src": [], "args": {"z": 0, "gen": g, "p": t2}},
                {"op": "Append", "dst": 4, "src": [2, 1], "args": {"z": 0}},
                {"op": "Scan", "dst": 0, "src": [1], "args": {"z": 0}}]})
    notes["primitive_pair_tuples_accepted"] = len(accepted)
    notes["primitive_pair_histories"] = len(pairs)
    hists += pairs

    # (3e) every material list shape: all sequences of 2..4 ranges over three materials (repeats, returns to an earlier
    #      material, new material after a repeat ...) on a mesh with one triangle per range, split part by part
    import itertools
    matpat = []
    k = 0
    for n in (2, 3, 4):
        for seq in itertools.product((1, 2, 3), repeat=n):
            m = base_mesh(n, 1, "triangle", extra=True)
            steps = [{"op": "New", "dst": 1, "src": [], "args": {"z": 0, "mesh": m}},
                     {"op": "SetMaterials", "dst": 2, "src": [1], "args": {"z": 0, "mats": [{"n": 1, "m": x} for x in seq]}}]
            for part in range(1, len(set(seq)) + 1):
                steps.append({"op": "Split", "dst": 3, "src": [2], "args": {"z": 0, "k": part}})
            steps.append({"op": "Export", "dst": 0, "src": [2], "args": {"z": 0, "fmt": "obj"}})
            matpat.append({"nslots": 3, "tag": "matpattern", "steps": steps})
    # ... and distinct material OBJECTS that go by one name (SetMaterial stores the address of a copy), met in one
    # list through Append, then exported through every format and split
    for fmt in ("obj", "glb", "ply-le", "stl"):
        a, b = base_mesh(2, 1, "triangle", extra=True), base_mesh(1, 2, "triangle", extra=True)
        matpat.append({"nslots": 5, "tag": "samename", "steps": [
            {"op": "New", "dst": 1, "src": [], "args": {"z": 0, "mesh": a}},
            {"op": "New", "dst": 2, "src": [], "args": {"z": 0, "mesh": b}},
            {"op": "SetMaterial", "dst": 3, "src": [1], "args": {"z": 0, "m": 2}},
            {"op": "SetMaterial", "dst": 4, "src": [2], "args": {"z": 0, "m": 2}},
            {"op": "Append", "dst": 5, "src": [3, 4], "args": {"z": 0}},
            {"op": "Export", "dst": 0, "src": [5], "args": {"z": 0, "fmt": fmt}},
            {"op": "Append", "dst": 1, "src": [5, 2], "args": {"z": 0}},
            {"op": "Export", "dst": 0, "src": [1], "args": {"z": 0, "fmt": fmt}},
            {"op": "Split", "dst": 2, "src": [1], "args": {"z": 0, "k": 2}}]})
    notes["material_pattern_histories"] = len(matpat)
    hists += matpat

    # (3f) magnitude ladder of the normal computations: the operation applied to the mesh scaled by 2^-e (exactly),
    #      positions scaled back; normals do not depend on the size of a mesh, so the judge sees the same integers
    def lattice_mesh(pos, idx):
        return {"topo": "triangle", "idx": idx, "attrs": [{"ar": 3, "id": 1, "data": [[c * Q for c in p] for p in pos]}],
                "mats": [], "exact": True, "bx": True, "fp": []}
    pyramid = lattice_mesh([[0, 0, 0], [4, 0, 0], [4, 4, 0], [0, 4, 0], [2, 2, 3]],
                           [0, 1, 4, 1, 2, 4, 2, 3, 4, 3, 0, 4, 0, 2, 1, 0, 3, 2])
    sliver = lattice_mesh([[0, 0, 0], [1, 0, 0], [0, 1, 0], [0, 0, 1], [5, 1, 2]],
                          [0, 1, 2, 0, 3, 1, 0, 2, 3, 1, 4, 2, 2, 4, 3])
    ladder = []
    es = [10, 40, -40] if tier == "quick" else [e for e in range(-100, 101, 10) if e != 0] + [9, 11, 19, 21]
    for e in es:
        for base in (pyramid, sliver):
            ladder.append({"nslots": 4, "tag": "normladder", "steps": [
                {"op": "New", "dst": 1, "src": [], "args": {"z": 0, "mesh": base}},
                {"op": "SmoothNormals", "dst": 2, "src": [1], "args": {"z": 0, "e": e}},
                {"op": "Unweld", "dst": 3, "src": [1], "args": {"z": 0}},
                {"op": "FlatNormals", "dst": 4, "src": [3], "args": {"z": 0, "e": e}},
                {"op": "SmoothNormals", "dst": 4, "src": [3], "args": {"z": 0, "e": e}}]})
    notes["normals_magnitude_histories"] = len(ladder)
    hists += ladder

    # (4) seeded large histories
    d = ctx.scratch("rnd")
    n = 60 if tier == "quick" else 800
    steps = 40 if tier == "quick" else 60
    core.run_vh(vh, ["mesh-random", "-out", os.path.join(d, "h.ndjson"), "-seed", str(seed),
                     "-n", str(n), "-steps", str(steps), "-slots", "5", "-maxv", "12"])
    rnd = core.read_ndjson(os.path.join(d, "h.ndjson"))
    for h in rnd:
        h["tag"] = "random"
    notes["random_histories"] = len(rnd)
    hists += rnd
    return hists, notes


def execute_and_judge(ctx, vh, hists, name="main"):
    """Run histories on the real code, validate the trace with TLC.
    Returns list of findings: dict(pred, op, topo, h, i, line, exp)."""
    d = ctx.scratch(name + "-exec")
    hp = os.path.join(d, "hist.ndjson")
    core.write_ndjson(hp, hists)
    tp = os.path.join(d, "trace.ndjson")
    core.run_vh(vh, ["mesh-exec", "-in", hp, "-out", tp], timeout=1800)
    with open(tp) as f:
        raw = f.readlines()
    findings = []
    results = core.validate_sharded(ctx, name, "TraceMeshPool", "TraceMeshPool.cfg", raw, timeout=3000)
    judged = ctx.extra.setdefault("steps_judged_by_value", {})
    for sh, r in results:
        for v in r.values:
            if isinstance(v, dict) and "judged" in v:
                for op, n in v["judged"].items():
                    judged[op] = judged.get(op, 0) + n
            if not (isinstance(v, dict) and "bad" in v):
                continue
            ln = json.loads(sh[v["l"] - 1])
            st = ln["step"]
            for pred in v["bad"]:
                findings.append({"pred": pred, "op": st["op"], "h": ln["h"], "i": ln["i"],
                                 "res_topo": ln["res"]["topo"], "exp": v.get("exp")})
    ctx.traces += len(hists)
    ctx.evaluations += len(raw)
    return findings


def src_topo(hist, i):
    """Topology of the first source of step i, recovered from the history (for signatures)."""
    return ""


def run_family(ctx, prefix):
    vh = core.build_vh()
    hists, notes = collect_histories(ctx, vh)
    findings = execute_and_judge(ctx, vh, hists)
    ctx.extra.update(notes)
    ctx.rule = ("histories: TLC BFS of MeshPool (one per distinct pool state, depth %d), TLC -simulate walks, "
                "MeshHeap risky shapes x sizes, seeded random histories; a case is a history, distinct by its "
                "step list, non-trivial if it has >= 2 steps" % notes["bfs_depth"])
    ctx.nontrivial = len({json.dumps(h["steps"], sort_keys=True) for h in hists if len(h["steps"]) >= 2})
    for h in hists[:1] + hists[-1:]:
        ctx.sample({"tag": h.get("tag"), "steps": [dict(op=s["op"], dst=s["dst"], src=s["src"]) for s in h["steps"]][:12]})
    other = 0
    for f in findings:
        if f["pred"].startswith("Harness."):
            raise core.Infra("harness inconsistency %s at history %d step %d" % (f["pred"], f["h"], f["i"]))
        if not f["pred"].startswith(prefix + "."):
            other += 1
            continue
        h = hists[f["h"]]
        sig = "%s/%s" % (f["pred"], f["op"])
        what = "%s rejected step %d (%s) of a %s history; observed result topo=%s" % (
            f["pred"], f["i"], f["op"], h.get("tag"), f["res_topo"])
        ctx.violation(sig, what, {"family": "meshpool", "history": {"nslots": h["nslots"], "steps": h["steps"][:f["i"] + 1]},
                                  "expected": f["exp"]})
    ctx.extra["flags_for_other_properties"] = other
    if ctx.tier == "thorough":
        selftest(ctx, vh, hists)
    missing = [op for op in ALL_OPS if ctx.extra.get("steps_judged_by_value", {}).get(op, 0) == 0]
    ctx.extra["ops_never_judged_by_value"] = missing
    if missing:
        raise core.Infra("operations never judged by value (vacuous): %s" % missing)
    ctx.assumptions += [
        "projection of real meshes through public observers (harness/project) is faithful",
        "values are judged on the 1/1024 lattice; raw float bits only through a fingerprint in frame checks",
        "TLC evaluates MeshValue/MeshOps correctly",
    ]


def selftest(ctx, vh, hists):
    """Demonstrate the binding: corrupt logged fields of an accepted trace; TLC must reject exactly those lines."""
    d = ctx.scratch("selftest")
    hp = os.path.join(d, "hist.ndjson")
    tri = {"topo": "triangle", "idx": [0, 1, 2], "attrs": [{"ar": 3, "id": 1, "data": [[0, 0, 0], [Q, 0, 0], [0, Q, 0]]}],
           "mats": [], "exact": True, "bx": True, "fp": []}
    pick = [{"nslots": 3, "steps": [
        {"op": "New", "dst": 1, "src": [], "args": {"z": 0, "mesh": tri}},
        {"op": "Translate", "dst": 2, "src": [1], "args": {"z": 0, "v": [Q, 0, 0]}},
        {"op": "FlipWinding", "dst": 3, "src": [2], "args": {"z": 0}}]}]
    core.write_ndjson(hp, pick)
    tp = os.path.join(d, "trace.ndjson")
    core.run_vh(vh, ["mesh-exec", "-in", hp, "-out", tp])
    rows = core.read_ndjson(tp)
    # (a) a value of the step-1 result is changed in the log  -> C03.Result at that line
    r1 = rows[2]
    if not r1["res"]["attrs"] or r1["step"]["dst"] == 0:
        raise core.Infra("self-test: unsuitable trace")
    r1["res"]["attrs"][0]["data"][0][0] += 1024
    for c in r1["chg"]:
        if c["s"] == r1["step"]["dst"]:
            c["m"] = r1["res"]
    # (b) a slot that is not the destination of step 2 is reported as changed -> C01.Frame at that line
    r2 = rows[3]
    other = [c for c in rows[1]["chg"]][0]
    if other["s"] != r2["step"]["dst"]:
        fake = json.loads(json.dumps(other))
        fake["m"]["fp"] = [1, 2, 3]
        r2["chg"] = [c for c in r2["chg"] if c["s"] != fake["s"]] + [fake]
        expect_frame = True
    else:
        expect_frame = False
    core.write_ndjson(tp, rows)
    r = core.run_tlc(os.path.join(d, "v"), "TraceMeshPool", "TraceMeshPool.cfg", files=[(tp, "trace.ndjson")], timeout=600)
    got = {(v["l"], p) for v in r.values if isinstance(v, dict) and "bad" in v for p in v["bad"]}
    if (3, "C03.Result") not in got:
        raise core.Infra("self-test: corrupted result value was not rejected (%s)" % sorted(got))
    if expect_frame and (4, "C01.Frame") not in got:
        raise core.Infra("self-test: fabricated change of a non-destination slot was not rejected (%s)" % sorted(got))
    ctx.extra["selftest_corruptions_rejected"] = 2 if expect_frame else 1


def replay_family(ctx, prefix, path):
    with open(path) as f:
        obj = json.load(f)
    h = obj["case"]["history"]
    vh = core.build_vh()
    findings = execute_and_judge(ctx, vh, [h], name="replay")
    for f in findings:
        print("replay: %s at step %d (%s)" % (f["pred"], f["i"], f["op"]))
        if f["pred"].startswith(prefix + "."):
            ctx.violation("%s/%s" % (f["pred"], f["op"]), "replayed", obj["case"])
    ctx.rule = "replay of one recorded history"
    ctx.nontrivial = 2
    ctx.sample({"replayed": path})
