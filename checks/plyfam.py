"""PLY family (C04 write/read round trip, C08 third-party files).

generator (TLC: PlyGenRT / PlyGenFile, BFS + -simulate; `vh ply-random` for sizes
and values TLC does not enumerate) -> executor (`vh ply-exec`: real ply.Write /
MeshWriter.Write / ReadHeader / ReadMesh, reference encoder/parser harness/plyref)
-> judge (TLC: TracePly.tla).  Python only orchestrates.
"""
import json
import os
import random

from vlib import core

FMTS = ["ascii", "binary_little_endian", "binary_big_endian"]


# --------------------------------------------------------------------------
# generators
# --------------------------------------------------------------------------

def _set(xs):
    return "{" + ", ".join(str(x) for x in sorted(xs)) + "}"


def rt_cfg(path, shapes, attrs, maxattrs, opts, simulate=False):
    with open(path, "w") as f:
        f.write("CONSTANTS\n  ShapeIds = %s\n  AttrIds = %s\n  MaxAttrs = %d\n  OptIds = %s\n" %
                (_set(shapes), _set(attrs), maxattrs, _set(opts)))
        f.write("SPECIFICATION Spec\nINVARIANTS ModelHeaderDescribesBody ModelRoundTrip %s\n" %
                ("EmitLeaf" if simulate else "Emit"))
        f.write("CHECK_DEADLOCK FALSE\n")


def file_cfg(path, names, types, minp, maxp, nvs, faces, mixed, simulate=False):
    with open(path, "w") as f:
        f.write("CONSTANTS\n  NameIds = %s\n  TypeIds = %s\n  MinProps = %d\n  MaxProps = %d\n  NVs = %s\n"
                "  FaceIds = %s\n  Mixed = %s\n" %
                (_set(names), _set(types), minp, maxp, _set(nvs), _set(faces), "TRUE" if mixed else "FALSE"))
        f.write("SPECIFICATION Spec\nINVARIANTS InGrammar DenotePartition %s\n" % ("EmitLeaf" if simulate else "Emit"))
        f.write("CHECK_DEADLOCK FALSE\n")


def _run_gen(ctx, name, module, cfgwriter, tag, *, simulate=None, depth=None, timeout=900, count_states=True):
    d = ctx.scratch(name)
    cfgdir = ctx.scratch(name + "-cfg")
    cfg = os.path.join(cfgdir, "Gen.cfg")
    cfgwriter(cfg)
    r = core.run_tlc(d, module, "Gen.cfg", files=[(cfg, "Gen.cfg")],
                     workers=1 if simulate else min(core.NCPU, 8), timeout=timeout, heap="6g",
                     simulate=simulate, depth=depth, seed=ctx.seed if simulate else None)
    if r.rc != 0:
        raise core.Infra("%s violates its own design-level invariant %s (specification bug or design finding): see %s" %
                         (module, r.violated, os.path.join(d, "tlc.out")))
    if count_states:
        ctx.add_tlc(r)
    seen, out = set(), []
    for v in r.values:
        if not (isinstance(v, dict) and v.get("kind") in ("rt", "file", "ser")):
            continue
        key = json.dumps(v, sort_keys=True)
        if key in seen:
            continue
        seen.add(key)
        v["tag"] = tag
        out.append(v)
    if simulate:
        ctx.transitions += len(out)
    return out, r


def _sample(rng, cases, limit, keep=lambda c: False):
    """Seeded subsample (orchestration only): keeps every case `keep` selects."""
    if len(cases) <= limit:
        return cases
    must = [c for c in cases if keep(c)]
    rest = [c for c in cases if not keep(c)]
    rng.shuffle(rest)
    return must[:limit] + rest[:max(0, limit - len(must))]


def gen_rt(ctx, vh):
    tier, seed = ctx.tier, ctx.seed
    rng = random.Random(seed)
    notes = {}
    cases = []
    quick = tier == "quick"

    # (A) every index list over small shapes x a few attribute sets x every option set
    rot = [[1, 4, 3], [1, 4, 9], [1, 4, 2], [3, 4, 6], [1, 4, 8]][seed % 5]
    a, r = _run_gen(ctx, "rtA", "PlyGenRT",
                    lambda p: rt_cfg(p, [2, 3, 4, 5, 6, 7] if quick else [1, 2, 3, 4, 5, 6, 7, 17, 18],
                                     rot if quick else [1, 3, 4, 9], 3, [1, 4] if quick else [1, 2, 3, 4, 5]), "bfsA")
    notes["rtA_states"] = r.distinct
    notes["rtA_cases"] = len(a)
    cases += _sample(rng, a, 700 if quick else 12000, keep=lambda c: c["risky"] and rng.random() < 0.5)

    if not quick:
        # (A2) every index list of two triangles over four vertices (4096), with and without TexCoord
        a2, r = _run_gen(ctx, "rtA2", "PlyGenRT", lambda p: rt_cfg(p, [14], [1, 4], 2, [1, 4]), "bfsA2")
        notes["rtA2_states"] = r.distinct
        notes["rtA2_cases"] = len(a2)
        cases += _sample(rng, a2, 10000, keep=lambda c: c["risky"] and rng.random() < 0.5)

    # (B) fixed welded / permuted / unreferenced shapes x many attribute subsets x every option set
    b, r = _run_gen(ctx, "rtB", "PlyGenRT",
                    lambda p: rt_cfg(p, [8, 9, 10, 12, 13] if quick else [8, 9, 10, 11, 12, 13, 17, 18],
                                     range(1, 11), 3 if quick else 5, [1, 2, 3, 4, 5]), "bfsB")
    notes["rtB_states"] = r.distinct
    notes["rtB_cases"] = len(b)
    cases += _sample(rng, b, 700 if quick else 12000, keep=lambda c: c["risky"] and rng.random() < 0.3)

    # (C) random walks over the wide bounds
    c, r = _run_gen(ctx, "rtC", "PlyGenRT",
                    lambda p: rt_cfg(p, [14, 15, 16], range(1, 11), 10, [1, 2, 3, 4, 5], simulate=True), "sim",
                    simulate="num=%d" % (40 if quick else 1500), depth=40, count_states=False)
    notes["rtC_cases"] = len(c)
    cases += _sample(rng, c, 200 if quick else 6000)

    # (D) seeded random meshes at sizes / values TLC does not enumerate
    d = ctx.scratch("rtD")
    n = 120 if quick else 4000
    core.run_vh(vh, ["ply-random", "-kind", "rt", "-out", os.path.join(d, "c.ndjson"), "-seed", str(seed),
                     "-n", str(n), "-maxv", "24" if quick else "60"])
    rnd = core.read_ndjson(os.path.join(d, "c.ndjson"))
    notes["rtD_cases"] = len(rnd)
    cases += rnd
    return cases, notes


def gen_file(ctx, vh):
    tier, seed = ctx.tier, ctx.seed
    rng = random.Random(seed)
    notes = {}
    cases = []
    quick = tier == "quick"
    pools = [[1, 2, 3, 7, 24], [1, 2, 3, 4, 13], [7, 8, 9, 10, 1], [11, 12, 1, 2, 3], [20, 21, 22, 23, 25]]

    # (A) every ordered choice of <= 3 properties from a pool, every type assignment, every face configuration
    pool = pools[seed % 5] if quick else [1, 2, 3, 7, 8, 9, 10, 24]
    a, r = _run_gen(ctx, "fileA", "PlyGenFile",
                    lambda p: file_cfg(p, pool, [1, 2, 7] if quick else [1, 2, 3, 4], 1, 3, [3] if quick else [4],
                                       [1, 2, 3, 5, 6] if quick else range(1, 10), False), "bfsA", timeout=1500)
    notes["fileA_states"] = r.distinct
    notes["fileA_cases"] = len(a)
    cases += _sample(rng, a, 1500 if quick else 30000)

    # (B) a full recognised group plus strangers, in every order (4 properties), all four scalar types + aliases
    groups = [[1, 2, 3, 24], [7, 8, 9, 10], [20, 21, 22, 23], [4, 5, 6, 43], [29, 30, 31, 32]]
    sel = [groups[seed % 5]] if quick else groups
    nb = 0
    for gi, g in enumerate(sel):
        b, r = _run_gen(ctx, "fileB%d" % gi, "PlyGenFile",
                        lambda p: file_cfg(p, g, [1, 6] if quick else [1, 2, 3, 4, 5, 6, 7, 8], 4, 4, [4],
                                           [1, 4, 9] if quick else [1, 3, 4, 7, 9], False), "bfsB", timeout=1500)
        nb += len(b)
        notes["fileB_states"] = notes.get("fileB_states", 0) + r.distinct
        cases += _sample(rng, b, 800 if quick else 8000)
    notes["fileB_cases"] = nb

    # (C) mixed-type groups (documented as unsupported by the reader): low rate
    m, r = _run_gen(ctx, "fileM", "PlyGenFile",
                    lambda p: file_cfg(p, [1, 2, 3] if seed % 2 else [7, 8, 9, 10], [1, 2, 4], 3, 4, [3], [1, 3], True),
                    "bfsM")
    m = [c for c in m if c["mixed"]]
    notes["fileM_cases"] = len(m)
    cases += _sample(rng, m, 20 if quick else 200)

    # (D) random walks: wide layouts
    c, r = _run_gen(ctx, "fileC", "PlyGenFile",
                    lambda p: file_cfg(p, range(1, 45), range(1, 9), 4, 12, [4, 5, 7], range(1, 10), False,
                                       simulate=True), "sim",
                    simulate="num=%d" % (30 if quick else 1000), depth=20, count_states=False)
    notes["fileC_cases"] = len(c)
    cases += _sample(rng, c, 300 if quick else 8000)

    # (E) seeded random files: large, float bit patterns, big integers
    d = ctx.scratch("fileD")
    n = 150 if quick else 5000
    core.run_vh(vh, ["ply-random", "-kind", "file", "-out", os.path.join(d, "c.ndjson"), "-seed", str(seed),
                     "-n", str(n), "-maxv", "20" if quick else "60"])
    rnd = core.read_ndjson(os.path.join(d, "c.ndjson"))
    notes["fileD_cases"] = len(rnd)
    cases += rnd
    return cases, notes


# --------------------------------------------------------------------------
# executor + judge
# --------------------------------------------------------------------------

def is_boundary(ln):
    return ln.startswith('{"k":"case"')


def execute(ctx, vh, cases, name):
    d = ctx.scratch(name + "-exec")
    cp = os.path.join(d, "cases.ndjson")
    core.write_ndjson(cp, cases)
    tp = os.path.join(d, "trace.ndjson")
    core.run_vh(vh, ["ply-exec", "-in", cp, "-out", tp], timeout=3000)
    if os.path.exists(tp + ".aborted"):
        # the code under test kept hanging: the harness stopped after a few TIMEOUT observations (all in the trace)
        with open(tp + ".aborted") as f:
            ctx.extra["execution_aborted"] = f.read().strip()
    with open(tp) as f:
        return f.readlines()


def judge(ctx, raw, name):
    """Validate raw trace lines with TracePly; returns findings (one per rejected line and predicate)."""
    findings = []
    results = core.validate_sharded(ctx, name, "TracePly", "TracePly.cfg", raw, is_boundary=is_boundary,
                                    timeout=3000, heap="4g")
    for sh, r in results:
        for v in r.values:
            if not (isinstance(v, dict) and "bad" in v):
                continue
            ln = json.loads(sh[v["l"] - 1])
            for b in v["bad"]:
                findings.append({"pred": b["p"], "id": v["id"], "why": sorted(b.get("why", [])), "cls": sorted(b.get("cls", [])),
                                 "fmt": ln.get("fmt", ""), "wr": ln.get("wr", ""), "rd": ln.get("rd", ""),
                                 "werr": ln.get("werr", ""), "rerr": ln.get("rerr", "")})
    return findings


def execute_and_judge(ctx, vh, cases, name="main"):
    for i, c in enumerate(cases):
        c["id"] = i
    raw = execute(ctx, vh, cases, name)
    findings = judge(ctx, raw, name)
    ctx.traces += len(cases)
    ctx.evaluations += len(raw)
    return findings, raw


def signature(f):
    why = "+".join(f["why"]) or "-"
    if f.get("series"):
        if f["cls"] and "-" not in f["cls"]:
            return "%s/%s" % (f["pred"], "+".join(f["cls"]))
        return "%s/%s/%s/series-%s" % (f["pred"], why, f["fmt"], f["series"])
    if f["cls"] and "-" not in f["cls"]:   # classes of known deviations explain the rejection exactly (TracePly)
        return "%s/%s" % (f["pred"], "+".join(f["cls"]))
    return "%s/%s/%s" % (f["pred"], why, f["fmt"])


def strip(case):
    return {k: v for k, v in case.items() if k not in ("id", "risky", "gap", "optid", "mixed", "faceid")}


# --------------------------------------------------------------------------
# vacuity counters (counting inputs / observations; no judgement)
# --------------------------------------------------------------------------

def rt_counters(cases, raw):
    n = {"cases": len(cases), "welded_triangle_texcoord": 0, "point_nonidentity_idx": 0, "uchar_stored": 0,
         "custom_writer": 0, "unspec_off": 0, "bits_mode": 0, "bigint_mode": 0, "user_scalar": 0,
         "unreferenced_vertex": 0, "model_risky": 0, "point_texcoord": 0}
    for c in cases:
        m, o = c["mesh"], c["opts"]
        names = {(a["n"], a["ar"]) for a in m["attrs"]}
        nv = len(m["attrs"][0]["data"]) if m["attrs"] else 0
        if m["topo"] == "triangle" and ("TexCoord", 2) in names and m["idx"] != list(range(len(m["idx"]))):
            n["welded_triangle_texcoord"] += 1
        if m["topo"] == "point" and m["idx"] != list(range(nv)):
            n["point_nonidentity_idx"] += 1
        if set(range(nv)) - set(m["idx"]):
            n["unreferenced_vertex"] += 1
        props = o["props"] if o["w"] == "custom" else [{"attr": "Color", "ar": 3, "t": "uchar"}]
        if any(p["t"] == "uchar" and (p["attr"], p["ar"]) in names for p in props):
            n["uchar_stored"] += 1
        n["custom_writer"] += o["w"] == "custom"
        n["unspec_off"] += o["w"] == "custom" and not o["unspec"]
        n["bits_mode"] += c["mode"] == "bits"
        n["bigint_mode"] += c["mode"] == "lat" and c["D"] == 1
        n["user_scalar"] += any(a["ar"] == 1 and a["n"] not in ("Opacity",) for a in m["attrs"])
        n["model_risky"] += bool(c.get("risky"))
        n["point_texcoord"] += m["topo"] == "point" and ("TexCoord", 2) in names
    enc = [json.loads(x) for x in raw if x.startswith('{"k":"enc"')]
    n["enc_lines"] = len(enc)
    n["written_ok"] = sum(1 for e in enc if e["wr"] == "OK")
    n["read_ok"] = sum(1 for e in enc if e["rd"] == "OK")
    n["read_ok_with_primitives"] = sum(1 for e in enc if e["rd"] == "OK" and e["mesh"]["idx"])
    n["encodings_compared_with_first"] = sum(1 for e in enc if e["rd"] == "OK" and e["fmt"] != "ascii")
    return n


def file_counters(cases, raw):
    n = {"cases": len(cases), "alias_types": 0, "crlf": 0, "comments": 0, "quads": 0, "texcoord_list": 0,
         "face_element_empty": 0, "unknown_scalar": 0, "uchar_props": 0, "double_props": 0, "int_props": 0,
         "mixed_group": 0, "bits_mode": 0, "bigint_mode": 0, "extra_face_list": 0, "nonuchar_count_type": 0,
         "permuted_group": 0}
    known = {"x", "y", "z", "nx", "ny", "nz", "red", "green", "blue", "alpha", "s", "t", "opacity", "f_dc_0", "f_dc_1",
             "f_dc_2", "scale_0", "scale_1", "scale_2", "rot_0", "rot_1", "rot_2", "rot_3", "px", "py", "pz", "r", "g",
             "b", "a", "normalx", "normaly", "normalz", "posx", "posy", "posz", "diffuse_red", "diffuse_green",
             "diffuse_blue", "diffuse_alpha"}
    canon = {"float32": "float", "uint8": "uchar", "int32": "int", "float64": "double", "uint32": "uint"}
    for c in cases:
        s, dc = c["spec"], c.get("deco") or {}
        types = [p["t"] for p in s["vprops"]] + [x for l in s["flists"] for x in (l["ct"], l["lt"])]
        n["alias_types"] += any(t in canon for t in types)
        ct = [canon.get(p["t"], p["t"]) for p in s["vprops"]]
        n["uchar_props"] += "uchar" in ct
        n["double_props"] += "double" in ct
        n["int_props"] += "int" in ct
        n["crlf"] += bool(dc.get("crlf"))
        n["comments"] += bool(dc.get("comments") or dc.get("objinfo"))
        n["quads"] += any(len(l) == 4 for rec in s["frecs"] for l, lp in zip(rec, s["flists"])
                          if lp["n"] in ("vertex_indices", "vertex_index"))
        n["texcoord_list"] += any(l["n"] == "texcoord" for l in s["flists"]) and s["nf"] > 0
        n["face_element_empty"] += s["face"] and s["nf"] == 0
        n["unknown_scalar"] += any(p["n"] not in known for p in s["vprops"])
        n["mixed_group"] += bool(c.get("mixed"))
        n["bits_mode"] += c["mode"] == "bits"
        n["bigint_mode"] += c["mode"] == "lat" and c["D"] == 1
        n["extra_face_list"] += any(l["n"] not in ("vertex_indices", "vertex_index", "texcoord") for l in s["flists"])
        n["nonuchar_count_type"] += any(canon.get(l["ct"], l["ct"]) != "uchar" for l in s["flists"])
        names = [p["n"] for p in s["vprops"]]
        for g in (["x", "y", "z"], ["red", "green", "blue"], ["nx", "ny", "nz"], ["rot_0", "rot_1", "rot_2", "rot_3"]):
            if all(x in names for x in g):
                pos = [names.index(x) for x in g]
                if pos != list(range(pos[0], pos[0] + len(g))):
                    n["permuted_group"] += 1
                    break
    enc = [json.loads(x) for x in raw if x.startswith('{"k":"enc"')]
    n["enc_lines"] = len(enc)
    n["read_ok"] = sum(1 for e in enc if e["rd"] == "OK")
    return n


# --------------------------------------------------------------------------
# series cases (PlySeries / PlySeriesGen / TracePlySeries): size ladder, delivery, exact 8-bit values
# --------------------------------------------------------------------------

def series_cfg(path, sizes, dlvsizes, bytesizes, bigfaces):
    with open(path, "w") as f:
        f.write("CONSTANTS\n  Sizes = %s\n  DlvSizes = %s\n  ByteSizes = %s\n  BigFaces = %d\n" %
                (_set(sizes), _set(dlvsizes), _set(bytesizes), bigfaces))
        f.write("SPECIFICATION Spec\nINVARIANTS ModelLayouts ModelIdentifies ModelUnitBits Emit\nCHECK_DEADLOCK FALSE\n")


def gen_series(ctx, via):
    seed, quick = ctx.seed, ctx.tier == "quick"
    extra = [12289, 8191, 8192, 16385, 4098]
    if quick:
        sizes = [255, 257, 4095, 4096, 4097, 8193, extra[seed % 5]]
        dlvsizes = [7] + [300 + seed % 7 + j for j in range(6)]
        bytesizes = [256, 301 + 2 * (seed % 50)]
        bigfaces = 600 + seed % 5
    else:
        sizes = [1, 2, 3, 255, 256, 257, 1023, 1025, 2049, 4095, 4096, 4097, 16383, 20481, 32769, 8193] + extra
        dlvsizes = [1, 7, 64] + [300 + seed % 7 + j for j in range(8)] + [1400 + seed % 11]
        bytesizes = [256, 301 + 2 * (seed % 50), 512, 1025]
        bigfaces = 1500 + seed % 5
    cases, r = _run_gen(ctx, "series", "PlySeriesGen",
                        lambda p: series_cfg(p, sizes, dlvsizes, bytesizes, bigfaces), "series")
    cases = [c for c in cases if c["ser"]["via"] == via]
    return cases, {"series_states": r.distinct, "series_cases": len(cases), "series_sizes": sorted(sizes)}


def judge_series(ctx, raw, name):
    findings = []
    results = core.validate_sharded(ctx, name, "TracePlySeries", "TracePlySeries.cfg", raw,
                                    is_boundary=lambda ln: True, timeout=3000, heap="4g")
    for sh, r in results:
        for v in r.values:
            if not (isinstance(v, dict) and "bad" in v):
                continue
            ln = json.loads(sh[v["l"] - 1])
            s = ln["ser"]
            for b in v["bad"]:
                findings.append({"pred": b["p"], "id": v["id"], "why": sorted(b.get("why", [])), "cls": sorted(b.get("cls", [])),
                                 "fmt": s["fmt"], "wr": ln.get("wr", ""), "rd": ln.get("rd", ""),
                                 "werr": ln.get("werr", ""), "rerr": ln.get("rerr", ""), "at": b.get("at", -1),
                                 "n": s["n"], "series": s["dlv"]["kind"] + (str(s["dlv"]["k"]) if s["dlv"]["k"] else "")})
    return findings


def series_counters(cases, raw):
    n = {"cases": len(cases), "beyond_4096_binary": 0, "beyond_8192_binary": 0, "bits_mode": 0, "int_count_binary": 0,
         "quads": 0, "deliveries": {}, "entry_load": 0}
    for c in cases:
        s = c["ser"]
        binary = s["fmt"] != "ascii"
        n["beyond_4096_binary"] += binary and s["n"] > 4096
        n["beyond_8192_binary"] += binary and s["n"] > 8192
        n["bits_mode"] += c["mode"] == "bits"
        n["int_count_binary"] += binary and s["faces"]["on"] and s["faces"]["ct"] in ("int", "uint")
        n["quads"] += s["faces"]["on"] and s["faces"]["quads"]
        k = s["dlv"]["kind"] + (str(s["dlv"]["k"]) if s["dlv"]["k"] else "")
        n["deliveries"][k] = n["deliveries"].get(k, 0) + 1
        n["entry_load"] += s["dlv"]["kind"] == "file"
    n["read_ok"] = sum(1 for x in raw if '"rd":"OK"' in x)
    strad = {}
    for x in raw:
        o = json.loads(x)
        if o.get("straddle"):
            k = o["ser"]["dlv"]["kind"] + (str(o["ser"]["dlv"]["k"]) if o["ser"]["dlv"]["k"] else "")
            strad[k] = strad.get(k, 0) + 1
    n["files_with_count_across_delivery_period"] = strad
    n["records_judged"] = sum(c["ser"]["n"] for c in cases)
    return n


def design_delivery(ctx):
    """Design-level model of the io.Reader contract (PlyDeliver): the reading discipline that is independent of
    the delivery passes, the single-Read discipline has a counterexample unless every Read is whole."""
    expect = {"FullAny": None, "SingleAny": "DeliveryIndependent", "SingleRefill": "DeliveryIndependent", "SingleWhole": None}
    out = {}
    for cfg, want in expect.items():
        r = core.run_tlc(ctx.scratch("deliver-" + cfg), "PlyDeliver", "PlyDeliver%s.cfg" % cfg, workers=1, timeout=600, heap="1g")
        got = r.violated if r.rc != 0 else None
        if got != want:
            raise core.Infra("PlyDeliver/%s: expected %s, TLC found %s" % (cfg, want or "no error", got or "no error"))
        out[cfg] = {"states": r.distinct, "result": got or "holds"}
    ctx.extra["design_delivery"] = out


def run_series(ctx, vh, prop, name="series"):
    """Series stage of a check: returns (cases, findings, raw)."""
    if prop == "C08":
        design_delivery(ctx)
    cases, notes = gen_series(ctx, "write" if prop == "C04" else "ref")
    for i, c in enumerate(cases):
        c["id"] = i
    raw = execute(ctx, vh, cases, name)
    if len(raw) != len(cases):
        raise core.Infra("series: %d trace lines for %d cases" % (len(raw), len(cases)))
    findings = judge_series(ctx, raw, name)
    ctx.traces += len(cases)
    ctx.evaluations += len(raw)
    ctx.extra.update(notes)
    counters = series_counters(cases, raw)
    ctx.extra["series_counters"] = counters
    for k in ("beyond_4096_binary", "beyond_8192_binary", "bits_mode", "read_ok"):
        if counters[k] == 0:
            raise core.Infra("vacuity guard (series): no case exercised %s" % k)
    if prop == "C08" and (counters["int_count_binary"] == 0 or len(counters["deliveries"]) < 8):
        raise core.Infra("vacuity guard (series): deliveries / 4-byte list counts not exercised")
    if prop == "C08":
        for k in ("refill4096", "bufio4096", "file"):
            if not counters["files_with_count_across_delivery_period"].get(k):
                raise core.Infra("vacuity guard (series): no file with a list count across a refill boundary under delivery %s" % k)
    return cases, findings, raw


def self_test_series(ctx, raw, findings, prop):
    """Binding self-test of the series judge: corrupted / ill-formed observations of an accepted large case must be
    rejected as violations (never crash the judge)."""
    bad_ids = {f["id"] for f in findings}
    target = None
    for x in raw:
        o = json.loads(x)
        if o["id"] not in bad_ids and o["rd"] == "OK" and o["ser"]["n"] > 4096 and o["ser"]["faces"]["on"] and o["mesh"]["attrs"]:
            target = o
            break
    if target is None:
        raise core.Infra("series self-test found no accepted large case to corrupt")
    n = target["ser"]["n"]
    variants = []

    def variant(what, fn):
        v = json.loads(json.dumps(target))
        fn(v)
        variants.append((what, v))

    def pos(v):            # the attribute that identifies the record
        return [a for a in v["mesh"]["attrs"] if a["n"] == "Position"][0]

    def bump(v):
        cell = pos(v)["data"][4096]
        cell[0] = cell[0] + 1 if not isinstance(cell[0], list) else [cell[0][0], cell[0][1], cell[0][2], (cell[0][3] + 1) % 65536]

    def swap(v):
        d = pos(v)["data"]
        d[0], d[n - 1] = d[n - 1], d[0]

    def block(v):          # what a block-wise reader with a local index leaves: the tail stored over the head
        for a in v["mesh"]["attrs"]:
            d = a["data"]
            tail = d[4096:]
            a["data"] = tail + d[len(tail):4096] + [[0] * a["ar"] for _ in tail]

    variant("value-at-4096", bump)
    variant("records-swapped", swap)
    variant("tail-over-head", block)
    variant("idx-element", lambda v: v["mesh"]["idx"].__setitem__(5, (v["mesh"]["idx"][5] + 1) % n))
    variant("record-dropped", lambda v: v["mesh"]["attrs"][0]["data"].pop())                 # ill-formed: n - 1 records
    variant("cell-arity", lambda v: v["mesh"]["attrs"][0]["data"][7].pop())                  # ill-formed: short record
    variant("attribute-missing", lambda v: v["mesh"]["attrs"].pop(0))
    variant("idx-empty", lambda v: v["mesh"].__setitem__("idx", []))
    rejected_by = {}
    for what, v in variants:
        d = ctx.scratch("series-selftest-" + what)
        with open(os.path.join(d, "trace.ndjson"), "w") as f:
            f.write(json.dumps(v, separators=(",", ":")) + "\n")
        r = core.run_tlc(d, "TracePlySeries", "TracePlySeries.cfg", timeout=600, heap="2g")
        preds = sorted({b["p"] for x in r.values if isinstance(x, dict) and "bad" in x for b in x["bad"]})
        if r.postcondition_failed or not any(p.startswith(prop + ".") for p in preds):
            raise core.Infra("series self-test: corruption %s of an accepted case (%d records) was not rejected (got %s)" %
                             (what, n, preds))
        rejected_by[what] = preds
    ctx.extra["series_selftest_rejected_by"] = rejected_by


def report_series(ctx, prop, cases, findings):
    per_sig = ctx.extra.setdefault("rejections_per_signature", {})
    for f in findings:
        c = cases[f["id"]]
        if f["pred"].startswith("Harness."):
            raise core.Infra("harness inconsistency %s on series case %d: %s" % (f["pred"], f["id"], json.dumps(strip(c))[:1500]))
        if not f["pred"].startswith(prop + "."):
            continue
        sig = signature(f)
        per_sig[sig] = per_sig.get(sig, 0) + 1
        if per_sig[sig] > 1:
            continue
        what = "%s rejected a series case (plan %s, %d records, %s, delivery %s, first differing record %d): %s; wr=%s rd=%s %s%s" % (
            f["pred"], c.get("plan"), f["n"], f["fmt"], f["series"], f["at"], ",".join(f["why"]) or "-", f["wr"], f["rd"],
            f["werr"][:120], f["rerr"][:120])
        ctx.violation(sig, what, {"family": "ply", "case": strip(c), "fmt": f["fmt"]})


# --------------------------------------------------------------------------
# binding self-test (thorough): a corrupted accepted trace must be rejected
# --------------------------------------------------------------------------

def self_test(ctx, raw, findings, kind):
    bad_ids = {f["id"] for f in findings}
    units, cur = [], []
    for ln in raw:
        if is_boundary(ln) and cur:
            units.append(cur)
            cur = []
        cur.append(ln)
    if cur:
        units.append(cur)
    done = []
    mutations = 0
    rejected_by = {}
    for u in units:
        head = json.loads(u[0])
        if head["id"] in bad_ids or len(u) < 4:
            continue
        lines = [json.loads(x) for x in u]
        target = None
        for kk in (1, 2, 3):
            e = lines[kk]
            if e["rd"] == "OK" and e["mesh"]["attrs"] and e["mesh"]["attrs"][0]["data"] and e["mesh"]["idx"]:
                target = kk
                break
        if target is None:
            continue
        variants = []
        # (1) one value of the decoded mesh, at a vertex a primitive refers to, in every attribute
        v1 = json.loads(json.dumps(lines))
        vert = v1[target]["mesh"]["idx"][0]
        for a in v1[target]["mesh"]["attrs"]:
            cell = a["data"][vert][0]
            if isinstance(cell, list):
                cell[1] = (cell[1] + 1) % 65536
            else:
                a["data"][vert][0] = cell + 5000
        variants.append(("mesh-value", v1))
        # (2) the decoded index list (vertex numbering / corner order)
        v2 = json.loads(json.dumps(lines))
        idx = v2[target]["mesh"]["idx"]
        if len(idx) >= 2 and idx[0] != idx[1]:
            idx[0], idx[1] = idx[1], idx[0]
            variants.append(("mesh-idx", v2))
        if kind == "rt":
            # (3) a byte the parser did not account for
            v3 = json.loads(json.dumps(lines))
            v3[target]["file"]["left"] = 1
            variants.append(("file-left", v3))
            # (4) a cell of the parsed file
            v4 = json.loads(json.dumps(lines))
            if v4[target]["file"]["vrecs"] and v4[target]["file"]["vrecs"][0]:
                c0 = v4[target]["file"]["vrecs"][0][0]
                if isinstance(c0, list):
                    c0[1] = (c0[1] + 1) % 65536
                else:
                    v4[target]["file"]["vrecs"][0][0] = c0 + (1 if c0 < 255 else -1)
                variants.append(("file-cell", v4))
            # (5) the header ply.ReadHeader returned
            v5 = json.loads(json.dumps(lines))
            v5[target]["hdr"]["elems"][0]["n"] += 1
            variants.append(("hdr-count", v5))
        for what, lines2 in variants:
            d = ctx.scratch("selftest-%d-%s" % (len(done), what))
            with open(os.path.join(d, "trace.ndjson"), "w") as f:
                for x in lines2:
                    f.write(json.dumps(x, separators=(",", ":")) + "\n")
            r = core.run_tlc(d, "TracePly", "TracePly.cfg", timeout=600, heap="2g")
            preds = sorted({b["p"] for v in r.values if isinstance(v, dict) and "bad" in v for b in v["bad"]})
            mutations += 1
            if not any(p.startswith(("C04." if kind == "rt" else "C08.")) for p in preds):
                raise core.Infra("binding self-test: corrupted field %s of an accepted trace (case %d) was not rejected "
                                 "(got %s)" % (what, head["id"], preds))
            rejected_by.setdefault(what, set()).update(preds)
        done.append(head["id"])
        if len(done) >= 3:
            break
    if not done:
        raise core.Infra("binding self-test found no accepted case to corrupt")
    ctx.extra["selftest_corruptions_rejected"] = mutations
    ctx.extra["selftest_rejected_by"] = {k: sorted(v) for k, v in rejected_by.items()}


# --------------------------------------------------------------------------
# entry points
# --------------------------------------------------------------------------

def run_family(ctx, prop):
    vh = core.build_vh()
    kind = "rt" if prop == "C04" else "file"
    cases, notes = (gen_rt if kind == "rt" else gen_file)(ctx, vh)
    findings, raw = execute_and_judge(ctx, vh, cases)
    ctx.extra.update(notes)
    scases, sfindings, sraw = run_series(ctx, vh, prop)
    counters = (rt_counters if kind == "rt" else file_counters)(cases, raw)
    ctx.extra["counters"] = counters
    keyset = {json.dumps(strip(c), sort_keys=True) for c in cases}
    ctx.nontrivial = len(keyset) + len(scases)
    if kind == "rt":
        ctx.rule = ("cases = (mesh, writer options) x 3 encodings: TLC BFS of PlyGenRT (every index list over small "
                    "shapes; fixed welded shapes x attribute subsets; all option sets), TLC -simulate walks, seeded "
                    "random meshes (lattice, float bit patterns, big integers); distinct by mesh+options; every case "
                    "has >= 1 attribute and is executed in ascii, little and big endian")
        for k in ("welded_triangle_texcoord", "point_nonidentity_idx", "uchar_stored", "custom_writer", "read_ok"):
            if counters[k] == 0 and "execution_aborted" not in ctx.extra:
                raise core.Infra("vacuity guard: no case exercised %s" % k)
    else:
        ctx.rule = ("cases = abstract third-party files x 3 encodings: TLC BFS of PlyGenFile (every ordered property "
                    "choice x type assignment x face configuration within the bounds), TLC -simulate walks over wide "
                    "layouts, seeded random files (large, float bit patterns, big integers); distinct by file+decoration")
        for k in ("alias_types", "crlf", "comments", "quads", "texcoord_list", "unknown_scalar", "uchar_props",
                  "permuted_group", "read_ok"):
            if counters[k] == 0 and "execution_aborted" not in ctx.extra:
                raise core.Infra("vacuity guard: no case exercised %s" % k)
    for c in cases[:1] + cases[-1:]:
        ctx.sample({"tag": c.get("tag"), "case": json.dumps(strip(c))[:600]})
    other = 0
    per_sig = {}
    for f in findings:
        if f["pred"].startswith("Harness."):
            raise core.Infra("harness inconsistency %s on case %d (%s): %s" %
                             (f["pred"], f["id"], f["fmt"], json.dumps(strip(cases[f["id"]]))[:1500]))
        if not f["pred"].startswith(prop + "."):
            other += 1
            continue
        c = cases[f["id"]]
        sig = signature(f)
        per_sig[sig] = per_sig.get(sig, 0) + 1
        if per_sig[sig] > 1:          # one replay file per signature is enough
            continue
        what = "%s rejected the %s encoding of a %s case (%s); wr=%s rd=%s %s%s" % (
            f["pred"], f["fmt"], c.get("tag"), ",".join(f["why"]) or "-", f["wr"], f["rd"], f["werr"][:120], f["rerr"][:120])
        ctx.violation(sig, what, {"family": "ply", "case": strip(c), "fmt": f["fmt"]})
    ctx.extra["flags_for_other_properties"] = other
    ctx.extra["rejections_per_signature"] = per_sig
    report_series(ctx, prop, scases, sfindings)
    if "execution_aborted" in ctx.extra and not any("TIMEOUT" in s for s in per_sig):
        raise core.Infra("execution was aborted after repeated timeouts but no TIMEOUT was judged: " +
                         ctx.extra["execution_aborted"])
    if ctx.tier == "thorough" or os.environ.get("VERIF_SELFTEST") == "1":
        self_test(ctx, raw, findings, kind)
        self_test_series(ctx, sraw, sfindings, prop)
    ctx.assumptions += [
        "the reference encoder/parser harness/plyref follows the PLY format description (its own round trip is checked: Harness.Refenc)",
        "projection of real meshes through public observers is faithful; reals are judged on the lattice 1/16320 "
        "(k/255 and j/64 exact), on binary64 bit patterns, or on the integer lattice for big integers",
        "8-bit unsigned scalars denote value/255 for every property (the library's convention in its binary reader)",
        "TLC evaluates PlyFormat/TracePly correctly",
    ]


def replay_family(ctx, prop, path):
    with open(path) as f:
        obj = json.load(f)
    case = obj["case"]["case"]
    vh = core.build_vh()
    if case.get("kind") == "ser":
        case["id"] = 0
        raw = execute(ctx, vh, [case], "replay")
        findings = judge_series(ctx, raw, "replay")
    else:
        findings, raw = execute_and_judge(ctx, vh, [case], name="replay")
    for f in findings:
        print("replay: %s on %s (%s) wr=%s rd=%s %s%s" % (f["pred"], f["fmt"], ",".join(f["why"]), f["wr"], f["rd"],
                                                           f["werr"], f["rerr"]))
        if f["pred"].startswith(prop + "."):
            ctx.violation(signature(f), "replayed", obj["case"])
    ctx.rule = "replay of one recorded case"
    ctx.nontrivial = 1
    ctx.sample({"replayed": path})
