"""C20: the 2D Bowyer-Watson triangulation is a consistently wound Delaunay triangulation of the input.

  design level  DelaunayBW.tla   - TLC runs an exact-integer model of bowyerWatson on EVERY general-position
                sequence of <= 4 (quick) / 5 (thorough) points of the 4x4 lattice and checks the four consequents;
                refutes realistic defects (incl. the pinned tree's fixed super-triangle margin at a small scale)
  B1            the same run prints every input sequence; each is executed on the real code as the identity
                and as scaled / offset exact copies
  B1            DelaunayGen.tla - structured sets enumerated by TLC: rings / arcs of 8..64 nearly co-circular points
                with a point inside (inserted last, first, in the middle: cavities of up to ~60 triangles), near-collinear
                hull runs of 4..24 points at 1e-2..1e-5 of the extent, jittered grids; several insertion orders;
                both entry points (BowyerWatson, ConstrainedBowyerWatson without constraints)
  B2            vh dt-random     - seeded sets (uniform, clustered, thin bands, flat arcs, diagonals) of up to
                32 (quick) / 90 (thorough) points, identity or scaled by mul*2^k (|k| <= 40, mul odd) / offset by j*2^m
  executor      vh dt-exec       - real triangulation.BowyerWatson; mesh mapped back to the lattice
  judge         TraceDelaunay.tla (Delaunay!Judge: exact integer Orient / InCircle determinants)
"""
import json
import os
import random
from concurrent.futures import ThreadPoolExecutor

from vlib import core


def bw_cfg(path, maxn, variant, invs, absmargin=0, run=True, k=4, m=8, minn=3):
    with open(path, "w") as f:
        f.write("CONSTANTS\n  K = %d\n  MinN = %d\n  MaxN = %d\n  M = %d\n  AbsMargin = %d\n  Variant = \"%s\"\n  Run = %s\n"
                "SPECIFICATION Spec\nINVARIANTS %s\nCHECK_DEADLOCK FALSE\n" %
                (k, minn, maxn, m, absmargin, variant, "TRUE" if run else "FALSE", " ".join(invs)))


def design_checks(ctx):
    """Returns the input sequences printed by the main run (B1)."""
    quick = ctx.tier == "quick"
    maxn = 4 if quick else 5
    # name, variant, invariants, AbsMargin, expected violated invariant, simulate
    runs = [
        ("code", "code", ["ChosenInv", "PostInv", "CWInv", "Emit"], 0, None, False, maxn),
        ("no-winding-fix", "noWindingFix", ["PostInv", "CWInv"], 0, None, False, 4),
        ("leak-super", "leakSuper", ["PostInv"], 0, "PostInv", quick, 4),
        ("no-hole-boundary", "noHoleBoundary", ["PostInv"], 0, "PostInv", quick, 4),
        ("keep-bad", "keepBad", ["PostInv"], 0, "PostInv", quick, 4),
        ("shared-flags-capacity", "sharedCap", ["PostInv"], 0, "PostInv", quick, 4),
        ("pinned-margin-small-scale", "code", ["PostInv"], 40, "PostInv", quick, 4),
    ]
    if quick:
        runs = [r for r in runs if r[0] != "no-winding-fix"]
    else:
        runs += [
            ("pinned-margin-lattice-scale", "code", ["PostInv", "CWInv"], 4, None, False, 4),
            ("witness-empty-result", "code", ["NeverEmpty"], 4, "NeverEmpty", False, 4),
            ("witness-big-hole", "code", ["NeverBigHole"], 0, "NeverBigHole", False, 4),
        ]

    def one(run):
        name, variant, invs, am, expect, sim, n = run
        d = ctx.scratch("bw-" + name)
        bw_cfg(os.path.join(d, "BW.cfg"), n, variant, invs, absmargin=am)
        main = name == "code"
        r = core.run_tlc(d, "DelaunayBW", "BW.cfg", files=[(os.path.join(d, "BW.cfg"), "BW.cfg")],
                         workers=max(1, core.NCPU - 2) if main else 1, timeout=3000, heap="6g" if main else "3g",
                         simulate="num=3000" if sim else None, depth=12 if sim else None, seed=ctx.seed if sim else None)
        return run, r

    with ThreadPoolExecutor(max_workers=3) as ex:
        results = list(ex.map(one, runs))
    summary = {}
    seqs = None
    for (name, variant, invs, am, expect, sim, n), r in results:
        if not sim:
            ctx.add_tlc(r)
        summary[name] = {"states": r.distinct, "violated": r.violated, "simulated": sim}
        if expect is None and r.rc != 0:
            raise core.Infra("DelaunayBW[%s] violates %s: the model of the algorithm is wrong" % (name, r.violated))
        if expect is not None and r.violated != expect:
            raise core.Infra("DelaunayBW[%s] was expected to violate %s (got %s): the model lost its teeth" %
                             (name, expect, r.violated))
        if name == "code":
            seqs = [v["pts"] for v in r.values if isinstance(v, dict) and "pts" in v]
    ctx.extra["design_model"] = summary
    if not seqs:
        raise core.Infra("DelaunayBW printed no input sequences")
    seqs = sorted({json.dumps(x) for x in seqs})
    return [json.loads(x) for x in seqs]


GEN_SHARDS = 12


def structured_sets(ctx):
    """B1, structured sets: DelaunayGen.tla (rings/arcs with an inner point, near-collinear hull runs, jittered grids;
    a size ladder; the insertion order is part of the case) enumerated by TLC, sharded over GEN_SHARDS processes."""
    def one(sh):
        d = ctx.scratch("gen-%02d" % sh)
        cfg = os.path.join(d, "Gen.cfg")
        with open(cfg, "w") as f:
            f.write("CONSTANTS\n  Seed = %d\n  Shard = %d\n  Shards = %d\n  Thorough = %s\n"
                    "SPECIFICATION Spec\nINVARIANT Emit\nCHECK_DEADLOCK FALSE\n" %
                    (ctx.seed, sh, GEN_SHARDS, "FALSE" if ctx.tier == "quick" else "TRUE"))
        return core.run_tlc(d, "DelaunayGen", "Gen.cfg", files=[(cfg, "Gen.cfg")], workers=1, timeout=1500, heap="2g")

    with ThreadPoolExecutor(max_workers=GEN_SHARDS) as ex:
        results = list(ex.map(one, range(GEN_SHARDS)))
    out = {}
    for r in results:
        if r.rc != 0:
            raise core.Infra("DelaunayGen failed: %s" % (r.violated or r.out[-500:]))
        ctx.add_tlc(r)
        for v in r.values:
            if isinstance(v, dict) and "gen" in v and len(v["pts"]) >= 3:
                out[v["gen"]] = v
    if not out:
        raise core.Infra("DelaunayGen printed no cases")
    cases = []
    for g in sorted(out):
        v = out[g]
        c = {"tag": v["tag"], "pts": v["pts"], "k": v["k"], "j": v["j"], "m": v["m"], "mul": v["mul"],
             "ax": v["ax"], "ay": v["ay"]}
        if g % 2:
            c["entry"] = "constrained"      # both entry points share the insertion code: alternate them
        cases.append(c)
    ctx.extra["structured_sets"] = {
        "cases": len(cases), "max_points": max(len(c["pts"]) for c in cases),
        "by_shape": {k: sum(1 for c in cases if c["tag"].startswith("gen-" + k)) for k in ("ring", "arc", "run", "grid")},
        "inner_point_last": sum(1 for c in cases if c["tag"].endswith("last") and c["tag"][4:7] in ("rin", "arc")),
    }
    return cases


# Exact copies used for the enumerated sequences: (name, k, j, m, mul) means x = (lat + j*2^m) * mul * 2^k.
# Scales mul*2^k sweep 2^-13 .. 2^5 with about 1/16 relative spacing (constructions with an absolute constant
# change behaviour in a narrow window of scales: the pinned tree's super-triangle failed for sets between 0.100
# and 0.108 high), a few extreme scales, and offsets by large multiples of the spacing.
def _transforms():
    out = [("identity", 0, [0, 0], 0, 1, 0, 0)]
    for k in range(-13, 5):
        for mul in (1, 9, 5, 11, 3, 13, 7, 15, 17, 19, 21, 23, 25, 27, 29, 31):
            if not (k == 0 and mul == 1):
                out.append(("scaled", k - (mul.bit_length() - 1), [0, 0], 0, mul, 0, 0))
    for k in (-40, -30, -20, 12, 20, 30, 40):
        out.append(("scaled", k, [0, 0], 0, 1, 0, 0))
    for j, m in (([977, -431], 30), ([-138, 897], 24), ([613, 22], 12), ([-1000, 1000], 40), ([3, -5], 0)):
        out.append(("offset", 0, j, m, 1, 0, 0))
        out.append(("scaled-offset", -5, j, m, 3, 0, 0))
        out.append(("scaled-offset", 7, j, min(m, 36), 5, 0, 0))
    # anisotropic copies: one axis stretched by 2^a (the judge works in that metric): aspect ratios 2:1 .. 1024:1
    for a in range(1, 11):
        for rep in range(4):
            out.append(("stretched", -a // 2, [0, 0], 0, 1, a, 0))
            out.append(("stretched", -a // 2, [0, 0], 0, 1, 0, a))
    return out


TRANSFORMS = _transforms()


def transform_of(c):
    t = _transform_of(c)
    tag = c.get("tag") or ""
    # structured sets (DelaunayGen): the shape is part of the discriminator
    return t + "-" + tag.split("-")[1] if tag.startswith("gen-") else t


def _transform_of(c):
    if c.get("ax", 0) or c.get("ay", 0):
        return "stretched"
    if c["k"] == 0 and c["j"] == [0, 0] and c.get("mul", 1) == 1:
        return "identity"
    if c["j"] == [0, 0]:
        return "scaled"
    return "offset" if c["k"] == 0 else "scaled-offset"


def entry_of(c):
    return "ConstrainedBowyerWatson" if c.get("entry") == "constrained" else "BowyerWatson"


def execute(ctx, vh, cases, name, par=1):
    d = ctx.scratch(name + "-exec")
    cp = os.path.join(d, "cases.ndjson")
    core.write_ndjson(cp, cases)
    tp = os.path.join(d, "trace.ndjson")
    core.run_vh(vh, ["dt-exec", "-in", cp, "-out", tp, "-par", str(par)], timeout=1800)
    with open(tp) as f:
        return f.readlines()


def judge(ctx, raw, name):
    findings, notes = [], {"notGP": 0, "empty": 0, "stars": []}
    res = core.validate_sharded(ctx, name, "TraceDelaunay", "TraceDelaunay.cfg", raw, is_boundary=lambda ln: True,
                                timeout=3000, heap="3g")
    for sh, r in res:
        for v in r.values:
            if not isinstance(v, dict) or "l" not in v:
                continue
            ln = json.loads(sh[v["l"] - 1])
            if "star" in v:
                notes["stars"].append(v["star"])
            elif "note" in v:
                notes[v["note"]] += 1
            elif "bad" in v:
                for pred in v["bad"]:
                    findings.append({"pred": pred, "case": ln["case"], "n": ln["n"], "tris": len(ln["tris"])})
    return findings, notes


def report(ctx, vh, cases, findings, confirm=True):
    """At most 3 cases per signature; each is executed once more and re-judged before it is reported."""
    by_id = {c["id"]: c for c in cases}
    picked, per_sig = [], {}
    for f in findings:
        c = by_id[f["case"]]
        sig = "%s/%s/%s" % (f["pred"], entry_of(c), transform_of(c))
        if per_sig.get(sig, 0) >= 3:
            continue
        per_sig[sig] = per_sig.get(sig, 0) + 1
        picked.append((sig, f, c))
    if not picked:
        return
    unreproduced = []
    if confirm:
        # The algorithm iterates over Go maps: the OUTPUT for one input may differ between executions (measured on a
        # seeded change: two different meshes for the same input, about 50:50), and then which consequent is
        # rejected differs too. A finding is confirmed when a re-execution of its case is rejected again: with the
        # same predicate, or else with another one (it is then reported under the predicate that was seen again).
        # 12 re-executions first, 60 more for the cases not yet rejected again. A finding that never shows again
        # is not a verdict: it is listed in the evidence and ends the run as an infrastructure failure AFTER the
        # confirmed findings were reported (a confirmed verdict is not masked by an unconfirmed one).
        pending = list(range(len(picked)))
        seen_again = {n: set() for n in pending}
        for stage, reps in enumerate((12, 60)):
            if not pending:
                break
            again = []
            for n in pending:
                for rep in range(reps):
                    again.append(dict(picked[n][2], id=n))
            raw = execute(ctx, vh, again, "confirm%d" % stage)
            for g in judge(ctx, raw, "confirm%d" % stage)[0]:
                seen_again[g["case"]].add(g["pred"])
            pending = [n for n in pending if not seen_again[n]]
        confirmed = []
        for n, (sig, f, c) in enumerate(picked):
            if f["pred"] in seen_again[n]:
                confirmed.append((sig, f, c))
            elif seen_again[n]:
                pred = sorted(seen_again[n])[0]
                confirmed.append(("%s/%s/%s" % (pred, entry_of(c), transform_of(c)), dict(f, pred=pred), c))
            else:
                unreproduced.append("%s of case %d" % (sig, f["case"]))
        picked = confirmed
    for sig, f, c in picked:
        what = "%s rejected the triangulation of %d points (%s: scale %d*2^%d, offset %s*2^%d, stretch 2^%d:2^%d, tag %s): %d triangles returned" % (
            f["pred"], f["n"], transform_of(c), c.get("mul", 1), c["k"], c["j"], c["m"], c.get("ax", 0), c.get("ay", 0),
            c.get("tag"), f["tris"])
        ctx.violation(sig, what, {"family": "delaunay", "pred": f["pred"], "case": c})
    if unreproduced:
        ctx.extra["unreproduced_rejections"] = unreproduced
        raise core.Infra("rejection %s does not reproduce in 72 re-executions" % "; ".join(unreproduced))


PAR = 8


def concurrent_pass(ctx, vh, cases, failed_alone):
    """B3: the same calls made from PAR goroutines at the same time, each on its private input. A triangulation is a
    function of its input; a case that is accepted when executed alone and rejected here was disturbed by another
    call in flight. Reported with the transform 'concurrent'; confirmed by running the batch again."""
    quick = ctx.tier == "quick"
    pool = [c for c in cases if c["id"] not in failed_alone and len(c["pts"]) >= 4]
    random.Random(ctx.seed + 7).shuffle(pool)
    pool = pool[:3000 if quick else 20000]
    batch = []
    for c in pool:
        cc = dict(c)
        cc["orig"] = c["id"]
        cc["id"] = len(batch)
        batch.append(cc)
    rounds = 2 if quick else 4
    rejected = []
    for rnd in range(rounds):
        raw = execute(ctx, vh, batch, "par%d" % rnd, par=PAR)
        findings, _ = judge(ctx, raw, "par%d" % rnd)
        ctx.traces += len(raw)
        ctx.evaluations += len(raw)
        rejected.append(findings)
    ctx.extra["b3_concurrent"] = {"goroutines": PAR, "cases": len(batch), "rounds": rounds,
                                  "rejected_per_round": [len(x) for x in rejected]}
    if not any(rejected):
        return
    if sum(1 for x in rejected if x) < 2:
        # one more round decides whether it can be shown again
        raw = execute(ctx, vh, batch, "parx", par=PAR)
        again, _ = judge(ctx, raw, "parx")
        if not again:
            raise core.Infra("a rejection under concurrent execution was seen once in %d rounds and not again" % (rounds + 1))
        rejected.append(again)
    # alone, the rejected cases are accepted (else the sequential pass would have reported them)
    seen = {}
    for fs in rejected:
        for f in fs:
            seen.setdefault(f["pred"], f)
    for pred, f in sorted(seen.items()):
        c = batch[f["case"]]
        # 12 executions alone: an output that differs between executions (map iteration order) is not a concurrency matter
        alone = execute(ctx, vh, [dict(c, id=0)] * 12, "paralone")
        af, _ = judge(ctx, alone, "paralone")
        if af:
            continue        # fails alone as well (map-order dependent): the sequential pass is the place for it
        what = ("%s rejected the triangulation of %d points when %d goroutines triangulated private inputs at the same "
                "time (rejected in %d of %d rounds; the same case executed alone is accepted)" %
                (pred, f["n"], PAR, sum(1 for x in rejected if x), len(rejected)))
        ctx.violation("%s/BowyerWatson/concurrent" % pred, what,
                      {"family": "delaunay", "pred": pred, "concurrent": True, "case": {k: v for k, v in c.items() if k != "orig"}})


def selftest(ctx, raw):
    """Corrupt one logged field of accepted lines; TLC must reject exactly those lines."""
    out, expect = [], {}
    done = set()
    for ln in raw:
        t = json.loads(ln)
        if t["st"] != "OK" or len(t["tris"]) < 2:
            continue
        tris = t["tris"]
        if "winding" not in done:
            t["tris"] = [[tris[0][1], tris[0][0], tris[0][2]]] + tris[1:]
            kind, want = "winding", {"C20.Winding"}
        elif "duplicate" not in done:
            t["tris"] = tris + [[tris[0][1], tris[0][2], tris[0][0]]]
            kind, want = "duplicate", {"C20.NoOverlap"}
        elif "position" not in done:
            t["pos"] = [[t["pos"][0][0] + 1, t["pos"][0][1]]] + t["pos"][1:]
            kind, want = "position", {"C20.UsesInput"}
        elif "index" not in done:
            t["tris"] = [[tris[0][0], tris[0][1], t["n"] + 1]] + tris[1:]
            kind, want = "index", {"C20.UsesInput"}
        elif "flip" not in done:
            # flip the diagonal of two triangles that share an edge: not Delaunay any more (or overlapping)
            pair = None
            for a in range(len(tris)):
                for b in range(a + 1, len(tris)):
                    sh = set(tris[a]) & set(tris[b])
                    if len(sh) == 2:
                        pair = (a, b, sorted(sh))
                        break
                if pair:
                    break
            if not pair:
                continue
            a, b, sh = pair
            pa = [x for x in tris[a] if x not in sh][0]
            pb = [x for x in tris[b] if x not in sh][0]
            rest = [x for i, x in enumerate(tris) if i not in (a, b)]
            t["tris"] = rest + [[pa, pb, sh[0]], [pb, pa, sh[1]]]
            kind, want = "flip", {"C20.EmptyCircle", "C20.NoOverlap", "C20.Winding"}
        else:
            break
        done.add(kind)
        out.append(t)
        expect[len(out)] = want
    if len(done) < 5:
        raise core.Infra("self-test could not build its corruptions (%s)" % sorted(done))
    d = ctx.scratch("selftest")
    with open(os.path.join(d, "trace.ndjson"), "w") as f:
        for x in out:
            f.write(json.dumps(x, separators=(",", ":")) + "\n")
    r = core.run_tlc(d, "TraceDelaunay", "TraceDelaunay.cfg", workers=1, timeout=600)
    got = {v["l"]: set(v["bad"]) for v in r.values if isinstance(v, dict) and "bad" in v}
    if r.distinct != len(out) + 1:
        raise core.Infra("self-test trace not consumed")
    if set(got) != set(expect) or any(not (got[l] & expect[l]) for l in expect):
        raise core.Infra("binding self-test failed: corrupted %s, TLC rejected %s" % (expect, got))
    ctx.extra["selftest_corruptions_rejected"] = len(expect)


def run(ctx):
    quick = ctx.tier == "quick"
    vh = core.build_vh()
    seqs = design_checks(ctx)
    ctx.extra["b1_sequences"] = len(seqs)
    cases = []
    rng = random.Random(1000 + ctx.seed)   # which copy a sequence gets (an index formula aliases with the sampling)
    for n, pts in enumerate(seqs):
        # quick: every 3-point sequence and a third of the longer ones (which third depends on the seed, so seeds
        # 1..3 cover them all); thorough: everything. Each as the identity, every second one also as an exact
        # scaled / offset copy (the four transforms in turn).
        if quick and len(pts) > 3 and n % 3 != ctx.seed % 3:
            continue
        trs = [TRANSFORMS[0]] + ([TRANSFORMS[rng.randrange(1, len(TRANSFORMS))]] if n % 2 == 0 or not quick else [])
        for name, k, j, m, mul, ax, ay in trs:
            cases.append({"tag": "bfs-" + name, "pts": pts, "k": k, "j": j, "m": m, "mul": mul, "ax": ax, "ay": ay})
    nb1 = len(cases)
    d = ctx.scratch("rnd")
    plans = [(900, 32, ctx.seed)] if quick else [(6000, 40, ctx.seed * 100), (600, 90, ctx.seed * 100 + 1)]
    for n, maxn, seed in plans:
        p = os.path.join(d, "cases-%d.ndjson" % seed)
        core.run_vh(vh, ["dt-random", "-out", p, "-seed", str(seed), "-n", str(n), "-maxn", str(maxn)])
        cases += core.read_ndjson(p)
    # aspect-ratio ladder 1.5:1 .. 1000:1, wide and tall (stretched copies; the judge works in the stretched metric)
    p = os.path.join(d, "aspect.ndjson")
    core.run_vh(vh, ["dt-aspect", "-out", p, "-seed", str(ctx.seed), "-per", "2" if quick else "12", "-max", "1000"])
    ladder = core.read_ndjson(p)
    ctx.extra["aspect_ladder_cases"] = len(ladder)
    cases += ladder
    cases += structured_sets(ctx)
    # spread the large seeded sets over the shards
    b1, b2 = cases[:nb1], cases[nb1:]
    random.Random(ctx.seed).shuffle(b2)
    cases = []
    step = max(1, len(b1) // max(1, len(b2)))
    while b1 or b2:
        cases += b1[:step]
        b1 = b1[step:]
        if b2:
            cases.append(b2.pop())
    for i, c in enumerate(cases):
        c["id"] = i
    raw = execute(ctx, vh, cases, "main")
    findings, notes = judge(ctx, raw, "main")
    report(ctx, vh, cases, findings)
    concurrent_pass(ctx, vh, cases, {f["case"] for f in findings})
    total = len(raw)
    gp = total - notes["notGP"]
    bad_cases = len({f["case"] for f in findings})
    nonempty = gp - notes["empty"] - bad_cases
    ntri = 0
    big = 0
    for ln in raw:
        t = json.loads(ln)
        ntri += len(t["tris"])
        if len(t["tris"]) >= 2:
            big += 1
    ctx.extra.update(b1_cases=nb1, b2_cases=total - nb1, cases_in_general_position=gp, not_general_position=notes["notGP"],
                     empty_results=notes["empty"], nonempty_accepted=nonempty, triangles_judged=ntri,
                     max_points=max(len(c["pts"]) for c in cases),
                     by_transform={k: sum(1 for c in cases if _transform_of(c) == k)
                                   for k in ("identity", "scaled", "offset", "scaled-offset", "stretched")})
    stars = sorted(notes["stars"])
    # fan of d accepted triangles at the point inserted last = a cavity of d - 2 invalidated triangles (interior point)
    ctx.extra["largest_fan_at_last_point"] = stars[-1] if stars else 0
    ctx.extra["largest_cavity_reached"] = max(0, (stars[-1] if stars else 0) - 2)
    ctx.extra["cases_with_cavity_over_21"] = sum(1 for d in stars if d - 2 > 21)
    if gp == 0 or nonempty + bad_cases < gp // 2:
        raise core.Infra("vacuous run: %d of %d general-position inputs gave an empty triangulation; the four consequents "
                         "are only exercised by non-empty results" % (notes["empty"], gp))
    if notes["notGP"] == 0:
        raise core.Infra("vacuous antecedent test: no input outside general position was seen")
    if not findings and ctx.extra["cases_with_cavity_over_21"] == 0:
        raise core.Infra("no accepted case reached a cavity of more than 21 triangles: the structured sets lost their reach")
    if not quick and not findings:
        selftest(ctx, raw)
    ctx.traces += total
    ctx.evaluations += total
    ctx.nontrivial = big
    ctx.rule = ("cases = every general-position sequence of 3..%d points of the 4x4 lattice (TLC-enumerated, insertion order "
                "matters) as identity and scaled/offset copies + seeded sets of 3..%d points; distinct by (points, "
                "transform); non-trivial if the result has >= 2 triangles; empty results are inside the statement and "
                "only counted" % (4 if quick else 5, 32 if quick else 90))
    ctx.sample(cases[0])
    ctx.sample({"tag": cases[-1].get("tag"), "n": len(cases[-1]["pts"]), "k": cases[-1]["k"], "mul": cases[-1].get("mul", 1),
                "j": cases[-1]["j"], "m": cases[-1]["m"]})
    ctx.extra["transforms_swept"] = len(TRANSFORMS)
    ctx.assumptions += [
        "inputs are exact affine images (x = (lat + j*2^m) * mul * 2^k, mul odd <= 63) of lattice points 0..100; the harness verifies that every "
        "coordinate is exactly representable and maps results back exactly, so TLC judges the true input on integers",
        "hull coverage is not part of the statement: empty or partial triangulations are accepted and counted",
        "no verdict outside general position (evaluated by TLC: distinct, no three collinear, no four cocircular)",
    ]


def replay(ctx, path):
    obj = json.load(open(path))["case"]
    vh = core.build_vh()
    case = dict(obj["case"])
    case["id"] = 0
    if obj.get("concurrent"):
        # the recorded case among rotated / truncated variants of itself, PAR goroutines, several rounds
        pts = case["pts"]
        batch = []
        for i in range(3000):
            r = i % len(pts)
            v = (pts[r:] + pts[:r])[:max(3, len(pts) - i % 3)]
            batch.append(dict(case, id=i, pts=v if i % 2 else pts))
        findings = []
        for rnd in range(4):
            raw = execute(ctx, vh, batch, "replay%d" % rnd, par=PAR)
            findings, notes = judge(ctx, raw, "replay%d" % rnd)
            if findings:
                break
        for f in findings[:3]:
            print("replay (concurrent): %s (%d points, %d triangles)" % (f["pred"], f["n"], f["tris"]))
            ctx.violation("%s/BowyerWatson/concurrent" % f["pred"], "replayed under %d goroutines" % PAR, obj)
        ctx.traces = ctx.evaluations = len(batch)
        ctx.nontrivial = len(batch)
        ctx.rule = "replay of one recorded case under concurrent execution"
        ctx.sample({"replayed": path})
        return
    raw = execute(ctx, vh, [case], "replay")
    findings, notes = judge(ctx, raw, "replay")
    for f in findings:
        print("replay: %s (%d points, %d triangles)" % (f["pred"], f["n"], f["tris"]))
    report(ctx, vh, [case], findings, confirm=False)
    ctx.traces = 1
    ctx.evaluations = 1
    ctx.nontrivial = 1
    ctx.rule = "replay of one recorded case"
    ctx.sample({"replayed": path})
