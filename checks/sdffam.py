"""Signed-distance family (C19): generator (TLC) -> executor (real closures) -> judge (TLC).

specs/SdfGen.tla enumerates shape parameter tuples (and checks the interior predicates of
specs/Sdf.tla against each other); `vh sdf-random` adds seeded shapes with larger
parameters and nesting; `vh sdf-exec` samples the real math/sdf closures on the 7x7x7
lattice of every case (27 overlapping 3x3x3 blocks + seeded far points);
specs/TraceSdf.tla judges every recorded line.
"""
import json
import os

from vlib import core

TYPES = ["sphere", "box", "rbox", "line", "rcone", "rcyl", "plane", "tr", "union", "inter", "sub"]
REQUIRED = TYPES + ["in", "out", "surf", "euclid", "pairs", "setops", "mixed", "translate", "scaled", "tiny", "huge"]
GEN_INVARIANTS = ["Adm", "Convex", "RefAgrees", "ConeLaws", "BoxLaws", "CylLaws", "TranslateLaw", "SetLaws", "Emit"]

PARAMS = {
    "quick": dict(level=1, random_n=60, far=24, nexp=1, fine=3),
    "thorough": dict(level=2, random_n=6000, far=32, nexp=2, fine=5),
}


def collect_cases(ctx, vh):
    P = PARAMS[ctx.tier]
    notes = {}
    d = ctx.scratch("gen")
    cfg = os.path.join(ctx.scratch("gen-cfg"), "gen.cfg")
    with open(cfg, "w") as f:
        f.write("CONSTANTS\n  Level = %d\n  Seed = %d\n  NExp = %d\n  Fine = %d\nSPECIFICATION Spec\nINVARIANTS %s\n"
                "CHECK_DEADLOCK FALSE\n" % (P["level"], ctx.seed, P["nexp"], P["fine"], " ".join(GEN_INVARIANTS)))
    r = core.run_tlc(d, "SdfGen", "gen.cfg", files=[(cfg, "gen.cfg")], workers=min(core.NCPU, 6),
                     timeout=3000, heap="4g")
    if r.rc != 0:
        raise core.Infra("Sdf.tla violates its own law %s (specification bug)" % r.violated)
    ctx.add_tlc(r)
    gen = [v for v in r.values if isinstance(v, dict) and v.get("k") == "sdf"]
    gen.sort(key=lambda c: json.dumps(c, sort_keys=True))
    if len(gen) != r.distinct:
        raise core.Infra("generator printed %d cases for %d states" % (len(gen), r.distinct))
    for c in gen:
        c["tag"] = "enum"
    notes["enumerated_cases"] = len(gen)
    by_e2, types_at = {}, {}
    for c in gen:
        by_e2[c["e2"]] = by_e2.get(c["e2"], 0) + 1
        types_at.setdefault(c["e2"], set()).add(c["shape"]["t"])
    notes["enumerated_cases_by_binary_exponent"] = {str(k): by_e2[k] for k in sorted(by_e2)}
    if len(by_e2) < 10 or set(TYPES) - types_at.get(-40, set()) or set(TYPES) - types_at.get(40, set()):
        raise core.Infra("vacuous: binary magnitudes %s; every shape type must occur at 2^-40 and 2^40" % sorted(by_e2))
    notes["generator_level"] = P["level"]
    rp = os.path.join(ctx.scratch("rnd"), "cases.ndjson")
    core.run_vh(vh, ["sdf-random", "-out", rp, "-seed", str(ctx.seed), "-n", str(P["random_n"])])
    rnd = core.read_ndjson(rp)
    for c in rnd:
        c["tag"] = "random"
    notes["random_cases"] = len(rnd)
    return gen + rnd, notes


def execute_and_judge(ctx, vh, cases, name="main", nshards=None, far=24, idbase=0, par=1):
    d = ctx.scratch(name + "-exec")
    cp = os.path.join(d, "cases.ndjson")
    core.write_ndjson(cp, cases)
    tp = os.path.join(d, "trace.ndjson")
    core.run_vh(vh, ["sdf-exec", "-in", cp, "-out", tp, "-seed", str(ctx.seed), "-far", str(far),
                     "-idbase", str(idbase), "-par", str(par)], timeout=1800)
    with open(tp) as f:
        raw = f.readlines()
    findings, stats = [], {}
    results = core.validate_sharded(ctx, name, "TraceSdf", "TraceSdf.cfg", raw, timeout=3000,
                                    nshards=nshards or min(core.NCPU, 8), is_boundary=lambda ln: True)
    for sh, r in results:
        got = False
        for v in r.values:
            if isinstance(v, dict) and "stats" in v:
                got = True
                for k, n in v["stats"].items():
                    stats[k] = stats.get(k, 0) + n
            elif isinstance(v, dict) and "bad" in v:
                ln = json.loads(sh[v["l"] - 1])
                for pred in v["bad"]:
                    findings.append({"pred": pred, "id": ln["id"], "blk": ln["blk"], "q": ln["q"]})
        if not got:
            raise core.Infra("trace shard of %s printed no statistics" % name)
    ctx.traces += len(cases)
    ctx.evaluations += len(raw)
    return findings, stats, raw


def discriminator(shape):
    """Names the parameter region of a shape (signature only; no verdict depends on it)."""
    t = shape["t"]
    if t in ("line", "rcone"):
        l2 = sum((x - y) ** 2 for x, y in zip(shape["a"], shape["b"]))
        if l2 == 0:
            return t + "/degenerate"
        if t == "rcone":
            rr = shape["r1"] - shape["r2"]
            return t + ("/contained" if rr * rr >= l2 else "/proper")
        return t
    if t in ("tr", "union", "inter", "sub"):
        return t + "(" + ",".join(sorted({discriminator(s) for s in shape["ss"]})) + ")"
    return t


def self_test(ctx, raw):
    """Corrupt one logged field in copies of accepted lines; TLC must reject exactly those."""
    pick = {}
    for ln in raw:
        o = json.loads(ln)
        t = o["shape"]["t"]
        if t in ("sphere", "plane", "rcyl", "union", "tr") and t not in pick and o["nan"] == 0:
            if t in ("sphere", "rcyl") and not any(p[4] < 0 for p in o["pts"]):
                continue
            pick[t] = o
    if len(pick) < 5:
        raise core.Infra("self-test: trace lacks lines to corrupt (%s)" % sorted(pick))
    good = [json.loads(json.dumps(o)) for o in pick.values()]
    bad = []
    o = json.loads(json.dumps(pick["sphere"]))          # value off by 3 units of 1/q at one point: Euclid
    o["pts"][5][3] += 3
    bad.append(o)
    o = json.loads(json.dumps(pick["rcyl"]))            # sign flipped at an inside point: Sign
    i = next(i for i, p in enumerate(o["pts"]) if p[4] < 0)
    o["pts"][i][4] = 1
    bad.append(o)
    o = json.loads(json.dumps(pick["plane"]))           # a jump between neighbours: Lipschitz (and Euclid)
    o["pts"][0][3] += 40 * o["q"]
    bad.append(o)
    o = json.loads(json.dumps(pick["union"]))           # operand sign contradicts the result: SetOps
    for row in o["ops"]:
        for k in range(1, len(row), 2):
            row[k] = -row[k]
    bad.append(o)
    o = json.loads(json.dumps(pick["tr"]))              # translated value differs from the inner closure: Translate
    o["pts"][3][3] += 5
    bad.append(o)
    lines = good + bad
    d = ctx.scratch("selftest")
    core.write_ndjson(os.path.join(d, "trace.ndjson"), lines)
    r = core.run_tlc(d, "TraceSdf", "TraceSdf.cfg", timeout=600, workers=1)
    if r.postcondition_failed or r.distinct != len(lines) + 1:
        raise core.Infra("self-test trace not fully consumed")
    rej = {v["l"]: set(v["bad"]) for v in r.values if isinstance(v, dict) and "bad" in v}
    want = {len(good) + 1: "C19.Euclid", len(good) + 2: "C19.Sign", len(good) + 3: "C19.Lipschitz",
            len(good) + 4: "C19.SetOps", len(good) + 5: "C19.Translate"}
    if set(rej) != set(want) or any(want[l] not in rej[l] for l in want):
        raise core.Infra("self-test: TLC rejected %s, expected %s" % (
            {k: sorted(v) for k, v in rej.items()}, want))
    ctx.extra["selftest_corrupted_lines_rejected"] = len(want)
    ctx.extra["selftest_clean_lines_accepted"] = len(good)


SKEL_REQUIRED = TYPES + ["skel", "sksamples", "skon", "sksurf", "skeuclid", "skinexact", "sklerp", "scaled"]
SKEL_INVARIANTS = ["SkAdm", "SkRefAgrees", "SkCoreInside", "Emit"]


def skel_cases(ctx):
    """SdfSkel.tla: the model derives the skeleton parts of every shape and the sample descriptors on them."""
    level = PARAMS[ctx.tier]["level"]
    d = ctx.scratch("skelgen")
    cfg = os.path.join(ctx.scratch("skelgen-cfg"), "skel.cfg")
    with open(cfg, "w") as f:
        f.write("CONSTANTS\n  Level = %d\n  Seed = %d\nSPECIFICATION Spec\nINVARIANTS %s\nCHECK_DEADLOCK FALSE\n"
                % (level, ctx.seed, " ".join(SKEL_INVARIANTS)))
    r = core.run_tlc(d, "SdfSkel", "skel.cfg", files=[(cfg, "skel.cfg")], workers=min(core.NCPU, 4), timeout=1200, heap="2g")
    if r.rc != 0:
        raise core.Infra("SdfSkel.tla violates its own law %s (specification bug)" % r.violated)
    ctx.add_tlc(r)
    gen = [v for v in r.values if isinstance(v, dict) and v.get("k") == "skel"]
    gen.sort(key=lambda c: json.dumps(c, sort_keys=True))
    if len(gen) != r.distinct or not gen:
        raise core.Infra("skeleton generator printed %d cases for %d states" % (len(gen), r.distinct))
    return gen


def skel_judge(ctx, vh, cases, name="skel", nshards=None):
    d = ctx.scratch(name + "-exec")
    cp = os.path.join(d, "cases.ndjson")
    core.write_ndjson(cp, cases)
    tp = os.path.join(d, "trace.ndjson")
    core.run_vh(vh, ["sdf-skel", "-in", cp, "-out", tp], timeout=1800)
    with open(tp) as f:
        raw = f.readlines()
    if len(raw) != len(cases):
        raise core.Infra("sdf-skel wrote %d lines for %d cases" % (len(raw), len(cases)))
    findings, stats = [], {}
    results = core.validate_sharded(ctx, name, "TraceSdf", "TraceSdf.cfg", raw, timeout=3000,
                                    nshards=nshards or min(core.NCPU, 8), is_boundary=lambda ln: True)
    for sh, r in results:
        got = False
        for v in r.values:
            if isinstance(v, dict) and "stats" in v:
                got = True
                for k, n in v["stats"].items():
                    stats[k] = stats.get(k, 0) + n
            elif isinstance(v, dict) and "bad" in v:
                ln = json.loads(sh[v["l"] - 1])
                for pred in v["bad"]:
                    findings.append({"pred": pred, "id": ln["id"]})
        if not got:
            raise core.Infra("trace shard of %s printed no statistics" % name)
    ctx.traces += len(cases)
    ctx.evaluations += sum(len(c["smp"]) for c in cases)
    return findings, stats


def skel_signature(pred, case):
    """<Pred>/<shape>/<skeleton part>[/scaled]: pred arrives from the judge as 'C19.Finite/core'."""
    name, _, part = pred.partition("/")
    return "%s/%s/%s%s" % (name, discriminator(case["shape"]), part or "skeleton", "/scaled" if case.get("e2", 0) else "")


def skeleton_pass(ctx, vh, prefix):
    cases = skel_cases(ctx)
    findings, stats = skel_judge(ctx, vh, cases)
    ctx.extra["skeleton_cases"] = len(cases)
    ctx.extra["skeleton_exercised"] = {k: v for k, v in stats.items() if v}
    missing = [k for k in SKEL_REQUIRED if stats.get(k, 0) == 0]
    if missing:
        raise core.Infra("vacuous (skeleton samples): never exercised: %s" % missing)
    per_sig = {}
    for f in findings:
        if f["pred"].startswith("Harness."):
            raise core.Infra("harness inconsistency %s at skeleton case %d" % (f["pred"], f["id"]))
        if not f["pred"].startswith(prefix + "."):
            continue
        case = cases[f["id"]]
        sig = skel_signature(f["pred"], case)
        per_sig[sig] = per_sig.get(sig, 0) + 1
        if per_sig[sig] > 1:
            continue
        what = "%s rejected skeleton samples (td=%d, via=%s) of den=%d e2=%d shape %s" % (
            f["pred"], case["td"], case["via"], case["den"], case["e2"], json.dumps(case["shape"])[:300])
        ctx.violation(sig, what, {"family": "sdf", "skel": True, "case": case, "seed": ctx.seed})
    ctx.extra["skeleton_rejections_by_signature"] = per_sig
    ctx.assumptions += [
        "skeleton samples: the rational point a + (tn/td)(b-a) + o is judged exactly (shape scaled by td); the float point "
        "the harness constructs differs from it by rounding (~1e-16 relative), far below the precision 1/64 of a lattice unit",
    ]


def run_family(ctx, prefix="C19"):
    vh = core.build_vh()
    skeleton_pass(ctx, vh, prefix)
    cases, notes = collect_cases(ctx, vh)
    findings, stats, raw = execute_and_judge(ctx, vh, cases, far=PARAMS[ctx.tier]["far"])
    ctx.extra.update(notes)
    ctx.extra["exercised"] = stats
    missing = [k for k in REQUIRED if stats.get(k, 0) == 0]
    if missing:
        raise core.Infra("vacuous: never exercised: %s" % missing)
    qs = {}
    for ln in raw[::37]:
        q = json.loads(ln)["q"]
        qs[q] = qs.get(q, 0) + 1
    ctx.extra["scale_q_histogram_sampled"] = qs
    ctx.rule = ("cases: every shape parameter tuple enumerated by TLC from SdfGen (level %d) x denominators, plus "
                "seeded random shapes (nested translations/combinators); each sampled on its 7x7x7 lattice in 27 "
                "overlapping 3x3x3 blocks + seeded far points; every enumerated shape with den = 1 again at the binary "
                "magnitudes 2^-40 and 2^40 and at rotated magnitudes in between (5x5x5 / 3x3x3 lattices + far points), "
                "every other random shape at a binary magnitude; a case is distinct by (shape, den, e2), non-trivial if its "
                "samples include inside and outside points; plus skeleton cases of SdfSkel.tla: per shape and part of its "
                "skeleton (core, axis, centre, diameter, box axis/diagonal/edge/face, cylinder radius, in-plane, normal) "
                "the points a + (tn/td)(b-a) + o for every tn in 0..td, td from the ladder 8,3,7,10,5,12, o = 0 and "
                "model-chosen perpendicular offsets, constructed as a+(b-a)t and as lerp" % notes["generator_level"])
    ctx.nontrivial = len({json.dumps([c["shape"], c["den"], c.get("e2", 0)], sort_keys=True) for c in cases})
    for c in cases[:1] + cases[-1:]:
        ctx.sample({"den": c["den"], "e2": c.get("e2", 0), "shape": c["shape"], "tag": c.get("tag")})
    if ctx.tier == "thorough":
        self_test(ctx, raw)
    concurrent_pass(ctx, vh, cases, findings, prefix)
    per_sig = {}
    for f in findings:
        if f["pred"].startswith("Harness."):
            raise core.Infra("harness inconsistency %s at case %d block %d" % (f["pred"], f["id"], f["blk"]))
        if not f["pred"].startswith(prefix + "."):
            continue
        case = cases[f["id"]]
        sig = "%s/%s%s" % (f["pred"], discriminator(case["shape"]), "/scaled" if case.get("e2", 0) else "")
        per_sig[sig] = per_sig.get(sig, 0) + 1
        if per_sig[sig] > 2:
            continue
        what = "%s rejected block %d (q=%d) of den=%d e2=%d shape %s" % (
            f["pred"], f["blk"], f["q"], case["den"], case.get("e2", 0), json.dumps(case["shape"])[:300])
        ctx.violation(sig, what, {"family": "sdf", "case": {k: case.get(k, 0) for k in ("k", "den", "e2", "shape", "lat")},
                                  "seed": ctx.seed, "far": PARAMS[ctx.tier]["far"], "id": f["id"]})
    ctx.extra["rejections_by_signature"] = per_sig
    ctx.assumptions += [
        "values are judged at precision 1/q of a lattice unit (q <= 512, chosen per line for the int32 budget); one "
        "lattice unit is 2^e2 / den (e2 in -40..40), the judgement is made on the integers and is the same at every e2",
        "shape semantics: rounded box = box grown by the roundness; rounded cylinder as Quilez defines it (radius "
        "2*ra, rounding rb, half height h + rb); plane normals are unit vectors n/|n| with integer |n|",
        "subtraction is judged as the open set A minus closure(B) (on the cutter's surface the result is not negative)",
        "TLC evaluates Sdf.tla correctly; the harness projection (harness/sdffam) is faithful",
    ]


PAR = 8


def concurrent_pass(ctx, vh, cases, alone, prefix):
    """The closures of a case constructed ONCE and evaluated by PAR goroutines at the same time, lines of different
    cases interleaved (what the marching canvas does with a field). Judged line by line like the sequential pass; a
    line rejected only here was disturbed by another evaluation in flight. Confirmed by running the batch again."""
    quick = ctx.tier == "quick"
    failed = {f["id"] for f in alone}
    ids = [i for i in range(len(cases)) if i not in failed and (not quick or i % 3 == ctx.seed % 3)]
    batch = [cases[i] for i in ids]
    rounds = []
    for rnd in range(2):
        fs, _, _ = execute_and_judge(ctx, vh, batch, name="par%d" % rnd, far=PARAMS[ctx.tier]["far"], par=PAR)
        fs = [f for f in fs if f["pred"].startswith(prefix + ".")]
        rounds.append(fs)
        if not fs and rnd == 0:
            break
    ctx.extra["concurrent_pass"] = {"goroutines": PAR, "cases": len(batch), "rejected_lines_per_round": [len(x) for x in rounds]}
    if not rounds[0]:
        return
    if not rounds[1]:
        fs, _, _ = execute_and_judge(ctx, vh, batch, name="par2", far=PARAMS[ctx.tier]["far"], par=PAR)
        fs = [f for f in fs if f["pred"].startswith(prefix + ".")]
        if not fs:
            raise core.Infra("a rejection under concurrent evaluation was seen once in 3 rounds and not again")
        rounds.append(fs)
    seen = {}
    for fs in rounds:
        for f in fs:
            case = batch[f["id"]]
            seen.setdefault("%s/%s/concurrent" % (f["pred"], discriminator(case["shape"])), (f, case))
    for sig, (f, case) in sorted(seen.items())[:4]:
        what = ("%s rejected block %d of den=%d e2=%d shape %s when %d goroutines evaluated shared closures at the same time "
                "(rejected in %d of %d rounds; evaluated alone the case is accepted)" %
                (f["pred"], f["blk"], case["den"], case.get("e2", 0), json.dumps(case["shape"])[:300], PAR,
                 sum(1 for x in rounds if x), len(rounds)))
        ctx.violation(sig, what, {"family": "sdf", "concurrent": True,
                                  "case": {k: case.get(k, 0) for k in ("k", "den", "e2", "shape", "lat")},
                                  "seed": ctx.seed, "far": PARAMS[ctx.tier]["far"], "id": 0})


def replay_family(ctx, path, prefix="C19"):
    with open(path) as f:
        obj = json.load(f)
    c = obj["case"]
    ctx.seed = int(c.get("seed", ctx.seed))
    vh = core.build_vh()
    if c.get("skel"):
        findings, stats = skel_judge(ctx, vh, [c["case"]], name="replay-skel", nshards=1)
        for f in findings:
            print("replay (skeleton): %s" % f["pred"])
            if f["pred"].startswith(prefix + "."):
                ctx.violation(skel_signature(f["pred"], c["case"]), "replayed", c)
        ctx.rule = "replay of one recorded skeleton case"
        ctx.nontrivial = 1
        ctx.sample({"replayed": path})
        return
    if c.get("concurrent"):
        # the recorded case 200 times over, its closures shared by PAR goroutines; up to 4 rounds
        findings = []
        for rnd in range(4):
            findings, stats, raw = execute_and_judge(ctx, vh, [c["case"]] * 200, name="replay%d" % rnd, nshards=4,
                                                     far=int(c.get("far", 24)), par=PAR)
            findings = [f for f in findings if f["pred"].startswith(prefix + ".")]
            if findings:
                break
        for f in findings[:3]:
            print("replay (concurrent): %s rejected block %d" % (f["pred"], f["blk"]))
            ctx.violation("%s/%s/concurrent" % (f["pred"], discriminator(c["case"]["shape"])), "replayed", c)
        ctx.rule = "replay of one recorded case under concurrent evaluation"
        ctx.nontrivial = 1
        ctx.sample({"replayed": path})
        return
    findings, stats, raw = execute_and_judge(ctx, vh, [c["case"]], name="replay", nshards=2, far=int(c.get("far", 24)),
                                             idbase=int(c.get("id", 0)))
    idx = 0
    for f in findings:
        if f["id"] != idx:
            continue
        print("replay: %s rejected block %d" % (f["pred"], f["blk"]))
        if f["pred"].startswith(prefix + "."):
            ctx.violation("%s/%s%s" % (f["pred"], discriminator(c["case"]["shape"]),
                                       "/scaled" if c["case"].get("e2", 0) else ""), "replayed", c)
    ctx.rule = "replay of one recorded case"
    ctx.nontrivial = 1
    ctx.sample({"replayed": path})
