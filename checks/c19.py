from checks import sdffam


def run(ctx):
    sdffam.run_family(ctx, "C19")


def replay(ctx, path):
    sdffam.replay_family(ctx, path, "C19")
