from checks import plyfam


def run(ctx):
    plyfam.run_family(ctx, "C04")


def replay(ctx, path):
    plyfam.replay_family(ctx, "C04", path)
