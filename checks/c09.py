from checks import surf


def run(ctx):
    surf.run_c09(ctx)


def replay(ctx, path):
    surf.replay_cases(ctx, "C09", path)
