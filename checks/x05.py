"""X05: the point-cloud / photogrammetry codecs decode what the file denotes and reject every strict prefix.

PcGen.tla (TLC) enumerates small abstract files of COLMAP points3D / images /
cameras, OpenSfM reconstruction.json and Potree 2.0 metadata.json /
hierarchy.bin / octree.bin and checks the design-level laws of the layout
(tiling, chunk structure of the hierarchy, node ranges, strictness of
prefixes).  The independent Go encoders (harness/potenc) turn each abstract
file into bytes plus the byte span of every cell; `vh pot-exec` decodes the
complete file through six io.Reader behaviours and the path based loaders, and
EVERY strict prefix, on polyform's formats/potree, formats/colmap,
formats/opensfm (and the sfm module they delegate to).  TracePc.tla (TLC)
judges every observed outcome against the denotation of PcFormats.tla.
"""
import json
import os
import shutil

from vlib import core

PREFIX = "X05."

QUICK = dict(PtsN="{0, 1, 2, 3}", TrackProfiles="{0, 1, 2}", ImgN="{0, 1, 2}", ImgProfiles="{0, 1, 2}",
             CamN="{0, 1, 3}", CamStarts="{0, 3, 6, 9}", SfmRecs="{0, 1, 2}", SfmPts="{0, 1, 3}",
             Styles='{"min", "pretty"}', AttrSets="{1, 2, 3, 4, 5}", UniverseId="1", MaxPx="2", BothOrders="FALSE",
             Scales="{64, 65536}", NodeProfiles="{0, 1, 2}")
THOROUGH = dict(QUICK, PtsN="{0, 1, 2, 3, 4}", ImgN="{0, 1, 2, 3}", CamN="{0, 1, 2, 3, 4}",
                CamStarts="{0, 1, 2, 3, 4, 5, 6, 7, 8, 9, 10}", SfmPts="{0, 1, 2, 3}",
                Styles='{"min", "pretty", "exp"}', UniverseId="2", BothOrders="TRUE", Scales="{1, 64, 1024, 65536}")

INVARIANTS = "Emit TilesInv PrefixClosed StrictLaw HierLaw OctLaw RecLaw Budget"
FORMATS = ("cpts", "cimg", "ccam", "osfm", "pmeta", "phier", "pnode")


def gen_cfg(path, consts):
    with open(path, "w") as f:
        f.write("CONSTANTS\n")
        for k, v in consts.items():
            f.write("  %s = %s\n" % (k, v))
        f.write("SPECIFICATION Spec\nINVARIANTS %s\nCHECK_DEADLOCK FALSE\n" % INVARIANTS)


def is_file_line(ln):
    return ln.startswith('{"k":"file"')


def judge(ctx, name, raw):
    """TracePc over raw trace lines -> [(file line, rejected line, bad, x)]"""
    res = core.validate_sharded(ctx, name, "TracePc", "TracePc.cfg", raw, is_boundary=is_file_line,
                                timeout=2400, heap="4g")
    findings = []
    for sh, r in res:
        for v in r.values:
            if not (isinstance(v, dict) and "bad" in v):
                continue
            i = v["l"] - 1
            j = i
            while not is_file_line(sh[j]):
                j -= 1
            findings.append((json.loads(sh[j]), json.loads(sh[i]), v["bad"], v.get("x")))
    return findings


def region(fl, at):
    for c in fl["cells"]:
        if c["o"] + c["s"] > at:
            g = c["g"]
            if fl["f"]["fmt"] == "phier":          # entry groups carry the node name
                return "proxy-entry" if g.endswith("/proxy") else "entry"
            if fl["f"]["fmt"] == "pnode":
                return "gap" if g == "gap" else "node"
            return g
    return "end"


def report(ctx, findings, source):
    model = [(p, fl.get("id"), ln.get("k"), x) for fl, ln, bad, x in findings for p in bad if not p.startswith(PREFIX)]
    if model:
        raise core.Infra("harness/specification binding broken (%s): %s" % (source, json.dumps(model[:5])[:1500]))
    per_sig = ctx.extra.setdefault("_per_sig", {})
    for fl, ln, bad, x in findings:
        fmt = fl["f"]["fmt"]
        for p in bad:
            k = ln["k"]
            api = ln.get("api", "potree.OctreeNode.Read")
            out = ln.get("out", {})
            case = {"family": "pot", "file": fl["f"]}
            if k == "dec":
                sig = "%s/%s" % (p, api)
                what = "%s: %s on a well-formed %s file (case %s, reader '%s') %s" % (
                    p, api, fmt, fl["id"], ln["rd"],
                    "did not return the denoted content" if out.get("kind") == "ok" else
                    "gave %s: %s" % (out.get("kind"), out.get("msg", "")[:90]))
            elif k == "cut":
                sig = "%s/%s/%s" % (p, api, region(fl, ln["at"]))
                what = "%s: %s on the first %d of %d bytes of a well-formed %s file (case %s) gave %s%s" % (
                    p, api, ln["at"], fl["len"], fmt, fl["id"], out.get("kind"),
                    (": " + out["msg"][:90]) if out.get("msg") else "")
                case["at"] = ln["at"]
            else:
                sig = "%s/%s/%s" % (p, api, "short-buffer" if ln.get("short") else
                                    ("complete" if ln["at"] == fl["len"] else "prefix"))
                what = "%s: node %d of an octree.bin of %d bytes (case %s) read from its first %d bytes gave %s%s" % (
                    p, ln["i"], fl["len"], fl["id"], ln["at"], out.get("kind"),
                    (": " + out["msg"][:90]) if out.get("msg") else "")
                if ln["at"] != fl["len"]:
                    case["at"] = ln["at"]
            per_sig[sig] = per_sig.get(sig, 0) + 1
            if per_sig[sig] <= 3:              # a replay file for the first three occurrences of a signature
                ctx.violation(sig, what, case)


def run_cases(ctx, vh, name, cases, maxcuts=0, only=-1):
    d = ctx.scratch(name)
    cp = os.path.join(d, "cases.ndjson")
    core.write_ndjson(cp, cases)
    tp = os.path.join(d, "trace.ndjson")
    core.run_vh(vh, ["pot-exec", "-in", cp, "-out", tp, "-dir", os.path.join(d, "tmp"), "-j", str(min(core.NCPU, 8)),
                     "-maxcuts", str(maxcuts), "-seed", str(ctx.seed), "-only", str(only)], timeout=3000)
    with open(tp) as f:
        return f.readlines()


def cleanup(ctx, name):
    shutil.rmtree(os.path.join(ctx.work, name), ignore_errors=True)
    for i in range(32):
        shutil.rmtree(os.path.join(ctx.work, "%s-shard%02d" % (name, i)), ignore_errors=True)


def account(ctx, raw):
    """Vacuity bookkeeping over a trace (counting only, no verdicts)."""
    per = ctx.extra.setdefault("lines_per_format", {})
    outc = ctx.extra.setdefault("outcomes", {})
    decs = ctx.extra.setdefault("complete_decodes_per_api", {})
    fmt, cur_len = None, 0
    for s in raw:
        if s.startswith('{"k":"file"'):
            fl = json.loads(s)
            fmt, cur_len = fl["f"]["fmt"], fl["len"]
            ctx.traces += 1
            ctx.extra["files_" + fmt] = ctx.extra.get("files_" + fmt, 0) + 1
            continue
        if s.startswith('{"k":"end"'):
            continue
        ln = json.loads(s)
        ctx.evaluations += 1
        per[fmt] = per.get(fmt, 0) + 1
        kind = ln["out"]["kind"]
        key = ln["k"] + ":" + kind
        outc[key] = outc.get(key, 0) + 1
        if ln["k"] == "dec":
            decs[ln["api"]] = decs.get(ln["api"], 0) + 1
        if ln["k"] == "cut" and kind == "ok":
            ctx.extra["prefix_accepted_judged"] = ctx.extra.get("prefix_accepted_judged", 0) + 1
        if ln["k"] == "node" and kind == "ok" and not ln["short"] and ln["out"]["v"]["n"] > 0:
            ctx.extra["node_decodes_judged"] = ctx.extra.get("node_decodes_judged", 0) + 1
        if ln["k"] == "node" and kind == "error":
            ctx.extra["node_prefix_errors_judged"] = ctx.extra.get("node_prefix_errors_judged", 0) + 1
        # input-side counters for the vacuity guard (they do not depend on what the code under test did)
        inp = ctx.extra.setdefault("inputs", {"complete_decodes": 0, "prefix_decodes": 0, "node_reads_complete": 0,
                                              "node_reads_prefix": 0, "node_reads_short_buffer": 0})
        if ln["k"] == "dec":
            inp["complete_decodes"] += 1
        elif ln["k"] == "cut":
            inp["prefix_decodes"] += 1
        elif ln["short"]:
            inp["node_reads_short_buffer"] += 1
        elif ln["at"] == cur_len:
            inp["node_reads_complete"] += 1
        else:
            inp["node_reads_prefix"] += 1


def design_checks(ctx):
    """Design level: the count-driven record loop over a reader that decodes its scratch buffer after a short read."""
    d = ctx.scratch("design")
    r = core.run_tlc(d, "CountReader", "CountReaderRepaired.cfg", workers=2, timeout=600)
    ctx.add_tlc(r)
    if r.rc != 0:
        raise core.Infra("CountReader with zero-on-short-read violates %s: model bug" % r.violated)
    ctx.extra["design_repaired_reader_states"] = r.distinct
    r = core.run_tlc(d, "CountReader", "CountReaderPinned.cfg", workers=1, timeout=600)
    ctx.add_tlc(r)
    ctx.extra["design_stale_buffer_count_panics"] = (r.rc == 12 and r.violated == "NoPanic")
    if not ctx.extra["design_stale_buffer_count_panics"]:
        raise core.Infra("CountReader as implemented satisfies NoPanic: the model lost its teeth")


def run(ctx):
    quick = ctx.tier == "quick"
    vh = core.build_vh()
    design_checks(ctx)
    # generator + design-level laws of the layouts
    d = ctx.scratch("gen")
    gen_cfg(os.path.join(d, "Gen.cfg"), QUICK if quick else THOROUGH)
    r = core.run_tlc(d, "PcGen", "Gen.cfg", files=[(os.path.join(d, "Gen.cfg"), "Gen.cfg")],
                     workers=min(core.NCPU, 8), timeout=1800)
    if r.rc != 0:
        raise core.Infra("PcGen violates its own law %s (specification bug)" % r.violated)
    ctx.add_tlc(r)
    cases = [v for v in r.values if isinstance(v, dict) and "fmt" in v]
    cases.sort(key=lambda c: json.dumps(c, sort_keys=True))
    for i, c in enumerate(cases):
        c["id"] = i
    ctx.extra["generated_files"] = len(cases)
    ctx.extra["design_states"] = r.distinct
    ctx.sample({"file": {"fmt": cases[0]["fmt"]}, "cuts": "all"})
    ctx.extra["random_files"] = 0

    def seeded(rd):
        """seeded larger files of the same abstract form"""
        d = ctx.scratch("rnd%d" % rd)
        rp = os.path.join(d, "r.ndjson")
        core.run_vh(vh, ["pot-random", "-out", rp, "-seed", str(ctx.seed * 1000 + rd), "-n", str(16 if quick else 96),
                         "-maxn", str(5 if quick else 14)])
        rnd = core.read_ndjson(rp)
        for c in rnd:
            c["id"] += rd * 100000
        ctx.extra["random_files"] += len(rnd)
        return run_cases(ctx, vh, "rnd%d" % rd, rnd, maxcuts=260 if quick else 500)

    if quick:
        # one trace: the TLC-generated files and one seeded round
        raw = run_cases(ctx, vh, "bfs", cases) + seeded(0)
        account(ctx, raw)
        report(ctx, judge(ctx, "all", raw), "TLC-generated and seeded files")
    else:
        # in rounds, to bound the size of one trace
        step = 400
        for k in range(0, len(cases), step):
            name = "bfs%d" % (k // step)
            raw = run_cases(ctx, vh, name, cases[k:k + step])
            account(ctx, raw)
            report(ctx, judge(ctx, name, raw), "TLC-generated files")
            cleanup(ctx, name)
        for rd in range(8):
            raw = seeded(rd)
            account(ctx, raw)
            report(ctx, judge(ctx, "rnd%d" % rd, raw), "seeded files, round %d" % rd)
            cleanup(ctx, "rnd%d" % rd)

    if not quick:
        selftest(ctx, vh, cases)

    ctx.extra["rejections_per_signature"] = ctx.extra.pop("_per_sig", {})
    missing = [f for f in FORMATS if ctx.extra["lines_per_format"].get(f, 0) == 0]
    inp = ctx.extra.get("inputs", {})
    if missing or not all(inp.get(k) for k in ("complete_decodes", "prefix_decodes", "node_reads_complete",
                                               "node_reads_prefix", "node_reads_short_buffer")):
        raise core.Infra("vacuous run: formats without lines %s, inputs %s" % (missing, inp))
    ctx.nontrivial = ctx.evaluations
    ctx.rule = ("a case is (well-formed file, decoder entry point, io.Reader behaviour) for complete files and "
                "(file, entry point, cut position) for strict prefixes: files are all small abstract files enumerated "
                "by TLC (PcGen) and seeded larger ones; every byte offset of every file is a cut point (seeded files "
                "above 260/500 bytes: a sample that always holds the first and last 24 offsets); distinct by "
                "(file, entry point, reader | offset)")
    ctx.exhaustive = False
    ctx.assumptions += [
        "the independent encoders of harness/potenc are bound to the layout law by their cell table (Model.Layout/Tiles/Size); "
        "the bytes inside a cell are trusted (cross-checked by the real decoders agreeing with the denotation)",
        "potree positions: scale is a power of two and offsets are dyadic so that binary64 arithmetic is exact; "
        "values are compared on the lattice 1/65536",
        "potree colours follow polyform's documented rule (all channels / 256 when any channel exceeds 255, then / 255)",
        "a panic is not an error report; a 20 s deadline stands for termination",
        "colmap / opensfm byte decoding lives in the dependency github.com/EliCDavis/sfm; it is exercised through "
        "polyform's entry points and directly",
    ]


def selftest(ctx, vh, cases):
    """Binding self-test: corrupt one logged field of an accepted trace, TLC must reject it."""
    pick = [c for c in cases if c["fmt"] == "cpts" and len(c["pts"]) >= 2][:1] + \
           [c for c in cases if c["fmt"] == "phier" and len(c["nodes"]) >= 3][:1] + \
           [c for c in cases if c["fmt"] == "pnode" and len(c["ons"]) >= 2 and c["ons"][0]["pts"]][:1]
    raw = run_cases(ctx, vh, "self", pick)
    base = judge(ctx, "self-ok", raw)
    objs = [json.loads(s) for s in raw]
    done = 0
    want = set()
    for o in objs:
        if o["k"] == "dec" and o["api"] == "colmap.ReadSparsePointData" and o["rd"] == "all" and o["out"]["kind"] == "ok":
            p = o["out"]["v"]["pos"][1]
            p[0] = p[0][:-1] + ("0" if p[0][-1] != "0" else "1")      # one mantissa bit of one coordinate
            done += 1
            want.add("X05.PtsPos")
            break
    for o in objs:
        if o["k"] == "dec" and o["api"] == "potree.ReadHierarchy" and o["rd"] == "one" and o["out"]["kind"] == "ok":
            kids = o["out"]["v"]["nodes"][0]["kids"]
            kids.reverse() if len(kids) > 1 else kids.append("r7")
            done += 1
            want.add("X05.HierShape")
            break
    for o in objs:
        if o["k"] == "cut" and o["api"] == "sfm.ReadPoints3DBinary" and o["out"]["kind"] == "error":
            full = [x for x in objs if x["k"] == "dec" and x["api"] == o["api"] and x["out"]["kind"] == "ok"]
            if full:
                o["out"] = json.loads(json.dumps(full[0]["out"]))         # a prefix "decoded" like the complete file
                done += 1
                want.add("X05.Prefix")
                break
    for o in objs:
        if o["k"] == "node" and o["out"]["kind"] == "ok" and not o["short"] and o["out"]["v"]["n"] > 0:
            o["out"]["v"]["mesh"]["col"], o["out"]["v"]["mesh"]["pos"] = o["out"]["v"]["mesh"]["pos"], o["out"]["v"]["mesh"]["col"]
            done += 1
            want.add("X05.NodePos")
            break
    bad = [json.dumps(o, separators=(",", ":")) + "\n" for o in objs]
    bad = [('{"k":"%s",' % json.loads(s)["k"]) + json.dumps({k: v for k, v in json.loads(s).items() if k != "k"},
                                                           separators=(",", ":"))[1:] + "\n" for s in bad]
    before = set(p for _, _, b, _ in base for p in b)
    got = set(p for _, _, b, _ in judge(ctx, "self-bad", bad) for p in b)
    ctx.extra["selftest_corruptions_rejected"] = len(want & got)
    if done != 4 or not want <= got:
        raise core.Infra("binding self-test failed: %d corruptions injected, rejected %s of %s (clean trace: %s)" %
                         (done, sorted(want & got), sorted(want), sorted(before)))


def replay(ctx, path):
    with open(path) as f:
        obj = json.load(f)
    case = obj["case"]
    vh = core.build_vh()
    f0 = dict(case["file"])
    f0.setdefault("id", 0)
    raw = run_cases(ctx, vh, "replay", [f0], only=case.get("at", -1))
    account(ctx, raw)
    for fl, ln, bad, x in judge(ctx, "replay", raw):
        print("replay: %s on %s: %s" % (",".join(bad), ln.get("api", "node"), ln.get("out", {}).get("kind")))
        report(ctx, [(fl, ln, bad, x)], "replay")
    ctx.rule = "replay of one recorded (file[, cut])"
    ctx.nontrivial = 1
    ctx.sample({"replayed": path})
