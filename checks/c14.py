"""C14: truncated model files are rejected; no hang, no fabricated geometry.

TruncGen.tla (TLC) enumerates small abstract files of every format and checks
the design-level laws of the cell/cut model; AsciiReader.tla shows on the
specification why a count-driven line loop that ignores end of input
fabricates or hangs.  The Go reference encoders turn each abstract file into
bytes plus the byte span of every cell; `vh trunc-exec` decodes EVERY cut
point of the property's quantifier on the real readers (worker child
processes under a deadline) and TraceTrunc.tla (TLC) judges every observed
outcome.
"""
import json
import os

from vlib import core

QUICK = dict(Encs='{"ascii", "le", "be"}', PropSets="{1, 2, 3, 4}", NV="{1, 3}",
             FaceKinds='{"none", "tri1", "tri2uv", "alt", "quaduv"}', StlN="{0, 1, 2}", PtsN="{0, 1, 2, 3}",
             PtsCols="{3, 4, 7}", SplatN="{1, 2, 3}", SpzN="{0, 1, 2}", SpzVersions="{1, 2}",
             SpzDegs="{0, 1, 2, 3}", Frames='{"stored0", "stored7", "deflate"}')
THOROUGH = dict(QUICK, NV="{1, 2, 3, 4}",
                FaceKinds='{"none", "tri1", "tri2", "tri1uv", "tri2uv", "alt", "quad", "quaduv"}',
                StlN="{0, 1, 2, 3}", PtsN="{0, 1, 2, 3, 4}", SplatN="{1, 2, 3, 4}", SpzN="{0, 1, 2, 3}")

PREDS = ("C14.Terminates", "C14.Reports", "C14.Placeholder")


def gen_cfg(path, consts):
    with open(path, "w") as f:
        f.write("CONSTANTS\n")
        for k, v in consts.items():
            f.write("  %s = %s\n" % (k, v))
        f.write("SPECIFICATION Spec\nINVARIANTS Emit TilesInv PrefixClosed StrictLaw SplatLaw FrameLaw NonZero\n"
                "CHECK_DEADLOCK FALSE\n")


def is_file_line(ln):
    return ln.startswith('{"k":"file"')


def judge(ctx, name, raw):
    """Validate trace lines with TraceTrunc; returns list of (file_line_obj, cut_line_obj|None, bad, x)."""
    res = core.validate_sharded(ctx, name, "TraceTrunc", "TraceTrunc.cfg", raw, is_boundary=is_file_line,
                                timeout=2400, heap="4g")
    findings = []
    for sh, r in res:
        for v in r.values:
            if not (isinstance(v, dict) and "bad" in v):
                continue
            i = v["l"] - 1
            ln = json.loads(sh[i])
            j = i
            while not is_file_line(sh[j]):
                j -= 1
            findings.append((json.loads(sh[j]), ln, v["bad"], v.get("x")))
    return findings


RK_NAMES = ["bytes", "bufio16", "onebyte", "dataerr", "bufio+onebyte"]


def region(fl, cut):
    g = cut.get("g", "?")
    return g.split("|")[0]


def fmt_tag(fl):
    f = fl["f"]
    tag = f["fmt"]
    if f["fmt"] == "ply":
        tag += "-" + f["enc"]
    if f["fmt"] == "spz":
        tag += "-" + f["frame"]
    return tag


def report(ctx, findings, source):
    model = []
    for fl, ln, bad, x in findings:
        for p in bad:
            if p.startswith("Model."):
                model.append((p, fl.get("name"), ln.get("k"), x))
    if model:
        raise core.Infra("harness/specification binding broken (%s): %s" % (source, json.dumps(model[:5])[:1500]))
    for fl, ln, bad, x in findings:
        for p in bad:
            if p not in PREDS:
                continue
            sig = "%s/%s/%s" % (p, fmt_tag(fl), region(fl, ln))
            rk = fl.get("rk", 0)
            if rk:      # the reader kind the decoder was handed (truncfam.ReaderKinds); 0 = *bytes.Reader
                sig += "/" + RK_NAMES[rk]
            out = ln["out"]
            what = ("%s: decoding the first %d of %d bytes of a valid %s file (%s) gave %s%s" %
                    (p, ln["at"], fl["len"], fmt_tag(fl), fl.get("name"), out["kind"],
                     (" with %d vertices" % out["mesh"]["n"]) if out["mesh"]["topo"] != "NULL" else
                     ((": " + out.get("msg", "")[:80]) if out.get("msg") else "")))
            case = {"family": "trunc", "at": ln["at"], "rk": rk}
            if fl.get("opaque"):
                case["path"] = fl.get("name")
                case["seed"] = ctx.seed
            else:
                case["file"] = fl["f"]
            ctx.violation(sig, what, case)


def run_cases(ctx, vh, name, cases, maxcuts=0):
    d = ctx.scratch(name)
    cp = os.path.join(d, "cases.ndjson")
    core.write_ndjson(cp, cases)
    tp = os.path.join(d, "trace.ndjson")
    core.run_vh(vh, ["trunc-exec", "-in", cp, "-out", tp, "-j", str(min(core.NCPU, 12)),
                     "-maxcuts", str(maxcuts), "-seed", str(ctx.seed)], timeout=3000)
    with open(tp) as f:
        return f.readlines()


def cleanup(ctx, name):
    import shutil
    shutil.rmtree(os.path.join(ctx.work, name), ignore_errors=True)
    for i in range(32):
        shutil.rmtree(os.path.join(ctx.work, "%s-shard%02d" % (name, i)), ignore_errors=True)


def account(ctx, raw):
    """Vacuity bookkeeping over a trace (counting only, no verdicts)."""
    st = ctx.extra.setdefault("outcomes", {})
    per_fmt = ctx.extra.setdefault("cuts_per_format", {})
    cur = None
    for s in raw:
        ln = json.loads(s)
        if ln["k"] == "file":
            cur = ln
            ctx.traces += 1
        elif ln["k"] == "cut":
            ctx.evaluations += 1
            k = ln["out"]["kind"]
            st[k] = st.get(k, 0) + 1
            t = fmt_tag(cur)
            per_fmt[t] = per_fmt.get(t, 0) + 1
            if k == "mesh":
                ctx.extra["mesh_outcomes_judged"] = ctx.extra.get("mesh_outcomes_judged", 0) + 1
            if ln["out"]["mesh"]["topo"] != "NULL" and ln["out"]["err"]:
                ctx.extra["partial_with_error_judged"] = ctx.extra.get("partial_with_error_judged", 0) + 1


def design_checks(ctx):
    """Design level: the count-driven ASCII reader machine with and without the end-of-input checks."""
    d = ctx.scratch("design")
    r = core.run_tlc(d, "AsciiReader", "AsciiReaderChecked.cfg", workers=2, timeout=600)
    ctx.add_tlc(r)
    if r.rc != 0:
        raise core.Infra("AsciiReader with all checks violates %s: model bug" % r.violated)
    ctx.extra["design_checked_reader_states"] = r.distinct
    r = core.run_tlc(d, "AsciiReader", "AsciiReaderPinnedSafety.cfg", workers=2, timeout=600)
    ctx.add_tlc(r)
    ctx.extra["design_unchecked_scan_fabricates"] = (r.rc == 12)
    if r.rc != 12:
        raise core.Infra("AsciiReader without the end-of-input check satisfies NoPlaceholder: the model lost its teeth")
    r = core.run_tlc(d, "AsciiReader", "AsciiReaderPinnedLive.cfg", workers=1, timeout=600)
    ctx.add_tlc(r)
    ctx.extra["design_unchecked_face_loop_hangs"] = (r.rc == 13)
    if r.rc != 13:
        raise core.Infra("AsciiReader without the end-of-input check terminates: the model lost its teeth")


def run(ctx):
    quick = ctx.tier == "quick"
    vh = core.build_vh()
    design_checks(ctx)
    # generator + design-level laws of the cell / cut model
    d = ctx.scratch("gen")
    gen_cfg(os.path.join(d, "Gen.cfg"), QUICK if quick else THOROUGH)
    r = core.run_tlc(d, "TruncGen", "Gen.cfg", files=[(os.path.join(d, "Gen.cfg"), "Gen.cfg")],
                     workers=min(core.NCPU, 8), timeout=1800)
    if r.rc != 0:
        raise core.Infra("TruncGen violates its own law %s (specification bug)" % r.violated)
    ctx.add_tlc(r)
    cases = [v for v in r.values if isinstance(v, dict) and "fmt" in v]
    cases.sort(key=lambda c: json.dumps(c, sort_keys=True))
    for i, c in enumerate(cases):
        c["id"] = i
    ctx.extra["generated_files"] = len(cases)
    ctx.extra["design_cut_states"] = r.distinct
    raw = run_cases(ctx, vh, "bfs", cases)
    account(ctx, raw)
    findings = judge(ctx, "bfs", raw)
    report(ctx, findings, "TLC-generated files")
    ctx.sample({"file": {k: cases[0][k] for k in ("fmt", "enc", "cols", "rows", "faces")}, "cuts": "all"})

    # seeded larger files of the same abstract form (every cut point in the quick tier, a large sample of the
    # cut points of each file in the thorough tier), in rounds to bound the trace size
    ctx.extra["random_files"] = 0
    for rd in range(1 if quick else 10):
        d = ctx.scratch("rnd%d" % rd)
        rp = os.path.join(d, "r.ndjson")
        core.run_vh(vh, ["trunc-random", "-out", rp, "-seed", str(ctx.seed * 1000 + rd), "-n", str(14 if quick else 210),
                         "-maxv", str(6 if quick else 30)])
        rnd = core.read_ndjson(rp)
        for c in rnd:
            c["id"] += rd * 100000
        ctx.extra["random_files"] += len(rnd)
        raw = run_cases(ctx, vh, "rnd%d" % rd, rnd, maxcuts=0 if quick else 1200)
        account(ctx, raw)
        report(ctx, judge(ctx, "rnd%d" % rd, raw), "seeded files, round %d" % rd)
        if not quick:
            cleanup(ctx, "rnd%d" % rd)

    if not quick:
        # real files: the repository's test models and the output of polyform's own writers
        d = ctx.scratch("real")
        paths = []
        for k, nv in enumerate(WRITER_NV):
            p = core.run_vh(vh, ["trunc-write", "-dir", d, "-seed", str(ctx.seed + k), "-nv", str(nv)])
            paths += [x for x in p.stdout.split() if x]
        tm = os.path.join(core.REPO, "test-models")
        paths += [os.path.join(tm, x) for x in sorted(os.listdir(tm)) if x.endswith((".ply", ".pts", ".stl", ".spz", ".splat"))]
        tp = os.path.join(d, "trace.ndjson")
        core.run_vh(vh, ["trunc-files", "-out", tp, "-j", str(min(core.NCPU, 12)), "-maxcuts", "700",
                         "-seed", str(ctx.seed)] + paths, timeout=3000)
        raw = open(tp).readlines()
        account(ctx, raw)
        ctx.extra["real_files"] = len(paths)
        report(ctx, judge(ctx, "real", raw), "real files")
        selftest(ctx, vh, cases)

    # vacuity guards: every format was cut, every kind of allowed outcome was actually observed and judged
    need = ["ply-ascii", "ply-le", "ply-be", "stl", "pts", "splat", "spz-stored", "spz-deflate"]
    missing = [t for t in need if ctx.extra["cuts_per_format"].get(t, 0) == 0]
    if missing or not ctx.extra.get("mesh_outcomes_judged") or not ctx.extra.get("partial_with_error_judged") \
            or not ctx.extra["outcomes"].get("error"):
        raise core.Infra("vacuous run: formats without cuts %s, outcomes %s" % (missing, ctx.extra["outcomes"]))
    ctx.nontrivial = ctx.evaluations
    ctx.rule = ("a case is (valid file, cut position): files are all small abstract files enumerated by TLC "
                "(TruncGen), seeded larger ones and (thorough) real files; every byte offset for binary / gzip "
                "framed files, every header byte and token boundary for ASCII; every case is a non-trivial strict "
                "prefix; distinct by (file, offset)")
    ctx.exhaustive = False
    ctx.assumptions += [
        "wall-clock deadline (2 s + 4 us/byte, one retry with twice the deadline) stands for 'terminates in time proportional to the input'",
        "the decode of the complete file by the same reader is the denotation a prefix result is compared with (bit-exact); "
        "its vertex count and positions are bound to the abstract content (Model.Full)",
        "deflate-framed SPZ: the number of recoverable stream bytes comes from the standard library inflater; "
        "stored framing is computed by the specification",
        "a panic is not an error report (DESIGN C14)",
    ]


def selftest(ctx, vh, cases):
    """Binding self-test: corrupt one logged field of an accepted trace, TLC must reject it."""
    pick = [c for c in cases if c["fmt"] == "ply" and c["enc"] == "le"][:1] + [c for c in cases if c["fmt"] == "splat"][:1]
    raw = run_cases(ctx, vh, "self", pick)
    if judge(ctx, "self-ok", raw):
        return  # already reported by the main run
    objs = [json.loads(s) for s in raw]
    done = 0
    # (a) an error outcome inside the data replaced by the complete mesh must be rejected
    for o in objs:
        if o["k"] == "file":
            full = o["full"]["mesh"]
        if o["k"] == "cut" and o["out"]["kind"] == "error" and o["g"].startswith("vertex"):
            o["out"] = {"kind": "mesh", "err": False, "mesh": full, "msg": ""}
            done += 1
            break
    # (b) a .splat prefix result with one splat too many must be rejected
    for o in objs:
        if o["k"] == "file":
            full = o["full"]["mesh"]
        if o["k"] == "cut" and o["out"]["kind"] == "mesh" and o["at"] == 32:
            o["out"]["mesh"] = full
            done += 1
            break
    bad = [json.dumps(o, separators=(",", ":")) + "\n" for o in objs]
    f = judge(ctx, "self-bad", bad)
    got = sum(1 for _, _, b, _ in f if "C14.Placeholder" in b)
    ctx.extra["selftest_corruptions_rejected"] = got
    if done != 2 or got != 2:
        raise core.Infra("binding self-test failed: %d corruptions injected, %d rejected by TraceTrunc" % (done, got))


WRITER_NV = (30, 75)


def replay(ctx, path):
    with open(path) as f:
        obj = json.load(f)
    case = obj["case"]
    vh = core.build_vh()
    d = ctx.scratch("replay")
    if "file" in case:
        cp = os.path.join(d, "cases.ndjson")
        core.write_ndjson(cp, [case["file"]])
        tp = os.path.join(d, "trace.ndjson")
        core.run_vh(vh, ["trunc-exec", "-in", cp, "-out", tp, "-only", str(case["at"]), "-rk", str(case.get("rk", 0))])
    else:
        name = os.path.basename(case["path"])
        p = os.path.join(core.REPO, "test-models", name)
        if name.startswith("w"):       # output of polyform's own writers: regenerate with the recorded seed
            nv = int(name[1:name.index("-")])
            core.run_vh(vh, ["trunc-write", "-dir", d, "-seed", str(case.get("seed", 1) + WRITER_NV.index(nv)), "-nv", str(nv)])
            p = os.path.join(d, name)
        tp = os.path.join(d, "trace.ndjson")
        core.run_vh(vh, ["trunc-files", "-out", tp, "-only", str(case["at"]), "-rk", str(case.get("rk", 0)), p])
    raw = open(tp).readlines()
    account(ctx, raw)
    for fl, ln, bad, x in judge(ctx, "replay", raw):
        if ln.get("k") == "cut" and ln["at"] == case["at"]:
            print("replay: %s at cut %d: %s" % (",".join(bad), ln["at"], ln["out"]["kind"]))
        report(ctx, [(fl, ln, bad, x)], "replay")
    ctx.rule = "replay of one recorded (file, cut)"
    ctx.nontrivial = 1
    ctx.sample({"replayed": path})
