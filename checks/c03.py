from checks import meshpool


def run(ctx):
    meshpool.run_family(ctx, "C03")


def replay(ctx, path):
    meshpool.replay_family(ctx, "C03", path)
