from checks import algfam


def run(ctx):
    algfam.run_family(ctx, "C17")


def replay(ctx, path):
    algfam.replay_family(ctx, path, "C17")
