"""C16: spatial index queries (octree, BVH) agree with exhaustive search.

Pipeline (BUILDING.md):
  design level  SpatialIndexMC.tla  - TLC checks the implementation-shaped model (construction keeps
                TreeSound, pruned descent and best-first search agree with the exhaustive scan) and
                refutes three realistic defects (the model has teeth)
  B1            SpatialGen.tla      - TLC enumerates every multiset of <= K lattice points; each stands
                for point / segment / box / triangle element sets at every depth, queried on a whole grid
  B2            vh spatial-random   - seeded element sets and scenes (spheres, triangles) at larger sizes
  executor      vh spatial-exec     - real OctTree (through modeling.Mesh), BVHNode, HitList, rendering.Tree
                round 2: every mesh case runs through one VARIANT = index layout (implied / permuted / welded /
                with unreferenced vertices) x route (OctTree, OctTreeDepth, OctTreeWithAttributeAndDepth on Position
                or on a second float3 attribute, with or without a Position attribute); the scan comes from the
                unrolled Position-only twin of the mesh, and the mesh-level scan (Primitive.BoundingBox /
                ClosestPoint(attr)) is judged against it (C16.ScanAgree)
  judge         TraceSpatial.tla    - TLC evaluates TreeSound on the dumped real tree and the contract
                (SetAgrees / ClosestOK / NearestOK / HitOK) on every real answer
"""
import json
import os
import random
from concurrent.futures import ThreadPoolExecutor

from vlib import core

OPS = {
    "tree": "NewOctree", "scene": "NewBVHTree",
    "C16.Closest": "ClosestPoint", "C16.Contain": "ElementsContainingPoint", "C16.Range": "ElementsWithinRange",
    "C16.Ray": "ElementsIntersectingRay", "C16.Traverse": "TraverseIntersectingRay",
    "C16.Nearest": "TraverseIntersectingRay.narrowing", "C16.ListHit": "HitList.Hit", "C16.BvhHit": "BVHNode.Hit",
    "C16.OctHit": "Tree.Hit", "C16.MeshHit": "rendering.Mesh.Hit", "C16.MeshHit2": "rendering.Mesh.Hit2", "C16.TreeSound": "NewOctree", "C16.Build": "build",
    ("C16.ScanAgree", "tree"): "Primitive.BoundingBox", ("C16.ScanAgree", "closest"): "Primitive.ClosestPoint",
    # round 5: the model's own scan over lattice bounds, and IEEE respellings of a query (negative zero, ...)
    "C16.ContainRef": "AABB.Contains+ElementsContainingPoint", "C16.RangeRef": "AABB.ClosestPoint+ElementsWithinRange",
    "C16.RayRef": "AABB.IntersectsRayInRange+ElementsIntersectingRay",
    ("C16.ValueClass", "closest"): "ClosestPoint", ("C16.ValueClass", "contain"): "ElementsContainingPoint",
    ("C16.ValueClass", "range"): "ElementsWithinRange", ("C16.ValueClass", "ray"): "ElementsIntersectingRay",
    ("C16.ValueClass", "near"): "TraverseIntersectingRay.narrowing", ("C16.ValueClass", "hit"): "Hittable.Hit",
}


def op_of(pred, k):
    return OPS.get((pred, k), OPS.get(pred, k))
QUERY_LIST = {"closest": "qpts", "contain": "qpts", "range": "ranges", "ray": "rays", "near": "rays", "hit": "rays"}


def is_boundary(ln):
    return ln.startswith('{"k":"tree"') or ln.startswith('{"k":"scene"')


# --------------------------------------------------------------------------
# design level: the bounded model
# --------------------------------------------------------------------------

def mc_cfg(path, variant, invs, maxc, npoint, nbox, depth, qstep=1):
    with open(path, "w") as f:
        f.write("CONSTANTS\n  Dim = 2\n  MaxC = %d\n  MaxNPoint = %d\n  MaxNBox = %d\n  MaxDepth = %d\n  QStep = %d\n"
                "  Variant = \"%s\"\nSPECIFICATION Spec\nINVARIANTS %s\nCHECK_DEADLOCK FALSE\n" %
                (maxc, npoint, nbox, depth, qstep, variant, " ".join(invs)))


def design_checks(ctx):
    quick = ctx.tier == "quick"
    # lattice {0,2}^2: 3 points or 2 boxes (quick), 3 boxes (thorough)
    small = dict(maxc=1, npoint=3, nbox=2) if quick else dict(maxc=1, npoint=3, nbox=3)
    runs = [
        # name, variant, invariants, constants, depth, expected violated invariant (None = must hold)
        ("code", "code", ["SoundInv", "AgreeInv", "CoverInv", "AnswerInv"], small, 2, None),
        ("octant-sound", "octantBounds", ["SoundInv"], small, 1, "SoundInv"),
        ("octant-agree", "octantBounds", ["AgreeInv"], small, 1, "AgreeInv"),
        ("octant-iff", "octantBounds", ["IffInv"], small, 1, None),
        ("loopvar", "sharedLoopVar", ["AnswerInv"], small, 2, "AnswerInv"),
        ("centerkey", "centerKey", ["AnswerInv"], small, 2, "AnswerInv"),
        ("witness-sharedleaf", "code", ["NeverSharedLeaf"], small, 2, "NeverSharedLeaf"),
    ]
    if not quick:
        big = dict(maxc=2, npoint=3, nbox=2)
        runs += [
            ("code-3x3", "code", ["SoundInv", "AgreeInv", "CoverInv", "AnswerInv"], big, 2, None),
            ("octant-iff-3x3", "octantBounds", ["IffInv"], big, 1, None),
            ("witness-deep", "code", ["NeverDeep"], big, 2, "NeverDeep"),
            ("code-4boxes", "code", ["SoundInv", "AgreeInv", "CoverInv", "AnswerInv"], dict(maxc=1, npoint=4, nbox=4), 2, None),
        ]
    per = max(1, core.NCPU // 3)

    def one(run):
        name, variant, invs, consts, depth, expect = run
        d = ctx.scratch("mc-" + name)
        mc_cfg(os.path.join(d, "MC.cfg"), variant, invs, consts["maxc"], consts["npoint"], consts["nbox"], depth)
        r = core.run_tlc(d, "SpatialIndexMC", "MC.cfg", files=[(os.path.join(d, "MC.cfg"), "MC.cfg")],
                         workers=per, timeout=3000, heap="4g")
        return run, r

    with ThreadPoolExecutor(max_workers=3) as ex:
        results = list(ex.map(one, runs))
    summary = {}
    for (name, variant, invs, consts, depth, expect), r in results:
        ctx.add_tlc(r)
        summary[name] = {"states": r.distinct, "violated": r.violated}
        if expect is None and r.rc != 0:
            raise core.Infra("SpatialIndexMC[%s] violates %s: the model of the implemented design is wrong" % (name, r.violated))
        if expect is not None and r.violated != expect:
            raise core.Infra("SpatialIndexMC[%s] was expected to violate %s (got %s): the model lost its teeth" %
                             (name, expect, r.violated))
    # round 5: the slab step of the box/ray test over IEEE extended values and signed zeros
    for name, variant, invs, expect in (("slab-code", "swap", "RefInv ZeroSignInv", None),
                                        ("slab-signpick-ref", "signPick", "RefInv", "RefInv"),
                                        ("slab-signpick-zero", "signPick", "ZeroSignInv", "ZeroSignInv")):
        d = ctx.scratch("mc-" + name)
        with open(os.path.join(d, "Slab.cfg"), "w") as f:
            f.write("CONSTANTS\n  Variant = \"%s\"\n  Coords = {0, 1, 2, 3, 4}\n  Lo = 1\n  Hi = 3\n  Ts = {0, 1, 3, 8}\n"
                    "SPECIFICATION Spec\nINVARIANTS %s\nCHECK_DEADLOCK FALSE\n" % (variant, invs))
        r = core.run_tlc(d, "SlabMC", "Slab.cfg", files=[(os.path.join(d, "Slab.cfg"), "Slab.cfg")], workers=2,
                         timeout=600, heap="2g")
        ctx.add_tlc(r)
        summary[name] = {"states": r.distinct, "violated": r.violated}
        if expect is None and r.rc != 0:
            raise core.Infra("SlabMC[%s] violates %s: the model of the implemented slab test is wrong" % (name, r.violated))
        if expect is not None and r.violated != expect:
            raise core.Infra("SlabMC[%s] was expected to violate %s (got %s): the model lost its teeth" %
                             (name, expect, r.violated))
    ctx.extra["design_model"] = summary


# --------------------------------------------------------------------------
# generators
# --------------------------------------------------------------------------

def gen_cfg(path, lc, maxpts, qmargin, qstep, depths, auto, kinds):
    with open(path, "w") as f:
        f.write("CONSTANTS\n  LC = {%s}\n  MaxPts = %d\n  QMargin = %d\n  QStep = %d\n  Depths = {%s}\n  WithAuto = %s\n"
                "  Kinds = {%s}\nSPECIFICATION Spec\nINVARIANT Emit\nCHECK_DEADLOCK FALSE\n" %
                (",".join(map(str, lc)), maxpts, qmargin, qstep, ",".join(map(str, depths)),
                 "TRUE" if auto else "FALSE", ",".join('"%s"' % k for k in kinds)))


def gen_b1(ctx, name, **kw):
    d = ctx.scratch("gen-" + name)
    gen_cfg(os.path.join(d, "Gen.cfg"), **kw)
    r = core.run_tlc(d, "SpatialGen", "Gen.cfg", files=[(os.path.join(d, "Gen.cfg"), "Gen.cfg")],
                     workers=2, timeout=1200, heap="4g")
    if r.rc != 0:
        raise core.Infra("SpatialGen failed: %s" % r.violated)
    ctx.add_tlc(r)
    grid = None
    cases = []
    dlist = []
    for v in r.values:
        if isinstance(v, dict) and "grid" in v:
            grid = v["grid"]
            dlist = sorted(v["depths"])
        elif isinstance(v, dict) and "cases" in v:
            cases += v["cases"]
    # deterministic order (TLC workers print in any order, SetToSeq in any order); a variant determines the
    # multiset it was made from, so the first variant identifies the record
    for c in cases:
        c["variants"].sort(key=lambda v: json.dumps(v, sort_keys=True))
        c["key"] = json.dumps(c["variants"][0], sort_keys=True)
    # every printed record stands for one case per depth
    cases = [dict(c, depth=d) for c in cases for d in dlist]
    cases.sort(key=lambda c: (c["kind"], c["depth"], c["key"]))
    if grid is None or not cases:
        raise core.Infra("SpatialGen printed no grid / no cases")
    # one variant (index layout x attribute route) of every case, seeded choice: the element set, the depth and
    # the queries are the same in all of them, so nothing of the old coverage depends on the choice
    rng = random.Random(ctx.seed * 1000003 + len(cases))
    out = []
    nvar = 0
    for c in cases:
        v = c["variants"][rng.randrange(len(c["variants"]))]
        nvar += len(c["variants"])
        c = {"kind": c["kind"], "depth": c["depth"], "verts": v["verts"], "idx": v["idx"], "attr": v["attr"],
             "decoy": v["decoy"], "lay": v["lay"]}
        c.update(tag="bfs-" + name, sph=[], reps=1, qpts=grid["qpts"], ranges=grid["ranges"], rays=grid["rays"])
        out.append(c)
    ctx.extra["b1_variants_" + name] = nvar
    return out, r.distinct


def gen_b2(ctx, vh, n, maxn, nq, seed):
    d = ctx.scratch("rnd")
    p = os.path.join(d, "cases-%d.ndjson" % seed)
    core.run_vh(vh, ["spatial-random", "-out", p, "-seed", str(seed), "-n", str(n), "-maxn", str(maxn), "-nq", str(nq)])
    return core.read_ndjson(p)


# --------------------------------------------------------------------------
# execute on the real code, judge with TLC
# --------------------------------------------------------------------------

def execute(ctx, vh, cases, name, par=1):
    d = ctx.scratch(name + "-exec")
    cp = os.path.join(d, "cases.ndjson")
    core.write_ndjson(cp, cases)
    tp = os.path.join(d, "trace.ndjson")
    core.run_vh(vh, ["spatial-exec", "-in", cp, "-out", tp, "-seed", str(ctx.seed), "-par", str(par)], timeout=1800)
    with open(tp) as f:
        return f.readlines()


def judge(ctx, raw, name, timeout=3000):
    findings = []
    res = core.validate_sharded(ctx, name, "TraceSpatial", "TraceSpatial.cfg", raw, is_boundary=is_boundary,
                                timeout=timeout, heap="4g")
    for sh, r in res:
        for v in r.values:
            if not (isinstance(v, dict) and "bad" in v):
                continue
            ln = json.loads(sh[v["l"] - 1])
            # the tree/scene line this query line belongs to
            bl = ln
            if ln.get("kind") is None:
                for j in range(v["l"] - 1, -1, -1):
                    if is_boundary(sh[j]):
                        bl = json.loads(sh[j])
                        break
            kind = bl.get("kind")
            if bl.get("attr"):
                kind = "%s@%s" % (kind, bl["attr"])
            for pred in v["bad"]:
                findings.append({"pred": pred, "k": ln["k"], "case": ln["case"], "kind": kind,
                                 "entries": sorted(v["fails"][pred])})
    return findings


def n_elements(case):
    k = case["kind"]
    if k in ("point", "line") and not case["idx"]:
        return len(case["verts"]) - (1 if k == "line" else 0)
    return {"point": len(case["idx"]), "line": len(case["idx"]) - 1, "tri": len(case["idx"]) // 3,
            "bvhtri": len(case["idx"]) // 3, "box": len(case["idx"]) // 2, "sphere": len(case["sph"])}[k]


def reduced_case(case, k, entry):
    """The case with only the failing query (entry is 1-based; 0 = the build itself)."""
    c = dict(case)
    c["qpts"], c["ranges"], c["rays"] = [], [], []
    if k in QUERY_LIST and entry >= 1:
        lst = QUERY_LIST[k]
        q = list(case[lst][entry - 1])
        # round 5: a value-class variant is judged against its twin: keep the twin, as query 1
        tw = q[-1] if len(q) in (5, 8, 11) else 0
        if tw:
            q[-1] = 1
            c[lst] = [case[lst][tw - 1], q]
        else:
            c[lst] = [q]
    return c


def stats(raw, acc, cases):
    """Anti-vacuity counters, read off the trace (counting only, no judgement)."""
    by_id = {c["id"]: c for c in cases}
    for ln in raw:
        t = json.loads(ln)
        k = t["k"]
        if k == "tree":
            acc["trees"] += 1
            cells = t["cells"]
            if len(cells) > 1:
                acc["trees_with_children"] += 1
            if any(c["ch"] for c in cells[1:]):
                acc["trees_depth2plus"] += 1
            if any(len(c["el"]) >= 2 for c in cells):
                acc["trees_cell_with_several_elements"] += 1
            acc["max_cells"] = max(acc["max_cells"], len(cells))
            acc["max_elements"] = max(acc["max_elements"], t["n"])
            # round 2: routes and layouts, counted on what was ASKED (the case), built or not - a route on
            # which every build fails is a finding, not a vacuous run
            cs = by_id[t["case"]]
            if cs["kind"] != "box":
                acc["trees_from_mesh"] += 1
                if cs["idx"] != list(range(len(cs["idx"]))):
                    acc["trees_nonidentity_indices"] += 1
                if cs.get("attr"):
                    acc["trees_attribute_route"] += 1
                if cs.get("attr") not in ("", None, "Position"):
                    acc["trees_on_second_attribute"] += 1
                    if cs["kind"] == "tri" and cs["idx"] != list(range(len(cs["idx"]))):
                        acc["tri_trees_on_second_attribute_nonidentity"] += 1
                    if not cs.get("decoy"):
                        acc["trees_mesh_without_position"] += 1
                if cs.get("decoy"):
                    acc["trees_mesh_with_decoy_attribute"] += 1
        elif k == "scene":
            acc["bvh_builds"] += 1
            acc["max_elements"] = max(acc["max_elements"], t["n"])
        elif k == "closest":
            for e in t["b"]:
                acc["closest"] += 1
                if len(set(e["d2"])) >= 2:
                    acc["closest_argmin_nontrivial"] += 1
                if e["mcp"]:
                    acc["closest_mesh_level_scan"] += 1
        elif k in ("contain", "range", "ray"):
            for i, e in enumerate(t["b"]):
                acc[k] += 1
                if e["hit"]:
                    acc[k + "_nonempty"] += 1
                if e.get("tw"):
                    acc["set_queries_with_twin"] += 1
                if k == "ray":
                    q = e.get("q") or [0] * 11
                    if sum(1 for x in q[3:6] if x) == 1:
                        acc["ray_axis_parallel"] += 1
                    if q[9] & 0b111000:
                        acc["ray_negative_zero_direction"] += 1
                        if e["hit"]:
                            acc["ray_negative_zero_direction_nonempty"] += 1
                if k == "range" and e["hit"] and by_id[t["case"]]["ranges"][i][3] > 0:
                    acc["range_positive_radius_nonempty"] += 1
        elif k == "near":
            for e in t["b"]:
                acc["near"] += 1
                if e.get("tw"):
                    acc["near_with_twin"] += 1
                c = sum(1 for x in e["te"] if x > -2000000000)
                if c >= 1:
                    acc["near_hit"] += 1
                if c >= 2:
                    acc["near_several_candidates"] += 1
        elif k == "hit":
            for e in t["b"]:
                acc["hit"] += 1
                if e.get("tw"):
                    acc["hit_with_twin"] += 1
                c = sum(1 for x in e["te"] if x > -2000000000)
                if c >= 1:
                    acc["hit_hit"] += 1
                if c >= 2:
                    acc["hit_several_candidates"] += 1
                if e["msh"]["st"] != "NONE":
                    acc["hit_rendering_mesh"] += 1
                    if e["msh"]["h"]:
                        acc["hit_rendering_mesh_hit"] += 1


STAT_KEYS = ["trees", "trees_with_children", "trees_depth2plus", "trees_cell_with_several_elements", "max_cells",
             "max_elements", "bvh_builds", "closest", "closest_argmin_nontrivial", "contain", "contain_nonempty",
             "range", "range_nonempty", "range_positive_radius_nonempty", "ray", "ray_nonempty", "near", "near_hit",
             "near_several_candidates", "hit", "hit_hit", "hit_several_candidates",
             "trees_from_mesh", "trees_nonidentity_indices", "trees_attribute_route", "trees_on_second_attribute",
             "tri_trees_on_second_attribute_nonidentity", "trees_mesh_without_position",
             "trees_mesh_with_decoy_attribute", "closest_mesh_level_scan", "hit_rendering_mesh",
             "hit_rendering_mesh_hit",
             "set_queries_with_twin", "ray_axis_parallel", "ray_negative_zero_direction",
             "ray_negative_zero_direction_nonempty", "near_with_twin", "hit_with_twin"]


def report(ctx, vh, cases, findings, confirm=True):
    """One violation per (signature, case), at most 3 cases per signature; every reported case is first
    re-executed in reduced form (only the failing query) and re-judged: the replay file holds what reproduces."""
    by_id = {c["id"]: c for c in cases}
    picked, per_sig = [], {}
    for f in findings:
        if f["pred"].startswith("Harness."):
            raise core.Infra("harness inconsistency %s in case %d (%s line, entries %s)" %
                             (f["pred"], f["case"], f["k"], f["entries"][:5]))
        sig = "%s/%s/%s" % (f["pred"], op_of(f["pred"], f["k"]), f["kind"])
        if per_sig.get(sig, 0) >= 3:
            continue
        per_sig[sig] = per_sig.get(sig, 0) + 1
        picked.append((sig, f))
    if not picked:
        return
    reduced = []
    for n, (sig, f) in enumerate(picked):
        red = reduced_case(by_id[f["case"]], f["k"], f["entries"][0])
        reduced.append(red)
    reproduced = set()
    if confirm:
        raw = execute(ctx, vh, reduced, "confirm")
        for g in judge(ctx, raw, "confirm"):
            reproduced.add((g["case"], g["pred"]))
    for (sig, f), red in zip(picked, reduced):
        case = by_id[f["case"]]
        if confirm and (f["case"], f["pred"]) not in reproduced:
            # the reduced case does not show it: try the whole case once more before giving up
            raw = execute(ctx, vh, [case], "confirm-full")
            if not any(g["pred"] == f["pred"] for g in judge(ctx, raw, "confirm-full")):
                raise core.Infra("rejection %s of case %d does not reproduce on re-execution" % (sig, f["case"]))
            red = case
        nel = n_elements(case)
        what = ("%s rejected %s on a %s element set (%d elements, depth %s, tag %s, index layout %s, %d vertices, "
                "other float3 attribute: %s); query #%d is the first of %d rejected" % (
                    f["pred"], op_of(f["pred"], f["k"]), f["kind"], nel, case["depth"], case.get("tag"),
                    case.get("lay") or "-", len(case["verts"]), "yes" if case.get("decoy") else "no",
                    f["entries"][0], len(f["entries"])))
        ctx.violation(sig, what, {"family": "spatial", "pred": f["pred"], "case": red, "seed": ctx.seed})


def selftest(ctx, raw):
    """Corrupt single logged fields of an accepted trace; TLC must reject exactly those lines."""
    lines = [json.loads(x) for x in raw]
    out, expect = [], {}
    done = set()
    i = 0
    while i < len(lines) and len(done) < 6:
        t = lines[i]
        # copy one unit (tree/scene line + its query lines) and corrupt at most one field in it
        j = i + 1
        while j < len(lines) and lines[j]["k"] not in ("tree", "scene"):
            j += 1
        unit = [json.loads(json.dumps(x)) for x in lines[i:j]]
        corrupted = None
        for u, ln in enumerate(unit):
            k = ln["k"]
            if k == "tree" and "tree" not in done and len(ln["cells"]) > 1 and ln["st"] == "OK":
                # shrink a child cell: its first coordinate range loses its upper end
                c = next((c for c in ln["cells"][1:] if c["hi"][0] > c["lo"][0]), None)
                if c is not None:
                    c["hi"][0] -= 1
                    corrupted = ("tree", u, "C16.TreeSound")
            elif k == "closest" and "closest" not in done:
                for e in ln["b"]:
                    if len(set(e["d2"])) >= 2:
                        worst = max(range(len(e["d2"])), key=lambda x: e["d2"][x])
                        if e["d2"][worst] > min(e["d2"]) + 1:
                            e["ri"] = worst + 1
                            e["rp"] = e["cp"][worst]
                            corrupted = ("closest", u, "C16.Closest")
                            break
            elif k == "closest" and "scan" not in done:
                for e in ln["b"]:
                    if e["mcp"]:
                        e["mcp"][-1][0] += 3
                        corrupted = ("scan", u, "C16.ScanAgree")
                        break
            elif k == "contain" and "contain" not in done:
                for e in ln["b"]:
                    if e["res"]:
                        e["res"] = e["res"][:-1]
                        corrupted = ("contain", u, "C16.Contain")
                        break
            elif k == "ray" and "ray" not in done:
                for e in ln["b"]:
                    if e["trav"]:
                        e["trav"] = e["trav"] + [e["trav"][0]]
                        corrupted = ("ray", u, "C16.Traverse")
                        break
            elif k == "hit" and "hit" not in done:
                for e in ln["b"]:
                    if e["bvh"]["h"]:
                        e["bvh"]["t"] += 70000
                        corrupted = ("hit", u, "C16.BvhHit")
                        break
            if corrupted:
                break
        if corrupted:
            done.add(corrupted[0])
            expect[len(out) + corrupted[1] + 1] = corrupted[2]
            out += unit
        i = j
    if len(done) < 6:
        raise core.Infra("self-test could not find lines to corrupt (%s)" % sorted(done))
    d = ctx.scratch("selftest")
    with open(os.path.join(d, "trace.ndjson"), "w") as f:
        for x in out:
            f.write(json.dumps(x, separators=(",", ":")) + "\n")
    r = core.run_tlc(d, "TraceSpatial", "TraceSpatial.cfg", workers=1, timeout=600)
    got = {}
    for v in r.values:
        if isinstance(v, dict) and "bad" in v:
            got[v["l"]] = set(v["bad"])
    if r.distinct != len(out) + 1:
        raise core.Infra("self-test trace not consumed")
    if set(got) != set(expect) or any(expect[l] not in got[l] for l in expect):
        raise core.Infra("binding self-test failed: corrupted lines %s, TLC rejected %s" % (expect, got))
    ctx.extra["selftest_corruptions_rejected"] = len(expect)


PAR = 8


def concurrent_pass(ctx, vh, cases, alone):
    """B3: the queries of every batch issued from PAR goroutines at the same time on the one tree of the case (octree
    cases; the list ray query fills a buffer owned by the tree - by design one caller at a time - and is serialised
    by the harness). The answers are judged like those of the sequential pass; a query rejected only here was disturbed
    by another query in flight. Confirmed by running the batch again."""
    quick = ctx.tier == "quick"
    failed = {f["case"] for f in alone}
    pool = [c for c in cases if c["kind"] in ("point", "line", "tri", "box") and c["id"] not in failed
            and len(c.get("qpts") or []) + len(c.get("rays") or []) + len(c.get("ranges") or []) >= 4]
    random.Random(ctx.seed + 11).shuffle(pool)
    pool = pool[:400 if quick else 4000]
    batch = [dict(c, id=i) for i, c in enumerate(pool)]
    rounds = []
    for rnd in range(3):
        raw = execute(ctx, vh, batch, "par%d" % rnd, par=PAR)
        fs = [f for f in judge(ctx, raw, "par%d" % rnd) if f["pred"].startswith("C16.")]
        rounds.append(fs)
        if rnd == 0 and not fs:
            break
        if rnd == 1 and fs:
            break
    ctx.extra["b3_concurrent"] = {"goroutines": PAR, "cases": len(batch), "rejected_per_round": [len(x) for x in rounds]}
    if not rounds[0]:
        return
    if sum(1 for x in rounds if x) < 2:
        raise core.Infra("a rejection under concurrent queries was seen once in %d rounds and not again" % len(rounds))
    seen = {}
    for fs in rounds:
        for f in fs:
            seen.setdefault("%s/%s/%s/concurrent" % (f["pred"], op_of(f["pred"], f["k"]), f["kind"]), f)
    for sig, f in sorted(seen.items())[:4]:
        case = batch[f["case"]]
        what = ("%s rejected %s on a %s element set (%d elements, depth %s) when %d goroutines queried the tree at the same "
                "time (rejected in %d of %d rounds; the same case queried by one caller is accepted)" %
                (f["pred"], op_of(f["pred"], f["k"]), f["kind"], n_elements(case), case["depth"], PAR,
                 sum(1 for x in rounds if x), len(rounds)))
        ctx.violation(sig, what, {"family": "spatial", "pred": f["pred"], "concurrent": True, "case": case, "seed": ctx.seed})


def run(ctx):
    quick = ctx.tier == "quick"
    vh = core.build_vh()
    design_checks(ctx)
    # B1: exhaustive tiny configurations
    cases, gstates = gen_b1(ctx, "2x2x2", lc=[0, 2], maxpts=3 if quick else 4, qmargin=1, qstep=1,
                            depths=[0, 1] if quick else [0, 1, 2], auto=True, kinds=["point", "line", "box", "tri"])
    ctx.extra["b1_multisets_2x2x2"] = gstates - 1
    if not quick:
        more, g2 = gen_b1(ctx, "3x3x3", lc=[0, 2, 4], maxpts=3, qmargin=1, qstep=2, depths=[0, 1, 2], auto=True,
                          kinds=["point", "line", "tri"])
        ctx.extra["b1_multisets_3x3x3"] = g2 - 1
        cases += more
    nb1 = len(cases)
    # B2: seeded larger sets and scenes
    if quick:
        cases += gen_b2(ctx, vh, 1500, 40, 6, ctx.seed)
    else:
        for k in range(4):
            cases += gen_b2(ctx, vh, 6000, [30, 60, 120, 250][k], 8, ctx.seed * 100 + k)
    # interleave the (heavy) enumerated cases with the seeded ones so that trace shards are balanced
    b1, b2 = cases[:nb1], cases[nb1:]
    cases = []
    step = max(1, len(b2) // max(1, len(b1)))
    while b1 or b2:
        if b1:
            cases.append(b1.pop())
        cases += b2[:step]
        b2 = b2[step:]
    for i, c in enumerate(cases):
        c["id"] = i
    ctx.extra["b1_cases"] = nb1
    ctx.extra["b2_cases"] = len(cases) - nb1
    raw = execute(ctx, vh, cases, "main")
    findings = judge(ctx, raw, "main")
    report(ctx, vh, cases, findings)
    concurrent_pass(ctx, vh, cases, findings)
    acc = {k: 0 for k in STAT_KEYS}
    stats(raw, acc, cases)
    ctx.extra.update(acc)
    for k in STAT_KEYS:
        # (a run that rejected something is reported as such, whatever else it did not reach)
        if acc[k] == 0 and not findings:
            raise core.Infra("vacuous run: counter %s is 0" % k)
    if not quick:
        clean = not findings
        if clean:
            selftest(ctx, raw)
    ctx.traces += len(cases)
    ctx.evaluations += sum(acc[k] for k in ("closest", "contain", "range", "ray", "near", "hit")) + acc["trees"]
    ctx.nontrivial = len({json.dumps([c["kind"], c["verts"], c["idx"], c["sph"], c["depth"], c.get("attr"), c.get("decoy")])
                          for c in cases
                          if len(c["verts"]) + len(c["sph"]) >= 2})
    ctx.rule = ("cases = TLC-enumerated multisets of lattice points (as point/segment/box/triangle sets, every depth, "
                "whole query grid) + seeded element sets and sphere/triangle scenes; a case is an element set with a "
                "depth, executed through one variant (index layout x entry point / attribute route), distinct by "
                "(kind, vertices, indices, depth, attribute, other attribute), non-trivial if it has >= 2 vertices; "
                "evaluations = individual queries judged")
    ctx.sample({"kind": cases[0]["kind"], "verts": cases[0]["verts"], "depth": cases[0]["depth"], "tag": cases[0]["tag"]})
    last = cases[-1]
    ctx.sample({"kind": last["kind"], "n_verts": len(last["verts"]), "n_spheres": len(last["sph"]), "depth": last["depth"],
                "tag": last["tag"]})
    ctx.assumptions += [
        "per-element facts come from the element-level real primitives (AABB.Contains/ClosestPoint/IntersectsRayInRange, "
        "Element.ClosestPoint, Tri.RayIntersects, Hittable.Hit on one element): the property compares index and scan, "
        "it does not define those primitives",
        "the scan of a mesh case is taken from the unrolled twin of the mesh (vertex idx[k] stored at k under Position, "
        "implied indices, no other attribute): element i of a mesh is made of the vertices its index buffer names",
        "reals are projected to 1/65536 fixed point; values within 1 unit are ties (left free by the statement)",
        "degenerate segments/triangles (NaN closest point at element level), empty element sets and ray ranges of "
        "length 0 are not generated",
        "TreeSound is judged on the cells dumped by the verif hook trees.OctTree.VerifCells",
    ]


def replay(ctx, path):
    obj = json.load(open(path))["case"]
    vh = core.build_vh()
    case = obj["case"]
    ctx.seed = obj.get("seed", ctx.seed)
    if obj.get("concurrent"):
        findings = []
        for rnd in range(4):
            raw = execute(ctx, vh, [dict(case, id=i) for i in range(100)], "replay%d" % rnd, par=PAR)
            findings = [f for f in judge(ctx, raw, "replay%d" % rnd) if f["pred"].startswith("C16.")]
            if findings:
                break
        for f in findings[:3]:
            print("replay (concurrent): %s on %s line" % (f["pred"], f["k"]))
            ctx.violation("%s/%s/%s/concurrent" % (f["pred"], op_of(f["pred"], f["k"]), f["kind"]), "replayed", obj)
        ctx.traces = ctx.evaluations = 100
        ctx.nontrivial = 1
        ctx.rule = "replay of one recorded case under concurrent queries"
        ctx.sample({"replayed": path})
        return
    raw = execute(ctx, vh, [case], "replay")
    findings = judge(ctx, raw, "replay")
    for f in findings:
        print("replay: %s on %s line (entries %s)" % (f["pred"], f["k"], f["entries"][:5]))
    report(ctx, vh, [case], findings, confirm=False)
    ctx.traces = 1
    ctx.evaluations = len(raw)
    ctx.nontrivial = 1
    ctx.rule = "replay of one recorded case"
    ctx.sample({"replayed": path})
