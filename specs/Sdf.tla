--------------------------------- MODULE Sdf ---------------------------------
(***************************************************************************)
(* Exact point-set semantics of polyform's signed distance functions on an *)
(* integer sample lattice (C19), and the predicates that judge logged      *)
(* values of the real closures.                                            *)
(*                                                                         *)
(* All shape parameters and sample points are integers in LATTICE UNITS;   *)
(* the real value is  integer / den * 2^e2  (den = 1, 2 or 4: half- and    *)
(* quarter-integer parameters; e2: the binary magnitude at which the real  *)
(* closure is built and sampled, -40..40 - distances are homogeneous, so   *)
(* everything below is stated on the integers and holds at every e2).      *)
(* A shape is a record with a type field t:                                *)
(*   [t |-> "sphere", c, r]            centre, radius                      *)
(*   [t |-> "box",    c, b]            centre, full size b (sdf.Box bounds)*)
(*   [t |-> "rbox",   c, b, r]         box grown by the roundness r        *)
(*   [t |-> "line",   a, b, r]         capsule: segment a-b, radius r      *)
(*   [t |-> "rcone",  a, b, r1, r2]    convex hull of two balls            *)
(*   [t |-> "rcyl",   c, ra, rb, h]    Quilez rounded cylinder: the (rho,y)*)
(*                                     rectangle [0,2ra-rb]x[-h,h] grown by*)
(*                                     rb (needs 2ra >= rb)                *)
(*   [t |-> "plane",  c, n, nl, h]     half space (p-c).n/nl + h < 0 with  *)
(*                                     integer normal n of integer length  *)
(*                                     nl (the real normal n/nl is a unit  *)
(*                                     vector)                             *)
(*   [t |-> "tr",     ss, o]           ss[1] translated by o               *)
(*   [t |-> "union" | "inter", ss]     of the shapes in the sequence ss    *)
(*   [t |-> "sub",    ss]              ss[1] minus ss[2]                   *)
(*                                                                         *)
(* Cls(s, p) \in {-1, 0, 1} : p is strictly inside / on the surface /      *)
(* strictly outside, decided in integer arithmetic.                        *)
(* Ref(s, p) : the true Euclidean signed distance in closed form           *)
(*   [kind |-> "sq", n, d, r]   f = sqrt(n/d) - r                          *)
(*   [kind |-> "lin", n, d]     f = n/d                                    *)
(*   [kind |-> "none"]          not claimed for this shape                 *)
(*                                                                         *)
(* Logged values: F = round(f_real * den * q) (distance in lattice units   *)
(* times the scale q chosen by the harness), sg = sign of the float.       *)
(* int32 budget: q * (distance + radius) * sqrt(d) <= 46340 and            *)
(* q * |p1 - p2| <= 46340 for every pair in a line; coordinates <= 64.     *)
(***************************************************************************)
EXTENDS Integers, Sequences, FiniteSets, TLC

Abs(x) == IF x < 0 THEN 0 - x ELSE x
Sgn(x) == IF x < 0 THEN 0 - 1 ELSE IF x > 0 THEN 1 ELSE 0
Min2(a, b) == IF a <= b THEN a ELSE b
Max2(a, b) == IF a >= b THEN a ELSE b
Pos(x) == IF x > 0 THEN x ELSE 0

VSub(a, b) == <<a[1] - b[1], a[2] - b[2], a[3] - b[3]>>
VAdd(a, b) == <<a[1] + b[1], a[2] + b[2], a[3] + b[3]>>
Dot(a, b) == a[1] * b[1] + a[2] * b[2] + a[3] * b[3]
Len2(a) == Dot(a, a)

(* ------------------------- interior predicates -------------------------- *)
\* box: q_i = 2|p_i - c_i| - b_i (doubled units so that odd sizes stay integral)
BoxQ(c, b, p) == <<2 * Abs(p[1] - c[1]) - b[1], 2 * Abs(p[2] - c[2]) - b[2], 2 * Abs(p[3] - c[3]) - b[3]>>
MaxC(q) == Max2(q[1], Max2(q[2], q[3]))
OutSq(q) == Pos(q[1]) * Pos(q[1]) + Pos(q[2]) * Pos(q[2]) + Pos(q[3]) * Pos(q[3])     \* (2 * distance to the box)^2

\* capsule, written directly: squared distance to the segment against r^2
ClsLine(a, b, r, p) ==
    LET pa == VSub(p, a)
        ba == VSub(b, a)
        l2 == Len2(ba)
        y == Dot(pa, ba)
    IN IF l2 = 0 \/ y <= 0 THEN Sgn(Len2(pa) - r * r)
       ELSE IF y >= l2 THEN Sgn(Len2(VSub(p, b)) - r * r)
       ELSE Sgn(Len2(pa) * l2 - y * y - r * r * l2)

\* convex hull of the balls B(a,r1), B(b,r2) = union over t in [0,1] of B(a + t(b-a), r1 + t(r2-r1)).
\* p is inside iff  g(t) = |pa - t ba|^2 - (r1 - t rr)^2 = A t^2 - 2 B t + C  is negative somewhere on [0,1]
ClsCone(a, b, r1, r2, p) ==
    LET pa == VSub(p, a)
        ba == VSub(b, a)
        rr == r1 - r2
        A == Len2(ba) - rr * rr
        B == Dot(pa, ba) - r1 * rr
        C == Len2(pa) - r1 * r1
        ends == Min2(C, A - 2 * B + C)                   \* g(0), g(1)
    IN IF A > 0 /\ B > 0 /\ B < A THEN Sgn(C * A - B * B)     \* vertex t* = B/A inside (0,1): g(t*) = C - B^2/A
       ELSE Sgn(ends)

\* rounded cylinder (axis y): d = (rho - c2, |y| - h), c2 = 2ra - rb ; inside iff dist(d, negative quadrant) < rb
ClsCyl(c, ra, rb, h, p) ==
    LET v == VSub(p, c)
        rho2 == v[1] * v[1] + v[3] * v[3]
        c2 == 2 * ra - rb
        dy == Abs(v[2]) - h
        L == rho2 + c2 * c2 + dy * dy - rb * rb          \* corner region: dx^2 + dy^2 - rb^2 = L - 2 c2 rho
    IN IF rho2 <= c2 * c2                                 \* dx <= 0
       THEN (IF dy <= 0 THEN 0 - 1 ELSE Sgn(dy - rb))
       ELSE IF dy <= 0 THEN Sgn(rho2 - 4 * ra * ra)       \* dx < rb  <=>  rho < 2ra
       ELSE IF L < 0 THEN 0 - 1
       ELSE IF L = 0 THEN (IF c2 > 0 THEN 0 - 1 ELSE 0)
       ELSE Sgn(L * L - 4 * c2 * c2 * rho2)               \* L vs 2 c2 rho, both non-negative

RECURSIVE Cls(_, _)
RECURSIVE ClsMin(_, _, _)
RECURSIVE ClsMax(_, _, _)
ClsMin(ss, p, k) == IF k = Len(ss) THEN Cls(ss[k], p) ELSE Min2(Cls(ss[k], p), ClsMin(ss, p, k + 1))
ClsMax(ss, p, k) == IF k = Len(ss) THEN Cls(ss[k], p) ELSE Max2(Cls(ss[k], p), ClsMax(ss, p, k + 1))
Cls(s, p) ==
    CASE s.t = "sphere" -> Sgn(Len2(VSub(p, s.c)) - s.r * s.r)
      [] s.t = "box"    -> Sgn(MaxC(BoxQ(s.c, s.b, p)))
      [] s.t = "rbox"   -> Sgn(OutSq(BoxQ(s.c, s.b, p)) - 4 * s.r * s.r)
      [] s.t = "line"   -> ClsLine(s.a, s.b, s.r, p)
      [] s.t = "rcone"  -> ClsCone(s.a, s.b, s.r1, s.r2, p)
      [] s.t = "rcyl"   -> ClsCyl(s.c, s.ra, s.rb, s.h, p)
      [] s.t = "plane"  -> Sgn(Dot(VSub(p, s.c), s.n) + s.h * s.nl)
      [] s.t = "tr"     -> Cls(s.ss[1], VSub(p, s.o))
      [] s.t = "union"  -> ClsMin(s.ss, p, 1)              \* inside if inside one, outside if outside all
      [] s.t = "inter"  -> ClsMax(s.ss, p, 1)
      [] s.t = "sub"    -> Max2(Cls(s.ss[1], p), 0 - Cls(s.ss[2], p))

\* parameters inside the property's quantifier (sizes, radii > 0; what the formulas presuppose)
RECURSIVE Admissible(_)
Admissible(s) ==
    CASE s.t = "sphere" -> s.r > 0
      [] s.t = "box"    -> s.b[1] > 0 /\ s.b[2] > 0 /\ s.b[3] > 0
      [] s.t = "rbox"   -> s.b[1] > 0 /\ s.b[2] > 0 /\ s.b[3] > 0 /\ s.r > 0
      [] s.t = "line"   -> s.r > 0
      [] s.t = "rcone"  -> s.r1 > 0 /\ s.r2 > 0
      [] s.t = "rcyl"   -> s.ra > 0 /\ s.rb > 0 /\ s.h > 0 /\ 2 * s.ra >= s.rb
      [] s.t = "plane"  -> s.nl > 0 /\ Len2(s.n) = s.nl * s.nl
      [] s.t = "tr"     -> Len(s.ss) = 1 /\ Admissible(s.ss[1])
      [] s.t \in {"union", "inter"} -> Len(s.ss) >= 1 /\ \A k \in DOMAIN s.ss : Admissible(s.ss[k])
      [] s.t = "sub"    -> Len(s.ss) = 2 /\ Admissible(s.ss[1]) /\ Admissible(s.ss[2])
      [] OTHER -> FALSE

(* --------------------- closed-form Euclidean distance --------------------- *)
NoRef == [kind |-> "none", n |-> 0, d |-> 1, r |-> 0]
Sq(n, d, r) == [kind |-> "sq", n |-> n, d |-> d, r |-> r]
Lin(n, d) == [kind |-> "lin", n |-> n, d |-> d, r |-> 0]

RECURSIVE Ref(_, _)
Ref(s, p) ==
    CASE s.t = "sphere" -> Sq(Len2(VSub(p, s.c)), 1, s.r)
      [] s.t = "box" ->
            LET q == BoxQ(s.c, s.b, p) IN
            IF MaxC(q) > 0 THEN Sq(OutSq(q), 4, 0) ELSE Lin(MaxC(q), 2)          \* inside: minus the distance to the nearest face
      [] s.t = "line" ->
            LET pa == VSub(p, s.a)
                ba == VSub(s.b, s.a)
                l2 == Len2(ba)
                y == Dot(pa, ba)
            IN IF l2 = 0 \/ y <= 0 THEN Sq(Len2(pa), 1, s.r)
               ELSE IF y >= l2 THEN Sq(Len2(VSub(p, s.b)), 1, s.r)
               ELSE Sq(Len2(pa) * l2 - y * y, l2, s.r)
      [] s.t = "plane" -> Lin(Dot(VSub(p, s.c), s.n) + s.h * s.nl, s.nl)
      [] s.t = "tr" -> Ref(s.ss[1], VSub(p, s.o))
      [] OTHER -> NoRef

\* the reference and the interior predicate are two readings of one shape
RefAgreesWithCls(s, p) ==
    LET e == Ref(s, p) IN
    CASE e.kind = "sq" -> Sgn(e.n - e.d * e.r * e.r) = Cls(s, p)
      [] e.kind = "lin" -> Sgn(e.n) = Cls(s, p)
      [] OTHER -> TRUE

(* ------------------- predicates on logged values (judge) ------------------ *)
\* |F + r q - q sqrt(n/d)| <= 1   (one unit of 1/q of a lattice unit)
NearSq(F, q, e) ==
    LET X == F + e.r * q
        Y2 == q * q * e.n                      \* d * (q sqrt(n/d))^2
    IN /\ X >= 0 - 1
       /\ Y2 <= e.d * (X + 1) * (X + 1)
       /\ X <= 1 \/ e.d * (X - 1) * (X - 1) <= Y2
NearLin(F, q, e) == Abs(F * e.d - q * e.n) <= e.d

EuclidOK(F, q, e) ==
    CASE e.kind = "sq" -> NearSq(F, q, e)
      [] e.kind = "lin" -> NearLin(F, q, e)
      [] OTHER -> TRUE

\* sign: negative exactly inside, (numerically) zero on the surface
SignOK(cls, F, sg) ==
    CASE cls < 0 -> sg = 0 - 1
      [] cls > 0 -> sg = 1
      [] OTHER   -> Abs(F) <= 1

\* |f(p1) - f(p2)| <= |p1 - p2|  on rounded values: |F1 - F2| <= q |p1 - p2| + 1
LipOK(F1, F2, q, dp2) ==
    LET D == Abs(F1 - F2) IN D <= 1 \/ (D - 1) * (D - 1) <= q * q * dp2

\* combinators on the operands' own signs (sgs: signs of the operand closures at the same point):
\* negative exactly on the union / intersection / difference of the operands' negative sets
SetOpOK(t, sg, sgs) ==
    CASE t = "union" -> (sg < 0) <=> (\E k \in DOMAIN sgs : sgs[k] < 0)
      [] t = "inter" -> (sg < 0) <=> (\A k \in DOMAIN sgs : sgs[k] < 0)
      [] t = "sub"   -> (sg < 0) <=> (sgs[1] < 0 /\ sgs[2] > 0)       \* the open difference: on the cutter's surface the result is not negative
      [] OTHER -> TRUE

(* ---------------------- skeleton samples (round 5) ------------------------ *)
(* A skeleton sample is a point a user constructs ON the shape's skeleton:    *)
(*   m = [part, a, b, tn, o]  :  P = a + (tn/td) (b - a) + o                  *)
(* a, b, o integer vectors in lattice units (real = integer / den * 2^e2),    *)
(* td the denominator of the t ladder of the line (1..12), 0 <= tn <= td.     *)
(* The exact point is rational; td * P is an integer vector, and the shape    *)
(* scaled by td (Scale) is judged there with the integer operators above.     *)
(* int32 budget: td <= 12, q <= 64, |logged F| <= SkBound (checked BEFORE any *)
(* squaring), samples within 25 lattice units of the surface, coordinates of  *)
(* a, b, o and of the shape <= 16 lattice units; rounded cylinders only on    *)
(* the axis / mid-plane region (the corner branch of ClsCyl squares L).       *)
VScale(k, v) == <<k * v[1], k * v[2], k * v[3]>>
RECURSIVE Scale(_, _)
Scale(s, k) ==
    CASE s.t = "sphere" -> [s EXCEPT !.c = VScale(k, @), !.r = k * @]
      [] s.t = "box"    -> [s EXCEPT !.c = VScale(k, @), !.b = VScale(k, @)]
      [] s.t = "rbox"   -> [s EXCEPT !.c = VScale(k, @), !.b = VScale(k, @), !.r = k * @]
      [] s.t = "line"   -> [s EXCEPT !.a = VScale(k, @), !.b = VScale(k, @), !.r = k * @]
      [] s.t = "rcone"  -> [s EXCEPT !.a = VScale(k, @), !.b = VScale(k, @), !.r1 = k * @, !.r2 = k * @]
      [] s.t = "rcyl"   -> [s EXCEPT !.c = VScale(k, @), !.ra = k * @, !.rb = k * @, !.h = k * @]
      [] s.t = "plane"  -> [s EXCEPT !.c = VScale(k, @), !.h = k * @]
      [] s.t = "tr"     -> [s EXCEPT !.ss = <<Scale(@[1], k)>>, !.o = VScale(k, @)]
      [] OTHER          -> [s EXCEPT !.ss = [i \in DOMAIN @ |-> Scale(@[i], k)]]

SkBound == 1600
\* td * P
SkPoint(m, td) == VAdd(VAdd(VScale(td, m.a), VScale(m.tn, VSub(m.b, m.a))), VScale(td, m.o))
SkCls(s, m, td) == Cls(Scale(s, td), SkPoint(m, td))

\* closed-form distance at a skeleton sample, in LATTICE units (same record as Ref).
\* capsule: structural - a point of the core moved by o perpendicular to the axis is at distance |o| from the
\*   core (no td-scaled squares needed; SdfSkel checks this reading against ClsLine on the scaled integers);
\* sphere, box, plane: Ref of the scaled shape at td*P, rescaled.
RECURSIVE SkRef(_, _, _)
SkRef(s, m, td) ==
    CASE s.t = "tr" -> SkRef(s.ss[1], [m EXCEPT !.a = VSub(@, s.o), !.b = VSub(@, s.o)], td)
      [] s.t = "line" ->
            LET ba == VSub(s.b, s.a) IN
            IF {m.a, m.b} \subseteq {s.a, s.b} /\ m.tn \in 0..td /\ (Len2(ba) = 0 \/ Dot(m.o, ba) = 0)
            THEN Sq(Len2(m.o), 1, s.r) ELSE NoRef
      [] s.t \in {"sphere", "box", "plane"} ->
            LET e == Ref(Scale(s, td), SkPoint(m, td)) IN
            IF e.kind = "lin" THEN Lin(e.n, e.d * td) ELSE Sq(e.n, e.d * td * td, e.r \div td)
      [] OTHER -> NoRef

SkRefAgreesWithCls(s, m, td) ==
    LET e == SkRef(s, m, td) IN
    CASE e.kind = "sq" -> Sgn(e.n - e.d * e.r * e.r) = SkCls(s, m, td)
      [] e.kind = "lin" -> Sgn(e.n) = SkCls(s, m, td)
      [] OTHER -> TRUE

\* |F1 - F2| <= q |p1 - p2| + 1 with |p1 - p2|^2 = dp2 / td^2   (callers guarantee |F| <= SkBound)
SkLipOK(F1, F2, q, td, dp2) ==
    LET D == Abs(F1 - F2) IN D <= 1 \/ (D - 1) * (D - 1) * td * td <= q * q * dp2
=============================================================================
