------------------------------ MODULE GltfDoc ------------------------------
(***************************************************************************)
(* C06 -- glTF 2.0 documents as tables, what makes one structurally valid, *)
(* what scene it denotes, and what "stored once" means.                    *)
(*                                                                         *)
(* Two records are related by the operators of this module:                *)
(*                                                                         *)
(*   src : the scene handed to the writer (projected from the real Go      *)
(*         objects through public observers).  Indices are 1-based, 0 =    *)
(*         absent; the index of a mesh / material / texture is the         *)
(*         identity of the Go POINTER (first occurrence).                  *)
(*   o   : the document found in the bytes the real writer produced, read  *)
(*         by an independent parser.  Indices are glTF indices: 0-based,   *)
(*         -1 = absent (-9 = present but malformed).                       *)
(*                                                                         *)
(* Numbers: float32 values are int32 views of their IEEE bit pattern       *)
(* (equality = bit equality; FKey turns them into an order-isomorphic      *)
(* integer for min/max; NaN patterns are never ordered: IsNaN);            *)
(* doubles of node TRS are three bit chunks;                               *)
(* material numbers are in 1/1000; colours on the source side are the      *)
(* 16-bit channels of color.RGBA().                                        *)
(* int32 budget: byte offsets <= 2^24 * 16 bytes; colour band arithmetic   *)
(* <= 1000 * 65535 * 2 = 1.3e8.                                            *)
(***************************************************************************)
EXTENDS Integers, Sequences, FiniteSets, TLC

At0(s, i) == s[i + 1]
In0(i, s) == i >= 0 /\ i < Len(s)
Opt0(i, s) == i = -1 \/ In0(i, s)
Ran(s) == {s[i] : i \in DOMAIN s}
NoDup(s) == \A i, j \in DOMAIN s : i # j => s[i] # s[j]
Abs(x) == IF x < 0 THEN -x ELSE x
SetMin(S) == CHOOSE x \in S : \A y \in S : x <= y
SetMax(S) == CHOOSE x \in S : \A y \in S : x >= y

CompSize(c) == CASE c \in {5120, 5121} -> 1 [] c \in {5122, 5123} -> 2 [] c \in {5125, 5126} -> 4 [] OTHER -> 0
NumComp(t) == CASE t = "SCALAR" -> 1 [] t = "VEC2" -> 2 [] t = "VEC3" -> 3 [] t = "VEC4" -> 4
                [] t = "MAT2" -> 4 [] t = "MAT3" -> 9 [] t = "MAT4" -> 16 [] OTHER -> 0
ElemSize(a) == CompSize(a.comp) * NumComp(a.type)
IsFloat(a) == a.comp = 5126

\* order-isomorphic integer key of a float32 bit pattern (-0.0 and +0.0 coincide)
FKey(b) == IF b >= 0 THEN b ELSE -(b + 2147483647) - 1
Key(a, x) == IF IsFloat(a) THEN FKey(x) ELSE x

\* classes of float32 bit patterns (int32 views): 0x7F800000 = +Inf, 0xFF800000 = -Inf,
\* anything beyond them (all-ones exponent, non-zero mantissa) is a NaN
PosInf == 2139095040
NegInf == -8388608
IsNaN(b) == b > PosInf \/ (b < 0 /\ b > NegInf)
NonFinite(b) == b >= PosInf \/ (b < 0 /\ b >= NegInf)
\* equality of float32 images: the same bits, or both NaN (sign and payload of a NaN are
\* not data: the statement speaks of "the float32 image" of a value, and NaN is one value)
FEq(x, y) == x = y \/ (IsNaN(x) /\ IsNaN(y))
RowEq(isF, r, q) == IF isF THEN Len(r) = Len(q) /\ \A c \in DOMAIN r : FEq(r[c], q[c]) ELSE r = q

(* ======================= container and buffers ========================= *)
GlbOK(c) ==
    /\ c.magic = 1179937895 /\ c.version = 2                 \* "glTF", container version 2
    /\ c.total = c.fileLen /\ c.rest = 0                     \* declared length = bytes; chunks tile the file
    /\ c.nchunks >= 1 /\ c.jsonType = 1313821514 /\ c.jsonOK \* first chunk "JSON", parses as one object
    /\ c.jsonLen % 4 = 0 /\ c.jsonPadBad = 0                 \* 4-byte chunk alignment, padded with spaces
    /\ IF c.binLen = -1
       THEN c.nchunks = 1 /\ c.total = 12 + 8 + c.jsonLen
       ELSE c.nchunks = 2 /\ c.binType = 5130562 /\ c.binLen % 4 = 0
            /\ c.total = 12 + 8 + c.jsonLen + 8 + c.binLen

ContainerOK(o) ==
    /\ o.version = "2.0"
    /\ IF o.cont.kind = "glb" THEN GlbOK(o.cont) ELSE o.cont.jsonOK

\* the payload a buffer names is really there (and is the embedded one)
BufferOK(o, i) ==
    LET b == o.buffers[i] IN
    /\ b.len >= 1 /\ b.padBad = 0
    /\ IF o.cont.kind = "glb"
       THEN \/ b.uri = "bin" /\ i = 1 /\ b.payload >= b.len /\ b.payload - b.len <= 3
            \/ b.uri = "data" /\ b.payload >= b.len
       ELSE b.uri = "data" /\ b.payload >= b.len
BuffersOK(o) ==
    /\ \A i \in DOMAIN o.buffers : BufferOK(o, i)
    /\ (o.cont.kind = "glb" /\ o.cont.binLen # -1) => (o.buffers # <<>> /\ o.buffers[1].uri = "bin")

(* ======================= index references ============================== *)
RefsOK(o) ==
    /\ \A v \in Ran(o.views) : In0(v.buf, o.buffers)
    /\ \A a \in Ran(o.accs) : Opt0(a.view, o.views)
    /\ \A m \in Ran(o.meshes) : \A p \in Ran(m.prims) :
          /\ \A at \in Ran(p.attrs) : In0(at.acc, o.accs)
          /\ Opt0(p.idx, o.accs) /\ Opt0(p.mat, o.mats)
    /\ \A n \in Ran(o.nodes) :
          /\ Opt0(n.mesh, o.meshes) /\ Opt0(n.light, o.lights)
          /\ n.skin = -1 \/ (n.skin >= 0 /\ n.skin < o.nskins)
          /\ \A c \in Ran(n.children) : In0(c, o.nodes)
          /\ \A at \in Ran(n.inst) : In0(at.acc, o.accs)
    /\ \A s \in Ran(o.scenes) : \A r \in Ran(s) : In0(r, o.nodes)
    /\ Opt0(o.scene, o.scenes)
    /\ \A t \in Ran(o.texs) : Opt0(t.src, o.images) /\ Opt0(t.samp, o.samplers)
    /\ \A m \in Ran(o.mats) : \A lf \in Ran(m.leaves) : lf.k = 1 => In0(lf.v, o.texs)

(* ======================= byte ranges and alignment ===================== *)
ViewOK(o, v) ==
    /\ v.len >= 1 /\ v.off >= 0
    /\ v.off + v.len <= At0(o.buffers, v.buf).len
    /\ v.stride = 0 \/ (v.stride >= 4 /\ v.stride <= 252 /\ v.stride % 4 = 0)
ViewsOK(o) == \A v \in Ran(o.views) : ViewOK(o, v)

Stride(o, a) == LET v == At0(o.views, a.view) IN IF v.stride = 0 THEN ElemSize(a) ELSE v.stride
AccRangeOK(o, a) ==
    /\ a.count >= 1 /\ CompSize(a.comp) > 0 /\ NumComp(a.type) > 0 /\ a.off >= 0
    /\ a.view # -1 => a.off + (a.count - 1) * Stride(o, a) + ElemSize(a) <= At0(o.views, a.view).len
AccRangesOK(o) == \A a \in Ran(o.accs) : AccRangeOK(o, a)

AbsOff(o, a) == At0(o.views, a.view).off + a.off
AccAligned(o, a) == a.view # -1 => (AbsOff(o, a) % CompSize(a.comp) = 0 /\ a.off % CompSize(a.comp) = 0)
Misaligned(o) == {i \in DOMAIN o.accs : ~AccAligned(o, o.accs[i])}

\* Explanation of a misaligned accessor used in signatures: all views before
\* it are 4-byte multiples except an ODD number of 16-bit index views whose
\* length is 2 (mod 4) -- i.e. an odd number of 16-bit indices was written and
\* the running offset was never re-aligned.
OddU16IndexViews(o, upto) ==
    {j \in DOMAIN o.views : o.views[j].off < upto /\ o.views[j].target = 34963 /\ o.views[j].len % 4 = 2}
OtherOddViews(o, upto) ==
    {j \in DOMAIN o.views : o.views[j].off < upto /\ o.views[j].len % 4 # 0 /\ ~(o.views[j].target = 34963 /\ o.views[j].len % 4 = 2)}
MisalignCause(o, i) ==
    LET a == o.accs[i]  off == AbsOff(o, a) IN
    IF CompSize(a.comp) = 4 /\ off % 4 = 2 /\ a.off = 0 /\ OtherOddViews(o, off) = {}
       /\ Cardinality(OddU16IndexViews(o, off)) % 2 = 1
    THEN "view-after-odd-u16-indices" ELSE "unexplained"

(* ======================= accessor contents ============================= *)
Comps(a) == 1..NumComp(a.type)
\* NaN.  glTF 2.0 (3.6.2.2) says accessor data MUST NOT contain NaN or +-Inf, and JSON cannot
\* write them, so no document can DECLARE a NaN bound.  The writer nevertheless accepts such
\* attributes; the statement does not exclude them.  What is demanded of a produced file:
\* every structural predicate as for any other data; the stored bits are the float32 image
\* (FEq); and the declared bounds are, PER COMPONENT (3.6.2.5: "per-component minimum and
\* maximum values"), the bounds of the stored values of that component that are numbers.  A
\* component in which every stored value is NaN has no bounds: nothing is demanded of what
\* is declared for it.
NaNAt(a, x) == IsFloat(a) /\ IsNaN(x)
Good(a, c) == {i \in DOMAIN a.vals : ~NaNAt(a, a.vals[i][c])}                       \* a.full only
Clean(a) == {i \in DOMAIN a.vals : \A c \in Comps(a) : ~NaNAt(a, a.vals[i][c])}    \* a.full only
HasVal(a, c) == IF a.full THEN Good(a, c) # {} ELSE a.sum.nan[c] < a.count
HasClean(a) == IF a.full THEN Clean(a) # {} ELSE a.sum.enan < a.count
HasNaN(a) == IF a.full THEN Clean(a) # DOMAIN a.vals ELSE a.sum.enan > 0
\* only meaningful when HasVal(a, c)
DecMin(a, c) == IF a.full THEN SetMin({Key(a, a.vals[i][c]) : i \in Good(a, c)}) ELSE Key(a, a.sum.min[c])
DecMax(a, c) == IF a.full THEN SetMax({Key(a, a.vals[i][c]) : i \in Good(a, c)}) ELSE Key(a, a.sum.max[c])

\* declared bounds equal the bounds of the STORED elements.  glTF 2.0 (3.6.2.5):
\* bounds of float accessors are single precision values; the projection
\* rounds the JSON number to float32 before taking its bits.
MinMaxShape(a) ==
    /\ a.hasMin /\ a.hasMax /\ a.dec
    /\ Len(a.min) = NumComp(a.type) /\ Len(a.max) = NumComp(a.type)
MinMaxOK(a) ==
    (a.hasMin \/ a.hasMax) =>
        /\ MinMaxShape(a)
        /\ IsFloat(a) \/ a.mmExact
        /\ \A c \in Comps(a) :
              /\ ~NaNAt(a, a.min[c]) /\ ~NaNAt(a, a.max[c])
              /\ HasVal(a, c) => (Key(a, a.min[c]) = DecMin(a, c) /\ Key(a, a.max[c]) = DecMax(a, c))

\* Explanation of wrong bounds used in signatures (as MisalignCause): the declared bounds are
\* those of the ELEMENTS that have no NaN component -- an element with a NaN in one component
\* was left out of the bounds of its other components too (with no such element at all the
\* bounds are what float32 makes of +-MaxFloat64, the values the search started from).
EMin(a, c) == IF ~HasClean(a) THEN FKey(PosInf)
              ELSE IF a.full THEN SetMin({Key(a, a.vals[i][c]) : i \in Clean(a)}) ELSE Key(a, a.sum.emin[c])
EMax(a, c) == IF ~HasClean(a) THEN FKey(NegInf)
              ELSE IF a.full THEN SetMax({Key(a, a.vals[i][c]) : i \in Clean(a)}) ELSE Key(a, a.sum.emax[c])
MinMaxCause(a) ==
    IF /\ IsFloat(a) /\ MinMaxShape(a) /\ HasNaN(a)
       /\ \A c \in Comps(a) : Key(a, a.min[c]) = EMin(a, c) /\ Key(a, a.max[c]) = EMax(a, c)
    THEN "nan-element-skipped" ELSE "unexplained"

\* harness self-consistency: the summaries it logs for big accessors are the
\* ones TLC computes itself whenever the elements are logged too
SumConsistent(a) ==
    (a.dec /\ a.full) =>
        /\ a.sum.enan = Cardinality(DOMAIN a.vals \ Clean(a))
        /\ \A c \in Comps(a) :
              /\ a.sum.nan[c] = Cardinality(DOMAIN a.vals \ Good(a, c))
              /\ Good(a, c) # {} => /\ Key(a, a.sum.min[c]) = SetMin({Key(a, a.vals[i][c]) : i \in Good(a, c)})
                                    /\ Key(a, a.sum.max[c]) = SetMax({Key(a, a.vals[i][c]) : i \in Good(a, c)})
              /\ Clean(a) # {} => /\ Key(a, a.sum.emin[c]) = SetMin({Key(a, a.vals[i][c]) : i \in Clean(a)})
                                  /\ Key(a, a.sum.emax[c]) = SetMax({Key(a, a.vals[i][c]) : i \in Clean(a)})

AllPrims(o) == UNION {Ran(m.prims) : m \in Ran(o.meshes)}
VCount(o, p) == IF p.attrs = <<>> THEN 0 ELSE At0(o.accs, p.attrs[1].acc).count
Restart(c) == CASE c = 5121 -> 255 [] c = 5123 -> 65535 [] OTHER -> 2147483647

PositionBounded(o) ==
    \A p \in AllPrims(o) : \A at \in Ran(p.attrs) :
        at.sem = "POSITION" => (At0(o.accs, at.acc).hasMin /\ At0(o.accs, at.acc).hasMax)

IndexOK(o, p) ==
    p.idx # -1 =>
        LET ia == At0(o.accs, p.idx) IN
        /\ ia.type = "SCALAR" /\ ia.comp \in {5121, 5123, 5125} /\ ~ia.norm /\ ia.dec
        /\ DecMin(ia, 1) >= 0 /\ DecMax(ia, 1) < VCount(o, p)        \* every index names a vertex
        /\ DecMax(ia, 1) # Restart(ia.comp)                          \* never the primitive-restart value
IndicesOK(o) == \A p \in AllPrims(o) : IndexOK(o, p)

\* informational (not a verdict): was the narrowest width chosen?
Narrowest(o, p) ==
    p.idx = -1 \/ LET ia == At0(o.accs, p.idx) IN (ia.comp = 5125) = (VCount(o, p) > 65535)

CountsOK(o) ==
    /\ \A p \in AllPrims(o) : \A at \in Ran(p.attrs) : At0(o.accs, at.acc).count = VCount(o, p)
    /\ \A n \in Ran(o.nodes) : \A x, y \in Ran(n.inst) : At0(o.accs, x.acc).count = At0(o.accs, y.acc).count

ExtDeclared(o) ==
    /\ Ran(o.extSeen) \subseteq Ran(o.extUsed)
    /\ Ran(o.extReq) \subseteq Ran(o.extUsed)
    /\ NoDup(o.extUsed) /\ NoDup(o.extReq)

(* ======================= what the document denotes ===================== *)
RootIds(o) == IF o.scenes = <<>> THEN <<>> ELSE At0(o.scenes, IF o.scene = -1 THEN 0 ELSE o.scene)
RootNodes(o) == [i \in DOMAIN RootIds(o) |-> At0(o.nodes, RootIds(o)[i])]
IsMeshNode(n) == n.mesh # -1
IsLightNode(n) == n.light # -1
MeshNodes(o) == SelectSeq(RootNodes(o), IsMeshNode)
LightNodes(o) == SelectSeq(RootNodes(o), IsLightNode)
IsLive(m) == ~m.empty
Live(src) == SelectSeq(src.models, IsLive)

Zero64 == <<0, 0, 0>>
One64 == <<1047552, 0, 0>>          \* bits of 1.0 : 0x3FF0000000000000
DefT == <<Zero64, Zero64, Zero64>>
DefR == <<Zero64, Zero64, Zero64, One64>>
DefS == <<One64, One64, One64>>
Eff(x, d) == IF x = <<>> THEN d ELSE x

NodeTrsOK(n, m) ==
    /\ ~n.hasM
    /\ Eff(n.t, DefT) = Eff(m.trs.t, DefT)
    /\ Eff(n.r, DefR) = Eff(m.trs.r, DefR)
    /\ Eff(n.s, DefS) = Eff(m.trs.s, DefS)

ModeOf(topo) == CASE topo = "point" -> 0 [] topo = "line" -> 1 [] topo = "line loop" -> 2 [] topo = "line strip" -> 3
                  [] topo = "triangle" -> 4 [] OTHER -> -1

Semantic(name) == CASE name = "Position" -> "POSITION" [] name = "Normal" -> "NORMAL" [] name = "Color" -> "COLOR_0"
                    [] name = "TexCoord" -> "TEXCOORD_0" [] name = "Joint" -> "JOINTS_0" [] name = "Weight" -> "WEIGHTS_0"
                    [] OTHER -> name
IsCustom(name) == Semantic(name) = name
\* application-specific attributes: the polyform name, optionally with the "_" glTF asks for
SemMatches(sem, name) == sem = Semantic(name) \/ (IsCustom(name) /\ sem = "_" \o name)

ThePrim(o, n) == At0(o.meshes, n.mesh).prims[1]
OnePrim(o, n) == Len(At0(o.meshes, n.mesh).prims) = 1
NCorners(o, p) == IF p.idx = -1 THEN VCount(o, p) ELSE At0(o.accs, p.idx).count
DIdx(o, p, j) == IF p.idx = -1 THEN j - 1 ELSE At0(o.accs, p.idx).vals[j][1]

AttrSetOK(p, sm) ==
    /\ \A sa \in Ran(sm.attrs) : \E at \in Ran(p.attrs) : SemMatches(at.sem, sa.name)
    /\ \A at \in Ran(p.attrs) : \/ \E sa \in Ran(sm.attrs) : SemMatches(at.sem, sa.name)
                                \/ \E nm \in Ran(sm.f1) : SemMatches(at.sem, nm)
Float1OK(p, sm) == \A nm \in Ran(sm.f1) : \E at \in Ran(p.attrs) : SemMatches(at.sem, nm)

\* the decoded accessor, read per corner through the indices, is the float32
\* (or integer) image of the source attribute read per corner
AttrDataOK(o, p, sm, sa, at) ==
    LET acc == At0(o.accs, at.acc)
        isF == IsFloat(acc)
        img == IF isF THEN sa.data ELSE sa.idata
    IN  /\ NumComp(acc.type) = sa.ar /\ ~acc.norm /\ acc.dec
        /\ isF \/ (acc.comp = 5121 /\ sa.name = "Joint" /\ sa.iexact)
        /\ IF sm.big
           THEN at.cfp # <<>> /\ at.cfp = (IF isF THEN sa.cfp ELSE sa.icfp)
           ELSE /\ acc.full /\ (p.idx = -1 \/ At0(o.accs, p.idx).full)
                /\ \A j \in 1..sm.ni : RowEq(isF, acc.vals[DIdx(o, p, j) + 1], img[sm.idx[j] + 1])

AllAttrDataOK(o, p, sm) ==
    \A sa \in Ran(sm.attrs) : \A at \in Ran(p.attrs) : SemMatches(at.sem, sa.name) => AttrDataOK(o, p, sm, sa, at)

\* does the scene hand the writer a value that is NaN or +-Inf as a float32?  (glTF has no
\* valid document for such a scene: refusing it with an error is an allowed outcome)
MeshNonFinite(sm) == \E sa \in Ran(sm.attrs) : sa.nnf > 0
InstNonFinite(m) == \E x \in Ran(m.inst) : \E v \in Ran(x.t) \cup Ran(x.r) \cup Ran(x.s) : NonFinite(v)
SrcNonFinite(src) == \E m \in Ran(Live(src)) : MeshNonFinite(src.meshes[m.mesh]) \/ InstNonFinite(m)
\* harness self-consistency: the count it logs is the one TLC finds in the logged images
NnfConsistent(sm) ==
    ~sm.big => \A sa \in Ran(sm.attrs) :
        sa.nnf = Cardinality({<<i, c>> \in (DOMAIN sa.data) \X (1..sa.ar) : NonFinite(sa.data[i][c])})

F32Zero == 0
F32One == 1065353216
InstAttrOK(o, n, m, sem, type, def, get(_)) ==
    IF \E at \in Ran(n.inst) : at.sem = sem
    THEN LET acc == At0(o.accs, (CHOOSE at \in Ran(n.inst) : at.sem = sem).acc) IN
         /\ IsFloat(acc) /\ acc.type = type /\ acc.dec /\ acc.full /\ acc.count = Len(m.inst)
         /\ \A i \in DOMAIN m.inst : RowEq(TRUE, acc.vals[i], get(m.inst[i]))
    ELSE \A i \in DOMAIN m.inst : get(m.inst[i]) = def
InstT(x) == x.t
InstR(x) == x.r
InstS(x) == x.s
InstancesOK(o, n, m) ==
    IF m.inst = <<>> THEN n.inst = <<>>
    ELSE /\ {at.sem : at \in Ran(n.inst)} \subseteq {"TRANSLATION", "ROTATION", "SCALE"}
         /\ InstAttrOK(o, n, m, "TRANSLATION", "VEC3", <<F32Zero, F32Zero, F32Zero>>, InstT)
         /\ InstAttrOK(o, n, m, "ROTATION", "VEC4", <<F32Zero, F32Zero, F32Zero, F32One>>, InstR)
         /\ InstAttrOK(o, n, m, "SCALE", "VEC3", <<F32One, F32One, F32One>>, InstS)

(* ----------------------- materials and textures ------------------------ *)
ColourClose(c16, v1000) ==          \* |v/1000 - c/65535| <= 1/2000 : the writer's documented 3-decimal colours
    v1000 \in 0..1000 /\ 2 * Abs(v1000 * 65535 - c16 * 1000) <= 65535

STexDen(src, i) == [uri |-> src.texs[i].uri, samp |-> src.texs[i].samp]
OTexDen(o, i) ==
    LET t == At0(o.texs, i) IN
    [uri |-> IF t.src = -1 THEN "" ELSE At0(o.images, t.src).uri,
     samp |-> IF t.samp = -1 THEN <<>> ELSE At0(o.samplers, t.samp).v]

LeafOK(src, o, s, d) ==
    /\ s.p = d.p
    /\ CASE s.k = 0 -> d.k = 0 /\ d.x /\ s.v = d.v
         [] s.k = 1 -> d.k = 1 /\ At0(o.texs, d.v).ext = <<>> /\ STexDen(src, s.v) = OTexDen(o, d.v)
         [] s.k = 2 -> d.k = 0 /\ ColourClose(s.v, d.v)
         [] OTHER   -> d.k = 3 /\ s.s = d.s

MatDenotes(src, o, sm, om) ==
    /\ Len(sm.leaves) = Len(om.leaves)
    /\ \A i \in DOMAIN sm.leaves : LeafOK(src, o, sm.leaves[i], om.leaves[i])

\* first disagreeing path, for signatures
MatDiffPath(src, o, sm, om) ==
    LET n == IF Len(sm.leaves) < Len(om.leaves) THEN Len(sm.leaves) ELSE Len(om.leaves)
        bad == {i \in 1..n : ~LeafOK(src, o, sm.leaves[i], om.leaves[i])}
    IN  IF bad # {} THEN sm.leaves[SetMin(bad)].p
        ELSE IF Len(sm.leaves) > n THEN sm.leaves[n + 1].p
        ELSE IF Len(om.leaves) > n THEN om.leaves[n + 1].p ELSE "none"

\* value equality of two SOURCE materials (what "equal-by-value duplicate" means)
SLeafEq(src, a, b) ==
    /\ a.p = b.p /\ a.k = b.k
    /\ IF a.k = 1 THEN STexDen(src, a.v) = STexDen(src, b.v) ELSE (a.v = b.v /\ a.s = b.s)
SMatEq(src, i, j) ==
    \/ i = j
    \/ /\ i # 0 /\ j # 0 /\ Len(src.mats[i].leaves) = Len(src.mats[j].leaves)
       /\ src.mats[i].extorder = src.mats[j].extorder      \* Go values: the extension SLICES are equal,
       /\ src.mats[i].shape = src.mats[j].shape            \* the same optional members are nil
       /\ \A k \in DOMAIN src.mats[i].leaves : SLeafEq(src, src.mats[i].leaves[k], src.mats[j].leaves[k])

SourcesExact(src) == \A m \in Ran(src.mats) : \A lf \in Ran(m.leaves) : lf.k = 0 => lf.x

(* ----------------------- lights --------------------------------------- *)
LightOK(o, n, sl) ==
    LET dl == At0(o.lights, n.light)
        dcol == IF dl.col = <<>> THEN <<1000, 1000, 1000>> ELSE [i \in DOMAIN dl.col |-> dl.col[i].v]
        scol == IF sl.col = <<>> THEN <<65535, 65535, 65535>> ELSE sl.col
        num(x, def) == IF x = <<>> THEN def ELSE x[1].v
    IN  /\ n.mesh = -1 /\ ~n.hasM
        /\ Eff(n.t, DefT) = sl.pos
        /\ dl.type = (IF sl.type = "" THEN "point" ELSE sl.type)
        /\ Len(dcol) = 3 /\ \A i \in 1..3 : ColourClose(scol[i], dcol[i])
        /\ num(dl.inten, 1000) = num(sl.inten, 1000)
        /\ (dl.range = <<>>) = (sl.range = <<>>) /\ num(dl.range, 0) = num(sl.range, 0)
        /\ \A x \in Ran(dl.inten) \cup Ran(dl.range) \cup Ran(sl.inten) \cup Ran(sl.range) : x.x

(* ======================= stored once =================================== *)
\* pointer level: what the scene shares, the document shares
SharedMeshOK(o, src) ==
    LET lv == Live(src)  mn == MeshNodes(o) IN
    \A i, j \in DOMAIN lv : (i < j /\ lv[i].mesh = lv[j].mesh) =>
        /\ ThePrim(o, mn[i]).attrs = ThePrim(o, mn[j]).attrs
        /\ ThePrim(o, mn[i]).idx = ThePrim(o, mn[j]).idx
        /\ SMatEq(src, lv[i].mat, lv[j].mat) => mn[i].mesh = mn[j].mesh
SharedMaterialOK(o, src) ==
    LET lv == Live(src)  mn == MeshNodes(o) IN
    \A i, j \in DOMAIN lv : (i < j /\ lv[i].mat = lv[j].mat) => ThePrim(o, mn[i]).mat = ThePrim(o, mn[j]).mat

\* value level: equal-by-value duplicates collapse.  For materials "equal by
\* value" is a statement about the Go values handed in (SMatEq), so it is
\* phrased on the scene; texture / image / sampler rows are plain values.
MaterialOnce(o, src) ==
    LET lv == Live(src)  mn == MeshNodes(o) IN
    \A i, j \in DOMAIN lv : (i < j /\ lv[i].mat # 0 /\ lv[j].mat # 0 /\ SMatEq(src, lv[i].mat, lv[j].mat)) =>
        ThePrim(o, mn[i]).mat = ThePrim(o, mn[j]).mat
TextureOnce(o) == NoDup(o.texs) /\ NoDup(o.images) /\ NoDup(o.samplers)

\* nothing is stored that nobody references
AccRefs(o) == {at.acc : at \in UNION {Ran(p.attrs) : p \in AllPrims(o)}} \cup {p.idx : p \in AllPrims(o)}
                \cup {at.acc : at \in UNION {Ran(n.inst) : n \in Ran(o.nodes)}}
TexRefs(o) == {lf.v : lf \in {x \in UNION {Ran(m.leaves) : m \in Ran(o.mats)} : x.k = 1}}
NoOrphans(o) ==
    /\ (o.nskins = 0 /\ o.nanims = 0) => \A i \in DOMAIN o.accs : i - 1 \in AccRefs(o)
    /\ (o.nskins = 0 /\ o.nanims = 0) => \A i \in DOMAIN o.views : \E a \in Ran(o.accs) : a.view = i - 1
    /\ \A i \in DOMAIN o.mats : \E p \in AllPrims(o) : p.mat = i - 1
    /\ \A i \in DOMAIN o.texs : i - 1 \in TexRefs(o)
    /\ \A i \in DOMAIN o.images : \E t \in Ran(o.texs) : t.src = i - 1
    /\ \A i \in DOMAIN o.samplers : \E t \in Ran(o.texs) : t.samp = i - 1
    /\ \A i \in DOMAIN o.meshes : \E n \in Ran(o.nodes) : n.mesh = i - 1
    /\ \A i \in DOMAIN o.lights : \E n \in Ran(o.nodes) : n.light = i - 1
    /\ \A i \in DOMAIN o.nodes : \/ \E r \in Ran(RootIds(o)) : r = i - 1
                                 \/ \E n \in Ran(o.nodes) : i - 1 \in Ran(n.children)
=============================================================================
