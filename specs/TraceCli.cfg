SPECIFICATION TSpec
POSTCONDITION TraceAccepted
CHECK_DEADLOCK FALSE
