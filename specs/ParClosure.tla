----------------------------- MODULE ParClosure -----------------------------
(***************************************************************************)
(* C10 -- the FIELD CLOSURE is a shared object.  AddFieldParallel /        *)
(* AddFieldParallel2 hand ONE Field value to all jobs: every worker calls  *)
(* the same sampling closure, concurrently, at its own points.  Closures   *)
(* of the marching package have internal structure (CombineFields and      *)
(* MultiSegmentLine own an octree over their parts: a call first QUERIES   *)
(* which parts contain the point, then evaluates those parts).  Contract:  *)
(* the closure is a PURE function -- the sample a job stores may depend on *)
(* the point only, never on what other jobs ask at the same time.          *)
(*                                                                         *)
(* A call of worker k at point p is  reset the hit list ; append the hits  *)
(* of p (one step per part) ; read the hit list and evaluate.              *)
(*   SharedScratch = FALSE  the hit list is allocated per call             *)
(*   SharedScratch = TRUE   the hit list is a buffer kept in the queried   *)
(*                          structure (saves an allocation per sample)     *)
(* Checked: Pure (every finished call used exactly the parts containing    *)
(* its point) and NoRace (no two calls between reset and read of the same  *)
(* buffer).  TLC refutes both for the shared buffer (ParClosureShared.cfg) *)
(* and passes the per-call design (ParClosure.cfg).  The verdict on the    *)
(* real code comes from executing such fields through every parallel entry *)
(* point against AddField, and from the race detector (checks/parfam.py).  *)
(*                                                                         *)
(* As generator it prints the field-kind classes to execute:               *)
(*   {"ckind": "union"|"msline", "parts": 2..MaxParts, "span": 1|2|3       *)
(*    (storage blocks the field spans: one, two, more)}                    *)
(***************************************************************************)
EXTENDS Integers, Sequences, FiniteSets, TLC, Json

CONSTANTS MaxParts, SharedScratch

Workers == {1, 2}
VARIABLES cls,          \* the class: kind of closure, number of parts, blocks spanned
          pt,           \* per worker: the set of parts that contain its point
          pc, nxt,      \* per worker: program counter, next part to test
          buf,          \* hit lists: buf[0] is the shared one, buf[k] worker k's own
          got           \* per worker: the parts its finished call evaluated
vars == <<cls, pt, pc, nxt, buf, got>>

Parts == 1 .. cls.parts
B(k) == IF SharedScratch THEN 0 ELSE k

Init ==
    /\ cls \in [ckind : {"union", "msline"}, parts : 2 .. MaxParts, span : {1, 2, 3}]
    /\ pt \in [Workers -> SUBSET (1 .. cls.parts)]
    /\ pc = [k \in Workers |-> "reset"]
    /\ nxt = [k \in Workers |-> 1]
    /\ buf = [b \in {0} \cup Workers |-> {}]
    /\ got = [k \in Workers |-> {}]

Reset(k) == /\ pc[k] = "reset"
            /\ buf' = [buf EXCEPT ![B(k)] = {}]
            /\ pc' = [pc EXCEPT ![k] = "scan"]
            /\ UNCHANGED <<cls, pt, nxt, got>>
Scan(k) ==  /\ pc[k] = "scan"
            /\ buf' = IF nxt[k] \in pt[k] THEN [buf EXCEPT ![B(k)] = @ \cup {nxt[k]}] ELSE buf
            /\ nxt' = [nxt EXCEPT ![k] = @ + 1]
            /\ pc' = [pc EXCEPT ![k] = IF nxt[k] = cls.parts THEN "read" ELSE "scan"]
            /\ UNCHANGED <<cls, pt, got>>
Read(k) ==  /\ pc[k] = "read"
            /\ got' = [got EXCEPT ![k] = buf[B(k)]]
            /\ pc' = [pc EXCEPT ![k] = "done"]
            /\ UNCHANGED <<cls, pt, nxt, buf>>
\* single-block fields are one job: the calls of a one-job field do not overlap
Concurrent == cls.span > 1
Next == \E k \in Workers :
            /\ (~Concurrent => \A j \in Workers : j < k => pc[j] = "done")
            /\ (Reset(k) \/ Scan(k) \/ Read(k))
Spec == Init /\ [][Next]_vars

Pure == \A k \in Workers : pc[k] = "done" => got[k] = pt[k]
InCall(k) == pc[k] \in {"scan", "read"}
NoRace == \A j, k \in Workers : j # k /\ InCall(j) /\ InCall(k) => B(j) # B(k)

Done == \A k \in Workers : pc[k] = "done"
Emit == ~Done \/ PrintT(ToJson(cls))
=============================================================================
