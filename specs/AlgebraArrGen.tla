---------------------------- MODULE AlgebraArrGen ----------------------------
(***************************************************************************)
(* Generator of the SIZE LADDER for the array-level entry points of the    *)
(* transform algebra (C17, round 5).  Every element of                     *)
(*     entry points x lengths x processor counts                           *)
(* is an initial state and is printed once as a case                       *)
(*   [k = "arr", ep, n, procs, seed, t, word, s, idx]                      *)
(* (idx: the indices to observe element by element, AlgebraArr!ArrSamples).*)
(* The TRS triple rotates with entry point, length, processors and Seed.   *)
(*                                                                         *)
(* Lengths: 0..3; around every power of two 2^k, k in Ks: 2^k - 1, 2^k,    *)
(* 2^k + 1, 2^k + 3; for k in BigKs also 2^k + 5, 2^k + 13 and 3 * 2^(k-1) *)
(* + 1 (between the powers).  2^k +- 1 are odd, and one of them is not a   *)
(* multiple of 3; 2^k + 3, + 5, + 13 are not multiples of 2, 4, 8, 16, and *)
(* for every p in 3, 5, 6, 7 one of them is not a multiple of p: for every *)
(* processor count p >= 2 of the ladder and every k the ladder holds a     *)
(* length that p does not divide (TLC checks this: ASSUME Undivided).      *)
(* Processor counts: the constant Procs (1 = sequential, 2, 3, 4, 7, 16).  *)
(***************************************************************************)
EXTENDS AlgebraArr, Json

CONSTANTS Seed, Ks, BigKs, Procs

VARIABLES c
vars == <<c>>

RECURSIVE Pow2(_)
Pow2(k) == IF k = 0 THEN 1 ELSE 2 * Pow2(k - 1)

Lengths == (0..3)
           \cup UNION {{Pow2(k) - 1, Pow2(k), Pow2(k) + 1, Pow2(k) + 3} : k \in Ks}
           \cup UNION {{Pow2(k) + 5, Pow2(k) + 13, 3 * Pow2(k - 1) + 1} : k \in BigKs}

ASSUME BigKs \subseteq Ks /\ \A k \in Ks : k >= 3 /\ k <= 17
ASSUME Undivided == \A p \in Procs : p >= 2 => \A k \in Ks : \E n \in Lengths : n >= Pow2(k) /\ n < 2 * Pow2(k) /\ n % p # 0

Case(e, n, p) ==
    LET tr == ArrTriples[((3 * e + n + p + Seed) % Len(ArrTriples)) + 1]
        sd == (Seed * 7919 + 13 * e) % 30000
    IN [k |-> "arr", ep |-> ArrEps[e].ep, n |-> n, procs |-> p, seed |-> sd,
        t |-> tr.t, word |-> tr.word, s |-> tr.s, idx |-> ArrSamples(n, p, sd)]

Cases == {Case(e, n, p) : e \in {x \in DOMAIN ArrEps : TRUE}, n \in Lengths, p \in Procs}

Init == c \in {x \in Cases : x.n >= (IF ArrEpOf(x.ep).mesh THEN 1 ELSE 0)}
Next == FALSE /\ UNCHANGED vars
Spec == Init /\ [][Next]_vars

Emit == PrintT(ToJson(c))
=============================================================================
