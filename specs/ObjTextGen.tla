----------------------------- MODULE ObjTextGen -----------------------------
(***************************************************************************)
(* Generator of C05 "load" cases: valid triangulated OBJ texts with g,     *)
(* usemtl and f statements in every arrangement up to a bound.             *)
(*                                                                         *)
(* The state is a SKELETON: a sequence over the alphabet                   *)
(*   "Ga" "Gb"        g statements (two names; "Gb" only after a "Ga")     *)
(*   "Ur" "Ub"        usemtl red / blue ("Ub" only after a "Ur")           *)
(*   "F1".."F4"       a face in syntax v | v/vt | v//vn | v/vt/vn          *)
(*   "D"              one more v, vt and vn line (declarations between     *)
(*                    faces; later faces may use them)                     *)
(* Stmts(sk) turns it into statements: a comment, a pool of 3 v, 2 vt and  *)
(* 2 vn lines (different sizes on purpose), then one statement (three for  *)
(* "D") per symbol.  The k-th face takes v indices k+1,k+2,k+3 (mod pool)  *)
(* and vt/vn indices on different strides, so a reader/writer that uses    *)
(* one pool's index for another is caught, and tokens repeat between faces *)
(* (corner sharing) and differ only in vt/vn (no sharing allowed).         *)
(* So faces before any g or usemtl, usemtl before/after g, repeated or     *)
(* trailing g/usemtl, material carried across groups, groups that mix      *)
(* corner syntaxes are all enumerated.                                     *)
(*                                                                         *)
(* Checked on the specification itself:                                    *)
(*   ValidText     every generated text is accepted by the format machine  *)
(*   ResaveDesign  (models of ObjImpl, repaired algorithms) load + save    *)
(*                 yields a valid text with the same bag of faces          *)
(* RiskyEmit prints texts for which the PINNED algorithms lose or invent   *)
(* faces / write an invalid file on the model.                             *)
(***************************************************************************)
EXTENDS ObjImpl, Json

CONSTANTS Depth,        \* skeleton length bound
          MinFaces      \* emit only skeletons with at least this many faces

VARIABLES sk
vars == <<sk>>

Q == 1024
Alphabet == {"Ga", "Gb", "Ur", "Ub", "F1", "F2", "F3", "F4", "D"}
IsFace(s) == s \in {"F1", "F2", "F3", "F4"}
NFaces(s) == Cardinality({i \in DOMAIN s : IsFace(s[i])})
Has(s, x) == \E i \in DOMAIN s : s[i] = x

V(i) == <<i * 1024, (i % 3) * 512 - 256, 0 - i>>
VT(i) == <<i * 256, 1024 - i>>
VN(i) == <<(i % 2) * 1024, ((i + 1) % 2) * 1024, i>>

S0 == [out |-> <<St("x", <<>>, <<>>, "")>>
               \o [i \in 1..3 |-> St("v", V(i), <<>>, "")]
               \o [i \in 1..2 |-> St("vt", VT(i), <<>>, "")]
               \o [i \in 1..2 |-> St("vn", VN(i), <<>>, "")],
       nv |-> 3, nvt |-> 2, nvn |-> 2, nf |-> 0]

FaceOf(a, sym) ==
    St("f", <<>>,
       [c \in 1..3 |-> <<((a.nf + c - 1) % a.nv) + 1,
                         IF sym \in {"F2", "F4"} THEN ((a.nf + 2 * c) % a.nvt) + 1 ELSE 0,
                         IF sym \in {"F3", "F4"} THEN ((2 * a.nf + c) % a.nvn) + 1 ELSE 0>>],
       "")

Sym(a, sym) ==
    CASE sym = "Ga" -> [a EXCEPT !.out = Append(@, St("g", <<>>, <<>>, "one"))]
      [] sym = "Gb" -> [a EXCEPT !.out = Append(@, St("g", <<>>, <<>>, "two 2"))]
      [] sym = "Ur" -> [a EXCEPT !.out = Append(@, St("usemtl", <<>>, <<>>, "red"))]
      [] sym = "Ub" -> [a EXCEPT !.out = Append(@, St("usemtl", <<>>, <<>>, "blue"))]
      [] sym = "D" -> [a EXCEPT !.out = @ \o <<St("v", V(a.nv + 1), <<>>, ""), St("vt", VT(a.nvt + 1), <<>>, ""),
                                                St("vn", VN(a.nvn + 1), <<>>, "")>>,
                                !.nv = @ + 1, !.nvt = @ + 1, !.nvn = @ + 1]
      [] OTHER -> [a EXCEPT !.out = Append(@, FaceOf(a, sym)), !.nf = @ + 1]

Stmts(s) == FoldLeft(Sym, S0, s).out

Allowed(s, x) ==
    /\ x = "Gb" => Has(s, "Ga")
    /\ x = "Ub" => Has(s, "Ur")
    /\ x = "D" => (s # <<>> /\ s[Len(s)] # "D")      \* no two declaration blocks in a row, none first

Init == sk = <<>>
Next == /\ Len(sk) < Depth
        /\ \E x \in {y \in Alphabet : Allowed(sk, y)} : sk' = Append(sk, x)
Spec == Init /\ [][Next]_vars

(* ---------------- design-level properties ------------------------------ *)
ValidText == Denote(Stmts(sk)).ok
ResaveDesign == ResaveBad(Stmts(sk), FALSE, Fixed) = {}

(* ---------------- generator output ------------------------------------- *)
Case(tag) == [k |-> "ld", tag |-> tag, enc |-> "lat", q |-> Q, sk |-> sk, gen |-> Stmts(sk)]
Emit == NFaces(sk) < MinFaces \/ PrintT(ToJson(Case("bfs")))
EmitLeaf == Len(sk) < Depth \/ NFaces(sk) < MinFaces \/ PrintT(ToJson(Case("sim")))
RiskyEmit ==
    \/ ResaveBad(Stmts(sk), TRUE, Pinned) = {}
    \/ PrintT(ToJson([risky |-> Case("risky"), why |-> ResaveBad(Stmts(sk), TRUE, Pinned)]))
=============================================================================
