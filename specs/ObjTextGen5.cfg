CONSTANTS
  Depth = 5
  MinFaces = 1
SPECIFICATION Spec
INVARIANTS ValidText ResaveDesign Emit RiskyEmit
CHECK_DEADLOCK FALSE
