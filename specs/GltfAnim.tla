------------------------------ MODULE GltfAnim ------------------------------
(***************************************************************************)
(* X07 -- skinned and animated models in glTF 2.0 documents.               *)
(*                                                                         *)
(* EXTENDS the document model of C06 (GltfDoc): the same two records       *)
(*   src : the scene handed to the writer,   o : the document read back,   *)
(* plus two records for what C06 leaves out:                               *)
(*                                                                         *)
(*   xs : skeletons and sequences of the scene, through public observers   *)
(*        of modeling/animation, taken BEFORE the writer ran:              *)
(*        xs.skels[p]   one entry per *animation.Skeleton POINTER (first    *)
(*                      occurrence): n = JointCount, children[j] =         *)
(*                      Children(j-1) (0-based joint numbers), rel[j] =    *)
(*                      RelativePosition as doubles (3 bit chunks per      *)
(*                      component), ibm[j] = float32 image of              *)
(*                      InverseBindMatrix(j-1) in glTF (column-major)      *)
(*                      order, nworld32[j] = float32 image of              *)
(*                      -WorldPosition, worldq[j] = WorldPosition x 1024;  *)
(*        xs.models[i]  parallel to src.models: skel = pool index (0 nil), *)
(*                      anims = the Sequences: joint = Skeleton.Lookup of  *)
(*                      the path (-1: no such joint / no skeleton), t / v  *)
(*                      = float32 images of the frame times / values,      *)
(*                      texact = every time IS a float32.                  *)
(*   xo : the "skins" / "animations" tables of the document (glTF indices, *)
(*        0-based, -1 absent, -9 malformed) and integer images (x 1024) of  *)
(*        node translations and decoded inverse bind matrices.             *)
(*                                                                         *)
(* Numbers as in GltfDoc (float32 = int32 view of the bits).  Matrices are *)
(* compared as NUMBERS (+0 = -0): a reference that comes out of a matrix   *)
(* inversion has no meaningful sign of zero.  int32 budget: the bind-pose  *)
(* check adds lattice translations along a chain of at most 64 nodes and   *)
(* is only evaluated when every term is at most 2^22 (4096 units):         *)
(* 64 x 2^22 = 2^28.                                                       *)
(***************************************************************************)
EXTENDS GltfDoc

MinInt == -2147483647 - 1
IsZero32(b) == b = 0 \/ b = MinInt
NEq(x, y) == FEq(x, y) \/ (IsZero32(x) /\ IsZero32(y))
MatEq(r, q) == Len(r) = 16 /\ Len(q) = 16 /\ \A c \in 1..16 : NEq(r[c], q[c])
\* the matrix "translate by t" in column-major order (t = three float32 images)
TransMat(t) == <<F32One, 0, 0, 0,  0, F32One, 0, 0,  0, 0, F32One, 0,  t[1], t[2], t[3], F32One>>

NodeIds(o) == 0..(Len(o.nodes) - 1)
LiveIx(src) == LET T(i) == ~src.models[i].empty IN SelectSeq([i \in DOMAIN src.models |-> i], T)
MeshNodeIds(o) == LET T(r) == At0(o.nodes, r).mesh # -1 IN SelectSeq(RootIds(o), T)

(* ======================= the node graph ================================ *)
Parents(o, i) == {j \in NodeIds(o) : i \in Ran(At0(o.nodes, j).children)}
RECURSIVE Up(_, _, _)
Up(o, i, k) == IF k = 0 THEN {i} ELSE {i} \cup UNION {Up(o, p, k - 1) : p \in Parents(o, i)}
AncSelf(o, i) == Up(o, i, Len(o.nodes))
\* glTF 3.5.2: nodes form a set of disjoint strict trees; scene.nodes are roots
Forest(o) ==
    /\ \A i \in NodeIds(o) : Cardinality(Parents(o, i)) <= 1 /\ NoDup(At0(o.nodes, i).children)
    /\ \A i \in NodeIds(o) : i \notin UNION {AncSelf(o, p) : p \in Parents(o, i)}
    /\ \A s \in Ran(o.scenes) : NoDup(s) /\ \A r \in Ran(s) : Parents(o, r) = {}

(* ======================= skins: structure ============================== *)
SkinRefsOK(o, xo) ==
    /\ Len(xo.skins) = o.nskins /\ Len(xo.anims) = o.nanims /\ Len(xo.nodes) = Len(o.nodes)
    /\ \A s \in Ran(xo.skins) :
          /\ s.joints # <<>> /\ NoDup(s.joints) /\ \A j \in Ran(s.joints) : In0(j, o.nodes)
          /\ Opt0(s.ibm, o.accs) /\ Opt0(s.skeleton, o.nodes)
    /\ \A n \in Ran(o.nodes) : n.skin # -1 => n.mesh # -1          \* 5.25: skin only next to a mesh

\* 5.28: MAT4 of floats, one matrix per joint (the statement says "count = joint count")
SkinIBMOK(o, s) ==
    s.ibm # -1 => LET a == At0(o.accs, s.ibm) IN
        a.type = "MAT4" /\ a.comp = 5126 /\ ~a.norm /\ a.view # -1 /\ a.dec /\ a.count = Len(s.joints)

\* 3.7.3.1: the joints have a common root; a declared skin.skeleton is such a root
CommonRoots(o, s) == LET anc == [j \in DOMAIN s.joints |-> AncSelf(o, s.joints[j])] IN     \* once per joint
                     {r \in NodeIds(o) : \A j \in DOMAIN s.joints : r \in anc[j]}
SkinRootOK(o, s) == CommonRoots(o, s) # {} /\ (s.skeleton # -1 => s.skeleton \in CommonRoots(o, s))

(* ======================= animations: structure ========================= *)
Paths == {"translation", "rotation", "scale", "weights"}
Interps == {"LINEAR", "STEP", "CUBICSPLINE", ""}       \* "" = absent, glTF default LINEAR
EffInterp(x) == IF x = "" THEN "LINEAR" ELSE x
AnimRefsOK(o, xo) ==
    \A a \in Ran(xo.anims) :
        /\ a.channels # <<>> /\ a.samplers # <<>>
        /\ \A c \in Ran(a.channels) : In0(c.sampler, a.samplers) /\ In0(c.node, o.nodes) /\ c.path \in Paths
        /\ \A s \in Ran(a.samplers) : In0(s.input, o.accs) /\ In0(s.output, o.accs) /\ s.interp \in Interps
        /\ \A i, j \in DOMAIN a.channels : i # j =>
              <<a.channels[i].node, a.channels[i].path>> # <<a.channels[j].node, a.channels[j].path>>

\* 5.8.3 input: scalar floats, strictly increasing, first >= 0, min and max declared (their values
\* are judged by GltfDoc!MinMaxOK)
InputOK(a) ==
    /\ a.type = "SCALAR" /\ a.comp = 5126 /\ ~a.norm /\ a.dec /\ a.full
    /\ a.hasMin /\ a.hasMax
    /\ \A i \in DOMAIN a.vals : ~NonFinite(a.vals[i][1])
    /\ FKey(a.vals[1][1]) >= 0
    /\ \A i \in 1..(Len(a.vals) - 1) : FKey(a.vals[i][1]) < FKey(a.vals[i + 1][1])
OutType(path) == CASE path = "rotation" -> "VEC4" [] path = "weights" -> "SCALAR" [] OTHER -> "VEC3"
OutputOK(o, ch, smp) ==
    LET ia == At0(o.accs, smp.input)  oa == At0(o.accs, smp.output) IN
    /\ oa.dec /\ oa.type = OutType(ch.path)
    /\ oa.comp = 5126 \/ (oa.norm /\ oa.comp \in {5120, 5121, 5122, 5123})
    /\ IF EffInterp(smp.interp) = "CUBICSPLINE" THEN ia.count >= 2 /\ oa.count = 3 * ia.count
       ELSE ch.path = "weights" \/ oa.count = ia.count

\* accessors only skins / animations reference
XAccIds(o, xo) == ({s.ibm : s \in Ran(xo.skins)} \ {-1})
                  \cup UNION {{s.input, s.output} : s \in UNION {Ran(a.samplers) : a \in Ran(xo.anims)}}
XNoOrphans(o, xo) ==
    /\ \A i \in DOMAIN xo.skins : \E n \in Ran(o.nodes) : n.skin = i - 1
    /\ \A i \in DOMAIN o.accs : i - 1 \in AccRefs(o) \cup XAccIds(o, xo)
    /\ \A i \in DOMAIN o.views : \E a \in Ran(o.accs) : a.view = i - 1

(* ======================= what the document denotes ===================== *)
SkinMirrors(o, sk, s) ==
    /\ Len(s.joints) = sk.n
    /\ \A j \in 1..sk.n : LET jn == At0(o.nodes, s.joints[j]) IN
          /\ Len(jn.children) = Len(sk.children[j])
          /\ Ran(jn.children) = {s.joints[c + 1] : c \in Ran(sk.children[j])}
          /\ jn.mesh = -1 /\ jn.skin = -1 /\ jn.light = -1 /\ jn.inst = <<>>
    /\ Parents(o, s.joints[1]) = {}                 \* joint 0 is the root of a Skeleton

\* joint nodes carry the Skeleton's relative positions (exact doubles, as model TRS in C06)
JointTrsOK(o, sk, s) ==
    \A j \in 1..sk.n : LET jn == At0(o.nodes, s.joints[j]) IN
        ~jn.hasM /\ Eff(jn.t, DefT) = sk.rel[j] /\ Eff(jn.r, DefR) = DefR /\ Eff(jn.s, DefS) = DefS

IbmReady(o, s) == s.ibm # -1 /\ At0(o.accs, s.ibm).dec /\ At0(o.accs, s.ibm).full
                  /\ At0(o.accs, s.ibm).type = "MAT4" /\ At0(o.accs, s.ibm).comp = 5126
                  /\ At0(o.accs, s.ibm).count >= Len(s.joints)
InverseBindOK(o, sk, s) ==
    LET a == At0(o.accs, s.ibm) IN \A j \in 1..sk.n : MatEq(a.vals[j], sk.ibm[j])
\* explanation used in signatures: the stored matrices are "translate by -WorldPosition" although
\* some joint of the Skeleton is not axis-aligned (its InverseBindMatrix has a rotation part)
InverseBindCause(o, sk, s) ==
    LET a == At0(o.accs, s.ibm) IN
    IF /\ \A j \in 1..sk.n : MatEq(a.vals[j], TransMat(sk.nworld32[j]))
       /\ \E j \in 1..sk.n : ~MatEq(sk.ibm[j], TransMat(sk.nworld32[j]))
    THEN "orientation-ignored" ELSE "unexplained"

\* Self-consistency of the document, independent of the Skeleton API: in the rest pose every
\* joint is where its inverse bind matrix says, i.e. ibm[j] * global(joint j) = identity.
\* Judged in exact integers (1/1024) when everything on the way is a pure lattice translation.
Small(q) == q >= -4194304 /\ q <= 4194304
PureT(o, xo, i) == LET n == At0(o.nodes, i) IN
    ~n.hasM /\ Eff(n.r, DefR) = DefR /\ Eff(n.s, DefS) = DefS /\ At0(xo.nodes, i).tx
    /\ \A c \in 1..3 : Small(At0(xo.nodes, i).tq[c])
RECURSIVE GlobalT(_, _, _, _, _)
GlobalT(o, xo, i, c, k) ==
    At0(xo.nodes, i).tq[c] + (IF k = 0 \/ Parents(o, i) = {} THEN 0
                              ELSE GlobalT(o, xo, CHOOSE p \in Parents(o, i) : TRUE, c, k - 1))
BindPoseJudged(o, xo, s) ==
    /\ s.ibmx /\ Len(s.ibmq) >= Len(s.joints) /\ Len(o.nodes) <= 64
    /\ \A j \in Ran(s.joints) : \A a \in AncSelf(o, j) : PureT(o, xo, a)
BindPoseOK(o, xo, s) ==
    \A j \in DOMAIN s.joints :
        s.ibmq[j] = <<1024, 0, 0, 0,  0, 1024, 0, 0,  0, 0, 1024, 0,
                      -GlobalT(o, xo, s.joints[j], 1, 64), -GlobalT(o, xo, s.joints[j], 2, 64),
                      -GlobalT(o, xo, s.joints[j], 3, 64), 1024>>

(* ----------------------- JOINTS_0 / WEIGHTS_0 -------------------------- *)
SrcAttr(sm, name) == CHOOSE a \in Ran(sm.attrs) : a.name = name
HasSrcAttr(sm, name) == \E a \in Ran(sm.attrs) : a.name = name
\* the source mesh is rigged for a skeleton of nj joints
SrcRigOK(sm, nj) ==
    /\ ~sm.big /\ HasSrcAttr(sm, "Joint") /\ HasSrcAttr(sm, "Weight")
    /\ SrcAttr(sm, "Joint").ar = 4 /\ SrcAttr(sm, "Weight").ar = 4 /\ SrcAttr(sm, "Joint").iexact
    /\ \A r \in Ran(SrcAttr(sm, "Joint").idata) : \A c \in 1..4 : r[c] < nj
PrimAcc(o, p, sem) == At0(o.accs, (CHOOSE at \in Ran(p.attrs) : at.sem = sem).acc)
HasSem(p, sem) == \E at \in Ran(p.attrs) : at.sem = sem
\* 3.7.3.3: JOINTS_0 unsigned byte / short VEC4, every index names a joint of the node's skin
JointIndicesOK(o, p, s) ==
    /\ HasSem(p, "JOINTS_0")
    /\ LET a == PrimAcc(o, p, "JOINTS_0") IN
          /\ a.type = "VEC4" /\ a.comp \in {5121, 5123} /\ ~a.norm /\ a.dec
          /\ \A c \in 1..4 : DecMax(a, c) < Len(s.joints)
\* quarter lattice on which the generators put weights (others: -1, sum not judged)
Quarter(b) == CASE IsZero32(b) -> 0 [] b = 1048576000 -> 1 [] b = 1056964608 -> 2 [] b = 1061158912 -> 3
                [] b = F32One -> 4 [] OTHER -> -1
\* WEIGHTS_0 float (or normalised integer) VEC4, no negative weight, each vertex sums to one
WeightsOK(o, p) ==
    /\ HasSem(p, "WEIGHTS_0")
    /\ LET a == PrimAcc(o, p, "WEIGHTS_0") IN
          /\ a.type = "VEC4" /\ a.dec /\ (a.comp = 5126 \/ (a.norm /\ a.comp \in {5121, 5123}))
          /\ (a.comp = 5126 /\ a.full) =>
                \A r \in Ran(a.vals) :
                    /\ \A c \in 1..4 : ~NonFinite(r[c]) /\ FKey(r[c]) >= 0
                    /\ (\A c \in 1..4 : Quarter(r[c]) # -1) =>
                          Quarter(r[1]) + Quarter(r[2]) + Quarter(r[3]) + Quarter(r[4]) = 4
WeightSumJudged(o, p) ==
    HasSem(p, "WEIGHTS_0") /\ LET a == PrimAcc(o, p, "WEIGHTS_0") IN
        a.comp = 5126 /\ a.full /\ a.type = "VEC4" /\ \A r \in Ran(a.vals) : \A c \in 1..4 : Quarter(r[c]) # -1

(* ----------------------- sequences ------------------------------------- *)
Increasing(t) == /\ \A i \in DOMAIN t : ~NonFinite(t[i])
                 /\ FKey(t[1]) >= 0
                 /\ \A i \in 1..(Len(t) - 1) : FKey(t[i]) < FKey(t[i + 1])
ValsFinite(sq) == \A i \in DOMAIN sq.v : \A c \in 1..3 : ~NonFinite(sq.v[i][c])
\* a Sequence glTF can carry: names a joint, has a key frame, times >= 0 and strictly increasing
SeqValid(sq) == sq.joint # -1 /\ sq.t # <<>> /\ sq.texact /\ Increasing(sq.t) /\ ValsFinite(sq)
SeqInvalid(sq) == sq.joint = -1 \/ sq.t = <<>> \/ (sq.texact /\ ~Increasing(sq.t)) \/ ~ValsFinite(sq)
SeqCause(sq) == IF sq.joint = -1 THEN "unknown-joint" ELSE IF sq.t = <<>> THEN "no-frames"
                ELSE IF ~ValsFinite(sq) THEN "non-finite-value"
                ELSE IF FKey(sq.t[1]) < 0 THEN "negative-time" ELSE "times-not-increasing"
XModelInvalid(xm) == xm.anims # <<>> /\ (xm.skel = 0 \/ \E sq \in Ran(xm.anims) : SeqInvalid(sq))
XModelValid(xm) == xm.anims = <<>> \/ (xm.skel # 0 /\ \A sq \in Ran(xm.anims) : SeqValid(sq))
LiveX(src, xs) == {xs.models[i] : i \in Ran(LiveIx(src))}
\* glTF 3.7.3.3 / 5.25: a node with a skin needs JOINTS_0 and WEIGHTS_0 on its mesh, and every joint index must name
\* a joint of that skin: a model whose skeleton meets a mesh that is not rigged for it (no Joint / Weight attribute, or
\* a joint number the skeleton does not have) has no valid document either
Unrigged(src, xs, i) ==
    /\ xs.models[i].skel # 0 /\ ~src.meshes[src.models[i].mesh].big
    /\ ~SrcRigOK(src.meshes[src.models[i].mesh], xs.skels[xs.models[i].skel].n)
SceneClass(src, xs) == IF \/ \E xm \in LiveX(src, xs) : XModelInvalid(xm)
                          \/ \E i \in Ran(LiveIx(src)) : Unrigged(src, xs, i) THEN "invalid"
                       ELSE IF \A xm \in LiveX(src, xs) : XModelValid(xm) THEN "valid" ELSE "undetermined"
InvalidCauses(src, xs) ==
    UNION {IF xm.anims # <<>> /\ xm.skel = 0 THEN {"no-skeleton"}
           ELSE {SeqCause(sq) : sq \in {q \in Ran(xm.anims) : SeqInvalid(q)}} : xm \in LiveX(src, xs)}
    \cup (IF \E i \in Ran(LiveIx(src)) : Unrigged(src, xs, i) THEN {"mesh-not-rigged"} ELSE {})

\* the sequences of the live models in scene order: <<[k |-> position among live models, q |-> sequence]>>
RECURSIVE FlatSeqs(_, _, _)
FlatSeqs(xs, lv, i) ==
    IF i > Len(lv) THEN <<>>
    ELSE [q \in DOMAIN xs.models[lv[i]].anims |-> [k |-> i, q |-> q]] \o FlatSeqs(xs, lv, i + 1)

TheChannel(a) == a.channels[1]
TheSampler(a) == At0(a.samplers, a.channels[1].sampler)
AnimTargetOK(a, s, sq) == TheChannel(a).path = "translation" /\ TheChannel(a).node = s.joints[sq.joint + 1]
AnimInterpOK(a) == EffInterp(TheSampler(a).interp) = "LINEAR"
AnimTimesOK(o, a, sq) ==
    LET ia == At0(o.accs, TheSampler(a).input) IN
    /\ ia.dec /\ ia.full /\ ia.type = "SCALAR" /\ IsFloat(ia) /\ Len(ia.vals) = Len(sq.t)
    /\ \A i \in DOMAIN sq.t : FEq(ia.vals[i][1], sq.t[i])
AnimValuesOK(o, a, sq) ==
    LET oa == At0(o.accs, TheSampler(a).output) IN
    /\ oa.dec /\ oa.full /\ oa.type = "VEC3" /\ IsFloat(oa) /\ Len(oa.vals) = Len(sq.v)
    /\ \A i \in DOMAIN sq.v : RowEq(TRUE, oa.vals[i], sq.v[i])

(* ----------------------- stored once ----------------------------------- *)
SkinsOf(xo, i) == {k \in DOMAIN xo.skins : i \in Ran(xo.skins[k].joints)}
\* every node is a model's mesh node, a light, or a joint of exactly one skin; no more skins than
\* skeleton objects among the live models
SkinOnceOK(o, xo, src, xs) ==
    /\ Len(xo.skins) <= Cardinality({xs.models[i].skel : i \in Ran(LiveIx(src))} \ {0})
    /\ \A i \in NodeIds(o) : LET n == At0(o.nodes, i) IN
          IF n.mesh # -1 \/ n.light # -1 THEN SkinsOf(xo, i) = {} ELSE Cardinality(SkinsOf(xo, i)) = 1
=============================================================================
