CONSTANTS
  Depth = 5
SPECIFICATION Spec
INVARIANTS ValidPair Emit
CHECK_DEADLOCK FALSE
