CONSTANTS
  Sizes = {255, 4097}
  DlvSizes = {7, 300}
  ByteSizes = {256, 301}
  BigFaces = 600
SPECIFICATION Spec
INVARIANTS ModelLayouts ModelIdentifies ModelUnitBits Emit
CHECK_DEADLOCK FALSE
