CONSTANTS NSlots = 3 Depth = 5 Slack = 1 MaxArr = 10 CopyOnAppend = FALSE GoPolicy = FALSE MaxLen = 6 Acts = {"Share","Modify"}
SPECIFICATION Spec
INVARIANT RiskyEmit
CONSTRAINT StopAtViolation
CHECK_DEADLOCK FALSE
VIEW View
