------------------------------ MODULE TracePar ------------------------------
(***************************************************************************)
(* C10 -- trace validation of the parallel entry points.  The JUDGE: the   *)
(* harness (vh par-exec) only executes real polyform calls under the       *)
(* generated schedules and projects what happened; every verdict below is  *)
(* computed by TLC from the contract operators of ParContract.             *)
(*                                                                         *)
(* trace.ndjson line kinds                                                 *)
(*  {"k":"case","c":{..the generated case..},"numcpu":..}                  *)
(*  {"k":"seq","ev":[[i,v..]..],"out":[[..]..],"st":..,"ex":..}            *)
(*        the sequential counterpart on the same input (the reference)     *)
(*  {"k":"visit","s":..,"i":..,"v":[..],"late":..}                         *)
(*        one callback invocation of the parallel variant, in the order    *)
(*        the controller released them (gated runs): contract action Visit *)
(*  {"k":"done","out":..,"src":..,"st":..,"ex":..}   the parallel call is  *)
(*        over: result attribute, source attribute re-read, status         *)
(*  {"k":"run","ev":..,"late":..,"out":..,"src":..,"st":..,"ex":..}        *)
(*        a free-running (ungated, perturbed) parallel call as one line    *)
(*  {"k":"field","fi":..,"seq":[[attr,x0,x1,y0,y1,z0,z1,count]..],"par":.., *)
(*   "sst","pst",..}                                                       *)
(*        AddField vs AddFieldParallel[2]: multiset of evaluated lattice   *)
(*        points of field fi of the case (boxes); the fields of one case   *)
(*        go one after the other into the SAME pair of canvases            *)
(*  {"k":"march","what":"ref"|"fieldpar"|"marchpar","fi","attr","cut2",    *)
(*   "tris"}    after field fi had been added:                             *)
(*        ref      = March on the sequentially accumulated canvas          *)
(*        fieldpar = March on the canvas accumulated by the parallel entry *)
(*        marchpar = MarchParallel on the reference canvas                 *)
(*        tris is in the canonical form of the multiset (ParContract)      *)
(*  {"k":"race","n":..,"h":..}  reports of the Go race detector for the    *)
(*        case (auxiliary observer): n inside polyform, h harness only     *)
(*                                                                         *)
(* Predicates C10.<Name> are explained where they are computed. Seq.<Name>, *)
(* Harness.<Name> flag a reference run / harness that is not what the judge *)
(* assumes; they are never reported as C10 violations.                     *)
(* After every line the state re-synchronises on what was observed.        *)
(***************************************************************************)
EXTENDS ParContract, TLC, Json

Trace == ndJsonDeserialize("trace.ndjson")

VARIABLES l, cs, sq, visits, ref
vars == <<l, cs, sq, visits, ref>>

NoCase == [kind |-> "none"]
NoSeq == [st |-> "NONE"]
NoRef == [st |-> "NONE", attr |-> 0, cut2 |-> 0, fi |-> 0]

Init == l = 1 /\ cs = NoCase /\ sq = NoSeq /\ visits = <<>> /\ ref = NoRef

IsScan == cs.kind = "scan"
IsMod == IsScan /\ cs.variant \in {"ModF1", "ModF2", "ModF3"}
IsPrim == IsScan /\ cs.variant = "Prim"
N == cs.n
HasSeq == sq.st # "NONE"
SeqOK == sq.st = "OK" /\ SeqShape(N, sq.ev)

\* element i's own value: the input for attribute scans; for primitives what
\* the sequential scan handed to the callback
OwnKnown == IF IsPrim THEN SeqOK ELSE TRUE
Own == IF IsPrim THEN (IF SeqOK THEN OwnFromSeq(N, sq.ev) ELSE <<>>) ELSE cs.in

\* the output of a Modify variant according to the contract
ModelOut == [k \in 1 .. N |-> F(cs.fa, cs.fb, k - 1, cs.in[k])]

Report(bad) == IF bad = {} THEN TRUE ELSE PrintT(ToJson([l |-> l, bad |-> bad]))

OnCase ==
    /\ Trace[l].k = "case"
    /\ cs' = Trace[l].c
    /\ sq' = NoSeq
    /\ ref' = NoRef
    /\ visits' = IF Trace[l].c.kind = "scan" THEN ZeroVisits(Trace[l].c.n) ELSE <<>>
    /\ Report(IF Trace[l].c.kind = "scan" /\ Trace[l].c.variant # "Prim" /\ Len(Trace[l].c.in) # Trace[l].c.n
              THEN {"Harness.N"} ELSE {})

OnSeq ==
    /\ Trace[l].k = "seq"
    /\ LET ln == Trace[l]
           bad == (IF ln.st = "OK" /\ ~SeqShape(N, ln.ev) THEN {"Seq.Shape"} ELSE {})
                  \cup (IF ln.st = "OK" /\ ~IsPrim /\ SeqShape(N, ln.ev) /\ OwnFromSeq(N, ln.ev) # cs.in
                        THEN {"Seq.Value"} ELSE {})
                  \cup (IF ln.st = "OK" /\ IsMod /\ ln.out # ModelOut THEN {"Seq.Output"} ELSE {})
                  \cup (IF ln.ex THEN {} ELSE {"Harness.Lattice"})
       IN Report(bad)
    /\ sq' = Trace[l]
    /\ UNCHANGED <<cs, visits, ref>>

OnVisit ==        \* contract action Visit(i, v)
    /\ Trace[l].k = "visit"
    /\ LET ln == Trace[l]
           bad == VisitBad(visits, ln.i, ln.v, Own, OwnKnown)
                  \cup (IF ln.late THEN {"C10.Joined"} ELSE {})   \* a callback ran after the call returned
       IN Report(bad)
    /\ visits' = AfterVisit(visits, Trace[l].i)
    /\ UNCHANGED <<cs, sq, ref>>

\* what must hold when a parallel scan / modification is over
EndBad(ln) ==
    (IF HasSeq /\ ln.st # sq.st THEN {"C10.Status"} ELSE {})
    \cup (IF HasSeq /\ ln.st = "OK" /\ sq.st = "OK" /\ ln.out # sq.out THEN {"C10.Output"} ELSE {})
    \cup (IF ln.st = "OK" /\ IsMod /\ ln.out # ModelOut THEN {"C10.Output"} ELSE {})
    \cup (IF ln.ex THEN {} ELSE {"C10.Output"})
    \cup (IF ln.st = "OK" /\ ln.src # cs.in THEN {"C10.SourceIntact"} ELSE {})

OnDone ==
    /\ Trace[l].k = "done"
    /\ LET ln == Trace[l]
           bad == EndBad(ln)
                  \cup (IF ln.st = "OK" /\ ~Complete(visits) THEN {"C10.All"} ELSE {})
       IN Report(bad)
    /\ UNCHANGED <<cs, sq, visits, ref>>

OnRun ==
    /\ Trace[l].k = "run"
    /\ LET ln == Trace[l]
           bad == EndBad(ln)
                  \cup (IF ln.st = "OK" THEN RunBad(N, ln.ev, Own, OwnKnown) ELSE {})
                  \cup (IF ln.late > 0 THEN {"C10.Joined"} ELSE {})
       IN Report(bad)
    /\ UNCHANGED <<cs, sq, visits, ref>>

OnField ==
    /\ Trace[l].k = "field"
    /\ LET ln == Trace[l]
           hasSeq == ln.sst # "SKIP"
           fs == cs.fields[ln.fi + 1]
           want == {DomainBox(fs.attrs[i], fs.lo, fs.hi) : i \in DOMAIN fs.attrs}
           bad == (IF hasSeq /\ ln.sst # "OK" THEN {"Seq.FieldStatus"} ELSE {})
                  \* the reference itself evaluates the contract's box (exact for cubesPerUnit a power of two)
                  \cup (IF hasSeq /\ ln.sst = "OK" /\ cs.cpu \in {1, 2, 4} /\ {ln.seq[k] : k \in DOMAIN ln.seq} # want
                        THEN {"Seq.FieldBox"} ELSE {})
                  \cup (IF ln.offlat THEN {"Harness.Lattice"} ELSE {})
                  \cup (IF hasSeq /\ ln.pst # ln.sst THEN {"C10.Status"} ELSE {})
                  \* the parallel entry point evaluates the field at exactly the lattice points
                  \* the sequential one does, each exactly as often
                  \cup (IF hasSeq /\ ln.pst = "OK" /\ ln.par # ln.seq THEN {"C10.FieldSamples"} ELSE {})
                  \cup (IF ln.pst = "OK" /\ (hasSeq => EachOnce(ln.seq)) /\ ~EachOnce(ln.par) THEN {"C10.FieldOnce"} ELSE {})
                  \cup (IF ln.late > 0 THEN {"C10.Joined"} ELSE {})
       IN Report(bad)
    /\ UNCHANGED <<cs, sq, visits, ref>>

OnMarch ==
    /\ Trace[l].k = "march"
    /\ LET ln == Trace[l] IN
         IF ln.what = "ref"
         THEN /\ ref' = ln
              /\ Report((IF ln.st = "OK" THEN {} ELSE {"Seq.MarchStatus"})
                        \cup (IF ln.ex THEN {} ELSE {"Harness.Lattice"}))
         ELSE /\ ref' = ref
              /\ LET name == IF ln.what = "fieldpar" THEN "C10.FieldResult" ELSE "C10.MarchEqual"
                     bad == IF ref.st = "NONE" THEN {}        \* race runs carry no reference
                            ELSE IF ref.attr # ln.attr \/ ref.cut2 # ln.cut2 \/ ref.fi # ln.fi THEN {"Harness.Order"}
                            ELSE (IF ln.st # ref.st THEN {"C10.Status"} ELSE {})
                                 \cup (IF ln.st = "OK" /\ ref.st = "OK" /\ (~ln.ex \/ ~SameBag(ref.tris, ln.tris))
                                       THEN {name} ELSE {})
                 IN Report(bad)
    /\ UNCHANGED <<cs, sq, visits>>

OnRace ==         \* auxiliary observer: the Go race detector
    /\ Trace[l].k = "race"
    /\ Report((IF Trace[l].n > 0 THEN {"C10.RaceFree"} ELSE {})
              \cup (IF Trace[l].h > 0 THEN {"Harness.Race"} ELSE {}))
    /\ UNCHANGED <<cs, sq, visits, ref>>

Next == l <= Len(Trace) /\ (OnCase \/ OnSeq \/ OnVisit \/ OnDone \/ OnRun \/ OnField \/ OnMarch \/ OnRace) /\ l' = l + 1
Spec == Init /\ [][Next]_vars

\* every line was consumed (one state per line plus the initial state)
TraceAccepted == TLCGet("stats").diameter - 1 = Len(Trace)
=============================================================================
