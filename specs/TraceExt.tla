------------------------------ MODULE TraceExt ------------------------------
(***************************************************************************)
(* X06 - trace validation for the extrusion / repeat generators.           *)
(* trace.ndjson lines (written by `vh ext-exec`, which only executes real  *)
(* polyform code and projects the result to integers):                     *)
(*   {"k":"ext","case":c,res,err,topo,tris,rem,pos,fin,nn,nuv,..}          *)
(*        one call of an extrude generator: index buffer in threes, rem =  *)
(*        len(indices) % 3, positions * 256, fin = every position, normal  *)
(*        and texture coordinate is finite, nn / nuv = length of the       *)
(*        normal / texcoord arrays (-1: attribute absent)                  *)
(*   {"k":"rep","case":c,res,err,trs,[tris,pos,base,bt]}                   *)
(*        one call of a repeat generator: the transforms projected         *)
(*        (Repeat.tla), for repeat.Mesh also the result and the input mesh *)
(* Every line is independent.  All judgements are made here; a rejected    *)
(* line is printed as JSON {"l","bad","info"}; `cnt` counts how often each *)
(* predicate had something to judge (vacuity guard, printed at the end).   *)
(*                                                                         *)
(* Input classes (Extrude!Class): "reject" (too few points / sides): the   *)
(* call fails or returns a valid index buffer over finite arrays;          *)
(* "degenerate" (repeated point, reversal, closed path of 2 rings): fails  *)
(* or is valid and has the stated ring structure; "regular": everything.   *)
(***************************************************************************)
EXTENDS Repeat, Json

Trace == ndJsonDeserialize("trace.ndjson")

VARIABLES l, cnt
vars == <<l, cnt>>

Zero == [ext |-> 0, regular |-> 0, degenerate |-> 0, reject |-> 0, refused |-> 0, closedpath |-> 0, planes |-> 0,
         radii |-> 0, zerorings |-> 0, outward |-> 0, tris |-> 0, rep |-> 0, placed |-> 0, copies |-> 0, reprefused |-> 0]
Init == l = 1 /\ cnt = Zero

IndexOK(ln) ==
    \A i \in DOMAIN ln.tris :
        Len(ln.tris[i]) = 3 /\ \A j \in 1..3 : ln.tris[i][j] >= 0 /\ ln.tris[i][j] < Len(ln.pos)
Basic(ln) == ln.topo = "tri" /\ ln.rem = 0 /\ ln.fin /\ IndexOK(ln)
If(b, name) == IF b THEN {} ELSE {name}

(* ------------------------- extrude ------------------------------------ *)
Rings(c) == 0..(NRings(c) - 1)
PlaneRings(c) == IF c.gen \in PolyFamily \/ c.gen \in ShapeFamily THEN {k \in Rings(c) : DirKnown(c, k)} ELSE {}

Geometry(c, pos) ==
    IF c.gen \in PolyFamily THEN
        If(\A k \in PlaneRings(c) : OnPlane(c, pos, k), "X06.OnPlane")
        \cup If(\A k \in Rings(c) : AtRadius(c, pos, k), "X06.Radius")
        \cup If(\A k \in Rings(c) : SeamOK(c, pos, k), "X06.Seam")
        \cup If(\A k \in Rings(c) : RegularRing(c, pos, k), "X06.Regular")
        \cup If(\A k \in TwistPairs(c) : NoTwist(c, pos, k), "X06.NoTwist")
    ELSE IF c.gen \in ShapeFamily THEN
        If(\A k \in PlaneRings(c) : OnPlane(c, pos, k), "X06.OnPlane")
        \cup If(\A k \in Rings(c) : StencilRigid(c, pos, k), "X06.Radius")
        \cup If(\A k \in TwistPairs(c) : NoTwist(c, pos, k), "X06.NoTwist")
    ELSE IF c.gen = "line" THEN If(\A k \in Rings(c) : LineRing(c, pos, k), "X06.Ribbon")
    ELSE If(\A k \in Rings(c) : ScrewRing(c, pos, k), "X06.Screw")

CountsBad(c, ln) ==
    If(Len(ln.pos) = ExpectVerts(c) /\ Len(ln.tris) = ExpectTris(c), "X06.Rings")
    \cup If(ln.nn = ExpectNormals(c) /\ ln.nuv = ExpectUVs(c), "X06.Arrays")

ExtBad(ln) ==
    LET c == ln.case
        cls == Class(c)
    IN IF ln.res = "TIMEOUT" THEN {"X06.Terminates"}
       ELSE IF cls = "reject" THEN If(ln.res = "FAIL" \/ Basic(ln), "X06.WellFormed")
       ELSE IF cls = "degenerate" THEN
            (IF ln.res = "FAIL" THEN {} ELSE IF ~Basic(ln) THEN {"X06.WellFormed"} ELSE CountsBad(c, ln))
       ELSE IF ln.res # "OK" THEN {"X06.Accepts"}
       ELSE IF ~Basic(ln) THEN {"X06.WellFormed"}
       ELSE IF CountsBad(c, ln) # {} THEN CountsBad(c, ln)
       ELSE LET TL == LTris(c, ln.tris)
            IN If(StripsOK(c, TL), "X06.Strips")
               \cup If(Oriented(TL), "X06.Oriented")
               \cup If(ClosedAsStated(c, TL), "X06.Closed")
               \cup If(~(c.gen \in PolyFamily /\ StripsOK(c, TL)) \/ OutwardOK(c, TL, ln.pos), "X06.Outward")
               \cup Geometry(c, ln.pos)

B(x) == IF x THEN 1 ELSE 0
ExtCount(ln) ==
    LET c == ln.case
        cls == Class(c)
        reg == cls = "regular" /\ ln.res = "OK"
    IN [cnt EXCEPT !.ext = @ + 1, !.regular = @ + B(cls = "regular"), !.degenerate = @ + B(cls = "degenerate"),
                   !.reject = @ + B(cls = "reject"), !.refused = @ + B(ln.res = "FAIL"),
                   !.closedpath = @ + B(reg /\ ClosedPath(c)),
                   !.planes = @ + (IF reg THEN Cardinality(PlaneRings(c)) ELSE 0),
                   !.radii = @ + (IF reg /\ (c.gen \in PolyFamily \/ c.gen \in ShapeFamily) THEN NRings(c) ELSE 0),
                   !.zerorings = @ + (IF reg /\ c.gen \in PolyFamily
                                      THEN Cardinality({k \in Rings(c) : Thick(c, k) = 0}) ELSE 0),
                   !.outward = @ + (IF reg /\ c.gen \in PolyFamily /\ Basic(ln) /\ CountsBad(c, ln) = {}
                                    THEN OutwardJudged(c, LTris(c, ln.tris), ln.pos) ELSE 0),
                   !.tris = @ + Len(ln.tris)]

(* ------------------------- repeat ------------------------------------- *)
AllFin(T) == \A i \in DOMAIN T : T[i].fin
Placement(c, ln) ==
    LET T == ln.trs
    IN IF c.gen \in {"line", "lineex", "linenode"} THEN LineOK(c, T)
       ELSE IF c.gen = "circle" THEN CircleOK(c, T)
       ELSE IF c.gen = "fib" THEN FibOK(c, T)
       ELSE IF c.gen \in {"spline", "splineex", "splinenode"} THEN SplineOK(c, T)
       ELSE TRUE
RepBad(ln) ==
    LET c == ln.case
    IN IF ln.res = "TIMEOUT" THEN {"X06.Terminates"}
       ELSE IF RepRejects(c) \/ RepDegenerate(c) THEN If(ln.res = "FAIL" \/ (AllFin(ln.trs) /\ ln.fin), "X06.Finite")
       ELSE IF ln.res # "OK" THEN {"X06.Accepts"}
       ELSE IF ~(AllFin(ln.trs) /\ ln.fin) THEN {"X06.Finite"}
       ELSE IF Len(ln.trs) # RepCount(c) THEN {"X06.Count"}
       ELSE If(Placement(c, ln), "X06.Placement")
            \cup (IF c.gen # "mesh" THEN {}
                  ELSE If(XfLogged(c, ln.trs), "Harness.Xf")
                       \cup If((Len(c.xfs) = 0 \/ Basic(ln)) /\ CopiesOK(c, ln), "X06.Copies"))
RepCountUp(ln) ==
    LET c == ln.case
        judged == ~RepRejects(c) /\ ~RepDegenerate(c) /\ ln.res = "OK"
    IN [cnt EXCEPT !.rep = @ + 1, !.placed = @ + (IF judged /\ c.gen # "mesh" THEN Len(ln.trs) ELSE 0),
                   !.copies = @ + (IF judged /\ c.gen = "mesh" THEN Len(c.xfs) ELSE 0),
                   !.reprefused = @ + B(ln.res = "FAIL")]

(* ------------------------- actions ------------------------------------ *)
Report(bad, info) == IF bad = {} THEN TRUE ELSE PrintT(ToJson([l |-> l, bad |-> bad, info |-> info]))
AtEnd == IF l = Len(Trace) THEN PrintT(ToJson([stats |-> cnt'])) ELSE TRUE

Ext ==
    /\ l <= Len(Trace) /\ Trace[l].k = "ext"
    /\ LET ln == Trace[l]
           bad == ExtBad(ln)
       IN /\ Report(bad, [class |-> Class(ln.case), res |-> ln.res,
                          flip |-> IF "X06.Oriented" \in bad THEN FlipClass(ln.case, LTris(ln.case, ln.tris), ln.pos)
                                   ELSE "none",
                          twist |-> IF "X06.NoTwist" \in bad THEN TwistClass(ln.case) ELSE "none"])
          /\ cnt' = ExtCount(ln)
    /\ AtEnd
    /\ l' = l + 1

Rep ==
    /\ l <= Len(Trace) /\ Trace[l].k = "rep"
    /\ LET ln == Trace[l]
       IN /\ Report(RepBad(ln), [class |-> "rep", res |-> ln.res, flip |-> "none", twist |-> "none"])
          /\ cnt' = RepCountUp(ln)
    /\ AtEnd
    /\ l' = l + 1

Next == Ext \/ Rep
Spec == Init /\ [][Next]_vars

TraceAccepted == TLCGet("stats").diameter - 1 = Len(Trace)
=============================================================================
