CONSTANTS
  Reader = "items"
  AllShapes = FALSE
SPECIFICATION Spec
INVARIANTS ReaderDesign Distinct ValidText Emit
CHECK_DEADLOCK FALSE
