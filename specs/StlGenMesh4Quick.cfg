CONSTANTS
  Mode = "mesh"
  NVs = {4, 5}
  MaxTris = 1
  MaxRecs = 0
SPECIFICATION Spec
INVARIANTS Layout MeanDefined InBudget Emit
CHECK_DEADLOCK FALSE
