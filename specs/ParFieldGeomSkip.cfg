\* shape "a job without samples does not register its block": refuted (RegOK) by a range ending on a block border
CONSTANTS
  S = 4
  NegBlocks = 1
  Hi = 9
  MaxFields = 1
  SkipEmpty = TRUE
  CopyFull = FALSE
SPECIFICATION Spec
INVARIANTS ContentOK RegOK MarchOK
CHECK_DEADLOCK FALSE
