\* shape "a job skips a block whose own samples are all on one side of the cutoff": refuted (MarchEqual) by a surface
\* exactly in the seam cell layer with the lower block uniform
CONSTANTS
  S = 4
  SkipUniform = TRUE
SPECIFICATION Spec
INVARIANTS MarchEqual OwnedReadsNeighbour
CHECK_DEADLOCK FALSE
