---------------------------- MODULE ObjStlSizes ----------------------------
(***************************************************************************)
(* Generator of SIZE PROFILES for the OBJ and STL families (C05, C07).     *)
(*                                                                         *)
(* The contracts quantify over every mesh and every file, hence over every *)
(* size.  Implementations batch their work (a writer that flushes every B  *)
(* lines, an encoder that handles B records per call, a reader with a B    *)
(* byte buffer); such code is wrong only at sizes around a multiple of B.  *)
(* B is unknown, but it is a "round" number: this module enumerates, for   *)
(* every threshold T of a set of round numbers and every small multiple m, *)
(* the sizes m*T - 1, m*T and m*T + 1, and for each size the SHAPES that   *)
(* put that size on each countable thing of a case:                        *)
(*   STL  "sw"  triangle count = s (unwelded: 3 s vertices) with corner    *)
(*              normals; triangle count = vertex count = s without         *)
(*        "sr"  s records with stored normals; s records with zero normals *)
(*        "sb"  s records through the record level API                     *)
(*        "sz"  sizes only (size law, triangle count) for large s          *)
(*   OBJ  "wr"  a list of meshes in which one or two meshes are BIG:       *)
(*              shape "v"  s vertices, few faces  (v / vt / vn lines)      *)
(*              shape "f"  few vertices, s faces in one material range     *)
(*              shape "vf" s vertices and s faces                          *)
(*              placed first of two, last of two, in the middle of three,  *)
(*              or twice; the small neighbours have other attribute sets,  *)
(*              so every pool offset after a big mesh is exercised         *)
(*              shape "m"  s faces in s material ranges                    *)
(*              shape "n"  a list of s small meshes                        *)
(*        "ld"  a text with a big group (s distinct corners, or s faces    *)
(*              over few corners) before / after / next to a small one;    *)
(*              shape "g": s groups of one face each                       *)
(*        "wr"/"ld" shape "l": a "g" line of n-1, n, n+1 BYTES for the     *)
(*              usual buffer sizes n (a long group / mesh name)            *)
(* Values (coordinates, index patterns) are drawn by the harness from the  *)
(* seed the check adds; this module fixes only the sizes.  Every profile   *)
(* has a weight w (number of vertices + faces, what judging it costs), a   *)
(* flag core and a rotation class rot: the quick tier runs every core      *)
(* profile (light ones, and the leading ones of the exact multiples up to  *)
(* CoreMax) and, of the others, the class of the run's seed; the thorough  *)
(* tier runs all.                                                          *)
(*                                                                         *)
(* Checked on the specification itself (ASSUME / invariant Covered): every *)
(* threshold within MaxSize occurs exactly and with both neighbours; every *)
(* exact multiple occurs in an OBJ profile whose big mesh is NOT the last  *)
(* one and in one where it is the last one.                                *)
(***************************************************************************)
EXTENDS Integers, Sequences, FiniteSets, SequencesExt, TLC, Json

CONSTANTS Family,        \* "stl" | "obj"
          Thresholds,    \* set of round numbers
          Mults,         \* set of multiples
          MaxSize,       \* largest size emitted
          MaxCount,      \* OBJ: largest number of meshes / material ranges / groups
          LineLens,      \* OBJ: line lengths (bytes) for the long-line cases
          SzThresholds,  \* STL: large round numbers for the sizes-only cases
          SzMults,
          CoreW,         \* profiles up to this weight are "core": the quick tier runs them for every seed
          CoreMax,       \* OBJ: so are the leading profiles of exact multiples up to this size
          Rot            \* number of rotation classes

VARIABLE c

Deltas == {-1, 0, 1}
Exact == {s \in {m * t : m \in Mults, t \in Thresholds} : s <= MaxSize}
Sizes == {s \in {e + d : e \in Exact, d \in Deltas} : s >= 2 /\ s <= MaxSize + 1}
Ix(s) == Cardinality({x \in Sizes : x < s})
\* rotation class of a size: neighbours s-1, s, s+1 fall into different classes and so do
\* consecutive exact multiples, so every class holds exact multiples as well as neighbours
RotOf(s) == ((Ix(s) \div 3) + (Ix(s) % 3)) % Rot

(* ------------------------------- STL ----------------------------------- *)
StlSeeded(n, nv, nr) == [seed |-> 0, ntris |-> n, nverts |-> nv, nrm |-> nr, nexp |-> 0, edge |-> 0]
StlCase(k, n, nv, nr) ==
    [k |-> k, tag |-> "sized", enc |-> "f32", q |-> 1, qn |-> IF k = "sw" THEN 4 ELSE 60,
     seeded |-> StlSeeded(n, nv, nr), w |-> n, rot |-> RotOf(n), core |-> n <= CoreW]
\* sizes only ("sz"): counts around the multiples of LARGE round numbers, where a 16 bit counter or
\* a block buffer would give in; judged on the size law and the triangle count alone, so cheap
\* enough for every run
SzExact == {m * t : m \in SzMults, t \in SzThresholds}
SzSizes == {e + d : e \in SzExact, d \in Deltas}
SzCase(dir, n) ==
    [k |-> "sz", dir |-> dir, tag |-> "sized", enc |-> "f32", q |-> 1, qn |-> IF dir = "w" THEN 4 ELSE 60,
     seeded |-> StlSeeded(n, IF dir = "w" THEN -1 ELSE 0, IF dir = "w" THEN 2 - (n % 2) ELSE 1),
     w |-> 1, rot |-> 0, core |-> TRUE]
StlProfiles ==
    UNION {{StlCase("sw", n, -1, 1), StlCase("sw", n, n, 2),
            StlCase("sr", n, 0, 1), StlCase("sr", n, 0, 2),
            StlCase("sb", n, 0, 1)} : n \in Sizes}
    \cup {SzCase(dir, n) : dir \in {"w", "r"}, n \in SzSizes}

(* ------------------------------- OBJ ----------------------------------- *)
\* attribute sets: 0 none, 1 uv, 2 normals, 3 both
HasUv(a) == a % 2 = 1
HasNrm(a) == a \div 2 = 1
Few == 4
Mesh(nv, nt, a, nm) == [nv |-> nv, nt |-> nt, uv |-> HasUv(a), nrm |-> HasNrm(a), nm |-> nm, namelen |-> 0]
Big(shape, s, a) ==
    CASE shape = "v" -> Mesh(s, Few, a, 0)
      [] shape = "f" -> Mesh(Few + 1, s, a, 1)
      [] OTHER -> Mesh(s, s, a, 2)
Small(a) == Mesh(Few, 2, a, 1)
Places == {"first", "last", "middle", "twice"}
\* the mesh AFTER a big one has texture coordinates and normals: whatever pool the big mesh wrote to,
\* the next mesh's faces refer to it (a shifted or short pool is then seen); the mesh BEFORE varies
ObjList(place, big, a) ==
    CASE place = "first" -> <<big, Small(3)>>
      [] place = "last" -> <<Small((a + 2) % 4), big>>
      [] place = "middle" -> <<Small((a + 3) % 4), big, Small(3)>>
      [] OTHER -> <<big, big, Small(3)>>
Weight(ms) == FoldLeft(LAMBDA acc, m : acc + m.nv + m.nt, 0, ms)
ShapeNo(sh) == CASE sh = "v" -> 0 [] sh = "f" -> 1 [] sh = "vf" -> 2 [] sh = "m" -> 3 [] sh = "n" -> 4 [] OTHER -> 5
PlaceNo(p) == CASE p = "first" -> 0 [] p = "last" -> 1 [] p = "middle" -> 2 [] OTHER -> 3
\* a: the attribute set of the big mesh
WrCase(s, sh, p, a) ==
    LET ms == ObjList(p, Big(sh, s, a), a)
        w == Weight(ms) IN
    [k |-> "wr", tag |-> "sized", enc |-> "f32", q |-> 1,
     seeded |-> [seed |-> 0, nmesh |-> Len(ms), maxtris |-> 0, sizes |-> ms],
     place |-> p, shape |-> sh, size |-> s, attrs |-> a,
     w |-> w, rot |-> (RotOf(s) + ShapeNo(sh) + PlaceNo(p) + a) % Rot,
     core |-> w <= CoreW \/ (s \in Exact /\ s <= CoreMax /\ sh \in {"v", "f"} /\ p = "first")]
\* counts of other things: material ranges of one mesh, meshes of a list (sizes up to MaxCount)
Tiny(a) == Mesh(3, 1, a, 0)
CountCase(s, sh) ==
    LET a == Ix(s) % 4
        ms == IF sh = "m" THEN <<Mesh(Few + 1, s, a, s), Small(3)>>
              ELSE [i \in 1..s |-> Tiny((a + i) % 4)] IN
    [k |-> "wr", tag |-> "sized", enc |-> "f32", q |-> 1,
     seeded |-> [seed |-> 0, nmesh |-> Len(ms), maxtris |-> 0, sizes |-> ms],
     place |-> "first", shape |-> sh, size |-> s, attrs |-> a,
     w |-> Weight(ms), rot |-> (RotOf(s) + ShapeNo(sh)) % Rot, core |-> Weight(ms) <= CoreW]
\* An exact multiple is tried in every place, its two neighbours in the middle of three (a mesh
\* before and a mesh after the big one).  Where the big mesh is followed by another one ("first",
\* and "middle" for the neighbours) the attribute set is not left to rotation: a big "v" mesh has
\* texture coordinates AND normals (the writer has one loop per pool: v, vt, vn - each gets the
\* size), a big "f" mesh comes in all four attribute sets (the writer has one face loop per syntax:
\* v, v/vt, v//vn, v/vt/vn).  Elsewhere the attribute set rotates with size, shape and place.
PlacesFor(s) == IF s \in Exact THEN Places ELSE {"middle"}
Lead(s, p) == p = "first" \/ (p = "middle" /\ s \notin Exact)
AttrsFor(s, sh, p) ==
    IF sh = "v" /\ Lead(s, p) THEN {3}
    ELSE IF sh = "f" /\ Lead(s, p) THEN 0..3
    ELSE {(Ix(s) + ShapeNo(sh) + PlaceNo(p)) % 4}
\* LINE LENGTH: a "g" line of exactly n bytes ("g " + a name of n - 2 characters), n around the
\* usual buffer sizes (LineLens, bytes); the format puts no limit on the length of a line
LineSizes == {n + d : n \in LineLens, d \in Deltas}
LineWrCase(n) ==
    LET ms == <<[Small(Ix(n) % 4) EXCEPT !.namelen = n - 2], Small(3)>> IN
    [k |-> "wr", tag |-> "sized", enc |-> "f32", q |-> 1,
     seeded |-> [seed |-> 0, nmesh |-> Len(ms), maxtris |-> 0, sizes |-> ms],
     place |-> "first", shape |-> "l", size |-> n, attrs |-> Ix(n) % 4,
     w |-> Weight(ms), rot |-> 0, core |-> TRUE]
WrProfiles == UNION {UNION {{WrCase(s, sh, p, a) : a \in AttrsFor(s, sh, p)} : sh \in {"v", "f", "vf"}, p \in PlacesFor(s)} : s \in Sizes}
              \cup {CountCase(s, sh) : s \in {x \in Sizes : x <= MaxCount}, sh \in {"m", "n"}}
              \cup {LineWrCase(n) : n \in LineSizes}

\* texts: a group is [nv, nf, syn]; syn 0 "v", 1 "v/vt", 2 "v//vn", 3 "v/vt/vn"
Group(nv, nf, syn) == [nv |-> nv, nf |-> nf, syn |-> syn, namelen |-> 0]
BigGroup(shape, s, syn) == IF shape = "v" THEN Group(s, s - 2, syn) ELSE Group(Few, s, syn)
LdCase(s, sh, p) ==
    LET syn == (Ix(s) + ShapeNo(sh) + PlaceNo(p)) % 4
        big == BigGroup(sh, s, syn)
        gs == CASE p = "first" -> <<big, Group(Few, 2, 3)>>      \* the group after a big one uses all three pools
                [] p = "last" -> <<Group(Few, 2, (syn + 1) % 4), big>>
                [] OTHER -> <<big, big>> IN
    [k |-> "ld", tag |-> "sized", enc |-> "lat", q |-> 1024,
     text |-> [seed |-> 0, groups |-> gs], place |-> p, shape |-> sh, size |-> s, attrs |-> syn,
     w |-> 2 * s, rot |-> (RotOf(s) + ShapeNo(sh) + PlaceNo(p)) % Rot,
     core |-> 2 * s <= CoreW \/ (s \in Exact /\ s <= CoreMax /\ p = "first")]
GroupsCase(s) ==
    [k |-> "ld", tag |-> "sized", enc |-> "lat", q |-> 1024,
     text |-> [seed |-> 0, groups |-> [i \in 1..s |-> Group(3, 1, (Ix(s) + i) % 4)]],
     place |-> "first", shape |-> "g", size |-> s, attrs |-> 0,
     w |-> 4 * s, rot |-> (RotOf(s) + 5) % Rot, core |-> 4 * s <= CoreW]
LineLdCase(n) ==
    [k |-> "ld", tag |-> "sized", enc |-> "lat", q |-> 1024, style |-> 0,      \* plain style: the line is exactly n bytes
     text |-> [seed |-> 0, groups |-> <<[Group(Few, 2, n % 4) EXCEPT !.namelen = n - 2], Group(Few, 2, 3)>>],
     place |-> "first", shape |-> "l", size |-> n, attrs |-> n % 4,
     w |-> 2 * Few, rot |-> 0, core |-> TRUE]
LdPlacesFor(s) == IF s \in Exact THEN {"first", "last", "twice"} ELSE {"first"}
LdProfiles == UNION {{LdCase(s, sh, p) : sh \in {"v", "f"}, p \in LdPlacesFor(s)} : s \in {x \in Sizes : x >= 3}}
              \cup {GroupsCase(s) : s \in {x \in Sizes : x <= MaxCount}}
              \cup {LineLdCase(n) : n \in LineSizes}

Profiles == IF Family = "stl" THEN StlProfiles ELSE WrProfiles \cup LdProfiles

Init == c \in Profiles
Next == UNCHANGED c
Spec == Init /\ [][Next]_c

(* ---------------- properties of the specification itself --------------- *)
ASSUME \A t \in Thresholds : t <= MaxSize => {t - 1, t, t + 1} \subseteq Sizes
ASSUME Family = "obj" =>
         \A n \in LineLens : \E p \in WrProfiles : \E q \in LdProfiles :
            /\ p.shape = "l" /\ p.seeded.sizes[1].namelen + 2 = n
            /\ q.shape = "l" /\ q.text.groups[1].namelen + 2 = n
ASSUME Family = "obj" =>
         \A e \in Exact :
            /\ \E p \in WrProfiles : p.size = e /\ p.shape = "v" /\ p.seeded.sizes[1].nv = e /\ Len(p.seeded.sizes) > 1
            /\ \E p \in WrProfiles : p.size = e /\ p.shape = "v" /\ p.seeded.sizes[Len(p.seeded.sizes)].nv = e
            /\ \E p \in WrProfiles : p.size = e /\ p.shape = "f" /\ p.seeded.sizes[1].nt = e
\* the quick tier's core holds, for every exact multiple up to CoreMax: a big mesh that feeds the three
\* pools and is followed by another mesh; a big mesh of each face syntax; a big group of a text
ASSUME Family = "obj" =>
         \A e \in {x \in Exact : x <= CoreMax} :
            /\ \E p \in WrProfiles : /\ p.core /\ p.size = e /\ p.shape = "v" /\ Len(p.seeded.sizes) > 1
                                      /\ p.seeded.sizes[1].nv = e /\ p.seeded.sizes[1].uv /\ p.seeded.sizes[1].nrm
            /\ \A a \in 0..3 : \E p \in WrProfiles : /\ p.core /\ p.size = e /\ p.shape = "f" /\ p.attrs = a
                                                      /\ p.seeded.sizes[1].nt = e
            /\ \E p \in LdProfiles : p.core /\ p.size = e /\ p.shape = "v" /\ p.text.groups[1].nv = e /\ Len(p.text.groups) > 1
ASSUME Family = "stl" =>
         \A e \in Exact : \A k \in {"sw", "sr", "sb"} : \E p \in StlProfiles : p.k = k /\ p.seeded.ntris = e
\* every profile is well formed: a mesh with faces has vertices, weights are what they say
Covered ==
    /\ c.w >= 1 /\ c.rot \in 0..(Rot - 1)
    /\ c.k = "wr" => \A i \in DOMAIN c.seeded.sizes : c.seeded.sizes[i].nt = 0 \/ c.seeded.sizes[i].nv >= 3
    /\ c.k = "ld" => \A i \in DOMAIN c.text.groups : c.text.groups[i].nv >= 3 /\ c.text.groups[i].nf >= 1

Emit == PrintT(ToJson(c))
=============================================================================
