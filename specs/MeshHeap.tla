------------------------------ MODULE MeshHeap ------------------------------
(***************************************************************************)
(* Implementation-shaped (L2) model of modeling.Mesh as the Go code stores *)
(* it: a mesh is a struct of SLICES (array, len) into a heap of arrays     *)
(* with capacities.  Only the sharing skeleton is modelled (two slice      *)
(* fields: the index list and one attribute array); cell values are        *)
(* abstract numbers.  Each operation does to the slices what the code in   *)
(* modeling/mesh.go does:                                                  *)
(*   Share   : SetMaterial / ToPointCloud / Set*Data ... copy the struct,  *)
(*             all slices shared                                           *)
(*   Modify  : Modify*/Set*Attribute/Translate...: attribute array fresh,  *)
(*             index slice shared                                          *)
(*   Append  : Go `append(m.indices, other.indices...)` followed by the    *)
(*             in-place `finalTris[i] += n`; attributes likewise through   *)
(*             appendData.  `append` writes IN PLACE when len+n <= cap and *)
(*             otherwise allocates an array whose capacity is chosen       *)
(*             nondeterministically in need..need+Slack (over-approximates *)
(*             every Go runtime growth policy).                            *)
(* With GoPolicy = TRUE the growth is instead the one of the gc runtime for *)
(* small slices (new capacity = max(need, 2*cap)), so that the risky       *)
(* shapes found are feasible on the real runtime.                          *)
(* With CopyOnAppend = TRUE the slices are copied first (the repaired      *)
(* code).                                                                  *)
(*                                                                         *)
(* Ghost variable `val` is the L1 pool (mathematical values); the          *)
(* refinement invariant Refines says every live slot still dereferences to *)
(* its L1 value, i.e. C01 at design level.  With CopyOnAppend = FALSE TLC  *)
(* finds the capacity-dependent aliasing; in generator mode (RiskyEmit)    *)
(* every violating history SHAPE is printed and then instantiated with     *)
(* real sizes by the C01 check.  L2 never passes verdicts on code.         *)
(***************************************************************************)
EXTENDS Integers, Sequences, FiniteSets, TLC, Json

CONSTANTS NSlots, Depth, Slack, MaxArr, CopyOnAppend, GoPolicy, MaxLen, Acts

VARIABLES heap,   \* array id -> [cap |-> Nat, cells |-> Seq(Int)] (Len(cells) = cap; unused cells 0)
          mesh,   \* slot -> "nil" | [idx |-> slice, pos |-> slice], slice = [a |-> array id, n |-> len]
          val,    \* ghost L1 pool: slot -> "nil" | [idx |-> Seq, pos |-> Seq]
          alive,  \* set of slots that hold a mesh
          hist, fresh
vars == <<heap, mesh, val, alive, hist, fresh>>

Slots == 1..NSlots
Live == alive
NoSlice == [a |-> 0, n |-> 0]
NoMesh == [idx |-> NoSlice, pos |-> NoSlice]
NoVal == [idx |-> <<>>, pos |-> <<>>]
Deref(sl) == IF sl.n = 0 THEN <<>> ELSE SubSeq(heap[sl.a].cells, 1, sl.n)
Pad(seq, cap) == seq \o [i \in 1..(cap - Len(seq)) |-> 0]

Init ==
    /\ heap = <<>> /\ mesh = [s \in Slots |-> NoMesh] /\ val = [s \in Slots |-> NoVal]
    /\ alive = {} /\ hist = <<>> /\ fresh = 1

\* allocate a new array holding `seq` with capacity cap; returns the new heap
Alloc(h, seq, cap) == Append(h, [cap |-> cap, cells |-> Pad(seq, cap)])

New(d, n) ==
    /\ Len(heap) + 2 <= MaxArr
    /\ LET i == [k \in 1..n |-> k - 1]
           p == [k \in 1..n |-> fresh + k]
           h1 == Alloc(heap, i, n)
           h2 == Alloc(h1, p, n)
       IN /\ heap' = h2
          /\ mesh' = [mesh EXCEPT ![d] = [idx |-> [a |-> Len(h1), n |-> n], pos |-> [a |-> Len(h2), n |-> n]]]
          /\ val' = [val EXCEPT ![d] = [idx |-> i, pos |-> p]]
    /\ fresh' = fresh + n /\ alive' = alive \cup {d}
    /\ hist' = Append(hist, [op |-> "New", dst |-> d, src |-> <<>>, n |-> n])

Share(d, s) ==
    /\ s \in Live
    /\ mesh' = [mesh EXCEPT ![d] = mesh[s]] /\ val' = [val EXCEPT ![d] = val[s]]
    /\ UNCHANGED <<heap, fresh>> /\ alive' = alive \cup {d}
    /\ hist' = Append(hist, [op |-> "Share", dst |-> d, src |-> <<s>>, n |-> 0])

Modify(d, s) ==
    /\ s \in Live /\ Len(heap) + 1 <= MaxArr
    /\ LET old == Deref(mesh[s].pos)
           new == [k \in 1..Len(old) |-> old[k] + 100]
           h1 == Alloc(heap, new, Len(new))
       IN /\ heap' = h1
          /\ mesh' = [mesh EXCEPT ![d] = [idx |-> mesh[s].idx, pos |-> [a |-> Len(h1), n |-> Len(new)]]]
          /\ val' = [val EXCEPT ![d] = [idx |-> val[s].idx, pos |-> new]]
    /\ UNCHANGED fresh /\ alive' = alive \cup {d}
    /\ hist' = Append(hist, [op |-> "Modify", dst |-> d, src |-> <<s>>, n |-> 0])

\* Go append(sl, extra...) on heap h with a nondeterministic capacity choice c for reallocation
GoAppend(h, sl, extra, c) ==
    LET need == sl.n + Len(extra) IN
    IF Len(extra) = 0 THEN [h |-> h, sl |-> sl]
    ELSE IF ~CopyOnAppend /\ sl.n > 0 /\ need <= h[sl.a].cap
    THEN [h |-> [h EXCEPT ![sl.a].cells = [k \in 1..h[sl.a].cap |->
                        IF k > sl.n /\ k <= need THEN extra[k - sl.n] ELSE @[k]]],
          sl |-> [a |-> sl.a, n |-> need]]
    ELSE LET cur == IF sl.n = 0 THEN <<>> ELSE SubSeq(h[sl.a].cells, 1, sl.n)
             oldcap == IF sl.n = 0 THEN 0 ELSE h[sl.a].cap
             newcap == IF GoPolicy THEN (IF need > 2 * oldcap THEN need ELSE 2 * oldcap) ELSE need + c
             h1 == Alloc(h, cur \o extra, newcap)
         IN [h |-> h1, sl |-> [a |-> Len(h1), n |-> need]]

AppendOp(d, a, b, c1, c2) ==
    /\ a \in Live /\ b \in Live /\ Len(heap) + 2 <= MaxArr
    /\ LET na == mesh[a].pos.n
           bi == Deref(mesh[b].idx)
           r1 == GoAppend(heap, mesh[a].idx, bi, c1)
           \* finalTris[i] += mAtrLength for the appended tail, in place
           h1 == [r1.h EXCEPT ![r1.sl.a].cells = [k \in 1..Len(@) |->
                        IF k > mesh[a].idx.n /\ k <= r1.sl.n THEN @[k] + na ELSE @[k]]]
           r2 == GoAppend(h1, mesh[a].pos, IF mesh[b].pos.n = 0 THEN <<>> ELSE SubSeq(h1[mesh[b].pos.a].cells, 1, mesh[b].pos.n), c2)
       IN /\ r1.sl.n <= MaxLen
          /\ heap' = r2.h
          /\ mesh' = [mesh EXCEPT ![d] = [idx |-> r1.sl, pos |-> r2.sl]]
          /\ val' = [val EXCEPT ![d] = [idx |-> val[a].idx \o [k \in 1..Len(val[b].idx) |-> val[b].idx[k] + Len(val[a].pos)],
                                        pos |-> val[a].pos \o val[b].pos]]
    /\ UNCHANGED fresh /\ alive' = alive \cup {d}
    /\ hist' = Append(hist, [op |-> "Append", dst |-> d, src |-> <<a, b>>, n |-> 0])

Next ==
    /\ Len(hist) < Depth
    /\ \/ \E n \in 1..2 : alive # Slots /\ New(CHOOSE d \in Slots \ alive : \A e \in Slots \ alive : d <= e, n)
       \/ "Share" \in Acts /\ \E d, s \in Slots : Share(d, s)
       \/ "Modify" \in Acts /\ \E d, s \in Slots : Modify(d, s)
       \/ \E d, a, b \in Slots, c \in (IF GoPolicy THEN {0} ELSE 0..Slack) : AppendOp(d, a, b, c, c)

Spec == Init /\ [][Next]_vars

\* C01 at design level: every live slot still dereferences to its L1 value
Refines == \A s \in Live : Deref(mesh[s].idx) = val[s].idx /\ Deref(mesh[s].pos) = val[s].pos

\* generator mode: print the shape of every violating history (always TRUE)
RiskyEmit == Refines \/ PrintT(ToJson([risky |-> hist]))
\* keep exploring only while the refinement still holds (shortest shapes)
StopAtViolation == Refines
View == <<heap, mesh, val, alive, Len(hist)>>
=============================================================================
