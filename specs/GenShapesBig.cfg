CONSTANT Big = TRUE
SPECIFICATION Spec
INVARIANT Emit
CHECK_DEADLOCK FALSE
