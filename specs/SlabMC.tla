------------------------------- MODULE SlabMC -------------------------------
(***************************************************************************)
(* C16, design level (round 5): the per-axis SLAB STEP of the box/ray test *)
(* (math/geometry/aabb.go intersectsRayInRangeComponent) over IEEE         *)
(* EXTENDED values - -Inf, finite, +Inf, NaN - and the four classes of a   *)
(* direction component: negative, NEGATIVE ZERO, positive zero, positive.  *)
(*                                                                         *)
(* A ray is pushed through the three slabs of a lattice box, one Step per  *)
(* axis (the state carries the narrowed range, as the code's rayMin/rayMax *)
(* do). TLC enumerates every origin of Coords^3, every direction class     *)
(* triple with at least one non-zero component of unit size (so distances  *)
(* are integers) and every range T0 < T1, and checks                       *)
(*   RefInv       the outcome is the exact one: outside a slab the ray     *)
(*                runs parallel to -> miss; strictly inside such slabs and *)
(*                a crossing of positive length -> hit (boundary: free)    *)
(*   ZeroSignInv  the outcome does not depend on the sign of a zero        *)
(*                (away from the free boundary cases)                      *)
(* Variant "swap"     the code: both plane distances, swapped when t1 < t0 *)
(*         "signPick" entry/exit plane picked by `dir < 0` (false for -0,  *)
(*                    whose reciprocal is -Inf): must be refuted           *)
(* The library widens the box by 1e-10, so an origin ON a face is inside   *)
(* the slab; at lattice scale that case is left free here.                 *)
(***************************************************************************)
EXTENDS Integers, FiniteSets, TLC

CONSTANTS Variant, Coords, Lo, Hi, Ts

Dirs == {"neg", "nzero", "pzero", "pos"}
IsZero(d) == d \in {"nzero", "pzero"}

\* extended reals
Fin(v) == [k |-> "fin", v |-> v]
PInf == [k |-> "pinf", v |-> 0]
NInf == [k |-> "ninf", v |-> 0]
NaN == [k |-> "nan", v |-> 0]
Rank(x) == CASE x.k = "ninf" -> 0 [] x.k = "fin" -> 1 [] x.k = "pinf" -> 2 [] OTHER -> 3
\* IEEE comparisons: anything with NaN is false
Lt(x, y) == /\ x.k # "nan" /\ y.k # "nan"
            /\ \/ Rank(x) < Rank(y)
               \/ (x.k = "fin" /\ y.k = "fin" /\ x.v < y.v)
Le(x, y) == /\ x.k # "nan" /\ y.k # "nan"
            /\ (Lt(x, y) \/ (x.k = y.k /\ x.v = y.v))
\* 1/dir for unit directions and signed zeros
Inv(d) == CASE d = "neg" -> Fin(-1) [] d = "pos" -> Fin(1) [] d = "nzero" -> NInf [] OTHER -> PInf
\* integer a times extended x (0 * Inf = NaN)
Mul(a, x) == CASE x.k = "fin" -> Fin(a * x.v)
               [] x.k = "nan" -> NaN
               [] OTHER -> IF a = 0 THEN NaN
                           ELSE IF (a > 0) = (x.k = "pinf") THEN PInf ELSE NInf

\* one slab: returns the narrowed range and whether the box is missed
Step(o, d, tmin, tmax, lo, hi) ==
    LET inv == Inv(d)
        pick == Variant = "signPick"
        near == IF pick /\ d = "neg" THEN hi ELSE lo   \* `dir < 0` is false for both zeros
        far == IF pick /\ d = "neg" THEN lo ELSE hi
        a0 == Mul(near - o, inv)
        a1 == Mul(far - o, inv)
        sw == ~pick /\ Lt(a1, a0)
        t0 == IF sw THEN a1 ELSE a0
        t1 == IF sw THEN a0 ELSE a1
        nmin == IF Lt(tmin, t0) THEN t0 ELSE tmin
        nmax == IF Lt(t1, tmax) THEN t1 ELSE tmax
    IN [tmin |-> nmin, tmax |-> nmax, miss |-> Le(nmax, nmin)]

Box == [lo |-> <<Lo, Lo, Lo>>, hi |-> <<Hi, Hi, Hi>>]

RECURSIVE Run(_, _, _, _, _)
Run(o, d, a, tmin, tmax) ==
    IF a > 3 THEN "hit"
    ELSE LET s == Step(o[a], d[a], tmin, tmax, Box.lo[a], Box.hi[a])
         IN IF s.miss THEN "miss" ELSE Run(o, d, a + 1, s.tmin, s.tmax)

\* the exact outcome at lattice scale: "hit" / "miss" / "free"
Max2(x, y) == IF x >= y THEN x ELSE y
Min2(x, y) == IF x <= y THEN x ELSE y
RECURSIVE Cross(_, _, _, _, _)
\* intersection of the crossing intervals of the travelling axes with [m0, m1]
Cross(o, d, a, m0, m1) ==
    IF a > 3 THEN <<m0, m1>>
    ELSE IF IsZero(d[a]) THEN Cross(o, d, a + 1, m0, m1)
    ELSE LET e0 == IF d[a] = "pos" THEN Box.lo[a] - o[a] ELSE o[a] - Box.hi[a]
             e1 == IF d[a] = "pos" THEN Box.hi[a] - o[a] ELSE o[a] - Box.lo[a]
         IN Cross(o, d, a + 1, Max2(m0, e0), Min2(m1, e1))
Ref(o, d, T0, T1) ==
    LET par == {a \in 1..3 : IsZero(d[a])}
        out == \E a \in par : o[a] < Box.lo[a] \/ o[a] > Box.hi[a]
        inn == \A a \in par : Box.lo[a] < o[a] /\ o[a] < Box.hi[a]
        m == Cross(o, d, 1, T0, T1)
    IN IF out \/ m[1] > m[2] THEN "miss" ELSE IF inn /\ m[1] < m[2] THEN "hit" ELSE "free"

\* rays travelling along exactly ONE axis: unit direction, integer distances
DirOK(d) == Cardinality({a \in 1..3 : ~IsZero(d[a])}) = 1
Plus(d) == [a \in 1..3 |-> IF d[a] = "nzero" THEN "pzero" ELSE d[a]]

VARIABLES o, d, t0, t1
vars == <<o, d, t0, t1>>
Init == /\ o \in Coords \X Coords \X Coords
        /\ d \in {x \in Dirs \X Dirs \X Dirs : DirOK(x)}
        /\ t0 \in Ts /\ t1 \in Ts /\ t0 < t1
Next == UNCHANGED vars
Spec == Init /\ [][Next]_vars

Outcome(dd) == Run(o, dd, 1, Fin(t0), Fin(t1))
RefInv == LET r == Ref(o, d, t0, t1) IN r = "free" \/ Outcome(d) = r
ZeroSignInv == Ref(o, d, t0, t1) = "free" \/ Outcome(d) = Outcome(Plus(d))
=============================================================================
