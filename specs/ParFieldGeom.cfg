\* repaired shape: design check + exhaustive generator of axis scenarios (1..2 fields on one canvas)
CONSTANTS
  S = 4
  NegBlocks = 1
  Hi = 9
  MaxFields = 2
  SkipEmpty = FALSE
  CopyFull = FALSE
SPECIFICATION Spec
INVARIANTS ContentOK RegOK MarchOK Emit
CHECK_DEADLOCK FALSE
