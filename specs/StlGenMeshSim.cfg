CONSTANTS
  Mode = "mesh"
  NVs = {4, 5}
  MaxTris = 4
  MaxRecs = 0
SPECIFICATION Spec
INVARIANTS Layout MeanDefined InBudget EmitLeaf
CHECK_DEADLOCK FALSE
