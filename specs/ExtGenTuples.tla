---------------------------- MODULE ExtGenTuples ----------------------------
(***************************************************************************)
(* X06 generator 2: parameter tuples without a lattice path - the Screw    *)
(* node and the repeat.* generators.  One initial state per tuple, no      *)
(* transitions; small counts are enumerated exhaustively.                  *)
(***************************************************************************)
EXTENDS Repeat, Json

CONSTANTS MaxSeg, RevSet, MaxN, RadSet, EndSet, MaxCircle, MaxFib, PathSet, XfSet, MaxCopies

VARIABLE c

EBase == [kind |-> "ext", id |-> 0, gen |-> "screw", path |-> <<>>, sides |-> 4, rad |-> 2, radii |-> <<>>,
          close |-> FALSE, uv |-> FALSE, stencil |-> <<>>, n |-> 0, up |-> <<0, 1, 0>>, h |-> 0, rev |-> 0]
RBase == [kind |-> "rep", id |-> 0, gen |-> "line", path |-> <<>>, n |-> 0, a |-> <<0, 0, 0>>, b |-> <<0, 0, 0>>,
          rad |-> 4, xfs |-> <<>>, mesh |-> 0]

\* screw profiles (quarter units): a radial segment, a slanted 3-point line, a line touching
\* the axis, a vertical line, one point, a repeated point
Profiles == {<<<<4, 0, 0>>, <<8, 0, 0>>>>, <<<<4, 0, 0>>, <<8, 2, 0>>, <<8, 6, 4>>>>, <<<<0, 0, 0>>, <<6, 0, 0>>>>,
             <<<<4, 0, 0>>, <<4, 4, 0>>>>, <<<<4, 0, 0>>>>, <<<<4, 0, 0>>, <<4, 0, 0>>, <<8, 0, 0>>>>}
ScrewCases ==
    {[EBase EXCEPT !.path = p, !.sides = s, !.rev = r, !.h = d] : p \in Profiles, s \in 0..MaxSeg, r \in RevSet, d \in {0, 4, 6}}

LineCases ==
    {[RBase EXCEPT !.gen = g, !.a = e[1], !.b = e[2], !.n = n] :
        g \in {"line", "lineex", "linenode"}, e \in EndSet, n \in (-1)..MaxN}
CircleCases == {[RBase EXCEPT !.gen = "circle", !.n = n, !.rad = r] : n \in (-1)..MaxCircle, r \in RadSet}
FibCases == {[RBase EXCEPT !.gen = "fib", !.n = n, !.rad = r] : n \in (-1)..MaxFib, r \in RadSet}
SplineCases ==
    {[RBase EXCEPT !.gen = g, !.path = p, !.n = n] : g \in {"spline", "splineex", "splinenode"}, p \in PathSet, n \in (-1)..MaxN}
\* repeat.Mesh: every sequence of up to MaxCopies transforms of XfSet, on three base meshes
RECURSIVE Seqs(_, _)
Seqs(S, k) == IF k = 0 THEN {<<>>} ELSE LET shorter == Seqs(S, k - 1) IN shorter \cup {Append(q, x) : q \in {q \in shorter : Len(q) = k - 1}, x \in S}
MeshCases == {[RBase EXCEPT !.gen = "mesh", !.xfs = xs, !.mesh = m] : xs \in Seqs(XfSet, MaxCopies), m \in 0..2}

All == ScrewCases \cup LineCases \cup CircleCases \cup FibCases \cup SplineCases \cup MeshCases

Init == c \in All
Spec == Init /\ [][FALSE]_c

GenOK == IF c.kind = "ext" THEN Class(c) \in {"reject", "degenerate", "regular"}
         ELSE RepRejects(c) \/ RepCount(c) >= 0
Emit == PrintT(ToJson([case |-> c]))
=============================================================================
