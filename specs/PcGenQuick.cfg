CONSTANTS
  PtsN = {0, 1, 2, 3}
  TrackProfiles = {0, 1, 2}
  ImgN = {0, 1, 2}
  ImgProfiles = {0, 1, 2}
  CamN = {0, 1, 3}
  CamStarts = {0, 3, 6, 9}
  SfmRecs = {0, 1, 2}
  SfmPts = {0, 1, 3}
  Styles = {"min", "pretty"}
  AttrSets = {1, 2, 3, 4, 5}
  UniverseId = 1
  MaxPx = 2
  BothOrders = FALSE
  Scales = {64, 65536}
  NodeProfiles = {0, 1, 2}
SPECIFICATION Spec
INVARIANTS Emit TilesInv PrefixClosed StrictLaw HierLaw OctLaw RecLaw Budget
CHECK_DEADLOCK FALSE
