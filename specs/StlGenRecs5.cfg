CONSTANTS
  Mode = "recs"
  NVs = {0}
  MaxTris = 0
  MaxRecs = 5
SPECIFICATION Spec
INVARIANTS Layout InBudget Emit
CHECK_DEADLOCK FALSE
