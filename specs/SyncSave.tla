------------------------------ MODULE SyncSave ------------------------------
(***************************************************************************)
(* X01 - implementation-shaped (L2) CONCURRENT model: writers and one      *)
(* reader that serialises what it was handed AFTER the call returned.      *)
(*                                                                         *)
(* Every method of NestedSyncMap holds the mutex from entry to return, so  *)
(* a method call is ONE atomic step on the heap (SyncHeapOps).  What is    *)
(* not atomic is the caller's use of a map it was handed:                  *)
(*   save   App.Schema(): EncodeToAppSchema takes metadata.Data() and      *)
(*          jbtf.Encoder.ToPgtf then encodes the document TWICE            *)
(*          (toJsonMap, MarshalIndent), both outside the mutex             *)
(*   schema json.Marshal(Instance.Schema()): NodeInstanceSchema takes      *)
(*          metadata.Get("nodes.<id>") and the endpoint encodes it later   *)
(*   data / getm   a client of the bare map doing the same in one pass     *)
(* encoding/json reads one map completely (MapRange), sorts the keys, then *)
(* encodes the values in key order - nested maps are read only when their  *)
(* turn comes.  The reader is therefore a depth-first traversal whose      *)
(* units are "read one map object".  A leaf with code GATE is a harness-   *)
(* owned json.Marshaler that blocks: the traversal can be suspended        *)
(* exactly there, which is how the real goroutines are made to follow the  *)
(* schedules printed here (sched = sequence of clients, each entry lets    *)
(* that client run to its next gate or to the end of its operation).       *)
(*                                                                         *)
(* CopyOut = FALSE: Data()/Get() hand out the internal maps (sync.go as    *)
(* found).  CopyOut = TRUE: deep copies taken under the mutex.             *)
(*   Atomic    every completed read equals the value of its target at some *)
(*             instant between its invocation and its response             *)
(*   Isolated  while a reader is serialising, nothing it can still reach   *)
(*             is reachable from the map (else a writer may write a Go map *)
(*             that is being iterated: a data race, possibly the runtime's *)
(*             "concurrent map iteration and map write" fatal error)       *)
(* TLC proves both for CopyOut = TRUE to the bound and, for FALSE, is the  *)
(* GENERATOR of attack schedules (EmitTorn).                               *)
(***************************************************************************)
EXTENDS SyncHeapOps, Json

CONSTANTS NW, CopyOut, MaxW, MaxR, SchedLen, Kind, NWOps       \* Kind: "map" | "app"

E(p, v) == [p |-> p, v |-> v]
O(op, p, x) == [op |-> op, p |-> p, val |-> x]
NoVal == Leaf(NIL)

\* map : a:G  b:{a:G b:1 c:{b:1}}  c:1
\* app : N:G  m:1  nodes:{N:{N:G m:1 nodes:{m:1}}}      (key 1 = the node id "Node-k", 2 = "m", 3 = "nodes")
InitT == IF Kind = "map"
         THEN {E(<<1>>, GATE), E(<<2>>, MAP), E(<<2, 1>>, GATE), E(<<2, 2>>, 1), E(<<2, 3>>, MAP), E(<<2, 3, 2>>, 1), E(<<3>>, 1)}
         ELSE {E(<<1>>, GATE), E(<<2>>, 1), E(<<3>>, MAP), E(<<3, 1>>, MAP), E(<<3, 1, 1>>, GATE), E(<<3, 1, 2>>, 1),
               E(<<3, 1, 3>>, MAP), E(<<3, 1, 3, 2>>, 1)}

WOpSeq == IF Kind = "map"
          THEN <<O("set", <<3>>, Leaf(2)), O("set", <<2, 2>>, Leaf(2)), O("set", <<2, 3, 2>>, Leaf(2)), O("del", <<2, 3>>, NoVal),
                 O("set", <<2, 3>>, MapVal({E(<<1>>, GATE), E(<<3>>, 3)})), O("over", <<>>, MapVal({E(<<3>>, 5)})), O("del", <<2>>, NoVal)>>
          ELSE <<O("set", <<2>>, Leaf(2)), O("set", <<3, 1, 2>>, Leaf(2)), O("set", <<3, 1, 3, 2>>, Leaf(2)), O("del", <<3, 1, 3>>, NoVal),
                 O("set", <<3, 1, 3>>, MapVal({E(<<1>>, GATE), E(<<3>>, 3)})), O("del", <<3, 1>>, NoVal), O("set", <<3, 1>>, Leaf(4))>>
WOps == {WOpSeq[i] : i \in 1..NWOps}
ROps == IF Kind = "map" THEN {O("data", <<>>, NoVal), O("getm", <<2>>, NoVal)}
        ELSE {O("save", <<>>, NoVal), O("schema", <<3, 1>>, NoVal)}
Passes(o) == IF o.op = "save" THEN 2 ELSE 1

Reader == 1
Writers == 2..(NW + 1)
Clients == 1..(NW + 1)

VARIABLES hp, root, progs, sched, rd, torn, leaked
vars == <<hp, root, progs, sched, rd, torn, leaked>>

Idle == [on |-> FALSE, op |-> O("none", <<>>, NoVal), ref |-> 0, stk |-> <<>>, doc |-> {}, pass |-> 0, seen |-> {}]

I0 == AllocTree(<<>>, InitT)
Init ==
    /\ hp = I0.hp /\ root = I0.id
    /\ progs = [c \in Clients |-> <<>>] /\ sched = <<>> /\ rd = Idle /\ torn = FALSE /\ leaked = FALSE

(* ---- the reader's traversal ---- *)
Frame(h, o, pre) == [pre |-> pre, ents |-> SortedSlots(h[o])]        \* read map o completely

\* run until a gate leaf has been reached (its MarshalJSON blocks) or the pass is complete
RECURSIVE RunPass(_, _, _)
RunPass(h, stk, doc) ==
    IF stk = <<>> THEN [stk |-> <<>>, doc |-> doc, fin |-> TRUE]
    ELSE LET fr == Head(stk) IN
         IF fr.ents = <<>> THEN RunPass(h, Tail(stk), doc)
         ELSE LET s == Head(fr.ents)
                  rest == <<[fr EXCEPT !.ents = Tail(@)]>> \o Tail(stk)
                  path == fr.pre \o <<s.k>>
              IN IF s.leaf
                 THEN IF s.x = GATE THEN [stk |-> rest, doc |-> doc \cup {E(path, GATE)}, fin |-> FALSE]
                      ELSE RunPass(h, rest, doc \cup {E(path, s.x)})
                 ELSE RunPass(h, <<Frame(h, s.x, path)>> \o rest, doc \cup {E(path, MAP)})

RECURSIVE RunSlice(_, _, _, _, _, _)
RunSlice(h, ref, stk, doc, pass, passes) ==
    LET r == RunPass(h, stk, doc) IN
    IF r.fin /\ pass < passes THEN RunSlice(h, ref, <<Frame(h, ref, <<>>)>>, {}, pass + 1, passes)
    ELSE [stk |-> r.stk, doc |-> r.doc, fin |-> r.fin, pass |-> pass]

\* the value (as a tree) the reader's operation is specified to answer, now; NoTree when it is not a map
NoTree == {E(<<0>>, NIL)}
Target(h, rt, o) ==
    IF o.op \in {"data", "save"} THEN Abs(h, rt)
    ELSE LET g == GetH(h, rt, o.p) IN IF g.ok /\ g.found /\ ~g.slot.leaf THEN Abs(h, g.slot.x) ELSE NoTree

Adv(c) == sched' = Append(sched, c)
Finish(doc, seen) == torn' = (torn \/ doc \notin seen)

RStart(o) ==
    /\ ~rd.on /\ Len(progs[Reader]) < MaxR
    /\ progs' = [progs EXCEPT ![Reader] = Append(@, o)]
    /\ LET g == GetH(hp, root, o.p)
           isMap == o.op \in {"data", "save"} \/ (g.ok /\ g.found /\ ~g.slot.leaf)
           src == IF o.op \in {"data", "save"} THEN root ELSE g.slot.x
       IN IF ~isMap THEN UNCHANGED <<hp, rd, torn>>          \* a leaf / nil / panic: answered inside the mutex
          ELSE LET c == IF CopyOut THEN CopyObj(hp, src) ELSE [hp |-> hp, id |-> src]
                   r == RunSlice(c.hp, c.id, <<Frame(c.hp, c.id, <<>>)>>, {}, 1, Passes(o))
                   seen == {Target(hp, root, o)}
               IN /\ hp' = c.hp
                  /\ IF r.fin THEN rd' = Idle /\ Finish(r.doc, seen)
                     ELSE /\ rd' = [on |-> TRUE, op |-> o, ref |-> c.id, stk |-> r.stk, doc |-> r.doc, pass |-> r.pass, seen |-> seen]
                          /\ torn' = torn
    /\ UNCHANGED <<root, leaked>> /\ Adv(Reader)

RCont ==
    /\ rd.on
    /\ LET r == RunSlice(hp, rd.ref, rd.stk, rd.doc, rd.pass, Passes(rd.op)) IN
       IF r.fin THEN rd' = Idle /\ Finish(r.doc, rd.seen)
       ELSE rd' = [rd EXCEPT !.stk = r.stk, !.doc = r.doc, !.pass = r.pass] /\ torn' = torn
    /\ UNCHANGED <<hp, root, progs, leaked>> /\ Adv(Reader)

WStep(c, o) ==
    /\ Len(progs[c]) < MaxW
    /\ progs' = [progs EXCEPT ![c] = Append(@, o)]
    /\ LET h2 == CASE o.op = "set" -> SetH(hp, root, o.p, o.val).hp
                   [] o.op = "del" -> DelH(hp, root, o.p).hp
                   [] o.op = "over" -> AllocTree(hp, o.val.sub).hp
           r2 == IF o.op = "over" THEN Len(h2) ELSE root
       IN /\ hp' = h2 /\ root' = r2
          /\ rd' = IF rd.on THEN [rd EXCEPT !.seen = @ \cup {Target(h2, r2, rd.op)}] ELSE rd
          \* a writer changed an object the suspended reader can still reach
          /\ leaked' = (leaked \/ (rd.on /\ \E x \in Reach(hp, rd.ref) : x <= Len(hp) /\ h2[x] # hp[x]))
    /\ UNCHANGED torn /\ Adv(c)

Next ==
    /\ Len(sched) < SchedLen
    /\ \/ \E o \in ROps : RStart(o)
       \/ RCont
       \/ \E c \in Writers, o \in WOps : WStep(c, o)

Spec == Init /\ [][Next]_vars

Atomic == ~torn
Isolated == ~leaked /\ (rd.on => Reach(hp, rd.ref) \cap Reach(hp, root) = {})

Out == [kind |-> Kind, init |-> MapVal(InitT), progs |-> progs, sched |-> sched, torn |-> torn]
EmitTorn == ~torn \/ PrintT(ToJson(Out))
StopWhenTorn == ~torn
EmitSched == Len(sched) < SchedLen \/ rd.on \/ PrintT(ToJson(Out))
View == <<hp, root, progs, rd, torn, leaked, Len(sched)>>
=============================================================================
