---------------------------- MODULE AlgebraGroup ----------------------------
(***************************************************************************)
(* The rotation group of the cube as a state machine (C17).                *)
(*                                                                         *)
(* State: M, a 3x3 integer matrix, and the word (history) that produced    *)
(* it.  Actions: LeftMul(g) / RightMul(g) for the six quarter turns g.     *)
(*                                                                         *)
(* Checked on the specification itself (TLC, exhaustive):                  *)
(*   TypeOK      M is a signed permutation matrix                          *)
(*   Rotation    M is orthogonal with determinant +1                       *)
(*   GroupLaws   left and right multiplication commute, every generator    *)
(*               has its inverse among the generators, M^T is the inverse  *)
(*   WordOK      the word evaluates to M (WordMat is what the trace        *)
(*               specification uses to judge the real quaternions)         *)
(*   AgreesWithMeshValue  quarter turns are those of MeshValue.Rot1        *)
(* With VIEW <<M, last letter, length>> TLC reaches every edge of the      *)
(* group graph (24 states x 12 actions) and Emit prints one word per edge  *)
(* and length; the harness builds the real quaternion along each word.     *)
(***************************************************************************)
EXTENDS Algebra, Json

CONSTANTS Depth

MV == INSTANCE MeshValue

VARIABLES M, word
vars == <<M, word>>

Init == M = Id3 /\ word = <<>>

Mul(side, x) ==
    /\ M' = ApplyLetter(M, [side |-> side, axis |-> x.axis, sgn |-> x.sgn])
    /\ word' = Append(word, [side |-> side, axis |-> x.axis, sgn |-> x.sgn])

LeftMul(x) == Mul("L", x)
RightMul(x) == Mul("R", x)

Next == Len(word) < Depth /\ \E x \in Letters : LeftMul(x) \/ RightMul(x)
Spec == Init /\ [][Next]_vars

TypeOK == SignedPerm3(M)
Rotation == Orthogonal3(M) /\ Det3(M) = 1
GroupLaws ==
    /\ Mul3(Transpose3(M), M) = Id3
    /\ \A x, y \in Letters :
          Mul3(Mul3(QT(x.axis, x.sgn), M), QT(y.axis, y.sgn)) = Mul3(QT(x.axis, x.sgn), Mul3(M, QT(y.axis, y.sgn)))
    /\ \A x \in Letters : Mul3(QT(x.axis, 0 - x.sgn), Mul3(QT(x.axis, x.sgn), M)) = M
    /\ \A x \in Letters : Mul3(Mul3(M, QT(x.axis, x.sgn)), QT(x.axis, 0 - x.sgn)) = M
WordOK == WordMat(word) = M
\* four quarter turns are the identity; the generators are the quarter turns of MeshValue
ASSUME AgreesWithMeshValue ==
    \A a \in 1..3 : \A v \in {<<1, 2, 3>>, <<0 - 4, 0, 5>>} :
        /\ MulVec3(QT(a, 1), v) = MV!Rot1(a, v)
        /\ MV!RotN(a, 3, v) = MulVec3(QT(a, 0 - 1), v)
        /\ MV!RotN(a, 4, v) = v

LastLetter == IF word = <<>> THEN [side |-> "L", axis |-> 0, sgn |-> 0] ELSE word[Len(word)]
View == <<M, LastLetter, Len(word)>>

Emit == word = <<>> \/ PrintT(ToJson([k |-> "rot", word |-> word, m |-> M, vs |-> VProbes]))
EmitLeaf == Len(word) < Depth \/ PrintT(ToJson([k |-> "rot", word |-> word, m |-> M, vs |-> VProbes]))
=============================================================================
