CONSTANTS
  NameIds = {1, 2, 3, 7, 24}
  TypeIds = {1, 2, 7}
  MinProps = 1
  MaxProps = 3
  NVs = {3}
  FaceIds = {1, 2, 3, 5, 6}
  Mixed = FALSE
SPECIFICATION Spec
INVARIANTS InGrammar DenotePartition Emit
CHECK_DEADLOCK FALSE
