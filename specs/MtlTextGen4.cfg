CONSTANTS
  Depth = 4
  MinLen = 1
SPECIFICATION Spec
INVARIANTS Classified ReaderDesign Emit RiskyEmit
CHECK_DEADLOCK FALSE
