---------------------------- MODULE TraceSyncLin ----------------------------
(***************************************************************************)
(* X01 - linearizability of real concurrent histories of NestedSyncMap /   *)
(* SyncMap (bare, or behind graph.Instance / generator.App) against the    *)
(* sequential object of SyncTree.  Same construction as TraceParamServer:  *)
(* trace lines are ordered by one atomic counter                           *)
(*   {"k":"reset","h","init":[{p,v}..],...}                                *)
(*   {"k":"inv","c","op","p","val":{v,sub}}   {"k":"resp","c","res":{st,v,sub}} *)
(*   {"k":"hang"} {"k":"crash"}     (never consumable)                     *)
(* Lin(c) is a silent step TLC may place anywhere between c's invoke and   *)
(* response: it applies the operation to the tree (SyncTree!Step) and      *)
(* fixes the answer; a response line is consumable only if the logged      *)
(* answer equals it.  A history is linearizable iff some path consumes all *)
(* its lines.  Abandon skips to the next reset so one bad history does not *)
(* hide the rest; register h (TLCSet) records that history h was passed    *)
(* without abandoning on some path; Report prints the others, with the     *)
(* first line no clean path could consume (register NHist + h keeps the    *)
(* furthest line consumed): the response that cannot be explained.         *)
(* Answers of data/save/getm/schema are whole trees: a serialised document *)
(* that mixes two states of the map equals the tree of NO instant and is   *)
(* rejected.  Needs -workers 1.                                            *)
(***************************************************************************)
EXTENDS SyncTree, Json

Trace == ndJsonDeserialize("trace.ndjson")
NHist == Cardinality({i \in DOMAIN Trace : Trace[i].k = "reset"})

VARIABLES l, pend, clean, hno, t, flat
tvars == <<l, pend, clean, hno, t, flat>>

NoOp == [op |-> "none", p |-> <<>>, val |-> Leaf(NIL)]
NoPend == [o |-> NoOp, lin |-> FALSE, res |-> Ok(0, {})]
MaxC == 8

TInit ==
    /\ l = 1 /\ pend = [c \in 1..MaxC |-> NoPend] /\ clean = TRUE /\ hno = 0 /\ t = {} /\ flat = {}
    /\ \A h \in 1..NHist : TLCSet(h, FALSE) /\ TLCSet(NHist + h, 0)

Line == Trace[l]
Mark == IF clean /\ hno > 0 THEN TLCSet(hno, TRUE) ELSE TRUE
\* line l is being consumed on a path that never abandoned inside this history
Far == IF clean /\ hno > 0 /\ TLCGet(NHist + hno) < l THEN TLCSet(NHist + hno, l) ELSE TRUE

TReset ==
    /\ l <= Len(Trace) /\ Line.k = "reset"
    /\ Mark
    /\ t' = Range(Line.init) /\ flat' = {} /\ pend' = [c \in 1..MaxC |-> NoPend]
    /\ clean' = TRUE /\ hno' = hno + 1 /\ l' = l + 1

TInv ==
    /\ l <= Len(Trace) /\ Line.k = "inv"
    /\ pend[Line.c].o.op = "none"
    /\ Far
    /\ pend' = [pend EXCEPT ![Line.c] = [o |-> [op |-> Line.op, p |-> Line.p, val |-> [v |-> Line.val.v, sub |-> Range(Line.val.sub)]],
                                         lin |-> FALSE, res |-> Ok(0, {})]]
    /\ UNCHANGED <<t, flat, clean, hno>> /\ l' = l + 1

Lin(c) ==
    /\ pend[c].o.op # "none" /\ ~pend[c].lin
    /\ LET o == pend[c].o IN
       IF o.op = "fset" THEN /\ flat' = FlatSet(flat, o.p[1], o.val.v) /\ t' = t
                             /\ pend' = [pend EXCEPT ![c].lin = TRUE, ![c].res = Ok(0, {})]
       ELSE IF o.op = "fget" THEN /\ UNCHANGED <<t, flat>>
                                  /\ pend' = [pend EXCEPT ![c].lin = TRUE, ![c].res = Ok(FlatGet(flat, o.p[1]), {})]
       ELSE LET r == Step(t, o) IN
            /\ t' = r.t /\ flat' = flat
            /\ pend' = [pend EXCEPT ![c].lin = TRUE, ![c].res = r.res]
    /\ UNCHANGED <<l, clean, hno>>

TResp ==
    /\ l <= Len(Trace) /\ Line.k = "resp"
    /\ pend[Line.c].lin
    /\ pend[Line.c].res = [st |-> Line.res.st, v |-> Line.res.v, sub |-> Range(Line.res.sub)]
    /\ Far
    /\ pend' = [pend EXCEPT ![Line.c] = NoPend]
    /\ UNCHANGED <<t, flat, clean, hno>> /\ l' = l + 1

NextReset(i) == IF \E j \in i..Len(Trace) : Trace[j].k = "reset"
                THEN CHOOSE j \in i..Len(Trace) : Trace[j].k = "reset" /\ \A m \in i..(j - 1) : Trace[m].k # "reset"
                ELSE Len(Trace) + 1
Abandon ==
    /\ l <= Len(Trace) /\ Line.k # "reset" /\ clean
    /\ l' = NextReset(l) /\ clean' = FALSE
    /\ pend' = [c \in 1..MaxC |-> NoPend] /\ t' = {} /\ flat' = {}
    /\ UNCHANGED hno

TEnd == l = Len(Trace) + 1 /\ Mark /\ UNCHANGED tvars

TNext == TReset \/ TInv \/ TResp \/ (\E c \in 1..MaxC : Lin(c)) \/ Abandon \/ TEnd
TSpec == TInit /\ [][TNext]_tvars

Report ==
    \A h \in 1..NHist : TLCGet(h) \/ PrintT(ToJson([bad |-> {"X01.Linearizable"}, h |-> h, far |-> TLCGet(NHist + h)]))
=============================================================================
