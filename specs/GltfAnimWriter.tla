--------------------------- MODULE GltfAnimWriter ---------------------------
(***************************************************************************)
(* X07 -- implementation-shaped (L2) model of the part of                  *)
(* formats/gltf.Writer.AddScene that C06's GltfWriter leaves out: the node *)
(* table, AddSkin (flattenSkeletonToNodes) and AddAnimations.  Mesh data,  *)
(* materials and byte offsets are GltfWriter's business and are abstracted *)
(* away here; what is kept is every INDEX the code computes: node numbers, *)
(* children, skin.joints, node.skin, channel.sampler, channel.target.node, *)
(* and the caller's Skeleton objects the code reads (and, before the       *)
(* repair, wrote to).                                                      *)
(*                                                                         *)
(* Design switches reproduce the tree as it was found:                     *)
(*   HardOffset  joints and children are offset by the constant 1          *)
(*               (writer.go: flattenSkeletonToNodes(1, ..), i + 1)         *)
(*   Overwrite   w.skins = []Skin{..} replaces the skin table              *)
(*   SamplerI    channel.sampler = position of the Sequence in the model   *)
(*   Mutate      children[i] = c + offset is written INTO the slice        *)
(*               Skeleton.Children returns (the caller's skeleton)         *)
(*   Dedup       a Skeleton pointer seen before reuses its skin            *)
(*   Validate    sequences the format cannot carry are refused (error)     *)
(* GltfAnimWriterFixed.cfg is the repaired design (all properties hold);   *)
(* GltfAnimWriterOrig*.cfg switch ONE original behaviour back on and TLC   *)
(* finds the counterexample to the property named in the check.            *)
(*                                                                         *)
(* The same module is the GENERATOR of X07: models / lights are the scene  *)
(* built so far; Emit prints the scene descriptor `vh xanim-exec` runs on  *)
(* the real code.                                                          *)
(***************************************************************************)
EXTENDS Integers, Sequences, FiniteSets, TLC, Json, SequencesExt

CONSTANTS MeshIds, SkelIds, AnimKinds, TrsKinds, MaxModels, MaxLights,
          HardOffset, Overwrite, SamplerI, Mutate, Dedup, Validate,
          AllowUnrigged     \* generator only: a skeleton may meet a mesh that is not rigged (for it)

VARIABLES w, models, lights
vars == <<w, models, lights>>

Ran(s) == {s[i] : i \in DOMAIN s}

(* ----------------------------- pools ---------------------------------- *)
P == [ar |-> 3, id |-> 1]
N == [ar |-> 3, id |-> 2]
U == [ar |-> 2, id |-> 4]
M(topo, nv, ni, attrs, seed) == [topo |-> topo, nv |-> nv, ni |-> ni, idx |-> <<>>, attrs |-> attrs, vseed |-> seed, spec |-> <<>>]
MeshPool == <<
    M("triangle", 3, 3, <<P, N>>, 1),     \* 1 not rigged, one triangle (an odd number of 16-bit indices)
    M("triangle", 4, 6, <<P, U>>, 2),     \* 2 rigged for 1 joint
    M("triangle", 5, 6, <<P>>, 3),        \* 3 rigged for 2 joints
    M("triangle", 3, 3, <<P>>, 4),        \* 4 rigged for 1 joint, odd number of indices
    M("point", 4, 4, <<P>>, 5),           \* 5 points, rigged for 3 joints
    M("triangle", 4, 0, <<P>>, 6)         \* 6 EMPTY mesh (the model is skipped), rigged for 1 joint
>>
JW == <<0, 1, 2, 1, 3, 1>>

S(par, ori) == [par |-> par, pos |-> [i \in DOMAIN par |-> <<8 * i - 8, 4 * i + par[i], -2 * i>>], ori |-> ori]
SkelPool == <<
    S(<<0>>, <<0>>),                      \* 1 single joint
    S(<<0, 1>>, <<0, 0>>),                \* 2 chain of 2
    S(<<0, 1, 2>>, <<0, 0, 0>>),          \* 3 chain of 3
    S(<<0, 1, 1>>, <<0, 0, 0>>),          \* 4 star, 2 rays
    S(<<0, 1, 1, 1>>, <<0, 0, 0, 0>>),    \* 5 star, 3 rays
    S(<<0, 1, 1, 2>>, <<0, 0, 0, 0>>),    \* 6 tree; descriptor order is NOT the Skeleton's (depth-first) order
    S(<<0, 1, 2, 3>>, <<0, 0, 0, 0>>),    \* 7 chain of 4 (depth 3)
    S(<<0, 1>>, <<0, 1>>),                \* 8 chain of 2 with a joint that is not axis-aligned
    S(<<0, 1, 2, 2, 3>>, <<0, 0, 0, 0, 0>>) \* 9 depth 3 with a branch
>>
NJ(s) == Len(SkelPool[s].par)

\* the order in which animation.NewSkeleton flattens the joints (depth first, children in order)
KidSeq(par, i) == SetToSortSeq({c \in DOMAIN par : par[c] = i}, LAMBDA a, b : a < b)
RECURSIVE Pre(_, _), Cat(_, _, _)
Cat(par, ks, k) == IF k > Len(ks) THEN <<>> ELSE Pre(par, ks[k]) \o Cat(par, ks, k + 1)
Pre(par, i) == <<i>> \o Cat(par, KidSeq(par, i), 1)
Order(s) == Pre(SkelPool[s].par, 1)
PosIn(seq, x) == CHOOSE k \in DOMAIN seq : seq[k] = x
\* Skeleton.Lookup: descriptor joint j (1-based) -> joint number of the Skeleton (0-based)
Lookup(s, j) == PosIn(Order(s), j) - 1
\* Skeleton.Children(f) for every joint number f (1-based position), as 0-based joint numbers
ChildrenOf(s) == [f \in DOMAIN Order(s) |->
                    LET ks == KidSeq(SkelPool[s].par, Order(s)[f]) IN [c \in DOMAIN ks |-> PosIn(Order(s), ks[c]) - 1]]
OrigMem == [s \in DOMAIN SkelPool |-> ChildrenOf(s)]

Fr(t, k) == <<t, k, 2 * k, -k>>
SeqsOf(kind, n) ==
    CASE kind = 0 -> <<>>
      [] kind = 1 -> <<[j |-> 1, fr |-> <<Fr(0, 1)>>]>>
      [] kind = 2 -> <<[j |-> n, fr |-> <<Fr(0, 1), Fr(4, 2), Fr(12, 3)>>]>>
      [] kind = 3 -> <<[j |-> 1, fr |-> <<Fr(2, 1), Fr(6, 5)>>], [j |-> n, fr |-> <<Fr(0, 0), Fr(1, 1), Fr(2, 4)>>]>>
      [] kind = 4 -> <<[j |-> n, fr |-> <<Fr(1, 7)>>], [j |-> 1, fr |-> <<Fr(0, 2), Fr(8, 3)>>], [j |-> n, fr |-> <<Fr(3, 1), Fr(5, 1), Fr(7, 2), Fr(9, 3)>>]>>
      [] kind = 5 -> <<[j |-> 0, fr |-> <<Fr(0, 1)>>]>>                                 \* a path the skeleton does not have
      [] kind = 6 -> <<[j |-> 1, fr |-> <<>>]>>                                         \* no key frame
      [] kind = 7 -> <<[j |-> 1, fr |-> <<Fr(1, 1), Fr(1, 2)>>]>>                       \* a time twice
      [] kind = 8 -> <<[j |-> n, fr |-> <<Fr(4, 1), Fr(2, 2)>>]>>                       \* back in time
      [] kind = 9 -> <<[j |-> 1, fr |-> <<Fr(-1, 1), Fr(2, 2)>>]>>                      \* negative time
      [] OTHER    -> <<[j |-> 1, fr |-> <<Fr(0, 1), Fr(1, 2)>>], [j |-> 0, fr |-> <<Fr(0, 1)>>]>>   \* a good one, then a bad one
SeqBad(q) == q.j = 0 \/ q.fr = <<>> \/ q.fr[1][1] < 0 \/ \E i \in 1..(Len(q.fr) - 1) : q.fr[i][1] >= q.fr[i + 1][1]

TrsOf(k) == CASE k = 0 -> [t |-> <<>>, r |-> <<>>, s |-> <<>>, sp |-> <<>>]
              [] OTHER -> [t |-> <<8, -16, 4>>, r |-> <<>>, s |-> <<>>, sp |-> <<>>]
LightOf(k) == [type |-> 2, col |-> 1, inten |-> -1, range |-> -1, pos |-> <<8 * k, 0, -8>>]

(* ----------------------------- the writer ----------------------------- *)
EmptyW == [nodes |-> <<>>, roots |-> <<>>, skins |-> <<>>, anims |-> <<>>, status |-> "OK", mem |-> OrigMem, ninst |-> 0]
Live(m) == MeshPool[m.mesh].ni > 0
Seqs(m) == SeqsOf(m.anim, IF m.skel = 0 THEN 1 ELSE NJ(m.skel))
ModelBad(m) == Seqs(m) # <<>> /\ (m.skel = 0 \/ \E q \in Ran(Seqs(m)) : SeqBad(q))

AddSkinW(w1, m, nodeIndex) ==
    LET seen == {k \in DOMAIN w1.skins : w1.skins[k].ptr = m.skel} IN
    IF Dedup /\ seen # {}
    THEN LET k == CHOOSE x \in seen : TRUE IN
         [w |-> [w1 EXCEPT !.nodes[nodeIndex + 1].skin = k - 1], root |-> w1.skins[k].root]
    ELSE
    LET off == IF HardOffset THEN 1 ELSE Len(w1.nodes)
        root == Len(w1.nodes)
        n == NJ(m.skel)
        ch == [j \in 1..n |-> [c \in DOMAIN w1.mem[m.skel][j] |-> w1.mem[m.skel][j][c] + off]]
        jn == [j \in 1..n |-> [kind |-> "joint", children |-> ch[j], skin |-> -1, want |-> 0, sk |-> m.skel, base |-> root, jix |-> j - 1]]
        new == [joints |-> [j \in 1..n |-> IF HardOffset THEN j ELSE off + j - 1], ptr |-> m.skel, root |-> root]
        skins2 == IF Overwrite THEN <<new>> ELSE Append(w1.skins, new)
    IN [w |-> [w1 EXCEPT !.roots = Append(@, root),
                         !.nodes = [(@ \o jn) EXCEPT ![nodeIndex + 1].skin = Len(skins2) - 1],
                         !.skins = skins2,
                         !.mem[m.skel] = IF Mutate THEN ch ELSE @,
                         !.ninst = @ + 1],
        root |-> root]

AddAnimsW(w2, m, skinNode) ==
    LET qs == Seqs(m) IN
    IF qs = <<>> THEN w2
    ELSE IF Validate /\ ModelBad(m) THEN [w2 EXCEPT !.status = "FAIL"]
    ELSE IF m.skel = 0 THEN [w2 EXCEPT !.status = "PANIC"]                       \* *model.Skeleton of a nil pointer
    ELSE IF \E q \in Ran(qs) : q.j = 0 THEN [w2 EXCEPT !.status = "PANIC"]       \* Skeleton.Lookup panics
    ELSE [w2 EXCEPT !.anims = @ \o [i \in DOMAIN qs |->
                [sampler |-> IF SamplerI THEN i - 1 ELSE 0, nsamp |-> 1, sk |-> m.skel, jix |-> Lookup(m.skel, qs[i].j),
                 node |-> Lookup(m.skel, qs[i].j) + skinNode, bad |-> SeqBad(qs[i])]]]

AddModelW(w0, m) ==
    IF w0.status # "OK" \/ ~Live(m) THEN w0
    ELSE
    LET nodeIndex == Len(w0.nodes)
        w1 == [w0 EXCEPT !.nodes = Append(@, [kind |-> "mesh", children |-> <<>>, skin |-> -1, want |-> m.skel, sk |-> 0, base |-> 0, jix |-> 0]),
                         !.roots = Append(@, nodeIndex)]
        r == IF m.skel = 0 THEN [w |-> w1, root |-> nodeIndex] ELSE AddSkinW(w1, m, nodeIndex)
    IN AddAnimsW(r.w, m, r.root)

(* ----------------------------- behaviours ------------------------------ *)
Candidates ==
    {[mesh |-> me, skel |-> sk, anim |-> an, trs |-> tk] : me \in MeshIds, sk \in SkelIds \cup {0}, an \in AnimKinds, tk \in TrsKinds}
Sensible(m) ==
    /\ m.skel # 0 => (AllowUnrigged \/ (JW[m.mesh] >= 1 /\ JW[m.mesh] <= NJ(m.skel)))   \* the mesh is rigged for joints the skeleton has
    /\ m.skel = 0 => m.anim \in {0, 1}                                 \* sequences without a skeleton: one representative

Init == w = EmptyW /\ models = <<>> /\ lights = <<>>
AddModel == /\ Len(models) < MaxModels /\ lights = <<>>
            /\ \E m \in Candidates : Sensible(m) /\ w' = AddModelW(w, m) /\ models' = Append(models, m)
            /\ UNCHANGED lights
AddLight == /\ Len(lights) < MaxLights /\ models # <<>>
            /\ w' = IF w.status = "OK"
                    THEN [w EXCEPT !.nodes = Append(@, [kind |-> "light", children |-> <<>>, skin |-> -1, want |-> 0, sk |-> 0, base |-> 0, jix |-> 0]),
                                   !.roots = Append(@, Len(w.nodes))]
                    ELSE w
            /\ lights' = Append(lights, LightOf(Len(lights) + 1))
            /\ UNCHANGED models
Next == AddModel \/ AddLight
Spec == Init /\ [][Next]_vars

(* ----------------------------- properties of the design ---------------- *)
OK == w.status = "OK"
NodeAt(i) == w.nodes[i + 1]
InNodes(i) == i >= 0 /\ i < Len(w.nodes)
\* a model's node references a skin, and that skin is the one of the model's skeleton
L2SkinRef ==
    OK => \A n \in Ran(w.nodes) : n.kind = "mesh" =>
            IF n.want = 0 THEN n.skin = -1
            ELSE n.skin >= 0 /\ n.skin < Len(w.skins) /\ w.skins[n.skin + 1].ptr = n.want
\* skin.joints[j] is THE node written for joint j of that skeleton
L2Joints ==
    OK => \A s \in Ran(w.skins) : \A j \in DOMAIN s.joints :
            /\ InNodes(s.joints[j])
            /\ NodeAt(s.joints[j]).kind = "joint" /\ NodeAt(s.joints[j]).sk = s.ptr
            /\ NodeAt(s.joints[j]).base = s.root /\ NodeAt(s.joints[j]).jix = j - 1
\* the children of a joint node are the nodes written for the children of that joint
L2Children ==
    OK => \A i \in DOMAIN w.nodes : LET n == w.nodes[i] IN
            n.kind = "joint" => n.children = [c \in DOMAIN OrigMem[n.sk][n.jix + 1] |-> n.base + OrigMem[n.sk][n.jix + 1][c]]
\* nodes form a forest and scene roots have no parent
L2Forest ==
    OK => /\ \A n \in Ran(w.nodes) : \A c \in Ran(n.children) : InNodes(c)
          /\ \A i \in 0..(Len(w.nodes) - 1) : Cardinality({p \in DOMAIN w.nodes : i \in Ran(w.nodes[p].children)}) <= 1
          /\ \A r \in Ran(w.roots) : ~\E p \in DOMAIN w.nodes : r \in Ran(w.nodes[p].children)
L2Sampler == OK => \A a \in Ran(w.anims) : a.sampler >= 0 /\ a.sampler < a.nsamp
L2Target == OK => \A a \in Ran(w.anims) : InNodes(a.node) /\ NodeAt(a.node).kind = "joint" /\ NodeAt(a.node).sk = a.sk /\ NodeAt(a.node).jix = a.jix
\* a skeleton object is written once
L2SharedOnce ==
    OK => /\ \A i, j \in DOMAIN w.skins : i # j => w.skins[i].ptr # w.skins[j].ptr
          /\ \A a, b \in Ran(w.nodes) : (a.kind = "joint" /\ b.kind = "joint" /\ a.sk = b.sk) => a.base = b.base
\* the writer only reads the caller's skeletons
L2CallerUntouched == w.mem = OrigMem
L2NoPanic == w.status # "PANIC"
\* a scene is refused exactly when a live model carries a sequence the format has no place for
L2Refuses == (w.status # "OK") = (\E k \in DOMAIN models : Live(models[k]) /\ ModelBad(models[k]))
L2NothingBadWritten == OK => \A a \in Ran(w.anims) : ~a.bad

L2All == L2SkinRef /\ L2Joints /\ L2Children /\ L2Forest /\ L2Sampler /\ L2Target /\ L2SharedOnce /\ L2CallerUntouched
         /\ L2NoPanic /\ L2Refuses /\ L2NothingBadWritten

(* ----------------------------- generator output ------------------------ *)
Descriptor ==
    [tag |-> "l2", vmode |-> "lattice", div |-> 8, tdiv |-> 8, meshes |-> MeshPool, texs |-> <<>>, mats |-> <<>>,
     models |-> [k \in DOMAIN models |-> [name |-> 1 + (k % 2), mesh |-> models[k].mesh, mat |-> 0, trs |-> TrsOf(models[k].trs), inst |-> <<>>]],
     lights |-> lights, kinds |-> <<>>, risk |-> <<>>,
     skels |-> SkelPool, jw |-> JW,
     xm |-> [k \in DOMAIN models |-> [skel |-> models[k].skel, anims |-> Seqs(models[k])]],
     l2 |-> [status |-> w.status, nodes |-> Len(w.nodes), skins |-> Len(w.skins), anims |-> Len(w.anims)]]
Emit == models = <<>> \/ PrintT(ToJson(Descriptor))
EmitLeaf == ~((Len(models) = MaxModels \/ lights # <<>>) /\ Len(lights) = MaxLights /\ models # <<>>) \/ PrintT(ToJson(Descriptor))
=============================================================================
