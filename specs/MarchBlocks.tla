----------------------------- MODULE MarchBlocks -----------------------------
(***************************************************************************)
(* C09, implementation-shaped (L2): the sparse block storage of            *)
(* MarchingCanvas and the corner fetch of marchFloat1BlockPosition,        *)
(* transcribed action by action from canvas.go with the block size B as a  *)
(* parameter (100 in the code, 3 here), checked against the contract       *)
(* "the marcher visits exactly the cells all of whose corners are stored,  *)
(* once, and reads for corner c of cell g the sample at g + CornerPos[c]". *)
(* This is where a design slip (`newIndex.X = 0` on the wrong axis, a      *)
(* truncating instead of flooring block coordinate below zero, a missing   *)
(* neighbour-block test) shows up with a counterexample on the model;      *)
(* verdicts on the code come from the replay (TraceSurf), never from here. *)
(*                                                                         *)
(* State: alloc, the set of allocated block coordinates - every subset of  *)
(* Blocks is an initial state (negative block coordinates included); there *)
(* are no transitions.                                                     *)
(***************************************************************************)
EXTENDS Integers, FiniteSets, TLC

CONSTANTS B, Blocks

VARIABLE alloc

CornerPos == << <<0, 0, 0>>, <<1, 0, 0>>, <<1, 0, 1>>, <<0, 0, 1>>,
                <<0, 1, 0>>, <<1, 1, 0>>, <<1, 1, 1>>, <<0, 1, 1>> >>
Local == 0..(B - 1)

\* canvasPosToChunkPos: int(math.Floor(float64(x) / marchingSectionSize))  (\div floors)
Chunk(x) == x \div B
ChunkOf(p) == <<Chunk(p[1]), Chunk(p[2]), Chunk(p[3])>>

(* ---- marchFloat1BlockPosition, canvas.go:477-570, for block bp and local cell c ---- *)
ZB(bp, c) == IF c[3] = B - 1 THEN bp[3] + 1 ELSE bp[3]
YB(bp, c) == IF c[2] = B - 1 THEN bp[2] + 1 ELSE bp[2]
XB(bp, c) == IF c[1] = B - 1 THEN bp[1] + 1 ELSE bp[1]
SkipZ(bp, c) == c[3] = B - 1 /\ <<bp[1], bp[2], ZB(bp, c)>> \notin alloc            \* `continue` on nextZ
SkipY(bp, c) == c[2] = B - 1 /\ <<bp[1], YB(bp, c), ZB(bp, c)>> \notin alloc        \* `continue` on nextY
\* cubeDataBlockPositions
CornerBlock(bp, c) ==
    LET x == XB(bp, c)
        y == YB(bp, c)
        z == ZB(bp, c)
    IN << bp, <<x, bp[2], bp[3]>>, <<x, bp[2], z>>, <<bp[1], bp[2], z>>,
          <<bp[1], y, bp[3]>>, <<x, y, bp[3]>>, <<x, y, z>>, <<bp[1], y, z>> >>
AllValid(bp, c) == \A i \in 1..8 : CornerBlock(bp, c)[i] \in alloc
\* newIndex: local index + increment, reset to 0 on the axes where the corner is in another block
NewIndex(bp, c, i) ==
    LET cb == CornerBlock(bp, c)[i]
    IN [a \in 1..3 |-> IF cb[a] # bp[a] THEN 0 ELSE c[a] + CornerPos[i][a]]
Processed(bp, c) == ~SkipZ(bp, c) /\ ~SkipY(bp, c) /\ AllValid(bp, c)
\* the sample the code reads for corner i, in global lattice coordinates
Fetched(bp, c, i) ==
    LET cb == CornerBlock(bp, c)[i]
        ni == NewIndex(bp, c, i)
    IN <<cb[1] * B + ni[1], cb[2] * B + ni[2], cb[3] * B + ni[3]>>

(* ---- contract ---- *)
Cell(bp, c) == <<bp[1] * B + c[1], bp[2] * B + c[2], bp[3] * B + c[3]>>
Want(g, i) == <<g[1] + CornerPos[i][1], g[2] + CornerPos[i][2], g[3] + CornerPos[i][3]>>
Stored(p) == ChunkOf(p) \in alloc
LocalCells == Local \X Local \X Local

\* every read hits the right sample, inside the block's array
FetchRight ==
    \A bp \in alloc : \A c \in LocalCells :
        Processed(bp, c) =>
            \A i \in 1..8 : /\ Fetched(bp, c, i) = Want(Cell(bp, c), i)
                            /\ \A a \in 1..3 : NewIndex(bp, c, i)[a] \in Local
\* a cell is marched iff all eight corners are stored (each global cell belongs to one block/local pair)
CoverageExact ==
    \A bp \in alloc : \A c \in LocalCells :
        Processed(bp, c) <=> \A i \in 1..8 : Stored(Want(Cell(bp, c), i))

(* ---- AddField, canvas.go:268-290: which sample of [lo, hi) is written where (one axis) ---- *)
MaxI(x, y) == IF x >= y THEN x ELSE y
MinI(x, y) == IF x <= y THEN x ELSE y
Writes(lo, hi) ==       \* <<block, local, global>> triples written for the canvas range lo..hi-1
    UNION {{<<b, g - b * B, g>> : g \in MaxI(b * B, lo)..(MinI(b * B + B, hi) - 1)} : b \in Chunk(lo)..Chunk(hi)}
WriteOnce ==
    \A lo \in (-2 * B)..B : \A hi \in (lo + 1)..(2 * B) :
        LET w == Writes(lo, hi)
        IN /\ {t[3] : t \in w} = lo..(hi - 1)
           /\ Cardinality(w) = hi - lo
           /\ \A t \in w : t[2] \in Local /\ t[1] = Chunk(t[3])

\* default model: 2 x 2 x 2 candidate blocks around the origin, negative coordinates included
DefaultBlocks == {-1, 0} \X {-1, 0} \X {0, 1}

Init == alloc \in SUBSET Blocks
Spec == Init /\ [][FALSE]_alloc
ASSUME WriteOnce
=============================================================================
