CONSTANTS
  Mode = "mesh"
  NVs = {0, 3, 4}
  MaxTris = 2
  MaxRecs = 0
SPECIFICATION Spec
INVARIANTS Layout MeanDefined InBudget Emit
CHECK_DEADLOCK FALSE
