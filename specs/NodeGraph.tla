------------------------------ MODULE NodeGraph ------------------------------
(***************************************************************************)
(* Contract-level (L1) specification of polyform's lazy, cached node graph *)
(* (nodes.Struct over nodes.Value / parameter.Value leaves).  C11.         *)
(*                                                                         *)
(* Sources are integers: 0 = unconnected, 1..NP parameters, NP+1..NP+NN    *)
(* struct nodes.  Every struct node has two single ports A, B and one      *)
(* array port Arr (the three shapes of input the code distinguishes).      *)
(* Values are symbolic TERMS (strings): a parameter evaluates to its       *)
(* current value string, a node to  "n<k>(<A>,<B>,[<Arr..>])" , so the     *)
(* from-scratch value of a node is unique per (graph, parameter values).   *)
(*                                                                         *)
(* Change events carry unique ids (ev): setting a parameter (even to an    *)
(* equal value: ApplyMessage/Set bump the version unconditionally) and     *)
(* re-wiring a node.  seen[n] is the set of latest event ids in n's cone   *)
(* at its last execution; n is Dirty iff it never executed or its cone's   *)
(* event set differs.                                                      *)
(*                                                                         *)
(* Contract (judged on real executions by TraceNodeGraph):                 *)
(*   Fresh    a read returns Scratch(n)                                    *)
(*   Minimal  only Dirty nodes of the read node's cone execute, each at    *)
(*            most once per read                                           *)
(*   Version  version = number of executions, +1 per execution only        *)
(* The generator below is deterministic: a read executes exactly the dirty *)
(* nodes of the cone (what the code does when processors read all inputs). *)
(***************************************************************************)
EXTENDS NodeTerms, Json

CONSTANTS Depth, Vals,
          Wide    \* length of the array port of the wide fan-in starting shape (0: no such shape)

VARIABLES wire,   \* node -> [a |-> src, b |-> src, arr |-> Seq(src)]
          pval,   \* param -> value (Nat)
          pev,    \* param -> id of its latest set event
          wev,    \* node -> id of its latest re-wire event
          seen,   \* node -> set of event ids at last execution ({-1} = never executed)
          ver,    \* node -> version
          ev,     \* event counter
          hist
vars == <<wire, pval, pev, wev, seen, ver, ev, hist>>

Never == {0 - 1}

ConeEvents(w, pe, we, n) == {pe[p] : p \in Cone(w, n) \cap Params} \cup {we[m] : m \in ConeStar(w, n) \cap Nodes}
Dirty(n) == seen[n] = Never \/ seen[n] # ConeEvents(wire, pev, wev, n)

Scratch(n) == Term(wire, pval, n)

WireSeq(w) == [i \in 1..NN |-> [n |-> NP + i, a |-> w[NP + i].a, b |-> w[NP + i].b, arr |-> w[NP + i].arr]]

\* a few starting shapes: empty, chain, diamond, fan-in with array port, shared sub-graph
Shapes ==
    LET n1 == NP + 1  n2 == NP + 2  n3 == NP + 3 IN
    {[n \in Nodes |-> NoWire]}
    \cup (IF NN >= 3 /\ NP >= 2 THEN
          { [n \in Nodes |-> IF n = n1 THEN [a |-> 1, b |-> 2, arr |-> <<>>]
                             ELSE IF n = n2 THEN [a |-> n1, b |-> NoSrc, arr |-> <<>>]
                             ELSE IF n = n3 THEN [a |-> n2, b |-> 2, arr |-> <<>>] ELSE NoWire],
            [n \in Nodes |-> IF n = n1 THEN [a |-> 1, b |-> NoSrc, arr |-> <<>>]
                             ELSE IF n = n2 THEN [a |-> n1, b |-> 2, arr |-> <<>>]
                             ELSE IF n = n3 THEN [a |-> n1, b |-> n2, arr |-> <<n1, 2, n2>>] ELSE NoWire] }
          ELSE {})
    \* wide fan-in: one node with Wide array elements over sources whose versions differ, next to two
    \* single ports.  The number of dependencies of a node is unbounded in the contract; an
    \* implementation that orders / compares its dependency list positionally behaves differently
    \* above the small sizes (sort.Slice is an insertion sort up to 12 elements).
    \cup (IF Wide > 0 /\ NN >= 3 /\ NP >= 2 THEN
          LET cyc == <<n1, 2, n2, 1>> IN
          { [n \in Nodes |-> IF n = n1 THEN [a |-> 1, b |-> NoSrc, arr |-> <<>>]
                             ELSE IF n = n2 THEN [a |-> n1, b |-> 2, arr |-> <<>>]
                             ELSE IF n = n3 THEN [a |-> 1, b |-> n2, arr |-> [i \in 1..Wide |-> cyc[((i - 1) % 4) + 1]]]
                             ELSE NoWire] }
          ELSE {})

Init ==
    /\ wire \in Shapes
    /\ pval = [p \in Params |-> 1] /\ pev = [p \in Params |-> p]
    /\ wev = [n \in Nodes |-> NP + (n - NP)]
    /\ seen = [n \in Nodes |-> Never] /\ ver = [n \in Nodes |-> 0]
    /\ ev = NP + NN
    /\ hist = <<[op |-> "init", wire |-> WireSeq(wire)]>>

Log(step) == hist' = Append(hist, step)

SetParam(p, v) ==
    /\ pval' = [pval EXCEPT ![p] = v] /\ pev' = [pev EXCEPT ![p] = ev + 1] /\ ev' = ev + 1
    /\ UNCHANGED <<wire, wev, seen, ver>>
    /\ Log([op |-> "set", p |-> p, v |-> v])

Rewire(n, w2, step) ==
    /\ w2 # wire /\ Acyclic(w2)
    /\ wire' = w2 /\ wev' = [wev EXCEPT ![n] = ev + 1] /\ ev' = ev + 1
    /\ UNCHANGED <<pval, pev, seen, ver>>
    /\ Log(step)

SetPort(n, port, s) ==
    Rewire(n, [wire EXCEPT ![n] = IF port = "A" THEN [@ EXCEPT !.a = s] ELSE [@ EXCEPT !.b = s]],
           [op |-> "wire", n |-> n, port |-> port, s |-> s])
ArrAdd(n, s) ==
    /\ Len(wire[n].arr) < 3
    /\ Rewire(n, [wire EXCEPT ![n].arr = Append(@, s)], [op |-> "arradd", n |-> n, s |-> s])
ArrDel(n, k) ==
    /\ k \in DOMAIN wire[n].arr
    /\ Rewire(n, [wire EXCEPT ![n].arr = SubSeq(@, 1, k - 1) \o SubSeq(@, k + 1, Len(@))],
              [op |-> "arrdel", n |-> n, k |-> k])

Read(n) ==
    LET R == {m \in ConeStar(wire, n) \cap Nodes : Dirty(m)} IN
    /\ seen' = [m \in Nodes |-> IF m \in R THEN ConeEvents(wire, pev, wev, m) ELSE seen[m]]
    /\ ver' = [m \in Nodes |-> IF m \in R THEN ver[m] + 1 ELSE ver[m]]
    /\ UNCHANGED <<wire, pval, pev, wev, ev>>
    /\ Log([op |-> "read", n |-> n, val |-> Scratch(n), R |-> R])

Next ==
    /\ Len(hist) <= Depth
    /\ \/ \E p \in Params, v \in Vals : SetParam(p, v)
       \/ \E n \in Nodes, port \in {"A", "B"}, s \in {NoSrc} \cup Params \cup Nodes : SetPort(n, port, s)
       \/ \E n \in Nodes, s \in Params \cup Nodes : ArrAdd(n, s)
       \/ \E n \in Nodes, k \in 1..3 : ArrDel(n, k)
       \/ \E n \in Nodes : Read(n)

Spec == Init /\ [][Next]_vars

(* -------- properties of the specification itself ---------------------- *)
\* a node that is not dirty holds (would return) the from-scratch value: reads are never stale
\* (stated through events: clean => nothing in the cone changed since the last execution)
CleanImpliesCone == \A n \in Nodes : ~Dirty(n) => \A m \in Cone(wire, n) \cap Nodes : ~Dirty(m)
VersionMonotone == [][\A n \in Nodes : ver'[n] \in {ver[n], ver[n] + 1}]_vars
AcyclicInv == Acyclic(wire)

Emit == Len(hist) < 2 \/ PrintT(ToJson([np |-> NP, nn |-> NN, steps |-> hist]))
EmitLeaf == Len(hist) <= Depth \/ PrintT(ToJson([np |-> NP, nn |-> NN, steps |-> hist]))
\* Dirty flags are a bisimulation quotient of (seen, pev, wev, ev): event ids are fresh, so a
\* node's future dirtiness depends only on its current flag and the wiring.
View == <<wire, pval, {n \in Nodes : Dirty(n)}, Len(hist)>>
=============================================================================
