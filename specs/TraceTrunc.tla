---------------------------- MODULE TraceTrunc ----------------------------
(***************************************************************************)
(* Trace validation of C14: decoding a strict prefix of a valid model file *)
(* reports an error or returns only what is wholly present.                *)
(*                                                                         *)
(* trace.ndjson (written by `vh trunc-exec` / `vh trunc-files`):           *)
(*  {"k":"file","f":abstract file,"len","slen","cells":[{k,o,s,g}],        *)
(*   "blocks":[[fileOff,streamOff,n]],"ascii","opaque","sampled",          *)
(*   "full":outcome of decoding the complete file,"fullpos","posok"}       *)
(*  {"k":"cut","at":k,"avail":a,"g":group,"out":{"kind","err","mesh"}}     *)
(*       kind: mesh | error | panic | timeout | crash ; mesh.topo = "NULL" *)
(*       when no mesh was returned; avail = stream bytes the standard      *)
(*       inflater yields (deflate framing only, else -1)                   *)
(*  {"k":"skip","cuts":[..]}   cuts not executed after repeated timeouts   *)
(*  {"k":"end","n":lines}                                                  *)
(*                                                                         *)
(* Verdict predicates C14.xxx are contract level: they only use which      *)
(* cells lie wholly inside the prefix (RecFile) and the decode of the      *)
(* complete file.  Model.xxx predicates bind the harness to the            *)
(* specification (encoder spans obey the format law, the complete file     *)
(* decodes to the abstract content, every cut point of the quantifier was  *)
(* executed) and are reported as infrastructure failures, never as C14.    *)
(*   C14.Terminates   the call returned before the deadline                *)
(*   C14.Reports      it did not panic / crash / return nothing            *)
(*   C14.Placeholder  a returned mesh is one the prefix justifies          *)
(***************************************************************************)
EXTENDS TruncFormats, Json, TLC

Trace == ndJsonDeserialize("trace.ndjson")

VARIABLES l, cur, seen, skipped, nto
vars == <<l, cur, seen, skipped, nto>>

NoFile == [fmt |-> "none", nrows |-> 0, len |-> 0, frame |-> "none", blocks |-> <<>>, reqEnd |-> 0,
           cuts |-> {}, tokEnds |-> {}, full |-> [topo |-> "NULL", n |-> 0, prims |-> <<>>, attrs |-> <<>>],
           sampled |-> FALSE, first |-> 0]

Init == l = 1 /\ cur = NoFile /\ seen = {} /\ skipped = {} /\ nto = 0

Report(bad, extra) == IF bad = {} THEN TRUE ELSE PrintT(ToJson([l |-> l, bad |-> bad, x |-> extra]))

FullOK(ln) ==
    /\ ln.full.kind = "mesh" /\ ln.full.mesh.topo # "NULL"
    /\ ln.opaque \/ (/\ ln.full.mesh.n = ExpN(ln.f)
                     /\ PosKnown(ln.f) => (ln.posok /\ ln.fullpos = ExpPos(ln.f)))

\* real files without abstract content come with a three-cell table only; the
\* harness picks their token boundaries itself (sampled, see `sampled`)
CutSet(ln) ==
    IF ln.ascii /\ ln.f.frame = "none" /\ ~ln.opaque THEN AsciiCutPoints(ln.cells, ln.len) ELSE 0..(ln.len - 1)

TFile ==
    /\ l <= Len(Trace) /\ Trace[l].k = "file"
    /\ LET ln == Trace[l]
           bad == (IF ~ln.opaque /\ ~Matches(ln.cells, Layout(ln.f)) THEN {"Model.Layout"} ELSE {})
                  \cup (IF ~Tiles(ln.cells, ln.slen) THEN {"Model.Tiles"} ELSE {})
                  \cup (IF ~ln.opaque /\ ~SizeLaw(ln.f, ln.slen) THEN {"Model.Size"} ELSE {})
                  \cup (IF ln.f.frame = "none" /\ ln.slen # ln.len THEN {"Model.Size"} ELSE {})
                  \cup (IF ln.f.frame = "stored" /\ ~StoredLaw(ln.blocks, ln.slen, ln.len) THEN {"Model.Frame"} ELSE {})
                  \cup (IF ~FullOK(ln) THEN {"Model.Full"} ELSE {})
       IN /\ Report(bad, ln.name)
          /\ cur' = [fmt |-> ln.f.fmt, nrows |-> Len(ln.f.rows), len |-> ln.len, frame |-> ln.f.frame,
                     blocks |-> ln.blocks, reqEnd |-> ReqEnd(ln.cells), cuts |-> CutSet(ln),
                     tokEnds |-> {End(ln.cells[i]) : i \in {j \in DOMAIN ln.cells :
                                        ln.cells[j].k = "D" /\ ~IsHeaderGroup(ln.cells[j].g)}},
                     full |-> ln.full.mesh, sampled |-> ln.sampled, first |-> l]
    /\ seen' = {} /\ skipped' = {} /\ nto' = 0 /\ l' = l + 1

Avail(at, logged) ==
    CASE cur.frame = "none" -> at
      [] cur.frame = "stored" -> StoredAvail(cur.blocks, at)
      [] cur.frame = "deflate" -> logged

TCut ==
    /\ l <= Len(Trace) /\ Trace[l].k = "cut"
    /\ LET ln == Trace[l]
           o == ln.out
           a == Avail(ln.at, ln.avail)
           wholeTok == Cardinality({e \in cur.tokEnds : e <= a})
           allowed == AllowedMeshes(cur.fmt, cur.nrows, a, ln.at, cur.reqEnd, cur.full, wholeTok, o.err)
           bad == (IF o.kind = "timeout" THEN {"C14.Terminates"} ELSE {})
                  \cup (IF o.kind \in {"panic", "crash"} \/ (o.kind = "mesh" /\ o.mesh.topo = "NULL")
                        THEN {"C14.Reports"} ELSE {})
                  \cup (IF o.mesh.topo # "NULL" /\ o.mesh \notin allowed THEN {"C14.Placeholder"} ELSE {})
                  \cup (IF ln.at \notin cur.cuts \/ ln.at \in seen \/ ~(o.kind \in {"mesh", "error", "panic", "timeout", "crash"})
                        THEN {"Model.Cut"} ELSE {})
       IN /\ Report(bad, [at |-> ln.at, avail |-> a, need |-> cur.reqEnd])
          /\ seen' = seen \cup {ln.at}
          /\ nto' = nto + (IF o.kind = "timeout" THEN 1 ELSE 0)
    /\ UNCHANGED <<cur, skipped>> /\ l' = l + 1

TSkip ==
    /\ l <= Len(Trace) /\ Trace[l].k = "skip"
    /\ skipped' = {Trace[l].cuts[i] : i \in DOMAIN Trace[l].cuts}
    /\ UNCHANGED <<cur, seen, nto>> /\ l' = l + 1

\* every cut point of the property's quantifier was executed (or skipped
\* after two timeouts, which already are violations)
TEnd ==
    /\ l <= Len(Trace) /\ Trace[l].k = "end"
    /\ LET covered == IF cur.sampled THEN seen \subseteq cur.cuts /\ seen # {}
                      ELSE seen \cup skipped = cur.cuts /\ seen \cap skipped = {} /\ (skipped # {} => nto >= 2)
           bad == IF covered /\ Trace[l].n = l - cur.first THEN {} ELSE {"Model.Coverage"}
       IN Report(bad, [seen |-> Cardinality(seen), cuts |-> Cardinality(cur.cuts)])
    /\ UNCHANGED <<cur, seen, skipped, nto>> /\ l' = l + 1

Next == TFile \/ TCut \/ TSkip \/ TEnd
Spec == Init /\ [][Next]_vars

TraceAccepted == TLCGet("stats").diameter - 1 = Len(Trace)
=============================================================================
