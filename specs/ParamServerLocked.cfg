CONSTANTS NC = 2 UseLock = TRUE MaxOps = 2 SchedLen = 8 OpFilter = "all" DeferUnlock = TRUE
SPECIFICATION Spec
INVARIANTS Atomic MutualExclusion
CHECK_DEADLOCK FALSE
VIEW View
