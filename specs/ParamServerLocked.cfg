CONSTANTS NC = 2 UseLock = TRUE MaxOps = 2 SchedLen = 8
SPECIFICATION Spec
INVARIANTS Atomic MutualExclusion
CHECK_DEADLOCK FALSE
VIEW View
