SPECIFICATION TSpec
POSTCONDITION Report
CHECK_DEADLOCK FALSE
