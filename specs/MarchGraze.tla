----------------------------- MODULE MarchGraze -----------------------------
(***************************************************************************)
(* C09 (c'): generator of GRAZING scenes - analytic shapes whose surface   *)
(* passes a chosen lattice point of the canvas at a chosen tiny distance.  *)
(*                                                                         *)
(* Why.  The marcher identifies surface vertices by ROUNDED POSITION, in   *)
(* two places with two precisions that have to agree (LookupOrAdd inside a *)
(* storage block, the final weld across blocks).  Whether they agree only  *)
(* shows on vertices that lie within about one rounding step of each       *)
(* other, i.e. on the lattice edges leaving a lattice point whose sample   *)
(* is almost equal to the threshold, and only where two blocks compute     *)
(* the same vertices: on a face, edge or corner shared by storage blocks.  *)
(* A random shape meets such a point with probability ~1e-4 per seam       *)
(* sample, so the dimension is enumerated instead:                         *)
(*                                                                         *)
(*   depth   |distance| of the lattice point from the iso-surface, a       *)
(*           1-2-5 ladder over every decade from 2e-7 to 5e-3 cell (and    *)
(*           0 = as exact a tie as floating point gives), on either side   *)
(*   normal  direction of the surface there: all eight diagonal octants,   *)
(*           skew directions, directions inside a lattice plane, axes      *)
(*   place   where the lattice point sits relative to the storage blocks   *)
(*           (SectionSize samples per axis, exported from the code):       *)
(*           inside a block; on a face (each axis; block boundaries S, 0,  *)
(*           -S, 2S); on an edge; at a corner shared by eight blocks       *)
(*   kind    sphere, box corner, side of a capsule (three field formulas)  *)
(*   plus resolution, threshold (0 or below), field strength, attribute    *)
(*   name, sequential / parallel marcher, marches made before on the same  *)
(*   canvas, a second attribute stored on the same canvas.                 *)
(*                                                                         *)
(* A SCENE packs a small grid of such features (16 on a face, 4 along an   *)
(* edge) into one canvas, 16 cells apart so that the shapes cannot touch   *)
(* (the real marcher costs per touched block, not per shape).  Scene s     *)
(* uses place (s mod NP); the depth of a feature walks the ladder (every   *)
(* 16-feature scene holds every depth once), everything else is a fixed    *)
(* pseudo-random function of (s, feature, Seed).  One initial state per    *)
(* s in Scenes, no transitions.                                            *)
(*                                                                         *)
(* A feature is a record [t, p, q, r, s, g] (harness/surf/graze.go builds  *)
(* the world-space shape): p lattice point, q integer normal, r size in    *)
(* 1/1000 cell, s strength in 1/1000, g = <<signed depth in 1e-7 cell>>.   *)
(* Checked on the generator itself (GenOK): features of a scene cannot     *)
(* overlap, every feature stays inside the blocks its place names (so the  *)
(* place really is what it says), everything is inside the int32 budget.   *)
(***************************************************************************)
EXTENDS Integers, Sequences, FiniteSets, TLC, Json, MarchTableData

CONSTANTS Scenes, Seed, CpuList

VARIABLE sc

S == SectionSize

(* ------------------------- the enumerated dimensions ------------------- *)
\* |depth| in 1e-7 cell
\* 5, 50, 500 (and 1500), 5000 are the rounding steps of an identification by position rounded
\* to 6, 5, 4, 3 decimals of a cell; a box corner puts its vertices exactly (to ~1e-12
\* relative) at that offset
Depths == <<0, 2, 5, 10, 20, 50, 100, 200, 500, 1000, 1500, 2000, 5000, 10000, 20000, 50000>>
Normals == << <<1, 1, 1>>, <<-1, 1, 1>>, <<1, -1, 1>>, <<1, 1, -1>>, <<-1, -1, 1>>, <<-1, 1, -1>>, <<1, -1, -1>>,
              <<-1, -1, -1>>, <<1, 2, 3>>, <<3, -1, 2>>, <<-2, 3, -1>>, <<1, 1, 0>>, <<0, 1, -1>>, <<-1, 0, 1>>,
              <<1, 0, 0>>, <<0, 0, -1>> >>
KindList == <<"gsphere", "gsphere", "gbox", "gline">>
Radii == <<2300, 2900, 3500>>           \* 1/1000 cell
Strengths == <<1000, 1000, 1500, 2000>>
Step == 16                              \* cells between neighbouring features
Reach == 8                              \* no shape reaches farther from its lattice point (2 * max radius + 1)
\* how far the DECLARED DOMAIN of a feature (plus the canvas' own margin of up to two cells)
\* reaches from its lattice point, in cells, rounded up.  marching.Sphere declares
\* strength * radius around the centre, marching.Box its faces + strength / 2 WORLD units,
\* marching.Line the segment + radius.
PadOf(f, cpu) ==
    CASE f.t = "gsphere" -> (f.r * (1000 + f.s)) \div 1000000 + 4
      [] f.t = "gbox" -> (2 * f.r) \div 1000 + (f.s * cpu) \div 2000 + 4
      [] OTHER -> (3 * f.r) \div 2000 + 4

\* A place: base lattice point, two grid directions with their counts, and per axis
\* whether the base coordinate lies ON a block boundary (then every feature does).
P(b, u, nu, v, nv) == [b |-> b, u |-> u, nu |-> nu, v |-> v, nv |-> nv]
X == <<Step, 0, 0>>
Y == <<0, Step, 0>>
Z == <<0, 0, Step>>
X2 == <<2 * Step, 0, 0>>
Z2 == <<0, 0, 2 * Step>>
Places == <<
    P(<<26, 26, 40>>, X, 4, Y, 4),                      \* inside one block
    P(<<S, 26, 26>>, Y, 4, Z, 4),                       \* face x = S
    P(<<26, S, 26>>, X, 4, Z, 4),                       \* face y = S
    P(<<26, 26, S>>, X, 4, Y, 4),                       \* face z = S
    P(<<0, 26 - S, 26 - S>>, Y, 4, Z, 4),               \* face x = 0, negative blocks
    P(<<26, 26 - S, -S>>, X, 4, Y, 4),                  \* face z = -S
    P(<<S, S, 26>>, Z, 4, X, 1),                        \* edge x = y = S
    P(<<26, 0, S>>, X, 4, Y, 1),                        \* edge y = 0, z = S
    P(<<-S, 26, 0>>, Y, 4, Z, 1),                       \* edge x = -S, z = 0
    P(<<S, S, S - 2 * Step>>, Z2, 3, X, 1),             \* through the corner (S, S, S): eight blocks
    P(<<0, 0, -2 * Step>>, Z2, 3, X, 1),                \* through the corner (0, 0, 0)
    P(<<2 * S - 2 * Step, 0, -S>>, X2, 3, Y, 1),        \* through the corner (2S, 0, -S)
    P(<<2 * S, 26, 26 - S>>, Y, 4, Z, 4)                \* face x = 2S
>>
NP == Len(Places)

(* ------------------------- pseudo-random choices ---------------------- *)
\* Two rounds of squaring modulo the prime 46337 (46336^2 < 2^31): unlike a linear congruence
\* the low digits of consecutive features do not cycle together, and every attribute of a
\* feature draws with its own salt, so kind, normal, side, size and strength are independent.
M == 46337
H(a, b, c, salt) ==
    LET x0 == ((a % 20011) * 1009 + (b % 1009) * 31 + (c % 1013) * 7919 + salt * 104729 + 12345) % M
        x1 == (((x0 * x0) % M) + 3 * (b % 1009) + 5 * salt + 1) % M
    IN (x1 * x1) % M
Pick(list, h) == list[(h % Len(list)) + 1]

FeaturePt(pl, i, j) ==
    <<pl.b[1] + i * pl.u[1] + j * pl.v[1], pl.b[2] + i * pl.u[2] + j * pl.v[2], pl.b[3] + i * pl.u[3] + j * pl.v[3]>>

Feature(s, pl, i, j) ==
    LET k == i * pl.nv + j
        pass == s \div NP
        depth == Depths[((k + 5 * pass + 3 * Seed + (s % NP)) % Len(Depths)) + 1]
        sgn == IF H(s, k, Seed, 1) % 2 = 0 THEN 1 ELSE -1
    IN [t |-> Pick(KindList, H(s, k, Seed, 2)), p |-> FeaturePt(pl, i, j), q |-> Pick(Normals, H(s, k, Seed, 3)),
        r |-> Pick(Radii, H(s, k, Seed, 4)), s |-> Pick(Strengths, H(s, k, Seed, 5)), g |-> <<sgn * depth>>]

SceneOf(s) ==
    LET pl == Places[(s % NP) + 1]
        h(salt) == H(s, 97, Seed, salt)
        cpu == Pick(CpuList, h(6))
        feats == [n \in 1..(pl.nu * pl.nv) |-> Feature(s, pl, (n - 1) \div pl.nv, (n - 1) % pl.nv)]
        last == FeaturePt(pl, pl.nu - 1, pl.nv - 1)
        \* projection frame: origin = centre of the feature grid (cells), scale such that
        \* the grid plus every shape's reach fits 8000 units
        org == <<(pl.b[1] + last[1]) \div 2, (pl.b[2] + last[2]) \div 2, (pl.b[3] + last[3]) \div 2>>
        span == LET d(j) == IF last[j] >= pl.b[j] THEN last[j] - pl.b[j] ELSE pl.b[j] - last[j]
                IN IF d(1) >= d(2) /\ d(1) >= d(3) THEN d(1) ELSE IF d(2) >= d(3) THEN d(2) ELSE d(3)
        half == span \div 2 + Reach + 3
    IN [kind |-> "shape", id |-> s, flavour |-> "graze", shapes |-> feats, cpu |-> cpu,
        \* threshold * 1000: zero, or a fifth of a cell below zero (at strength 1)
        cut |-> IF h(7) % 3 = 0 THEN -(200 \div cpu) ELSE 0,
        attr |-> IF h(8) % 4 = 0 THEN "blob" ELSE "Position",
        unit |-> cpu, org |-> org, scale |-> (8000 * cpu) \div half,
        par |-> IF h(9) % 3 = 0 THEN 1 ELSE 0,
        pre |-> IF h(10) % 5 = 0 THEN 1 + (h(11) % 2) ELSE 0,
        decoy |-> IF h(12) % 5 = 0 THEN 1 + (h(13) % 2) ELSE 0,
        \* entry point that puts the field on the canvas: 0 AddField, 1 AddFieldParallel, 2 AddFieldParallel2.
        \* The union of a scene's features is ONE field whose sampling closure (CombineFields: an octree over
        \* the features' domains) is shared by all jobs of a parallel entry point, one job per storage block:
        \* every place but the first spans 2..8 blocks.  The contract does not depend on the entry point.
        add |-> h(14) % 3,
        place |-> (s % NP) + 1]

Init == \E s \in Scenes : sc = SceneOf(s)
Spec == Init /\ [][FALSE]_sc

(* ------------------------- generator sanity --------------------------- *)
AbsG(x) == IF x < 0 THEN -x ELSE x
Block(x) == IF x >= 0 THEN x \div S ELSE -((-x + S - 1) \div S)
GenOK ==
    LET pl == Places[sc.place]
        F == sc.shapes
    IN /\ \A a, b \in DOMAIN F : a # b =>
              \E j \in 1..3 : AbsG(F[a].p[j] - F[b].p[j]) >= 2 * Reach
       /\ \A a \in DOMAIN F : \A j \in 1..3 :
              LET x == F[a].p[j]
                  pad == PadOf(F[a], sc.cpu)
              IN /\ AbsG(x) <= 4 * S
                 \* a feature ON a block boundary of this axis reaches into the two blocks next
                 \* to it and no farther; any other stays inside one block
                 /\ IF x % S = 0 THEN pad < S ELSE Block(x - pad) = Block(x + pad)
                 \* the place is what its comment says: an axis the grid does not move along
                 \* and whose base is on a boundary keeps every feature on that boundary
                 /\ (pl.b[j] % S = 0 /\ pl.u[j] = 0 /\ pl.v[j] = 0) => x % S = 0
              /\ 2 * F[a].r + 1000 <= Reach * 1000
              /\ F[a].s \in 1000..2000 /\ AbsG(F[a].g[1]) <= 100000
       \* radius of the iso-surface stays above one cell: |cut| / strength <= 0.2 cell
       /\ sc.cut <= 0 /\ -sc.cut * sc.cpu <= 200
       \* projection frame: every shape, and two cells around it, within 8000 units of the origin
       /\ sc.scale >= 1
       /\ \A a \in DOMAIN F : \A j \in 1..3 : (AbsG(F[a].p[j] - sc.org[j]) + Reach + 2) * sc.scale <= 8000 * sc.cpu

Emit == PrintT(ToJson([case |-> sc]))
=============================================================================
