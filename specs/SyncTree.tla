------------------------------ MODULE SyncTree ------------------------------
(***************************************************************************)
(* X01 - the sequential contract (L1) of generator/sync.NestedSyncMap and  *)
(* generator/sync.SyncMap as pure operators over TREE VALUES.              *)
(*                                                                         *)
(* A key is a small integer (the harness owns the table id -> string; the  *)
(* dotted path "a.b.c" is the sequence of its keys).  A tree is a SET of   *)
(* entries [p |-> path, v |-> code]; the root map is implicit (path <<>>). *)
(*    code MAP  = 0   an inner map (map[string]any)                        *)
(*    code NIL  = -1  a stored nil (JSON null); also what Get answers for  *)
(*                    an absent last element                               *)
(*    code >= 1       a leaf (any other Go value); GATE = 9 is an ordinary *)
(*                    leaf for the contract (the concurrent harness makes  *)
(*                    its MarshalJSON block, see SyncSave)                 *)
(* A VALUE is [v |-> code, sub |-> tree] with sub = {} unless v = MAP      *)
(* (sub has paths relative to the value).                                  *)
(*                                                                         *)
(* The contract, read off sync.go and fixed here:                          *)
(*  Set(p, x)   walks p[1..n-1]; an element that EXISTS and is not a map   *)
(*              panics (nothing changed); missing elements are created as  *)
(*              maps; then p is bound to x, replacing whatever was there   *)
(*              (a whole subtree if it was a map).                         *)
(*  Get(p)      walks p[1..n-1]; every element must exist and be a map,    *)
(*              otherwise panic; answers the value at p, NIL when the last *)
(*              element is absent.  The answer is a VALUE (snapshot).      *)
(*  Delete(p)   same walk/panics as Get; removes p and everything below;   *)
(*              absent last element: no effect.                            *)
(*  PathExists(p)  never panics; TRUE iff p designates an entry.           *)
(*  Data()      the whole tree as a VALUE (snapshot).                      *)
(*  OverwriteData(x)  the tree becomes x (nil: the empty tree).            *)
(*  SyncMap: fget(k) answers the bound value, 0 (zero value) when absent.  *)
(* No integer arithmetic beyond lengths: no int32 budget to watch.         *)
(***************************************************************************)
EXTENDS Integers, Sequences, FiniteSets, TLC

MAP == 0
NIL == -1
GATE == 9

Range(s) == {s[i] : i \in DOMAIN s}
IsPrefix(q, p) == Len(q) <= Len(p) /\ SubSeq(p, 1, Len(q)) = q
ProperPrefixes(p) == {SubSeq(p, 1, n) : n \in 1..(Len(p) - 1)}      \* non-empty, shorter than p
Comparable(p, q) == IsPrefix(p, q) \/ IsPrefix(q, p)

Has(t, p) == \E e \in t : e.p = p
Val(t, p) == (CHOOSE e \in t : e.p = p).v
IsMapAt(t, p) == p = <<>> \/ (Has(t, p) /\ Val(t, p) = MAP)

\* well-formed tree: one entry per path, parents are maps, codes in range
WF(t) ==
    /\ \A e, f \in t : e.p = f.p => e = f
    /\ \A e \in t : Len(e.p) >= 1 /\ e.v >= NIL /\ \A q \in ProperPrefixes(e.p) : IsMapAt(t, q)

Below(t, p) == {e \in t : IsPrefix(p, e.p)}                           \* p itself and everything under it
Sub(t, p) == {[p |-> SubSeq(e.p, Len(p) + 1, Len(e.p)), v |-> e.v] : e \in {x \in t : IsPrefix(p, x.p) /\ x.p # p}}
Graft(p, s) == {[p |-> p \o e.p, v |-> e.v] : e \in s}

Leaf(n) == [v |-> n, sub |-> {}]
MapVal(s) == [v |-> MAP, sub |-> s]
ValueAt(t, p) == IF Has(t, p) THEN [v |-> Val(t, p), sub |-> Sub(t, p)] ELSE Leaf(NIL)
WFValue(x) == x.v >= NIL /\ WF(x.sub) /\ (x.v # MAP => x.sub = {})

\* the two walks of sync.go
LookupOk(t, p) == \A q \in ProperPrefixes(p) : IsMapAt(t, q)                 \* lookup(): Get, Delete
SetOk(t, p) == \A q \in ProperPrefixes(p) : Has(t, q) => Val(t, q) = MAP     \* Set: existing elements must be maps

SetT(t, p, x) ==
    (t \ Below(t, p)) \cup {[p |-> q, v |-> MAP] : q \in ProperPrefixes(p)}
                      \cup {[p |-> p, v |-> x.v]} \cup Graft(p, x.sub)
DelT(t, p) == t \ Below(t, p)

\* results: homogeneous records
Ok(v, sub) == [st |-> "ok", v |-> v, sub |-> sub]
Panic == [st |-> "PANIC", v |-> 0, sub |-> {}]

\* an operation: [op, p, val]; Step answers the next tree and the result
GetRes(t, p) == IF LookupOk(t, p) THEN LET x == ValueAt(t, p) IN Ok(x.v, x.sub) ELSE Panic
ExistsRes(t, p) == Ok(IF Has(t, p) THEN 1 ELSE 0, {})

Step(t, o) ==
    CASE o.op = "set"    -> IF SetOk(t, o.p) THEN [t |-> SetT(t, o.p, o.val), res |-> Ok(0, {})] ELSE [t |-> t, res |-> Panic]
      [] o.op = "del"    -> IF LookupOk(t, o.p) THEN [t |-> DelT(t, o.p), res |-> Ok(0, {})] ELSE [t |-> t, res |-> Panic]
      [] o.op \in {"get", "getm"} -> [t |-> t, res |-> GetRes(t, o.p)]
      \* the schema endpoint's view of one node: NodeInstanceSchema does "if PathExists(p) { Get(p) }", only an
      \* object counts as node metadata, and the reply field is `omitempty`: an EMPTY object and no metadata are
      \* the same reply.  Never panics.  (Same answer whether PathExists means "the parents exist" or "the entry
      \* exists": Get answers nil for an absent last element.)
      [] o.op = "schema" -> [t |-> t, res |-> IF LookupOk(t, o.p) /\ IsMapAt(t, o.p) /\ Sub(t, o.p) # {}
                                               THEN Ok(MAP, Sub(t, o.p)) ELSE Ok(NIL, {})]
      [] o.op = "exists" -> [t |-> t, res |-> ExistsRes(t, o.p)]
      [] o.op \in {"data", "save"} -> [t |-> t, res |-> Ok(MAP, t)]
      [] o.op = "over"   -> [t |-> IF o.val.v = MAP THEN o.val.sub ELSE {}, res |-> Ok(0, {})]

\* SyncMap[K, V]: the flat map is a tree of depth one without maps; absent key reads as the zero value
FlatGet(f, k) == IF Has(f, <<k>>) THEN Val(f, <<k>>) ELSE 0
FlatSet(f, k, n) == {e \in f : e.p # <<k>>} \cup {[p |-> <<k>>, v |-> n]}

(* ---- laws of the contract (checked by TLC on every reachable tree of SyncMap) ---- *)
LawSetGet(t, p, x) ==          \* what was set is what is read, the tree stays well formed, ancestors are maps
    SetOk(t, p) => LET u == SetT(t, p, x) IN
        /\ WF(u) /\ LookupOk(u, p) /\ ValueAt(u, p) = x /\ Has(u, p)
        /\ \A q \in ProperPrefixes(p) : IsMapAt(u, q)
LawSetFrame(t, p, x, q) ==     \* nothing off the path p changes; ancestors keep their other children
    (SetOk(t, p) /\ ~Comparable(p, q)) => ValueAt(SetT(t, p, x), q) = ValueAt(t, q) /\ (Has(SetT(t, p, x), q) <=> Has(t, q))
LawDel(t, p) ==
    LookupOk(t, p) => LET u == DelT(t, p) IN
        /\ WF(u) /\ ~Has(u, p) /\ DelT(u, p) = u
        /\ \A e \in t : ~IsPrefix(p, e.p) => e \in u
LawGuard(t, p) == Has(t, p) => LookupOk(t, p) /\ SetOk(t, p)     \* PathExists guards Get/Delete/Set against panics
LawWalks(t, p) == LookupOk(t, p) => SetOk(t, p)
LawData(t) == Step({}, [op |-> "over", p |-> <<>>, val |-> MapVal(t)]).t = t
=============================================================================
