CONSTANTS MaxPlayers = 2 IdLens = {0, 10, 255} NameLens = {0, 2, 255} ObjCounts = {0, 1, 255}
SPECIFICATION Spec
INVARIANTS Emit
CHECK_DEADLOCK FALSE
