------------------------------ MODULE HttpEdit ------------------------------
(***************************************************************************)
(* X04 - the editor's HTTP API (generator.AppServer.Handler and the        *)
(* endpoint package) as a REFINEMENT of the editor machine GraphEdit.      *)
(*                                                                         *)
(* GraphEdit (C12) is the machine of the application state g (nodes,       *)
(* wiring incl. array order, parameter values/names/descriptions,          *)
(* producers, metadata) with Enabled(g, st) / Apply(g, st).  This module   *)
(* adds the request / response layer in front of it:                       *)
(*                                                                         *)
(*   request  r = [kind, a, b, c, flaw, fv, m, path, ...]                  *)
(*       kind  an edit kind (= GraphEdit op), "putgraph", or a read kind   *)
(*       a b c the GraphEdit step arguments (node numbers, port, value)    *)
(*       flaw  "none" | "method" (m is not in the endpoint's method table) *)
(*             | "body" (variant fv of a malformed / ill-typed body)       *)
(*       m, path  the HTTP request line: Route below IS the REST table     *)
(*   response    status code, projected body                               *)
(*   side effect the autosaved file (GraphSaver)                           *)
(*                                                                         *)
(* Contract (Class / Effect / the X04.* predicates of TraceHttpEdit):      *)
(*   valid    request  -> 2xx, g' = Apply(g, step), response names the     *)
(*                        result (new node id, value, graph, artifact),    *)
(*                        the saved file reloads to g'                     *)
(*   invalid  request  -> 4xx/5xx with a JSON error document, g and the    *)
(*                        saved file unchanged, no panic leaves the handler*)
(*   neutral  request  (idempotent no-ops the code may answer either way:  *)
(*                        disconnecting an unconnected port, deleting an   *)
(*                        absent metadata key, evaluating a producer whose *)
(*                        input is not wired) -> g unchanged               *)
(*   read     request  -> never changes g or the file                      *)
(*                                                                         *)
(* Artifacts are judged by VALUE: Art(g, n) below is the from-scratch      *)
(* denotation of the five modelled processing node types, so a stale cache *)
(* after an edit through the API is visible.                               *)
(*                                                                         *)
(* Pinned = TRUE replaces Effect by the handlers as they were on the       *)
(* pinned tree (no cycle check, nodes deleted from under their users,      *)
(* POST /graph not autosaved): TLC then finds the design-level             *)
(* counterexamples to Acyclic / TypeOK / FileCurrent; with Pinned = FALSE  *)
(* the same invariants hold in the bound (checks/x04.py runs both).        *)
(*                                                                         *)
(* int32 budget: node numbers < 100, values < 10, float values in halves   *)
(* (|h| <= 3*3*13): far below 2^31.                                        *)
(***************************************************************************)
EXTENDS GraphEdit

CONSTANTS Pinned

VARIABLES snap, file
hvars == <<g, hist, snap, file>>

EditKinds == {"create", "connect", "connectarr", "disconnect", "disconnectarr", "setval", "setname", "setdesc",
              "setproducer", "setmeta", "delmeta", "delete"}
ReadKinds == {"getgraph", "getschema", "getval", "getname", "getart", "getstarted", "getzip", "getmermaid", "getswagger"}
NodeTypes == {1, 2, 3, 4, 5, 6, 7, 8, 10, 11, 12, 13, 14}
AllMethods == {"GET", "POST", "PUT", "PATCH", "DELETE"}

(* ---------------- the REST table ------------------------------------------ *)
NodeName(k) == "Node-" \o ToString(k)
FileName(k) == "file" \o ToString(k) \o ".txt"
MetaUrl(i) == CASE i = 1 -> "notes/n1/text" [] i = 2 -> "nodes/Node-0/position" [] OTHER -> "top"

Endpoint(kind) ==
    CASE kind \in {"create", "delete"} -> "/node"
      [] kind \in {"connect", "connectarr", "disconnect", "disconnectarr"} -> "/node/connection"
      [] kind \in {"setval", "getval"} -> "/parameter/value/"
      [] kind \in {"setname", "getname"} -> "/parameter/name/"
      [] kind = "setdesc" -> "/parameter/description/"
      [] kind = "setproducer" -> "/producer/name/"
      [] kind \in {"setmeta", "delmeta"} -> "/graph/metadata/"
      [] kind \in {"putgraph", "getgraph"} -> "/graph"
      [] kind = "getschema" -> "/schema"
      [] kind = "getart" -> "/producer/value/"
      [] kind = "getstarted" -> "/started"
      [] kind = "getzip" -> "/zip"
      [] kind = "getmermaid" -> "/mermaid"
      [] OTHER -> "/swagger"

\* endpoints with a method table (endpoint.Handler); the others answer every method
Methods(ep) ==
    CASE ep \in {"/node", "/node/connection", "/graph/metadata/"} -> {"POST", "DELETE"}
      [] ep \in {"/parameter/value/", "/parameter/name/", "/graph"} -> {"GET", "POST"}
      [] ep \in {"/parameter/description/", "/producer/name/"} -> {"POST"}
      [] OTHER -> AllMethods

ProperMethod(kind) ==
    CASE kind \in {"delete", "disconnect", "disconnectarr", "delmeta"} -> "DELETE"
      [] kind \in ReadKinds -> "GET"
      [] OTHER -> "POST"

PathOf(kind, a) ==
    CASE kind \in {"setval", "getval", "setname", "getname", "setdesc", "setproducer"} -> Endpoint(kind) \o NodeName(a)
      [] kind \in {"setmeta", "delmeta"} -> Endpoint(kind) \o MetaUrl(a)
      [] kind = "getart" -> Endpoint(kind) \o FileName(a)
      [] OTHER -> Endpoint(kind)

\* ta, tb, n, cl are used by concurrent cases only (HttpConc): assumed node types / array length, issuing client
Rq(kind, a, b, c) == [kind |-> kind, a |-> a, b |-> b, c |-> c, flaw |-> "none", fv |-> 0,
                      m |-> ProperMethod(kind), path |-> PathOf(kind, a), ta |-> 0, tb |-> 0, n |-> 0, cl |-> 0]
FromSt(st) == Rq(st.op, st.a, st.b, st.c)
StOf(r) == St(r.kind, r.a, r.b, r.c)
RouteOK(r) == /\ r.path = PathOf(r.kind, r.a)
              /\ r.kind \in EditKinds \cup ReadKinds \cup {"putgraph"}
              /\ IF r.flaw = "method" THEN r.m \notin Methods(Endpoint(r.kind)) ELSE r.m = ProperMethod(r.kind)

(* ---------------- artifacts by value --------------------------------------- *)
\* float outputs in halves (parameter value v is 1.5 v); strings as strings
HalfStr(h) == LET a == IF h < 0 THEN 0 - h ELSE h
                  s == IF h < 0 THEN "-" ELSE ""
              IN IF a % 2 = 0 THEN s \o ToString(a \div 2) ELSE s \o ToString(a \div 2) \o ".5"
StrOfParam(v) == IF v = 0 THEN "" ELSE "s" \o ToString(v)

RECURSIVE HVal(_, _), HSum(_, _, _), SVal(_, _), SJoin(_, _, _, _)
HSum(gr, srcs, i) == IF i > Len(srcs) THEN 0 ELSE HVal(gr, srcs[i]) + HSum(gr, srcs, i + 1)
HVal(gr, n) ==
    CASE gr.type[n] = 2 -> 3 * gr.val[n]
      [] gr.type[n] = 12 -> HSum(gr, gr.arr[n], 1)
      [] gr.type[n] = 13 -> (IF gr.single[n][1] = 0 - 1 THEN 0 ELSE HVal(gr, gr.single[n][1]))
                            - (IF gr.single[n][2] = 0 - 1 THEN 0 ELSE HVal(gr, gr.single[n][2]))
      [] OTHER -> 0
SJoin(gr, srcs, sep, i) ==
    IF i > Len(srcs) THEN ""
    ELSE SVal(gr, srcs[i]) \o (IF i < Len(srcs) THEN sep ELSE "") \o SJoin(gr, srcs, sep, i + 1)
SVal(gr, n) ==
    CASE gr.type[n] = 1 -> StrOfParam(gr.val[n])
      [] gr.type[n] = 10 ->
            LET sep == IF gr.single[n][1] = 0 - 1 THEN "|" ELSE SVal(gr, gr.single[n][1])
            IN "[" \o SJoin(gr, gr.arr[n], sep, 1) \o "]"
      [] gr.type[n] = 11 ->
            LET s == gr.single[n]
                f == IF s[1] = 0 - 1 THEN "" ELSE HalfStr(HVal(gr, s[1]))
                i == IF s[2] = 0 - 1 THEN "" ELSE ToString(gr.val[s[2]])
                b == IF s[3] = 0 - 1 THEN "" ELSE (IF gr.val[s[3]] = 1 THEN "true" ELSE "false")
                t == IF s[4] = 0 - 1 THEN "" ELSE SVal(gr, s[4])
            IN "fmt(" \o f \o ";" \o i \o ";" \o b \o ";" \o t \o ")"
      [] OTHER -> "?"
\* a Text node (type 14) evaluates iff its input is wired (everything below it is nil-safe)
Evaluable(gr, n) == n \in gr.ids /\ gr.type[n] = 14 /\ gr.single[n][1] # 0 - 1
Art(gr, n) == IF Evaluable(gr, n) THEN SVal(gr, gr.single[n][1]) ELSE "PANIC"
AcyclicG(gr) == \A n \in gr.ids : n \notin Reach(gr, {s \in gr.ids : DependsOn(gr, n, s)}, Cardinality(gr.ids))
WellFormed(gr) ==
    /\ \A n \in gr.ids : \A p \in 1..4 : gr.single[n][p] = 0 - 1 \/ gr.single[n][p] \in gr.ids
    /\ \A n \in gr.ids : \A i \in DOMAIN gr.arr[n] : gr.arr[n][i] \in gr.ids
    /\ \A q \in gr.prod : q[2] \in gr.ids

HasProducer(gr, f) == \E q \in gr.prod : q[1] = f
ProducerNode(gr, f) == (CHOOSE q \in gr.prod : q[1] = f)[2]
ArtSet(gr) == {<<q[1], Art(gr, q[2])>> : q \in gr.prod}

(* ---------------- classification and effect -------------------------------- *)
IsEdit(r) == r.kind \in EditKinds
IsRead(r) == r.kind \in ReadKinds
KnownParam(gr, a) == a \in gr.ids /\ IsParam(gr.type[a])

\* the harness encodes a Bool value as (v = 1): other values have no request of their own
Encodable(gr, r) == ~(r.kind = "setval" /\ KnownParam(gr, r.a) /\ gr.type[r.a] = 4 /\ r.b \notin {0, 1})

\* requests the contract leaves open (answered either way, never changing the graph)
Neutral(gr, r) ==
    \/ /\ r.kind = "disconnect" /\ r.b \in gr.ids /\ r.c \in 1..4 /\ PortKind(gr.type[r.b], r.c) # "none"
       /\ gr.single[r.b][r.c] = 0 - 1
    \/ r.kind = "delmeta" /\ ~\E m \in gr.meta : m[1] = r.a
    \/ r.kind = "getart" /\ HasProducer(gr, r.a) /\ ~Evaluable(gr, ProducerNode(gr, r.a))
    \/ r.kind = "getzip" /\ \E q \in gr.prod : ~Evaluable(gr, q[2])
    \* generator bound of GraphEdit (keeps graphs small), not part of the contract: MaxNodes is 99 in the judges
    \/ r.kind = "create" /\ r.a \in NodeTypes /\ Cardinality(gr.ids) >= MaxNodes

ReadValid(gr, r) ==
    CASE r.kind \in {"getval", "getname"} -> KnownParam(gr, r.a)
      [] r.kind = "getart" -> HasProducer(gr, r.a) /\ Evaluable(gr, ProducerNode(gr, r.a))
      [] r.kind = "getzip" -> \A q \in gr.prod : Evaluable(gr, q[2])
      [] OTHER -> TRUE

\* GraphEdit.Enabled, plus what its generator never proposes (a node type nobody registered), minus its generator
\* bound on array inputs (at most 13): the API accepts any number, Apply appends
HEnabled(gr, r) ==
    IF r.kind = "connectarr"
    THEN /\ r.a \in gr.ids /\ r.b \in gr.ids /\ r.a # r.b /\ HasArr(gr.type[r.b])
         /\ ArrKind(gr.type[r.b]) = OutKind(gr.type[r.a]) /\ ~WouldCycle(gr, r.a, r.b)
    ELSE Enabled(gr, StOf(r)) /\ (r.kind = "create" => r.a \in NodeTypes)

Class(gr, r) ==
    IF r.flaw # "none" THEN "invalid"
    ELSE IF Neutral(gr, r) THEN "neutral"
    ELSE IF IsEdit(r) THEN (IF HEnabled(gr, r) THEN "valid" ELSE "invalid")
    ELSE IF r.kind = "putgraph" THEN "valid"
    ELSE IF ReadValid(gr, r) THEN "valid" ELSE "invalid"

\* why a request is what it is (signatures of findings, vacuity counters)
Reason(gr, r) ==
    IF r.flaw = "method" THEN "method"
    ELSE IF r.flaw = "body" THEN "body" \o ToString(r.fv)
    ELSE IF Class(gr, r) # "invalid" THEN "ok"
    ELSE CASE r.kind \in {"connect", "connectarr"} ->
                 IF r.a \notin gr.ids \/ r.b \notin gr.ids THEN "unknown-node"
                 ELSE IF r.a = r.b THEN "self"
                 ELSE IF r.kind = "connect" /\ PortKind(gr.type[r.b], r.c) = "none" THEN "no-port"
                 ELSE IF r.kind = "connectarr" /\ ~HasArr(gr.type[r.b]) THEN "no-port"
                 ELSE IF (IF r.kind = "connect" THEN PortKind(gr.type[r.b], r.c) ELSE ArrKind(gr.type[r.b])) # OutKind(gr.type[r.a])
                      THEN "incompatible"
                 ELSE IF WouldCycle(gr, r.a, r.b) THEN "cycle" ELSE "other"
           [] r.kind = "delete" -> IF r.a \notin gr.ids THEN "unknown-node" ELSE "in-use"
           [] r.kind = "create" -> "unknown-type"
           [] r.kind = "disconnect" -> IF r.b \notin gr.ids THEN "unknown-node" ELSE "no-port"
           [] r.kind = "disconnectarr" -> IF r.b \notin gr.ids THEN "unknown-node"
                                          ELSE IF ~HasArr(gr.type[r.b]) THEN "no-port" ELSE "index"
           [] r.kind \in {"setval", "setname", "setdesc", "getval", "getname"} ->
                 IF r.a \notin gr.ids THEN "unknown-node" ELSE "not-a-parameter"
           [] r.kind = "setproducer" -> IF r.a \notin gr.ids THEN "unknown-node" ELSE "not-an-artifact"
           [] r.kind = "getart" -> "no-producer"
           [] OTHER -> "other"

\* the application state after the request (sn = the graph last fetched with GET /graph).  Which id a new node
\* gets is not part of the contract (only that it is fresh and named in the answer): EffectK creates it as k;
\* the generators use GraphEdit's allocation rule NewId, the judges the id the answer names.
CreateAs(gr, t, k) ==
    [gr EXCEPT !.ids = @ \cup {k}, !.type = Ext(@, k, t), !.name = Ext(@, k, 0), !.desc = Ext(@, k, 0),
               !.val = Ext(@, k, 0), !.single = Ext(@, k, NoSingle), !.arr = Ext(@, k, <<>>)]
EffectK(gr, sn, r, k) ==
    IF Class(gr, r) # "valid" THEN gr
    ELSE IF r.kind = "create" THEN CreateAs(gr, r.a, k)
    ELSE IF IsEdit(r) THEN Apply(gr, StOf(r))
    ELSE IF r.kind = "putgraph" THEN sn
    ELSE gr
Effect(gr, sn, r) == EffectK(gr, sn, r, NewId(gr.ids))
FreshId(gr, k) == k >= 0 /\ k \notin gr.ids
Changes(r) == IsEdit(r) \/ r.kind = "putgraph"

\* handlers as on the pinned tree: ConnectNodes has no cycle check, DeleteNode removes any id (also an unknown
\* one, also from under its users), POST /graph does not autosave
PinnedAccepts(gr, r) ==
    /\ r.flaw = "none"
    /\ CASE r.kind \in {"connect", "connectarr"} ->
                /\ r.a \in gr.ids /\ r.b \in gr.ids
                /\ IF r.kind = "connect" THEN PortKind(gr.type[r.b], r.c) = OutKind(gr.type[r.a])
                   ELSE HasArr(gr.type[r.b]) /\ ArrKind(gr.type[r.b]) = OutKind(gr.type[r.a]) /\ Len(gr.arr[r.b]) < 13
         [] r.kind = "delete" -> TRUE
         [] OTHER -> Class(gr, r) = "valid"
PinnedEffect(gr, sn, r) ==
    IF ~PinnedAccepts(gr, r) THEN gr
    ELSE IF r.kind = "delete" THEN (IF r.a \in gr.ids THEN Apply(gr, StOf(r)) ELSE gr)
    ELSE IF IsEdit(r) THEN Apply(gr, StOf(r))
    ELSE IF r.kind = "putgraph" THEN sn
    ELSE gr

(* ---------------- request pools (generator) -------------------------------- *)
Ghost == NewId(g.ids) + 2                   \* a node number that does not exist
NodesPlus == g.ids \cup {Ghost}
ArrLen(n) == IF n \in g.ids THEN Len(g.arr[n]) ELSE 0

EditPool ==
    {Rq("create", t, 0, 0) : t \in (IF Cardinality(g.ids) < MaxNodes THEN NodeTypes ELSE {}) \cup {99}}
    \cup {Rq("connect", a, b, c) : a \in NodesPlus, b \in NodesPlus, c \in 1..4}
    \cup {Rq("connectarr", a, b, 0) : a \in NodesPlus, b \in NodesPlus}
    \cup {Rq("disconnect", 0, b, c) : b \in NodesPlus, c \in 1..4}
    \cup UNION {{Rq("disconnectarr", 0, b, c) : c \in 1..(ArrLen(b) + 1)} : b \in NodesPlus}
    \cup {r \in {Rq(op, a, b, 0) : op \in {"setval", "setname", "setdesc"}, a \in NodesPlus, b \in {0, 1, 2}} : Encodable(g, r)}
    \cup {Rq("setproducer", a, b, 0) : a \in NodesPlus, b \in {1, 2}}
    \cup {Rq("setmeta", a, b, 0) : a \in 1..3, b \in {1, 2}}
    \cup {Rq("delmeta", a, 0, 0) : a \in 1..3}
    \cup {Rq("delete", a, 0, 0) : a \in NodesPlus}
ValidEdits == {r \in EditPool : Class(g, r) = "valid"}
InvalidEdits == {r \in EditPool : Class(g, r) = "invalid"}
NeutralEdits == {r \in EditPool : Class(g, r) = "neutral"}

ReadPool ==
    {Rq(k, 0, 0, 0) : k \in {"getgraph", "getschema", "getstarted", "getzip", "getmermaid", "getswagger"}}
    \cup {Rq(k, a, 0, 0) : k \in {"getval", "getname"}, a \in NodesPlus}
    \cup {Rq("getart", f, 0, 0) : f \in 1..3}

\* one representative per kind, preferably a request that WOULD be valid with the right method / body
\* (V = the valid edits, P = the edit pool: passed in so that TLC computes them once per state)
Rep(V, P, kind) ==
    LET VK == {r \in V : r.kind = kind}
        AK == {r \in P : r.kind = kind}
    IN IF VK # {} THEN {CHOOSE r \in VK : TRUE} ELSE IF AK # {} THEN {CHOOSE r \in AK : TRUE} ELSE {}
TabledKinds == {k \in EditKinds \cup {"putgraph", "getgraph", "getval", "getname"} : Methods(Endpoint(k)) # AllMethods}
RepAny(V, P, kind) ==
    IF kind \in EditKinds THEN Rep(V, P, kind)
    ELSE IF kind \in {"getval", "getname"} THEN {Rq(kind, CHOOSE a \in NodesPlus : TRUE, 0, 0)}
    ELSE {Rq(kind, 0, 0, 0)}
MethodFlaws(V, P) ==
    UNION {UNION {{[r EXCEPT !.flaw = "method", !.m = m] : m \in AllMethods \ Methods(Endpoint(k))} : r \in RepAny(V, P, k)} :
           k \in TabledKinds}

BodyVariants(kind) ==
    CASE kind \in {"create", "delete", "connect", "connectarr", "disconnect", "disconnectarr", "setval"} -> {1, 2, 3, 4}
      [] kind = "setmeta" -> {1, 3, 4}
      [] OTHER -> {}
\* POST /graph: 1 cut, 3 empty, 4 not JSON, 5 a node of an unregistered type, 6 a dependency on a node that is not
\* in the file, 7 parameter data of the wrong JSON type (5..7 are built from the last fetched graph)
PutVariants ==
    {1, 3, 4} \cup (IF snap.ids # {} THEN {5} ELSE {})
    \cup (IF \E n \in snap.ids : \E s \in snap.ids : DependsOn(snap, n, s) THEN {6} ELSE {})
    \cup (IF \E n \in snap.ids : snap.type[n] \in {1, 2, 3, 4} THEN {7} ELSE {})
BodyFlaws(V, P) ==
    UNION {UNION {{[r EXCEPT !.flaw = "body", !.fv = v] : v \in BodyVariants(k)} : r \in Rep(V, P, k)} : k \in EditKinds}
    \cup {[Rq("putgraph", 0, 0, 0) EXCEPT !.flaw = "body", !.fv = v] : v \in PutVariants}
Flawed == LET P == EditPool  V == {r \in P : Class(g, r) = "valid"} IN MethodFlaws(V, P) \cup BodyFlaws(V, P)
PutPool == {Rq("putgraph", 0, 0, 0)}
AllRequests == EditPool \cup ReadPool \cup Flawed \cup PutPool

(* ---------------- the state machine ---------------------------------------- *)
\* a processing chain in which single-port and array-port cycles are one request away:
\* Text(2) <- Fmt(1).S <- Concat(0) <- String(3);  "connect 1 -> 0.Sep" and "connectarr 1 -> 0" would close a cycle;
\* Text(4) is the producer of file2 but has no input yet (its artifact cannot be evaluated)
PreludeLoop ==
    <<St("create", 10, 0, 0), St("create", 11, 0, 0), St("create", 14, 0, 0), St("create", 1, 0, 0),
      St("connect", 0, 1, 4), St("connect", 1, 2, 1), St("setproducer", 2, 1, 0), St("connectarr", 3, 0, 0),
      St("setval", 3, 1, 0), St("create", 14, 0, 0), St("setproducer", 4, 2, 0)>>

\* hist holds REQUESTS here: the prelude steps as their proper requests, then one GET /graph (so that the
\* whole-graph POST variants have a non-trivial graph to re-post or to corrupt)
PLen == Len(Prelude) + 1
HInit ==
    /\ g = ApplyAll(Empty, Prelude)
    /\ hist = [i \in 1..Len(Prelude) |-> FromSt(Prelude[i])] \o <<Rq("getgraph", 0, 0, 0)>>
    /\ snap = ApplyAll(Empty, Prelude)
    /\ file = ApplyAll(Empty, Prelude)

Step(r) ==
    LET g2 == IF Pinned THEN PinnedEffect(g, snap, r) ELSE Effect(g, snap, r) IN
    /\ g' = g2
    /\ hist' = Append(hist, r)
    /\ snap' = IF r.kind = "getgraph" /\ r.flaw = "none" THEN g ELSE snap
    \* GraphSaver: every accepted edit rewrites the file (on the pinned tree POST /graph did not)
    /\ file' = IF g2 # g /\ ~(Pinned /\ r.kind = "putgraph") THEN g2 ELSE file

HNext == Len(hist) < PLen + Depth /\ \E r \in AllRequests : Step(r)
HSpec == HInit /\ [][HNext]_hvars

\* simulation: one random representative per weighted class (valid edits three times as likely as invalid or
\* neutral edits, reads, malformed requests, fetching / re-posting the whole graph)
SimNext ==
    /\ Len(hist) < PLen + Depth
    /\ LET P == EditPool
           V == {r \in P : Class(g, r) = "valid"}
           F == MethodFlaws(V, P) \cup BodyFlaws(V, P) \cup PutPool
       IN \E cls \in 1..7 :
             LET S == CASE cls \in {1, 2, 3} -> V [] cls = 4 -> P \ V [] cls = 5 -> ReadPool [] cls = 6 -> F
                        [] OTHER -> PutPool \cup {Rq("getgraph", 0, 0, 0)}
             IN S # {} /\ Step(RandomElement(S))
SimSpec == HInit /\ [][SimNext]_hvars

\* evaluate - edit - evaluate: GET /producer/value (fills the caches), one valid edit or whole-graph post, the same
\* GET again: the second answer must be the from-scratch artifact of the edited graph
Producers == {q[1] : q \in g.prod}
SandwichNext ==
    \/ /\ Len(hist) = PLen /\ \E f \in Producers : Step(Rq("getart", f, 0, 0))
    \/ /\ Len(hist) = PLen + 1 /\ \E r \in ValidEdits \cup PutPool : Step(r)
    \/ /\ Len(hist) = PLen + 2 /\ Step(hist[PLen + 1])
SandwichSpec == HInit /\ [][SandwichNext]_hvars
\* edit - revert - read: one valid edit, POST /graph of the graph fetched before it, GET /graph: application and
\* autosaved file must both be back at the prelude graph
RevertNext ==
    \/ /\ Len(hist) = PLen /\ \E r \in ValidEdits : Step(r)
    \/ /\ Len(hist) = PLen + 1 /\ Step(Rq("putgraph", 0, 0, 0))
    \/ /\ Len(hist) = PLen + 2 /\ Step(Rq("getgraph", 0, 0, 0))
RevertSpec == HInit /\ [][RevertNext]_hvars
EmitSandwich == Len(hist) < PLen + 3 \/ PrintT(ToJson([steps |-> hist]))
ViewSandwich == <<g, snap, hist>>

(* ---------------- design-level properties ----------------------------------- *)
\* refinement: every step of the API is a GraphEdit step, a whole-graph replacement, or stuttering on g
RefinesGraphEdit ==
    [][\/ g' = g
       \/ \E st \in Candidates \cup {StOf(r) : r \in EditPool} :
             (Enabled(g, st) \/ HEnabled(g, FromSt(st))) /\ g' = Apply(g, st)
       \/ g' = snap]_g
HTypeOK == WellFormed(g) /\ DOMAIN g.type = g.ids
HAcyclic == AcyclicG(g)
FileCurrent == file = g                      \* the saved file always denotes the application state
\* the classification is total and artifacts are defined on every reachable graph
AtLeaf == Len(hist) = PLen + Depth      \* leaves are not expanded: the pool laws are checked on inner states
ClassTotal == AtLeaf \/ \A r \in AllRequests : Class(g, r) \in {"valid", "invalid", "neutral"} /\ RouteOK(r)
ArtDefined == \A q \in g.prod : Art(g, q[2]) \in STRING
\* a request that is not valid never changes the graph; a read never does
FrameLaw == AtLeaf \/ \A r \in AllRequests : (Class(g, r) # "valid" \/ IsRead(r)) => Effect(g, snap, r) = g

EmitLeafH == Len(hist) < PLen + Depth \/ PrintT(ToJson([steps |-> hist]))
LastRq == IF hist = <<>> THEN <<>> ELSE hist[Len(hist)]
ViewH == <<g, snap, Len(hist), IF Len(hist) = PLen + Depth THEN LastRq ELSE <<>>>>
=============================================================================
