----------------------------- MODULE PlyGenFile -----------------------------
(***************************************************************************)
(* Generator of third-party PLY files (C08): every header layout within    *)
(* the bounds, built one line at a time.                                   *)
(*   start : vertex count                                                  *)
(*   props : append (name, type token) pairs: names from NameTable in ANY  *)
(*           order (recognised group members, partial groups, unknown      *)
(*           names), type tokens incl. aliases from TypeTable              *)
(*   face  : one face-element configuration of FaceTable (none, empty,     *)
(*           triangles, quads, per-corner texcoord, count/index types,     *)
(*           aliases, an unrecognised list)                                *)
(* Decorations (CRLF, comment / obj_info / blank lines, ascii float style) *)
(* carry no data; they rotate deterministically over DecoTable.            *)
(* Cell values are an injective function of (record, column) per type so   *)
(* that any offset / order slip changes the denotation.                    *)
(* With Mixed = FALSE members of one recognised group get one type (the    *)
(* library documents mixed types as unsupported); Mixed = TRUE lifts it.   *)
(*                                                                         *)
(* Checked here on the specification: InGrammar (the generator stays       *)
(* inside the grammar Denote is defined on) and DenotePartition (every     *)
(* property lands in exactly one attribute, the denoted mesh is well       *)
(* formed).                                                                *)
(***************************************************************************)
EXTENDS PlyFormat, Json

CONSTANTS NameIds,    \* subset of DOMAIN NameTable
          TypeIds,    \* subset of DOMAIN TypeTable
          MinProps, MaxProps,
          NVs,        \* set of vertex counts
          FaceIds,    \* subset of DOMAIN FaceTable
          Mixed       \* BOOLEAN

D == 16320

NameTable == <<"x", "y", "z", "nx", "ny", "nz", "red", "green", "blue", "alpha",                      \* 1-10
               "s", "t", "opacity", "f_dc_0", "f_dc_1", "f_dc_2", "scale_0", "scale_1", "scale_2",      \* 11-19
               "rot_0", "rot_1", "rot_2", "rot_3", "cls", "intensity",                                  \* 20-25
               "px", "py", "pz", "r", "g", "b", "a", "normalx", "normaly", "normalz",                   \* 26-35
               "posx", "posy", "posz", "diffuse_red", "diffuse_green", "diffuse_blue", "diffuse_alpha", \* 36-42
               "confidence", "Quality">>                                                                \* 43-44
TypeTable == <<"float", "uchar", "int", "double", "float32", "uint8", "int32", "float64">>

L(n, ct, lt) == [n |-> n, ct |-> ct, lt |-> lt]
\* [face, nf, lists, k] : k = corners per face (3, 4, or 34 = alternating)
FaceTable == <<
    [face |-> FALSE, nf |-> 0, k |-> 3, lists |-> <<>>],                                                        \* 1
    [face |-> TRUE, nf |-> 0, k |-> 3, lists |-> <<L("vertex_indices", "uchar", "int")>>],                      \* 2
    [face |-> TRUE, nf |-> 2, k |-> 3, lists |-> <<L("vertex_indices", "uchar", "int")>>],                      \* 3
    [face |-> TRUE, nf |-> 3, k |-> 34, lists |-> <<L("vertex_index", "int", "uint")>>],                        \* 4
    [face |-> TRUE, nf |-> 2, k |-> 3, lists |-> <<L("vertex_indices", "uchar", "int"),
                                                    L("texcoord", "uchar", "float")>>],                          \* 5
    [face |-> TRUE, nf |-> 2, k |-> 34, lists |-> <<L("texcoord", "uint8", "float32"),
                                                     L("vertex_indices", "uint", "int32")>>],                    \* 6
    [face |-> TRUE, nf |-> 2, k |-> 4, lists |-> <<L("flags", "uchar", "int"),
                                                    L("vertex_indices", "uint8", "uint32")>>],                   \* 7
    [face |-> TRUE, nf |-> 0, k |-> 3, lists |-> <<L("vertex_indices", "int", "int"),
                                                    L("texcoord", "uchar", "float")>>],                          \* 8
    [face |-> TRUE, nf |-> 1, k |-> 4, lists |-> <<L("vertex_index", "uint32", "int"),
                                                    L("weights", "uchar", "float"),
                                                    L("texcoord", "int", "float")>>] >>                          \* 9

DecoTable == <<
    [crlf |-> FALSE, comments |-> <<>>, objinfo |-> <<>>, blank |-> <<>>, fstyle |-> "g"],
    [crlf |-> TRUE, comments |-> <<0, 2>>, objinfo |-> <<1>>, blank |-> <<>>, fstyle |-> "f6"],
    [crlf |-> FALSE, comments |-> <<1, 1, 4>>, objinfo |-> <<0>>, blank |-> <<1, 3>>, fstyle |-> "e"],
    [crlf |-> TRUE, comments |-> <<0, 1, 2, 3, 4, 5, 6, 7, 8, 9, 10, 11, 12, 13, 14, 15, 16>>, objinfo |-> <<2, 5>>,
     blank |-> <<2>>, fstyle |-> "f"] >>

VARIABLES stage, nv, props, faceid
vars == <<stage, nv, props, faceid>>

Init == stage = "start" /\ nv = 0 /\ props = <<>> /\ faceid = 0

SameGroup(a, b) == \E g \in Groups : {a, b} \subseteq (Range(g.ns) \cup {g.w})

Start ==
    /\ stage = "start"
    /\ \E n \in NVs : nv' = n
    /\ stage' = "props"
    /\ UNCHANGED <<props, faceid>>

AddProp ==
    /\ stage = "props" /\ Len(props) < MaxProps
    /\ \E ni \in NameIds, ti \in TypeIds :
          /\ \A i \in DOMAIN props : props[i].n # NameTable[ni]
          /\ IF Mixed THEN TRUE
             ELSE \A i \in DOMAIN props :
                     SameGroup(props[i].n, NameTable[ni]) => Canon(props[i].t) = Canon(TypeTable[ti])
          /\ props' = Append(props, [n |-> NameTable[ni], t |-> TypeTable[ti]])
    /\ UNCHANGED <<stage, nv, faceid>>

ChooseFace ==
    /\ stage = "props" /\ Len(props) >= MinProps
    /\ \E fi \in FaceIds :
          /\ IF FaceTable[fi].nf = 0 THEN TRUE ELSE nv >= 3        \* faces need vertices to point at
          /\ faceid' = fi
    /\ stage' = "done"
    /\ UNCHANGED <<nv, props>>

Next == Start \/ AddProp \/ ChooseFace
Spec == Init /\ [][Next]_vars

(***************************************************************************)
(* the finished file                                                       *)
(***************************************************************************)
Cell(ct, r, c) ==
    CASE ct = "uchar" -> (37 * r + 11 * c + 5) % 256
      [] ct = "int" -> (((13 * r + 5 * c) % 23) - 11) * (IF c % 2 = 0 THEN 1 ELSE 1001)
      [] OTHER -> (((5 * r + 3 * c) % 41) - 20) * 255 * (1 + (c % 4))

Corners(fc, q) == IF fc.k = 34 THEN (IF q % 2 = 1 THEN 4 ELSE 3) ELSE fc.k

ListCells(fc, lp, q) ==
    LET k == Corners(fc, q) IN
    IF lp.n \in IdxNames THEN [j \in 1..k |-> ((q - 1) * 2 + (j - 1)) % nv]
    ELSE IF lp.n = "texcoord" THEN [j \in 1..(2 * k) |-> ((7 * q + 3 * j) % 17) * 255 * 4]
    ELSE IF IsFloatT(Canon(lp.lt)) THEN [j \in 1..(q % 3) |-> (q + j) * 255]
    ELSE [j \in 1..2 |-> q + j]

FileOf ==
    LET fc == FaceTable[faceid] IN
    [fmt |-> "", vprops |-> props, nv |-> nv,
     vrecs |-> [r \in 1..nv |-> [c \in DOMAIN props |-> Cell(Canon(props[c].t), r, c)]],
     face |-> fc.face, nf |-> fc.nf, flists |-> fc.lists,
     frecs |-> [q \in 1..fc.nf |-> [p \in DOMAIN fc.lists |-> ListCells(fc, fc.lists[p], q)]]]

DecoOf == DecoTable[((SumSeq([i \in DOMAIN props |-> Len(props[i].n)]) + faceid + nv) % Len(DecoTable)) + 1]

Done == stage = "done"

InGrammar ==
    Done => LET f == FileOf IN
            /\ HeaderOK([f EXCEPT !.fmt = "ascii"]) /\ BodyOK(f, "lat")
            /\ Denotable(f) /\ Representable(f, "lat", D)
            /\ (~Mixed => ~MixedGroup(f))

DenotePartition ==
    Done => LET f == FileOf
                d == Denote(f, "lat", D)
            IN /\ WellFormedMesh(d)
               /\ \A g, h \in FormedGroups(f) : g # h => Range(GNames(f, g)) \cap Range(GNames(f, h)) = {}
               /\ Cardinality(PropNames(f)) =
                    Cardinality(Claimed(f)) + Cardinality({a \in d.attrs : a.n \in PropNames(f) \ Claimed(f)})
               /\ \A a \in d.attrs : Len(a.data) = f.nv
               /\ d.topo = (IF f.face THEN "triangle" ELSE "point")

Emit == ~Done \/ PrintT(ToJson([kind |-> "file", mode |-> "lat", D |-> D, spec |-> FileOf, deco |-> DecoOf,
                                  mixed |-> MixedGroup(FileOf), faceid |-> faceid]))
EmitLeaf == Emit
=============================================================================
