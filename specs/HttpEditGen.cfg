CONSTANTS Depth = 1 MaxNodes = 6 SaveOrder = "index" Pinned = FALSE
CONSTANT Prelude <- PreludeSmall
SPECIFICATION HSpec
INVARIANTS HTypeOK HAcyclic FileCurrent ClassTotal ArtDefined FrameLaw EmitLeafH
PROPERTY RefinesGraphEdit
VIEW ViewH
CHECK_DEADLOCK FALSE
