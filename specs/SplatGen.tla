----------------------------- MODULE SplatGen -----------------------------
(***************************************************************************)
(* Generator and design-level checks for C15.                              *)
(*                                                                         *)
(* A state is one case:                                                    *)
(*  [kind |-> "spz", hdr |-> <<version, n, shDegree, fractionalBits>>,     *)
(*   pay |-> packed arrays, frame, blk]                                    *)
(*     every SPZ header within the constants, each with several byte       *)
(*     patterns: "every byte distinct" (any stride / offset slip changes a *)
(*     value), all 0xFF / 0x80 / 0x00 (sign bits of the 24 bit fixed point *)
(*     and of the half floats, nan / inf halves), a second permutation;    *)
(*     plus (round 5) EdgeCases: boundary values of every quantised field  *)
(*     in every coordinate (pattern "edge"); FbCases: the fractional-bit   *)
(*     count over its declared range 0..255; LadderCases: streams whose    *)
(*     point count SplatFormat!LadderCount computes so that a multiple of  *)
(*     a delivery granularity falls strictly inside a given array (content *)
(*     "p251", a function of the index the judge recomputes);              *)
(*     DeliveryCases: the file handed to the codec in pieces (dl);         *)
(*  [kind |-> "cloud", unit |-> 1000, splats |-> <<[p, s, c, a, r]>>, ..]  *)
(*     small splat clouds (0..3 splats) whose attributes are taken from    *)
(*     edge-value tables in 1/1000: colours below / at / above the         *)
(*     displayable range, rotation components exactly +-1, saturating      *)
(*     opacities, positions that are not float32 numbers.                  *)
(* Emit prints each case once as JSON for `vh splat-exec`.                 *)
(*                                                                         *)
(* Design-level invariants (on the specification itself):                  *)
(*   Tiles      the layout law names every payload byte exactly once and   *)
(*              the total length is the formula (TilesPayload)             *)
(*   Ordered    the arrays appear in the published order without overlap   *)
(*   LadderLaw  a size-ladder stream is cut where it was built to be cut   *)
(*   EdgeLaw    the boundary-value streams contain the whole ladder in     *)
(*              every coordinate / channel                                 *)
(*   HalfLaw    the half-float dequantiser maps 0x3C00 to 1, 0xC000 to -2, *)
(*              0x0001 to 2^-24, 0x7C00 to +inf (sanity of the reference)  *)
(* int32 budget: all numbers below 2^25 (offsets of ladder streams < 2^22).*)
(***************************************************************************)
EXTENDS SplatFormat, Json, TLC

CONSTANTS Versions, Counts, Degrees, FracBits, Patterns, Frames, CloudCounts, Profiles,
          EdgeCounts,      \* point counts of the boundary-value streams (pattern "edge")
          FbLadder,        \* fractional-bit counts crossed with few other parameters (whole declared range 0..255)
          Grans,           \* delivery granularities of the size ladder
          LadderFrames,    \* gzip framings of the size-ladder streams
          Deliveries       \* granularities in which the FILE is handed to the codec (0: at once; 100000 + g: pieces of g bytes, the last one together with io.EOF)

VARIABLES g
vars == <<g>>

FrameOf(fr) == CASE fr = "stored0" -> <<"stored", 0>> [] fr = "stored5" -> <<"stored", 5>> [] fr = "deflate" -> <<"deflate", 0>>

\* la, lg: the array and the granularity a size-ladder stream was built for ("" / 0 otherwise);
\* dl: delivery of the file; per: period of the decoded arrays in the point index the
\* harness may use to log its observation compactly (0: log everything)
SpzCaseX(v, n, deg, fb, pat, fr, dl, la, lg) ==
    LET hdr == <<v, n, deg, fb>> IN
    [kind |-> "spz", hdr |-> hdr, pat |-> pat, per |-> PatPeriod(pat), pay |-> PatPayload(pat, hdr),
     frame |-> FrameOf(fr)[1], blk |-> FrameOf(fr)[2], dl |-> dl, la |-> la, lg |-> lg]
SpzCase(v, n, deg, fb, pat, fr) == SpzCaseX(v, n, deg, fb, pat, fr, 0, "", 0)

\* version 1 ignores the fractional bits: one value is enough there
MinFb == CHOOSE x \in FracBits : \A y \in FracBits : x <= y
MidFb == 12
SpzCases ==
    {SpzCase(t[1], t[2], t[3], t[4], t[5], t[6]) :
        t \in {u \in Versions \X Counts \X Degrees \X FracBits \X Patterns \X Frames : u[1] = 2 \/ u[4] = MinFb}}
\* boundary values of every quantised field in every coordinate / channel, every version and degree
EdgeCases ==
    {SpzCase(t[1], t[2], t[3], t[4], "edge", "stored0") :
        t \in {u \in Versions \X EdgeCounts \X Degrees \X FracBits : u[1] = 2 \/ u[4] = MinFb}}
\* the fractional-bit count over its declared range (an 8 bit field)
FbCases ==
    {SpzCase(2, n, 0, fb, pat, "stored0") : n \in EdgeCounts \cup {1}, fb \in FbLadder, pat \in {"perm", "edge"}}
\* size ladder: for every array of the layout and every granularity a stream in which a
\* multiple of the granularity falls strictly inside that array
LadderHdrs ==
    {<<v, LadderCount(v, d, Arrays[a], gr), d, Arrays[a], gr>> :
        v \in Versions, d \in Degrees, a \in 1..6, gr \in Grans}
LadderCases ==
    {SpzCaseX(t[1], t[2], t[3], MidFb, "p251", fr, 0, t[4], t[5]) :
        t \in {u \in LadderHdrs : u[2] > 0 /\ ((u[4] = "sh") = (u[3] > 0))}, fr \in LadderFrames}
\* delivery of the compressed file in pieces
DeliveryCases ==
    {SpzCaseX(v, 3, d, MidFb, "perm", fr, dl, "", 0) : v \in Versions, d \in Degrees, fr \in Frames, dl \in Deliveries \ {0}}

\* edge-value tables, 1/1000 units
Fdc == <<-3000, -1773, 0, 1772, 3000>>        \* colour = fdc * 0.2821 + 0.5: below 0, just below 0, 0.5, just below 1, above 1
Rot == <<-1000, -500, 0, 996, 1000>>
Opa == <<-20000, -1000, 0, 3000, 20000>>
Scl == <<-10000, -1000, 0, 2500, 5000>>
Pos == <<-100125, -1, 0, 100, 3000000>>        \* -100.125 is a float32, 0.1 and -0.001 are not
Splat(a, b) ==
    [p |-> <<Pos[b], Pos[a], Pos[((a + b) % 5) + 1]>>,
     s |-> <<Scl[a], Scl[b], Scl[a]>>,
     c |-> <<Fdc[a], Fdc[b], Fdc[((a + b) % 5) + 1]>>,
     a |-> Opa[a],
     r |-> <<Rot[a], Rot[b], Rot[b], Rot[a]>>]
Pairs == Profiles \X Profiles
Clouds ==
    {<<>>} \cup {<<Splat(x[1], x[2])>> : x \in Pairs}
    \cup {<<Splat(x[1], x[2]), Splat(y[1], y[2])>> : x \in Pairs, y \in Pairs}
    \cup {<<Splat(x, x), Splat(y, z), Splat(z, x)>> : x \in Profiles, y \in Profiles, z \in Profiles}
CloudCases ==
    {[kind |-> "cloud", unit |-> 1000, splats |-> s, frest |-> (IF Len(s) = 2 THEN 45 ELSE IF Len(s) = 3 THEN 9 ELSE 0), normal |-> Len(s) = 1, dl |-> 0]
        : s \in {c \in Clouds : Len(c) \in CloudCounts}}
    \cup  \* the same file through every delivery: a few clouds of every size
    {[kind |-> "cloud", unit |-> 1000, splats |-> s, frest |-> (IF Len(s) = 2 THEN 45 ELSE 0), normal |-> Len(s) = 1, dl |-> dl]
        : s \in {<<>>, <<Splat(2, 4)>>, <<Splat(1, 3), Splat(4, 2)>>, <<Splat(3, 3), Splat(2, 5), Splat(4, 1)>>}, dl \in Deliveries \ {0}}

Init == g \in SpzCases \cup EdgeCases \cup FbCases \cup LadderCases \cup DeliveryCases \cup CloudCases
Spec == Init /\ [][UNCHANGED g]_vars

Emit == PrintT(ToJson(g))

\* the size ladder is effective: the stream built for (array, granularity) is cut there
LadderLaw == (g.kind = "spz" /\ g.la # "") => Split(g.hdr, g.la, g.lg)
\* the fractional-bit counts tried cover the ladder the layout model names, inside the declared range of the field
FbLaw == FbLadderSet \subseteq FbLadder /\ FbLadder \subseteq 0..255
\* the boundary-value streams really contain the whole ladder in every coordinate
EdgeLaw == (g.kind = "spz" /\ g.pat = "edge" /\ g.hdr[2] >= 14 /\ g.hdr[2] % 3 = 0) =>
    LET h == g.hdr
        Word(i, c) == LET o == OffPos(h, i, c) IN
                      IF h[1] = 1 THEN B(g.pay, o) + 256 * B(g.pay, o + 1)
                      ELSE B(g.pay, o) + 256 * B(g.pay, o + 1) + 65536 * B(g.pay, o + 2)
        lad == IF h[1] = 1 THEN HalfLadder ELSE LadderSeq(24)
    IN /\ \A c \in 0..2 : {lad[k] : k \in 1..Len(lad)} \subseteq {Word(i, c) : i \in 0..(h[2] - 1)}
       /\ \A c \in 0..2 : {LadderSeq(8)[k] : k \in 1..6} \subseteq {B(g.pay, OffColor(h, i, c)) : i \in 0..(h[2] - 1)}
       /\ \A c \in 0..2 : {LadderSeq(8)[k] : k \in 1..6} \subseteq {B(g.pay, OffRot(h, i, c)) : i \in 0..(h[2] - 1)}

\* (the slot set is quadratic to build: the law is linear in n, small counts decide it)
Tiles == (g.kind = "spz" /\ g.hdr[2] <= 16) => TilesPayload(g.hdr)
Ordered == g.kind = "spz" =>
    LET h == g.hdr IN
    /\ 0 <= BaseAlpha(h) /\ BaseAlpha(h) <= BaseColor(h) /\ BaseColor(h) <= BaseScale(h)
    /\ BaseScale(h) <= BaseRot(h) /\ BaseRot(h) <= BaseSh(h) /\ BaseSh(h) <= PayloadLen(h)
    /\ PayloadLen(h) = h[2] * (3 * PosSize(h[1]) + 10 + 3 * ShDim(h[3]))
HalfLaw ==
    /\ Half(0, 60) = <<0, 1, 0>>          \* 0x3C00 = 1.0
    /\ Half(0, 192) = <<0, -1, 1>>        \* 0xC000 = -2.0
    /\ Half(1, 0) = <<0, 1, -24>>         \* smallest subnormal
    /\ Half(0, 124) = <<2, 0, 0>>         \* +inf
    /\ Half(0, 252) = <<3, 0, 0>>         \* -inf
    /\ Half(1, 124) = <<1, 0, 0>>         \* nan
    /\ Half(255, 123) = <<0, 2047, 5>>    \* 65504 = 2047 * 2^5
    /\ Fixed24(255, 255, 255, 3) = <<0, -1, -3>>
    /\ Fixed24(0, 0, 128, 0) = <<0, -1, 23>>
    /\ Fixed24(0, 16, 0, 12) = <<0, 1, 0>>
=============================================================================
