----------------------------- MODULE SplatGen -----------------------------
(***************************************************************************)
(* Generator and design-level checks for C15.                              *)
(*                                                                         *)
(* A state is one case:                                                    *)
(*  [kind |-> "spz", hdr |-> <<version, n, shDegree, fractionalBits>>,     *)
(*   pay |-> packed arrays, frame, blk]                                    *)
(*     every SPZ header within the constants, each with several byte       *)
(*     patterns: "every byte distinct" (any stride / offset slip changes a *)
(*     value), all 0xFF / 0x80 / 0x00 (sign bits of the 24 bit fixed point *)
(*     and of the half floats, nan / inf halves), a second permutation;    *)
(*  [kind |-> "cloud", unit |-> 1000, splats |-> <<[p, s, c, a, r]>>, ..]  *)
(*     small splat clouds (0..3 splats) whose attributes are taken from    *)
(*     edge-value tables in 1/1000: colours below / at / above the         *)
(*     displayable range, rotation components exactly +-1, saturating      *)
(*     opacities, positions that are not float32 numbers.                  *)
(* Emit prints each case once as JSON for `vh splat-exec`.                 *)
(*                                                                         *)
(* Design-level invariants (on the specification itself):                  *)
(*   Tiles      the layout law names every payload byte exactly once and   *)
(*              the total length is the formula (TilesPayload)             *)
(*   Ordered    the arrays appear in the published order without overlap   *)
(*   HalfLaw    the half-float dequantiser maps 0x3C00 to 1, 0xC000 to -2, *)
(*              0x0001 to 2^-24, 0x7C00 to +inf (sanity of the reference)  *)
(* int32 budget: all numbers below 2^25.                                   *)
(***************************************************************************)
EXTENDS SplatFormat, Json, TLC

CONSTANTS Versions, Counts, Degrees, FracBits, Patterns, Frames, CloudCounts, Profiles

VARIABLES g
vars == <<g>>

Byte(pat, j) ==
    CASE pat = "perm" -> (37 * j + 11) % 256
      [] pat = "perm2" -> (91 * j + 200) % 256
      [] pat = "ff" -> 255
      [] pat = "80" -> 128
      [] pat = "00" -> 0
      [] pat = "7f80" -> IF j % 2 = 0 THEN 127 ELSE 128

FrameOf(fr) == CASE fr = "stored0" -> <<"stored", 0>> [] fr = "stored5" -> <<"stored", 5>> [] fr = "deflate" -> <<"deflate", 0>>

SpzCase(v, n, deg, fb, pat, fr) ==
    LET hdr == <<v, n, deg, fb>> IN
    [kind |-> "spz", hdr |-> hdr, pay |-> [j \in 1..PayloadLen(hdr) |-> Byte(pat, j - 1)],
     frame |-> FrameOf(fr)[1], blk |-> FrameOf(fr)[2]]

\* version 1 ignores the fractional bits: one value is enough there
MinFb == CHOOSE x \in FracBits : \A y \in FracBits : x <= y
SpzCases ==
    {SpzCase(t[1], t[2], t[3], t[4], t[5], t[6]) :
        t \in {u \in Versions \X Counts \X Degrees \X FracBits \X Patterns \X Frames : u[1] = 2 \/ u[4] = MinFb}}

\* edge-value tables, 1/1000 units
Fdc == <<-3000, -1773, 0, 1772, 3000>>        \* colour = fdc * 0.2821 + 0.5: below 0, just below 0, 0.5, just below 1, above 1
Rot == <<-1000, -500, 0, 996, 1000>>
Opa == <<-20000, -1000, 0, 3000, 20000>>
Scl == <<-10000, -1000, 0, 2500, 5000>>
Pos == <<-100125, -1, 0, 100, 3000000>>        \* -100.125 is a float32, 0.1 and -0.001 are not
Splat(a, b) ==
    [p |-> <<Pos[b], Pos[a], Pos[((a + b) % 5) + 1]>>,
     s |-> <<Scl[a], Scl[b], Scl[a]>>,
     c |-> <<Fdc[a], Fdc[b], Fdc[((a + b) % 5) + 1]>>,
     a |-> Opa[a],
     r |-> <<Rot[a], Rot[b], Rot[b], Rot[a]>>]
Pairs == Profiles \X Profiles
Clouds ==
    {<<>>} \cup {<<Splat(x[1], x[2])>> : x \in Pairs}
    \cup {<<Splat(x[1], x[2]), Splat(y[1], y[2])>> : x \in Pairs, y \in Pairs}
    \cup {<<Splat(x, x), Splat(y, z), Splat(z, x)>> : x \in Profiles, y \in Profiles, z \in Profiles}
CloudCases ==
    {[kind |-> "cloud", unit |-> 1000, splats |-> s, frest |-> (IF Len(s) = 2 THEN 45 ELSE IF Len(s) = 3 THEN 9 ELSE 0), normal |-> Len(s) = 1]
        : s \in {c \in Clouds : Len(c) \in CloudCounts}}

Init == g \in SpzCases \cup CloudCases
Spec == Init /\ [][UNCHANGED g]_vars

Emit == PrintT(ToJson(g))

Tiles == g.kind = "spz" => TilesPayload(g.hdr)
Ordered == g.kind = "spz" =>
    LET h == g.hdr IN
    /\ 0 <= BaseAlpha(h) /\ BaseAlpha(h) <= BaseColor(h) /\ BaseColor(h) <= BaseScale(h)
    /\ BaseScale(h) <= BaseRot(h) /\ BaseRot(h) <= BaseSh(h) /\ BaseSh(h) <= PayloadLen(h)
    /\ PayloadLen(h) = h[2] * (3 * PosSize(h[1]) + 10 + 3 * ShDim(h[3]))
HalfLaw ==
    /\ Half(0, 60) = <<0, 1, 0>>          \* 0x3C00 = 1.0
    /\ Half(0, 192) = <<0, -1, 1>>        \* 0xC000 = -2.0
    /\ Half(1, 0) = <<0, 1, -24>>         \* smallest subnormal
    /\ Half(0, 124) = <<2, 0, 0>>         \* +inf
    /\ Half(0, 252) = <<3, 0, 0>>         \* -inf
    /\ Half(1, 124) = <<1, 0, 0>>         \* nan
    /\ Half(255, 123) = <<0, 2047, 5>>    \* 65504 = 2047 * 2^5
    /\ Fixed24(255, 255, 255, 3) = <<0, -1, -3>>
    /\ Fixed24(0, 0, 128, 0) = <<0, -1, 23>>
    /\ Fixed24(0, 16, 0, 12) = <<0, 1, 0>>
=============================================================================
