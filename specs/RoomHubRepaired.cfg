\* design level: the repaired hub keeps every invariant (unbounded run, finite state space)
CONSTANTS NC = 3 Cap = 1 Depth = 0 Variant = "repaired" Alphabet = {1, 3, 4, 7, 8}
SPECIFICATION Spec
INVARIANTS TypeOK NoSendOnClosed NoDoubleClose NoPanic NoBlock RegOpen PlayersMatchClients ClosedIffGone IdFirst Representable
CHECK_DEADLOCK FALSE
