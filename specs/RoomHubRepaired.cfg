\* design level: the repaired hub keeps every invariant (unbounded run, finite state space)
CONSTANTS NC = 3 Cap = 2 Depth = 0 Variant = "repaired" Alphabet = {1, 3, 4, 6, 7, 8, 9}
SPECIFICATION Spec
INVARIANTS TypeOK NoSendOnClosed NoDoubleClose NoPanic NoBlock RegOpen PlayersMatchClients ClosedIffGone IdFirst Representable
CHECK_DEADLOCK FALSE
