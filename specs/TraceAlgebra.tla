---------------------------- MODULE TraceAlgebra ----------------------------
(***************************************************************************)
(* Trace validation for the transform algebra (C17).                       *)
(*                                                                         *)
(* trace.ndjson holds one line per executed case; the harness only ran the *)
(* real polyform code and projected the results to integers (units 1/QA    *)
(* with an exactness flag, or residuals * 10^12 with a magnitude).  Every  *)
(* judgement is made here, by TLC evaluating the operators of Algebra.tla. *)
(*                                                                         *)
(* line kinds (field k):                                                   *)
(*  rot     word, vs, q, res, seq, arr, ex quaternion built along a word   *)
(*          (arr: the same vectors through Quaternion.RotateArray; also in *)
(*          rotax / rotq lines)                                            *)
(*  rotax   ax, c2, sg, vs, q, res, ex     FromTheta about a lattice axis  *)
(*  rotq    axis, cn, sn, hy, vs, q, res, ex  FromTheta, rational sin/cos  *)
(*          (res, seq in units of 1/q; q chosen by the harness so that     *)
(*          q * |v| <= 16384)                                              *)
(*  rotto   a, b, r, res, nan              RotationTo(a^, b^).Rotate(a^)   *)
(*  mat2    a, ad, b, bd, add, mul, ex     Matrix4x4.Add / Multiply        *)
(*  mat1    a, det, detex, inv, invex, vs, mp, mpex   Determinant/Inverse/ *)
(*                                         MulPosition                     *)
(*  trs     ctor, t, word, s, tr, vs, res, arr, inp, ex   TRS.Transform*   *)
(*  mesh    op, t, word, s, pos, res, ex   Mesh.Rotate/Translate/Scale/    *)
(*                                         ApplyTRS                        *)
(*  reset                                  a new box history starts        *)
(*  boxnew  ctor, c, size, pts, den, lo, hi, ex, probes, cont, cp, cpex    *)
(*  boxenc  op, p, c, size, den, lo, hi, ex, probes, cont, cp, cpex        *)
(*  res     law, res, mag, nan             a law relating two real         *)
(*                                         computations (residual band)    *)
(*  boxreal lo, hi, pts, pc, qs, qc, cp, nan   seeded real boxes (2^-16)   *)
(*                                                                         *)
(*  arr     ep, n, procs, seed, t, word, s, fail, ex, outlen, inlen, sm,   *)
(*          nd, df, nk, kf   an array-level entry point on an array of the *)
(*          size ladder (round 5, AlgebraArr.tla): sm = per observed index *)
(*          <<i, has, in, out, single, after>> (14 integers), nd / df = how *)
(*          many (and the first) indices whose array-level result is not   *)
(*          the single-point result, nk / kf = input elements changed      *)
(*                                                                         *)
(* Binary magnitude (round 2): every line also carries the exponents of its  *)
(* case (all zero for the cases at magnitude 1): inputs were mantissa *      *)
(* 2^exponent, outputs are mantissas in the unit 2^exponent declared by the  *)
(* case.  rot/rotax/rotq: ve, ae, ru; mat1: re, ce, ae, du, iu, ve, mu;      *)
(* mat2: ea, eba, ebm, au, pu; trs/mesh: te, se, ve, ru; box*: be; res /     *)
(* boxreal: e, ue.  UnitsBad checks that the declared units are the ones     *)
(* Algebra.tla assigns (otherwise Harness.Shape); the mantissas are then     *)
(* judged by the same exact predicates as at magnitude 1.  "Scaled.*"        *)
(* count the lines judged at a magnitude other than 1.                       *)
(*                                                                         *)
(* State: l (line number), box (the box of the running box history, as     *)
(* observed after the previous line: the model re-synchronises on the      *)
(* observation so one defect does not cascade), cnt (how often each        *)
(* predicate was exercised with its antecedent true; printed at the end).  *)
(* Each rejected line is printed as JSON {"l":..,"bad":[..]}.              *)
(***************************************************************************)
EXTENDS Algebra, AlgebraArr, Json

Trace == ndJsonDeserialize("trace.ndjson")

ASSUME GroupHas24 == Cardinality(Group24) = 24

VARIABLES l, box, cnt
vars == <<l, box, cnt>>

Preds == {"C17.QuatRotate", "C17.QuatLength", "C17.QuatCompose", "C17.QuatAxisAngle", "C17.RotationTo",
          "C17.MatAdd", "C17.MatMul", "C17.MatDet", "C17.MatInverse", "C17.MatMulPosition",
          "C17.TRSTransform", "C17.TRSTransformArray", "C17.TRSTransformInPlace", "C17.MeshTransform",
          "C17.BoxNew", "C17.BoxEncapsulate", "C17.BoxTight", "C17.BoxContains", "C17.BoxClosest",
          "C17.QuatLengthReal", "C17.QuatComposeReal", "C17.QuatAxisFixed", "C17.RotationToReal", "C17.RotationToNear",
          "C17.MatInverseReal", "C17.MatMulAssoc", "C17.MatDetMul", "C17.MatAddReal",
          "C17.TRSReal", "C17.MeshReal", "C17.BoxReal", "Harness.Shape",
          "C17.ArrayLaw", "C17.ArrayLen", "C17.ArrayInputKept", "Arr.split", "Arr.large",
          "Scaled.rot", "Scaled.rotax", "Scaled.rotq", "Scaled.mat1", "Scaled.mat1inv", "Scaled.mat2", "Scaled.trs",
          "Scaled.mesh", "Scaled.box", "Scaled.real"}

NoBox == Box(<<1, 1, 1>>, <<0, 0, 0>>)

SV(v) == V3Scale(v, QA)
SmallVec(r) == \A k \in 1..3 : Abs(r[k]) <= 16384
AllSmall(rs) == \A i \in DOMAIN rs : SmallVec(rs[i])
If(c, name) == IF c THEN {name} ELSE {}

(* ------------------------------ quaternions ------------------------------ *)
\* res must be the image of vs under the integer matrix m (divided by h)
RotBad(ln, m, h) ==
    ~ln.ex \/ Len(ln.res) # Len(ln.vs) \/ \E i \in DOMAIN ln.vs : V3Scale(ln.res[i], h) # V3Scale(MulVec3(m, ln.vs[i]), ln.q)
LenBad(ln) ==
    ~AllSmall(ln.res) \/ \E i \in DOMAIN ln.vs : V3Len2(ln.res[i]) # ln.q * ln.q * V3Len2(ln.vs[i])

\* arr: the same vectors through Quaternion.RotateArray (an API variant of Rotate) must give the same images
JudgeRot(ln) ==
    [bad |-> If(RotBad(ln, WordMat(ln.word), 1) \/ ln.arr # ln.res, "C17.QuatRotate")
             \cup If(LenBad(ln), "C17.QuatLength")
             \cup If(~ln.ex \/ ln.seq # ln.res, "C17.QuatCompose"),
     ex |-> {"C17.QuatRotate", "C17.QuatLength"} \cup If(Len(ln.word) >= 2, "C17.QuatCompose")]

JudgeRotAx(ln) ==
    LET ms == RotAboutSet(ln.ax, ln.c2, ln.sg) IN
    IF Cardinality(ms) # 1 THEN [bad |-> {"Harness.Shape"}, ex |-> {}]
    ELSE [bad |-> If(RotBad(ln, CHOOSE m \in ms : TRUE, 1), "C17.QuatAxisAngle") \cup If(LenBad(ln), "C17.QuatLength")
                  \cup If(ln.arr # ln.res, "C17.QuatRotate"),
          ex |-> {"C17.QuatAxisAngle", "C17.QuatLength", "C17.QuatRotate"}]

JudgeRotQ(ln) ==
    IF ln.cn * ln.cn + ln.sn * ln.sn # ln.hy * ln.hy THEN [bad |-> {"Harness.Shape"}, ex |-> {}]
    ELSE [bad |-> If(~AllSmall(ln.res) \/ RotBad(ln, RotQ(ln.axis, ln.cn, ln.sn, ln.hy), ln.hy), "C17.QuatAxisAngle")
                  \cup If(LenBad(ln), "C17.QuatLength") \cup If(ln.arr # ln.res, "C17.QuatRotate"),
          ex |-> {"C17.QuatAxisAngle", "C17.QuatLength", "C17.QuatRotate"}]

\* r = round(4096 * RotationTo(a^,b^).Rotate(a^)) must point along b and have length 4096 (coarse, all
\* integer); res = (that vector - b^) * 10^12 must vanish up to relative 1e-9 (fine)
S12 == 4096
JudgeRotTo(ln) ==
    LET r == ln.r
        ok == /\ ~ln.nan
              /\ \A k \in 1..3 : Abs(r[k]) <= 2 * S12
              /\ \A k \in 1..3 : Abs(V3Cross(r, ln.b)[k]) <= 4
              /\ V3Dot(r, ln.b) > 0
              /\ Abs(V3Len2(r) - S12 * S12) <= 4 * S12
              /\ WithinBand(ln.res, 1)
    IN [bad |-> If(~ok, "C17.RotationTo"), ex |-> {"C17.RotationTo"}]

(* ------------------------------- matrices -------------------------------- *)
JudgeMat2(ln) ==
    LET den == ln.ad * ln.bd
        prod == Mul4(ln.a, ln.b)
    IN [bad |-> If(~ln.ex \/ \E k \in 1..16 : ln.add[k] * den # QA * (ln.a[k] * ln.bd + ln.b[k] * ln.ad), "C17.MatAdd")
                \cup If(~ln.ex \/ \E k \in 1..16 : ln.mul[k] * den # QA * prod[k], "C17.MatMul"),
        ex |-> {"C17.MatAdd", "C17.MatMul"}]

JudgeMat1(ln) ==
    LET D == Det4(ln.a)
        latticeInv == D \in {1, 0 - 1, 2, 0 - 2, 4, 0 - 4}
        qi == Scale4(Id4, QA)
    IN [bad |-> If(~ln.detex \/ ln.det # D, "C17.MatDet")
                \cup If(latticeInv /\ (~ln.invex \/ Mul4(ln.a, ln.inv) # qi \/ Mul4(ln.inv, ln.a) # qi), "C17.MatInverse")
                \cup If(~ln.mpex \/ Len(ln.mp) # Len(ln.vs)
                        \/ \E i \in DOMAIN ln.vs : ln.mp[i] # SV(MulPos4(ln.a, ln.vs[i])), "C17.MatMulPosition"),
        ex |-> {"C17.MatDet", "C17.MatMulPosition"} \cup If(latticeInv, "C17.MatInverse")]

(* ---------------------------------- TRS ---------------------------------- *)
One3 == <<1, 1, 1>>
Zero3 == <<0, 0, 0>>
EffT(ln) == V3Add(IF ln.ctor \in {"New", "Position"} THEN ln.t ELSE Zero3, ln.tr)
EffR(ln) == IF ln.ctor \in {"New", "Rotation"} THEN WordMat(ln.word) ELSE Id3
EffS(ln) == IF ln.ctor \in {"New", "Scale"} THEN ln.s ELSE One3
JudgeTRS(ln) ==
    LET T == EffT(ln)
        R == EffR(ln)
        S == EffS(ln)
        exp == [i \in DOMAIN ln.vs |-> SV(TRSApply(T, R, S, ln.vs[i]))]
    IN [bad |-> If(~ln.ex \/ ln.res # exp, "C17.TRSTransform")
                \cup If(~ln.ex \/ ln.arr # exp, "C17.TRSTransformArray")
                \cup If(~ln.ex \/ ln.inp # exp, "C17.TRSTransformInPlace"),
        ex |-> {"C17.TRSTransform", "C17.TRSTransformArray", "C17.TRSTransformInPlace"}]

JudgeMesh(ln) ==
    LET R == WordMat(ln.word)
        f(v) == CASE ln.op = "Rotate" -> MulVec3(R, v)
                  [] ln.op = "Translate" -> V3Add(v, ln.t)
                  [] ln.op = "Scale" -> V3Had(ln.s, v)
                  [] OTHER -> TRSApply(ln.t, R, ln.s, v)
        exp == [i \in DOMAIN ln.pos |-> SV(f(ln.pos[i]))]
    IN [bad |-> If(~ln.ex \/ ln.res # exp, "C17.MeshTransform"), ex |-> {"C17.MeshTransform"}]

(* --------------------------------- boxes --------------------------------- *)
U(ln) == QA \div ln.den
Sc(ln, v) == V3Scale(v, U(ln))
HalfV(v) == <<v[1] \div 2, v[2] \div 2, v[3] \div 2>>
ArgBox(ln) == Box(V3Sub(Sc(ln, ln.c), HalfV(Sc(ln, ln.size))), V3Add(Sc(ln, ln.c), HalfV(Sc(ln, ln.size))))
Observed(ln) == Box(ln.lo, ln.hi)

ObserverBad(ln, ob) ==     \* Contains and ClosestPoint on the probes, judged against the box the real value reports
    If(Len(ln.cont) # Len(ln.probes) \/ \E i \in DOMAIN ln.probes : ln.cont[i] # BoxHas(ob, Sc(ln, ln.probes[i])), "C17.BoxContains")
    \cup If(~ln.cpex \/ Len(ln.cp) # Len(ln.probes)
            \/ \E i \in DOMAIN ln.probes : ln.cp[i] # BoxClamp(ob, Sc(ln, ln.probes[i])) \/ ~BoxHas(ob, ln.cp[i]), "C17.BoxClosest")

JudgeBoxNew(ln) ==
    LET ob == Observed(ln)
        exp == CASE ln.ctor = "New" -> ArgBox(ln)
                 [] ln.ctor = "Empty" -> Box(Zero3, Zero3)
                 [] OTHER -> BoxOfPoints([i \in DOMAIN ln.pts |-> Sc(ln, ln.pts[i])])
    IN [bad |-> If(~ln.ex \/ ob # exp, "C17.BoxNew") \cup ObserverBad(ln, ob),
        ex |-> {"C17.BoxNew", "C17.BoxContains", "C17.BoxClosest"}]

JudgeBoxEnc(ln) ==
    LET ob == Observed(ln)
        argIn == IF ln.op = "Point" THEN BoxHas(ob, Sc(ln, ln.p)) ELSE BoxHasBox(ob, ArgBox(ln))
        exp == IF ln.op = "Point" THEN BoxEncPoint(box, Sc(ln, ln.p)) ELSE BoxEncBox(box, ArgBox(ln))
    IN IF box = NoBox THEN [bad |-> {"Harness.Shape"}, ex |-> {}]
       ELSE [bad |-> If(~ln.ex \/ ~argIn \/ ~BoxHasBox(ob, box), "C17.BoxEncapsulate")      \* contains the argument, and grew
                     \cup If(ob # exp, "C17.BoxTight")                                        \* and is the smallest such box
                     \cup ObserverBad(ln, ob),
             ex |-> {"C17.BoxEncapsulate", "C17.BoxTight", "C17.BoxContains", "C17.BoxClosest"}]

(* ---------------------- laws between real computations ------------------- *)
JudgeRes(ln) ==
    IF ln.law \notin Preds THEN [bad |-> {"Harness.Shape"}, ex |-> {}]
    ELSE [bad |-> If(ln.nan \/ ln.mag < 1 \/ ~WithinBand(ln.res, ln.mag), ln.law), ex |-> {ln.law}]

\* seeded real boxes, coordinates in units of 2^-16 (absolute tolerance 2 units): the encapsulated points
\* are in the box; Contains agrees with Min/Max away from the faces; ClosestPoint is the clamp
Tol == 2
NearHas(b, p, t) == \A k \in 1..3 : b.lo[k] - t <= p[k] /\ p[k] <= b.hi[k] + t
JudgeBoxReal(ln) ==
    LET ob == Observed(ln)
        ok == /\ ~ln.nan
              /\ \A i \in DOMAIN ln.pts : NearHas(ob, ln.pts[i], Tol)
              /\ \A i \in DOMAIN ln.qs :
                    /\ ln.qc[i] => NearHas(ob, ln.qs[i], Tol)
                    /\ ~ln.qc[i] => ~NearHas(ob, ln.qs[i], 0 - Tol)
                    /\ NearHas(ob, ln.cp[i], Tol)
                    /\ \A k \in 1..3 : Abs(ln.cp[i][k] - BoxClamp(ob, ln.qs[i])[k]) <= Tol
    IN [bad |-> If(~ok, "C17.BoxReal"), ex |-> {"C17.BoxReal"}]

(* ------------------- array-level entry points (size ladder) -------------- *)
\* An ill-formed line is rejected (a violation of the law: the observation does not show that it holds)
\* before any of its fields is used.
ArrFields == {"ep", "n", "procs", "seed", "t", "word", "s", "fail", "ex", "outlen", "inlen", "sm", "nd", "df", "nk", "kf"}
IsV3(v) == DOMAIN v = 1..3 /\ \A k \in 1..3 : v[k] \in Int
IsIntSeq(r, n) == DOMAIN r = 1..n /\ \A k \in 1..n : r[k] \in Int
ArrWellFormed(ln) ==
    /\ ArrFields \subseteq DOMAIN ln
    /\ ln.ep \in ArrEpNames
    /\ ln.n \in Nat /\ ln.procs \in Nat /\ ln.procs >= 1 /\ ln.seed \in Nat
    /\ ln.outlen \in Int /\ ln.inlen \in Int /\ ln.nd \in Nat /\ ln.nk \in Nat
    /\ ln.fail \in BOOLEAN /\ ln.ex \in BOOLEAN
    /\ IsV3(ln.t) /\ IsV3(ln.s)
    /\ \A j \in DOMAIN ln.word : ln.word[j].side \in Sides /\ ln.word[j].axis \in 1..3 /\ ln.word[j].sgn \in {0 - 1, 1}
    /\ \A j \in DOMAIN ln.sm : IsIntSeq(ln.sm[j], 14)
    /\ \A j \in DOMAIN ln.df : IsIntSeq(ln.df[j], 7)
    /\ \A j \in DOMAIN ln.kf : IsIntSeq(ln.kf[j], 7)
Sub3(r, k) == <<r[k], r[k + 1], r[k + 2]>>
Tagged(name, ws) == {name \o ":" \o w : w \in ws}

JudgeArrWF(ln, e, R, want) ==
    LET n == ln.n
        exp(i) == SV(ArrLaw(e.law, ln.t, R, ln.s, ArrPoint(i)))
        inOK(r) == Sub3(r, 3) = SV(ArrPoint(r[1]))
        \* the harness observed the indices the model asks for, on the array the model describes
        shape == Len(ln.sm) # Len(want) \/ \E j \in DOMAIN ln.sm : ln.sm[j][1] # want[j] \/ ~inOK(ln.sm[j])
        \* sampled elements against the model's own integer reference; the real single-point function likewise
        lawAt == {j \in DOMAIN ln.sm : \E x \in {exp(ln.sm[j][1])} : ln.sm[j][2] # 1 \/ Sub3(ln.sm[j], 6) # x \/ Sub3(ln.sm[j], 9) # x}
        lawW == {ArrWhere(ln.sm[j][1], n) : j \in lawAt}
                \cup {ArrWhere(ln.df[j][1], n) : j \in DOMAIN ln.df}
                \cup (IF ln.nd # 0 /\ ln.df = <<>> THEN {"somewhere"} ELSE {})
                \cup (IF ln.fail THEN {"panic"} ELSE {})
        lawW2 == IF lawW = {} /\ ~ln.ex THEN {"inexact"} ELSE lawW
        \* the input after the call is untouched
        \* (in place the array passed in IS the result: judged by ArrayLaw, not a second time here)
        keptAt == IF e.inplace THEN {} ELSE {j \in DOMAIN ln.sm : Sub3(ln.sm[j], 12) # Sub3(ln.sm[j], 3)}
        keptW == {ArrWhere(ln.sm[j][1], n) : j \in keptAt}
                 \cup (IF e.inplace THEN {} ELSE {ArrWhere(ln.kf[j][1], n) : j \in DOMAIN ln.kf}
                                                \cup (IF ln.nk # 0 /\ ln.kf = <<>> THEN {"somewhere"} ELSE {}))
                 \cup (IF ln.inlen # n /\ ~ln.fail THEN {"len"} ELSE {})
        split == ln.procs >= 2 /\ n % ln.procs # 0
    IN IF shape THEN [bad |-> {"Harness.Shape"}, ex |-> {}]
       ELSE [bad |-> Tagged("C17.ArrayLaw", lawW2) \cup If(ln.outlen # n, "C17.ArrayLen") \cup Tagged("C17.ArrayInputKept", keptW),
             ex |-> {"C17.ArrayLaw", "C17.ArrayLen", "C17.ArrayInputKept"} \cup If(split, "Arr.split") \cup If(split /\ n > 16384, "Arr.large")]

JudgeArr(ln) ==
    IF ~ArrWellFormed(ln) THEN [bad |-> {"C17.ArrayLaw:illformed"}, ex |-> {}]
    ELSE CHOOSE r \in {JudgeArrWF(ln, ArrEpOf(ln.ep), R, want) : R \in {WordMat(ln.word)}, want \in {ArrSamples(ln.n, ln.procs, ln.seed)}} : TRUE

(* ------------------------- binary magnitude: units ------------------------ *)
LineUsesS(ln) == IF ln.k = "trs" THEN ln.ctor \in {"New", "Scale"} ELSE ln.op \in {"Scale", "ApplyTRS"}
UnitsBad(ln) ==
    CASE ln.k = "rot" -> ln.ae # 0 \/ ln.ru # ScaleRot(ln.ve).ru
      [] ln.k \in {"rotax", "rotq"} -> ln.ru # ScaleRot(ln.ve).ru
      [] ln.k = "mat1" -> [ae |-> ln.ae, du |-> ln.du, iu |-> ln.iu, ve |-> ln.ve, mu |-> ln.mu] # ScaleMat1(ln.re, ln.ce)
      [] ln.k = "mat2" -> [eba |-> ln.eba, au |-> ln.au, pu |-> ln.pu] # ScaleMat2(ln.ea, ln.ebm)
      [] ln.k \in {"trs", "mesh"} -> [te |-> ln.te, ru |-> ln.ru] # ScaleTRS(ln.se, ln.ve) \/ (~LineUsesS(ln) /\ ln.se # 0)
      [] ln.k = "res" -> ln.law \in Preds /\ ln.ue # RealDeg(ln.law) * ln.e
      [] ln.k = "boxreal" -> ln.ue # RealDeg("C17.BoxReal") * ln.e
      [] OTHER -> FALSE
AnyNonZero(t) == \E k \in DOMAIN t : t[k] # 0
ScaledTag(ln, j) ==
    CASE ln.k \in {"rot", "rotax", "rotq"} -> If(ln.ve # 0 \/ ln.ae # 0, "Scaled." \o ln.k)
      [] ln.k = "mat1" -> IF AnyNonZero(ln.ae) THEN {"Scaled.mat1"} \cup If("C17.MatInverse" \in j.ex, "Scaled.mat1inv") ELSE {}
      [] ln.k = "mat2" -> If(ln.ea # 0 \/ ln.ebm # 0, "Scaled.mat2")
      [] ln.k \in {"trs", "mesh"} -> If(ln.se # 0 \/ ln.ve # 0, "Scaled." \o ln.k)
      [] ln.k \in {"boxnew", "boxenc"} -> If(ln.be # 0, "Scaled.box")
      [] ln.k \in {"res", "boxreal"} -> If(ln.e # 0, "Scaled.real")
      [] OTHER -> {}

JudgeKind(ln) ==
    CASE ln.k = "rot" -> JudgeRot(ln)
      [] ln.k = "rotax" -> JudgeRotAx(ln)
      [] ln.k = "rotq" -> JudgeRotQ(ln)
      [] ln.k = "rotto" -> JudgeRotTo(ln)
      [] ln.k = "mat2" -> JudgeMat2(ln)
      [] ln.k = "mat1" -> JudgeMat1(ln)
      [] ln.k = "trs" -> JudgeTRS(ln)
      [] ln.k = "mesh" -> JudgeMesh(ln)
      [] ln.k = "boxnew" -> JudgeBoxNew(ln)
      [] ln.k = "boxenc" -> JudgeBoxEnc(ln)
      [] ln.k = "res" -> JudgeRes(ln)
      [] ln.k = "boxreal" -> JudgeBoxReal(ln)
      [] ln.k = "arr" -> JudgeArr(ln)
      [] OTHER -> [bad |-> {}, ex |-> {}]

Judge(ln) ==
    IF UnitsBad(ln) THEN [bad |-> {"Harness.Shape"}, ex |-> {}]
    ELSE CHOOSE r \in {[bad |-> j.bad, ex |-> j.ex \cup ScaledTag(ln, j)] : j \in {JudgeKind(ln)}} : TRUE

Init == l = 1 /\ box = NoBox /\ cnt = [p \in Preds |-> 0]

Step ==
    /\ l <= Len(Trace)
    /\ \E ln \in {Trace[l]} : \E j \in {Judge(ln)} :       \* (bound once: TLC re-evaluates LET definitions on every use)
          /\ IF j.bad = {} THEN TRUE ELSE PrintT(ToJson([l |-> l, bad |-> j.bad]))
          /\ box' = CASE ln.k \in {"boxnew", "boxenc"} -> Observed(ln)
                      [] ln.k = "reset" -> NoBox
                      [] OTHER -> box
          /\ cnt' = [p \in Preds |-> cnt[p] + (IF p \in j.ex THEN 1 ELSE 0)]
          /\ IF l = Len(Trace) THEN PrintT(ToJson([stats |-> cnt'])) ELSE TRUE
    /\ l' = l + 1

Next == Step
Spec == Init /\ [][Next]_vars

TraceAccepted == TLCGet("stats").diameter - 1 = Len(Trace)
=============================================================================
