------------------------------ MODULE TraceMtl ------------------------------
(***************************************************************************)
(* Trace validation for the extra-coverage family X03 (OBJ material        *)
(* libraries, obj.Save / SaveAll / Load).  One line per case; the harness  *)
(* (harness/mtlfam) only executed real polyform code and projected what it *)
(* saw; every judgement is made here by TLC evaluating the operators of    *)
(* MtlFormat and ObjFormat.                                                *)
(*                                                                         *)
(* {"k":"mw","op":..,"srcs":[mat..],"werr":"","stmts":[..],"rerr":"",      *)
(*  "rd":[mat..]}     materials -> obj.WriteMaterials(FromMesh) -> the     *)
(*                    independent tokeniser -> obj.ReadMaterials           *)
(*   X03.MtlWriteOk    the writer returned a library                       *)
(*   X03.MtlValid      the format machine accepts it                       *)
(*   X03.MtlDescribes  MtlFormat!WriteBad = {}  (Covers NameKept Ambiguous *)
(*                     Invented Colour Scalar Texture)                     *)
(*   X03.MtlReadOk     the reader returned materials for the written text  *)
(*   X03.MtlReads      they are what the text says (ReadBad)               *)
(*   X03.MtlRoundTrip  they are the source materials (RoundTripBad)        *)
(*                                                                         *)
(* {"k":"mr","gen":[..],"stmts":[..],"rerr":"","rd":[mat..]}               *)
(*                    a library text -> obj.ReadMaterials                  *)
(*   Harness.Render    the text is the one that was asked for              *)
(*   X03.ReadOk / X03.Reads    a valid text reads as its denotation        *)
(*   X03.RejectsBad    a text the format machine rejects is refused with   *)
(*                     an error (no panic, no materials)                   *)
(*                                                                         *)
(* {"k":"sv","op":..,"src":[mesh..],"serr":"","objhit":1,"files":[..],     *)
(*  "dirs":[..],"obj":[..],"libs":[..],"mtls":[..],"lerr":"","ld":[..]}    *)
(*                    meshes -> obj.Save / SaveAll -> the files found in   *)
(*                    the sandbox, tokenised -> obj.Load of the same path  *)
(*   X03.SaveOk, X03.SaveFiles (the OBJ where it was asked for, one        *)
(*   library iff there are material ranges, nothing else), X03.SaveDirMode *)
(*   (created directories usable by their owner), X03.SaveMtllib (every    *)
(*   file name of the mtllib statements names a written library - detail   *)
(*   "name-split-at-blank" when only the whole statement read as one name  *)
(*   would, "dangling" otherwise - and every library is named),            *)
(*   X03.SaveObjValid, X03.SaveGroups, X03.SaveCorners, X03.SaveMtlValid,  *)
(*   X03.SaveResolves (ResolveBad; judged when the libraries are valid and *)
(*   referenced), X03.LoadOk, X03.LoadGroups, X03.LoadCorners,             *)
(*   X03.LoadMaterials (LoadedBad) - the Load predicates are judged when   *)
(*   the written pair is one a reader must accept, and per triangle where  *)
(*   the pair resolves to the source material (otherwise the Save          *)
(*   predicates already report the cause)                                  *)
(*                                                                         *)
(* {"k":"pl","gobj":..,"gmtls":..,"obj":..,"libs":..,"mtls":..,"lerr":"",  *)
(*  "ld":[..]}        a hand-made pair of files -> obj.Load                *)
(*   Harness.Render / Harness.ValidInput, X03.PairLoadOk, X03.PairGroups,  *)
(*   X03.PairMaterials (PickedBad)                                         *)
(*                                                                         *)
(* A rejected line prints {"l":..,"bad":[..]} with bad a set of            *)
(* "<predicate>/<detail>" strings.  ex counts, per predicate, the lines on *)
(* which it was evaluated with its antecedent true (anti-vacuity); it is   *)
(* printed with the last line.                                             *)
(***************************************************************************)
EXTENDS MtlFormat, Json

Obj == INSTANCE ObjFormat

Trace == ndJsonDeserialize("trace.ndjson")

VARIABLES l, ex
vars == <<l, ex>>

\* predicate p with each detail of set ds (or with detail d)
PD(p, ds) == {"X03." \o p \o "/" \o d : d \in ds}
P1(p) == {"X03." \o p \o "/"}

(* ------------------------------- mw ----------------------------------- *)
Real(srcs) == {r \in DOMAIN srcs : ~srcs[r].nil}
ColourOf(c) == {c.kd, c.ka, c.ks} \ {<<>>}

MwJudge(ln) ==
    LET real == Real(ln.srcs)
        ants == (IF \E r \in real : Token(ln.srcs[r].nm) THEN {"ant.TokenName"} ELSE {})
                \cup (IF \E r \in real : HasBlank(ln.srcs[r].nm) THEN {"ant.BlankName"} ELSE {})
                \cup (IF \E r \in real : ColourOf(ln.srcs[r]) # {} THEN {"ant.Colour"} ELSE {})
                \cup (IF \E r \in real : \E c \in ColourOf(ln.srcs[r]) : \E i \in 1..3 : c[i] > Full THEN {"ant.ColourOutOfRange"} ELSE {})
                \cup (IF \E r \in real : ln.srcs[r].mapkd # <<>> \/ ln.srcs[r].norm # <<>> THEN {"ant.Texture"} ELSE {})
                \cup (IF \E r \in DOMAIN ln.srcs : ln.srcs[r].nil THEN {"ant.NilRange"} ELSE {})
                \cup (IF \E r, q \in real : r # q /\ ln.srcs[r].pid = ln.srcs[q].pid THEN {"ant.SharedMaterial"} ELSE {})
                \cup (IF \E r, q \in real : ln.srcs[r].pid # ln.srcs[q].pid /\ ln.srcs[r].nm = ln.srcs[q].nm THEN {"ant.SameName"} ELSE {}) IN
    IF ln.werr # "" THEN [bad |-> PD("MtlWriteOk", {ln.werr}), ex |-> {"X03.MtlWriteOk"}]
    ELSE LET den == MtlDenote(ln.stmts)
             w == IF ~den.ok THEN [bad |-> PD("MtlValid", {den.why}), ex |-> {"X03.MtlValid"}]
                  ELSE [bad |-> PD("MtlDescribes", WriteBad(ln.srcs, den)),
                        ex |-> {"X03.MtlValid"} \cup (IF real # {} THEN {"X03.MtlDescribes"} ELSE {})]
             r == IF ln.rerr # "" THEN
                      IF den.ok /\ ~InRange(den) /\ ln.rerr = "ERROR" THEN [bad |-> {}, ex |-> {"rangeRejected"}]
                      ELSE [bad |-> PD("MtlReadOk", {ln.rerr}), ex |-> {"X03.MtlReadOk"}]
                  ELSE [bad |-> (IF den.ok THEN PD("MtlReads", ReadBad(den, ln.rd, ln.one)) ELSE {})
                                \cup PD("MtlRoundTrip", RoundTripBad(ln.srcs, ln.rd)),
                        ex |-> {"X03.MtlReadOk"} \cup (IF den.ok /\ den.mats # <<>> THEN {"X03.MtlReads"} ELSE {})
                               \cup (IF real # {} THEN {"X03.MtlRoundTrip"} ELSE {})]
         IN [bad |-> w.bad \cup r.bad, ex |-> {"X03.MtlWriteOk"} \cup w.ex \cup r.ex \cup ants]

(* ------------------------------- mr ----------------------------------- *)
NormStmt(st) == IF st.t = "bad" THEN [t |-> "bad", s |-> "", nm |-> <<>>, x |-> <<>>] ELSE st
NormStmts(ss) == [i \in DOMAIN ss |-> NormStmt(ss[i])]

MrJudge(ln) ==
    LET d0 == MtlDenote(ln.stmts) IN
    IF NormStmts(ln.gen) # ln.stmts THEN [bad |-> {"Harness.Render/"}, ex |-> {}]
    ELSE IF d0.ok THEN
        IF ln.rerr # "" THEN
            IF ~InRange(d0) /\ ln.rerr = "ERROR" THEN [bad |-> {}, ex |-> {"rangeRejected"}]
            ELSE [bad |-> PD("ReadOk", {ln.rerr}), ex |-> {"X03.ReadOk"}]
        ELSE [bad |-> PD("Reads", ReadBad(d0, ln.rd, ln.one)),
              ex |-> {"X03.ReadOk"} \cup (IF d0.mats # <<>> THEN {"X03.Reads"} ELSE {})
                     \cup (IF ~InRange(d0) THEN {"ant.TextOutOfRange"} ELSE {})
                     \cup (IF \E i \in DOMAIN ln.stmts : ln.stmts[i].t \in ColourKeys /\ Len(ln.stmts[i].x) = 1 THEN {"ant.GreyForm"} ELSE {})]
    ELSE IF ln.rerr = "ERROR" THEN [bad |-> {}, ex |-> {"X03.RejectsBad"}]
    ELSE [bad |-> PD("RejectsBad", {d0.why \o ":" \o (IF ln.rerr = "" THEN "accepted" ELSE ln.rerr)}), ex |-> {"X03.RejectsBad"}]

(* ------------------------------- sv ----------------------------------- *)
AsObj(m) == [name |-> m.name, idx |-> m.idx, pos |-> m.pos, uv |-> m.uv, nrm |-> m.nrm, mats |-> <<>>]
ObjStmts(ss) == [i \in DOMAIN ss |-> IF ss[i].t = "mtllib" THEN [ss[i] EXCEPT !.t = "x"] ELSE ss[i]]

\* observed groups in the order of the source names (SaveAll takes a map: the order of the meshes in
\* the file is free and their names are distinct); <<>> when the names are not those of the source
Align(names, obs) ==
    IF Len(obs) # Len(names) \/ \E i \in DOMAIN names : Cardinality({j \in DOMAIN obs : obs[j].name = names[i]}) # 1
    THEN <<>>
    ELSE [i \in DOMAIN names |-> obs[CHOOSE j \in DOMAIN obs : obs[j].name = names[i]]]

TriSrc(m) ==
    IF m.ranges = <<>> THEN [t \in 1..Obj!NTris(m) |-> [none |-> TRUE, c |-> [nil |-> TRUE]]]
    ELSE LET e == ExpandRanges(m.ranges) IN [t \in DOMAIN e |-> [none |-> FALSE, c |-> e[t]]]
TriObs(m) ==
    IF m.ranges = <<>> THEN [t \in 1..Obj!NTris(m) |-> [none |-> TRUE, o |-> [nil |-> TRUE]]]
    ELSE LET e == ExpandRanges(m.ranges) IN [t \in DOMAIN e |-> [none |-> FALSE, o |-> e[t]]]

HasRanges(src) == \E i \in DOMAIN src : src[i].ranges # <<>>
HasReal(src) == \E i \in DOMAIN src : \E r \in DOMAIN src[i].ranges : ~src[i].ranges[r].mat.nil
OwnerAll(mode) == (mode \div 64) % 8 = 7

LibOf(ln) == Obj!Flat([k \in DOMAIN ln.libs |->
                 IF ln.libs[k].hit = 0 THEN <<>> ELSE MtlDenote(ln.mtls[ln.libs[k].hit].stmts).mats])

GeoBad(src, obs, prefix) ==
    IF obs = <<>> /\ src # <<>> THEN PD(prefix \o "Groups", {"names"})
    ELSE LET gb == Obj!GroupsBad(Obj!SrcGroups([i \in DOMAIN src |-> AsObj(src[i])]), obs, {}) IN
         (IF "Groups" \in gb THEN PD(prefix \o "Groups", {"faces"}) ELSE {})
         \cup (IF "Corners" \in gb THEN P1(prefix \o "Corners") ELSE {})

\* Load is judged against what the written files say: per triangle, only where the pair of files
\* resolves to the source material (otherwise X03.SaveResolves already reports that triangle)
LoadedWhereResolved(cs, tris, os, lib) ==
    IF Len(cs) # Len(os) THEN {"Ranges"}
    ELSE UNION {IF Len(tris) = Len(cs) /\ ResolveBad(<<cs[t]>>, <<tris[t]>>, lib) # {} THEN {}
                ELSE LoadedBad(<<cs[t]>>, <<os[t]>>) : t \in DOMAIN cs}

SvJudge(ln) ==
    LET names == [i \in DOMAIN ln.src |-> ln.src[i].name]
        exs == {"X03.SaveOk"} IN
    IF ln.serr # "" THEN [bad |-> PD("SaveOk", {ln.serr}), ex |-> exs]
    ELSE
    LET files == IF ln.objhit = 1 /\ Len(ln.mtls) = (IF HasRanges(ln.src) THEN 1 ELSE 0) THEN {}
                 ELSE PD("SaveFiles", {IF ln.objhit # 1 THEN "noobj" ELSE IF ln.mtls = <<>> THEN "nomtl" ELSE "extra"})
        dirs == IF \A d \in DOMAIN ln.dirs : OwnerAll(ln.dirs[d].mode) THEN {} ELSE P1("SaveDirMode")
        libs == IF /\ \A k \in DOMAIN ln.libs : ln.libs[k].hit # 0
                   /\ \A f \in DOMAIN ln.mtls : \E k \in DOMAIN ln.libs : ln.libs[k].hit = f
                THEN {}
                ELSE PD("SaveMtllib", {IF \A k \in DOMAIN ln.libs : ln.libs[k].hit # 0 THEN "unnamed"
                                       ELSE IF \A k \in DOMAIN ln.libs : ln.libs[k].hit = 0 => ln.libs[k].linehit # 0
                                            THEN "name-split-at-blank" ELSE "dangling"})
        den == Obj!Denote(ObjStmts(ln.obj))
        mval == UNION {LET d == MtlDenote(ln.mtls[f].stmts) IN IF d.ok THEN {} ELSE PD("SaveMtlValid", {d.why}) : f \in DOMAIN ln.mtls}
        og == Align(names, Obj!DenGroups(den))
        lib == LibOf(ln)
        obj == IF ln.objhit # 1 THEN {}
               ELSE IF ~den.ok THEN PD("SaveObjValid", {den.why})
               ELSE GeoBad(ln.src, og, "Save")
                    \cup (IF og = <<>> \/ mval # {} \/ libs # {} THEN {}
                          ELSE PD("SaveResolves", UNION {ResolveBad(TriSrc(ln.src[i]), og[i].mats, lib) : i \in DOMAIN ln.src}))
        \* the pair of files is one a reader must accept
        pair == ln.objhit = 1 /\ den.ok /\ files = {} /\ libs = {} /\ mval = {}
        lg == Align(names, Obj!ReadGroups([i \in DOMAIN ln.ld |-> AsObj(ln.ld[i])]))
        lm == Align(names, ln.ld)
        load == IF ~pair THEN {}
                ELSE IF ln.lerr # "" THEN PD("LoadOk", {ln.lerr})
                ELSE GeoBad(ln.src, lg, "Load")
                     \cup (IF lm = <<>> \/ og = <<>> THEN {}
                           ELSE PD("LoadMaterials", UNION {LoadedWhereResolved(TriSrc(ln.src[i]), og[i].mats, TriObs(lm[i]), lib)
                                                           : i \in DOMAIN ln.src}))
        ex1 == exs \cup {"X03.SaveFiles"}
               \cup (IF ln.dirs # <<>> THEN {"X03.SaveDirMode"} ELSE {})
               \cup (IF HasRanges(ln.src) THEN {"X03.SaveMtllib"} ELSE {"ant.NoMaterials"})
               \cup (IF ln.objhit = 1 THEN {"X03.SaveObjValid"} ELSE {})
               \cup (IF ln.objhit = 1 /\ den.ok THEN {"X03.SaveGroups", "X03.SaveCorners"} ELSE {})
               \cup (IF ln.mtls # <<>> THEN {"X03.SaveMtlValid"} ELSE {})
               \cup (IF ln.objhit = 1 /\ den.ok /\ og # <<>> /\ mval = {} /\ libs = {} /\ HasReal(ln.src) THEN {"X03.SaveResolves"} ELSE {})
               \cup (IF pair THEN {"X03.LoadOk"} ELSE {})
               \cup (IF pair /\ ln.lerr = "" THEN {"X03.LoadGroups", "X03.LoadCorners"} ELSE {})
               \cup (IF pair /\ ln.lerr = "" /\ lm # <<>> /\ og # <<>> /\ HasReal(ln.src) THEN {"X03.LoadMaterials"} ELSE {})
               \cup (IF ln.op = "SaveAll" THEN {"ant.SaveAll"} ELSE {"ant.Save"})
               \cup (IF ln.path.cwd THEN {"ant.RelativePath"} ELSE {})
               \cup (IF ln.path.pre # <<>> THEN {"ant.ExistingDir"} ELSE {})
    IN [bad |-> files \cup dirs \cup libs \cup mval \cup obj \cup load, ex |-> ex1]

(* ------------------------------- pl ----------------------------------- *)
Faced(gs) == SelectSeq(gs, LAMBDA g : g.tris # <<>>)

PlJudge(ln) ==
    LET den == Obj!Denote(ObjStmts(ln.obj))
        lib == LibOf(ln) IN
    IF ln.obj # ln.gobj \/ [f \in DOMAIN ln.gmtls |-> [rel |-> ln.gmtls[f].rel, stmts |-> NormStmts(ln.gmtls[f].stmts)]] # ln.mtls
    THEN [bad |-> {"Harness.Render/"}, ex |-> {}]
    ELSE IF ~den.ok \/ \E f \in DOMAIN ln.mtls : ~MtlDenote(ln.mtls[f].stmts).ok \/ ~InRange(MtlDenote(ln.mtls[f].stmts))
              \/ \E k \in DOMAIN ln.libs : ln.libs[k].hit = 0
    THEN [bad |-> {"Harness.ValidInput/"}, ex |-> {}]
    ELSE IF ln.lerr # "" THEN [bad |-> PD("PairLoadOk", {ln.lerr}), ex |-> {"X03.PairLoadOk"}]
    ELSE LET gs == Faced(den.groups)
             ms == SelectSeq(ln.ld, LAMBDA m : m.idx # <<>>)
             shape == Len(gs) = Len(ms) /\ \A i \in DOMAIN gs : gs[i].name = ms[i].name /\ Len(gs[i].tris) = Obj!NTris(ms[i]) IN
         IF ~shape THEN [bad |-> P1("PairGroups"), ex |-> {"X03.PairLoadOk", "X03.PairGroups"}]
         ELSE [bad |-> PD("PairMaterials",
                          UNION {LET os == TriObs(ms[i]) IN
                                 IF Len(os) # Len(gs[i].mats) THEN {"Ranges"}
                                 ELSE UNION {IF os[t].none THEN (IF gs[i].mats[t].own /\ Defs(lib, gs[i].mats[t].m) # {} THEN {"Ranges"} ELSE {})
                                             ELSE PickedBad(gs[i].mats[t], os[t].o, lib, ln.one) : t \in DOMAIN os}
                                 : i \in DOMAIN gs}),
               ex |-> {"X03.PairLoadOk", "X03.PairGroups"}
                      \cup (IF \E i \in DOMAIN gs : \E t \in DOMAIN gs[i].mats : gs[i].mats[t].own /\ Defs(lib, gs[i].mats[t].m) # {}
                            THEN {"X03.PairMaterials"} ELSE {})
                      \cup (IF Len(ln.libs) >= 2 THEN {"ant.TwoLibraries"} ELSE {})
                      \cup (IF \E i \in DOMAIN gs : \E t \in DOMAIN gs[i].mats : gs[i].mats[t].own /\ Defs(lib, gs[i].mats[t].m) = {}
                            THEN {"ant.UndefinedName"} ELSE {})]

Judge(ln) ==
    CASE ln.k = "mw" -> MwJudge(ln)
      [] ln.k = "mr" -> MrJudge(ln)
      [] ln.k = "sv" -> SvJudge(ln)
      [] OTHER -> PlJudge(ln)

Bump(cnt, names) == [p \in (DOMAIN cnt) \cup names |->
                        (IF p \in DOMAIN cnt THEN cnt[p] ELSE 0) + (IF p \in names THEN 1 ELSE 0)]

Init == l = 1 /\ ex = [p \in {"lines"} |-> 0]

Line ==
    /\ l <= Len(Trace)
    /\ LET ln == Trace[l]
           j == Judge(ln)
           ex1 == Bump(ex, j.ex \cup {"lines"}) IN
       /\ IF j.bad = {} THEN TRUE ELSE PrintT(ToJson([l |-> l, bad |-> j.bad]))
       /\ IF l = Len(Trace) THEN PrintT(ToJson([ex |-> ex1])) ELSE TRUE
       /\ ex' = ex1
    /\ l' = l + 1

Next == Line
Spec == Init /\ [][Next]_vars

TraceAccepted == TLCGet("stats").diameter - 1 = Len(Trace)
=============================================================================
