----------------------------- MODULE AlgebraMat -----------------------------
(***************************************************************************)
(* Integer 4x4 matrices with integral (quarter-integral) inverses as a     *)
(* state machine (C17): a walk of elementary row operations from the       *)
(* identity.                                                               *)
(*                                                                         *)
(* State: A, its determinant d (tracked through the operations), and       *)
(* Ai4 = 4 * A^-1 (tracked by applying the inverse operation on the right; *)
(* integral because d divides 4), prev = the matrix before the last step.  *)
(* Actions: AddRow(i,j,k) row_i += k*row_j ; SwapRows(i,j) ; NegRow(i) ;   *)
(* DoubleRow(i) (only while |d| < 4).                                      *)
(*                                                                         *)
(* Checked on the specification itself:                                    *)
(*   DetTracked   Leibniz Det4(A) = d = Laplace expansion                  *)
(*   InverseOK    A * Ai4 = Ai4 * A = 4 I                                  *)
(*   DetLaws      det(A^T) = det(A), det(A * A^T) = d*d, det(prev * A) =   *)
(*                det(prev) * det(A)                                       *)
(* Generator: with VIEW <<A, n>> every distinct matrix within Depth steps  *)
(* is emitted once, as unary cases (Determinant, Inverse, MulPosition; also *)
(* for the sum A + prev, whose determinant is arbitrary) and               *)
(* binary cases (Add / Multiply with the inverse, the identity on both     *)
(* sides, zero, the previous matrix, its own transpose).                   *)
(* Entry bound: |A[i,j]| <= Bound, |Ai4[i,j]| <= 8*Bound (int32 budget of  *)
(* the trace specification).                                               *)
(***************************************************************************)
EXTENDS Algebra, Json

CONSTANTS Depth, Bound, Ks

VARIABLES A, Ai4, d, prev, n
vars == <<A, Ai4, d, prev, n>>

Idx == 1..4

Init == A = Id4 /\ Ai4 = Scale4(Id4, 4) /\ d = 1 /\ prev = Id4 /\ n = 0

Small(a, ai) == (\A k \in 1..16 : Abs(a[k]) <= Bound) /\ (\A k \in 1..16 : Abs(ai[k]) <= 8 * Bound)

Step(a, ai, dd) ==
    /\ Small(a, ai)
    /\ A' = a /\ Ai4' = ai /\ d' = dd /\ prev' = A /\ n' = n + 1

AddRow(i, j, k) == i # j /\ Step(Mul4(RowAdd4(i, j, k), A), Mul4(Ai4, RowAdd4(i, j, 0 - k)), d)
SwapRows(i, j) == i < j /\ Step(Mul4(RowSwap4(i, j), A), Mul4(Ai4, RowSwap4(i, j)), 0 - d)
NegRow(i) == Step(Mul4(RowScale4(i, 0 - 1), A), Mul4(Ai4, RowScale4(i, 0 - 1)), 0 - d)
DoubleRow(i) ==
    /\ Abs(d) < 4
    /\ Step(Mul4(RowScale4(i, 2), A),
            Mk4(LAMBDA r, c : IF c = i THEN At4(Ai4, r, c) \div 2 ELSE At4(Ai4, r, c)), 2 * d)

Next ==
    /\ n < Depth
    /\ \E i, j \in Idx : \/ \E k \in Ks : AddRow(i, j, k) \/ AddRow(i, j, 0 - k)
                         \/ SwapRows(i, j)
                         \/ (i = j /\ NegRow(i))
                         \/ (i = j /\ DoubleRow(i))
Spec == Init /\ [][Next]_vars

DetTracked == Det4(A) = d /\ Det4Laplace(A) = d
InverseOK == Mul4(A, Ai4) = Scale4(Id4, 4) /\ Mul4(Ai4, A) = Scale4(Id4, 4)
DetLaws ==
    /\ Det4(Transpose4(A)) = d
    /\ Det4(Mul4(A, Transpose4(A))) = d * d
    /\ Det4(Mul4(prev, A)) = Det4(prev) * d
    /\ Mul4(A, Id4) = A /\ Mul4(Id4, A) = A /\ Add4(A, Zero4) = A
    /\ Add4(A, prev) = Add4(prev, A)

View == <<A, n>>

Probes == <<<<0, 0, 0>>, <<1, 0, 0>>, <<0, 1, 0>>, <<0, 0, 1>>, <<2, 0 - 3, 5>>>>
Bin(a, ad, b, bd) == [k |-> "mat2", a |-> a, ad |-> ad, b |-> b, bd |-> bd]
Cases ==
    << [k |-> "mat1", a |-> A, vs |-> Probes],
       [k |-> "mat1", a |-> Add4(A, prev), vs |-> Probes],      \* a general integer matrix (any determinant, possibly 0)
       Bin(A, 1, Ai4, 4), Bin(Ai4, 4, A, 1),
       Bin(A, 1, Id4, 1), Bin(Id4, 1, A, 1),
       Bin(A, 1, Zero4, 1), Bin(Zero4, 1, A, 1),
       Bin(A, 1, prev, 1), Bin(prev, 1, A, 1),
       Bin(A, 1, Transpose4(A), 1) >>

Emit == PrintT(ToJson([cases |-> Cases]))
EmitLeaf == n < Depth \/ PrintT(ToJson([cases |-> Cases]))
=============================================================================
