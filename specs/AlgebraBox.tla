----------------------------- MODULE AlgebraBox -----------------------------
(***************************************************************************)
(* Axis-aligned boxes as a state machine (C17).                            *)
(*                                                                         *)
(* State: the box (integer lo/hi in units of 1/Den) and the history of     *)
(* calls.  Initial states: the constructors NewAABB(center, size),         *)
(* NewEmptyAABB(), NewAABBFromPoints(points).  Actions: EncapsulatePoint(p)*)
(* and EncapsulateBounds(NewAABB(center,size)).                            *)
(*                                                                         *)
(* Checked on the specification itself:                                    *)
(*   Valid        lo <= hi                                                 *)
(*   Grows        [action property] the new box contains the old one and   *)
(*                the encapsulated point / box                             *)
(*   ClampLaws    the clamp of a probe lies in the box, is the probe itself*)
(*                iff the probe is in the box, and no box point is closer  *)
(*                (checked against the eight corners and the clamps of the *)
(*                other probes)                                            *)
(* Generator: VIEW <<box, length, constructor call>>; Emit prints the history of every       *)
(* distinct box reached; the harness replays it on a real geometry.AABB    *)
(* and observes Min/Max/Contains/ClosestPoint after every call.            *)
(***************************************************************************)
EXTENDS Algebra, Json

CONSTANTS Depth, Den

VARIABLES box, hist
vars == <<box, hist>>

\* all in units of 1/Den ; sizes are even so that half sizes are integral
Centers == {<<0, 0, 0>>, <<2, 0 - 3, 1>>}
Sizes == {<<0, 0, 0>>, <<2, 4, 6>>, <<2, 2, 2>>}
Points == {<<0, 0, 0>>, <<3, 3, 3>>, <<0 - 4, 1, 0>>, <<1, 0 - 5, 2>>, <<2, 0 - 3, 7>>, <<0 - 1, 0 - 1, 0 - 1>>}
PointLists == {<<<<1, 2, 3>>>>, <<<<3, 0 - 1, 0>>, <<0 - 2, 4, 0>>, <<1, 1, 0 - 6>>>>}
Probes == <<<<0, 0, 0>>, <<3, 3, 3>>, <<0 - 4, 1, 0>>, <<1, 0 - 5, 2>>, <<2, 0 - 3, 7>>, <<0 - 1, 0 - 1, 0 - 1>>,
            <<1, 1, 1>>, <<2, 0 - 2, 0>>, <<0 - 6, 0 - 6, 0 - 6>>, <<9, 0, 0>>, <<3, 0 - 1, 4>>, <<1, 0 - 1, 0 - 2>>>>

Half(v) == <<v[1] \div 2, v[2] \div 2, v[3] \div 2>>
NewBox(c, size) == Box(V3Sub(c, Half(size)), V3Add(c, Half(size)))

Init ==
    \/ \E c \in Centers, s \in Sizes :
          box = NewBox(c, s) /\ hist = <<[op |-> "New", c |-> c, size |-> s, p |-> <<0, 0, 0>>, pts |-> <<>>]>>
    \/ box = Box(<<0, 0, 0>>, <<0, 0, 0>>)
          /\ hist = <<[op |-> "Empty", c |-> <<0, 0, 0>>, size |-> <<0, 0, 0>>, p |-> <<0, 0, 0>>, pts |-> <<>>]>>
    \/ \E ps \in PointLists :
          box = BoxOfPoints(ps) /\ hist = <<[op |-> "FromPoints", c |-> <<0, 0, 0>>, size |-> <<0, 0, 0>>, p |-> <<0, 0, 0>>, pts |-> ps]>>

EncPoint(p) ==
    /\ box' = BoxEncPoint(box, p)
    /\ hist' = Append(hist, [op |-> "Point", c |-> <<0, 0, 0>>, size |-> <<0, 0, 0>>, p |-> p, pts |-> <<>>])
EncBounds(c, s) ==
    /\ box' = BoxEncBox(box, NewBox(c, s))
    /\ hist' = Append(hist, [op |-> "Bounds", c |-> c, size |-> s, p |-> <<0, 0, 0>>, pts |-> <<>>])

Next ==
    /\ Len(hist) < Depth
    /\ \/ \E p \in Points : EncPoint(p)
       \/ \E c \in Centers, s \in Sizes : EncBounds(c, s)
Spec == Init /\ [][Next]_vars

Valid == BoxValid(box)

Grows ==
    [][LET x == hist'[Len(hist')] IN
         /\ BoxHasBox(box', box)
         /\ x.op = "Point" => BoxHas(box', x.p)
         /\ x.op = "Bounds" => BoxHasBox(box', NewBox(x.c, x.size))]_vars

Corners == {<<x, y, z>> : x \in {box.lo[1], box.hi[1]}, y \in {box.lo[2], box.hi[2]}, z \in {box.lo[3], box.hi[3]}}
ClampLaws ==
    \A i \in DOMAIN Probes :
        LET p == Probes[i]
            q == BoxClamp(box, p)
            near == V3Len2(V3Sub(p, q))
        IN /\ BoxHas(box, q)
           /\ (q = p) <=> BoxHas(box, p)
           /\ \A r \in Corners \cup {BoxClamp(box, Probes[j]) : j \in DOMAIN Probes} : near <= V3Len2(V3Sub(p, r))

View == <<box, Len(hist), hist[1]>>
Emit == PrintT(ToJson([k |-> "boxhist", den |-> Den, steps |-> hist, probes |-> Probes]))
EmitLeaf == Len(hist) < Depth \/ Emit
=============================================================================
