----------------------------- MODULE MtlPairGen -----------------------------
(***************************************************************************)
(* Generator of X03 "pl" cases: hand-made pairs (an OBJ text plus the      *)
(* libraries its mtllib statements name) in every file layout of Layouts   *)
(* and every arrangement of g / usemtl / f statements up to a bound.       *)
(* obj.Load must find each library RELATIVE TO THE OBJ FILE and give every *)
(* triangle the material its usemtl name selects.                          *)
(*                                                                         *)
(* A layout is [obj, libs, late]: obj the path of the OBJ below the        *)
(* sandbox; libs a sequence of [line, item, rel, has]: the mtllib          *)
(* statement (1 or 2) the file name `item` is written on, the path `rel`   *)
(* the name denotes (dir(obj)/item, cleaned), and the materials the        *)
(* library defines; late: the mtllib statements come after the faces.      *)
(* The skeleton alphabet is "Ur" "Ub" (usemtl red / blue), "Ug" (usemtl of *)
(* a name no library defines), "F" (a face), "G" (a g statement).          *)
(*                                                                         *)
(* Checked on the specification itself: ValidPair (ObjFormat accepts the   *)
(* OBJ text, MtlFormat accepts every library).                             *)
(***************************************************************************)
EXTENDS MtlImpl, Json

CONSTANTS Depth

VARIABLES lay, sk
vars == <<lay, sk>>

Obj == INSTANCE ObjFormat

Q == 1024
Lib(line, item, rel, has) == [line |-> line, item |-> item, rel |-> rel, has |-> has]
Lay(obj, libs, late) == [obj |-> obj, libs |-> libs, late |-> late]
Both == {"red", "blue"}
Layouts == <<
    Lay("m.obj", <<Lib(1, "m.mtl", "m.mtl", Both)>>, FALSE),
    Lay("d1/m.obj", <<Lib(1, "m.mtl", "d1/m.mtl", Both)>>, FALSE),                        \* next to the OBJ, not to the cwd
    Lay("d1/m.obj", <<Lib(1, "tex/lib.mtl", "d1/tex/lib.mtl", Both)>>, FALSE),            \* in a sub-directory
    Lay("d1/d2/m.obj", <<Lib(1, "../shared.mtl", "d1/shared.mtl", Both)>>, FALSE),        \* in the parent directory
    Lay("m.obj", <<Lib(1, "a.mtl", "a.mtl", {"red"}), Lib(1, "b.mtl", "b.mtl", {"blue"})>>, FALSE),          \* two names on one statement
    Lay("d1/m.obj", <<Lib(1, "a.mtl", "d1/a.mtl", {"red"}), Lib(2, "sub/b.mtl", "d1/sub/b.mtl", {"blue"})>>, FALSE),  \* two statements
    Lay("m.obj", <<Lib(1, "./m.mtl", "m.mtl", Both)>>, FALSE),
    Lay("m.obj", <<>>, FALSE),                                                            \* no library at all
    Lay("d1/m.obj", <<Lib(1, "m.mtl", "d1/m.mtl", Both)>>, TRUE) >>                       \* mtllib after the faces

St(t, x, c, s, l) == [t |-> t, x |-> x, c |-> c, s |-> s, l |-> l]
MtlLines(L) ==
    LET on(n) == SelectSeq(L.libs, LAMBDA b : b.line = n)
        one(n) == IF on(n) = <<>> THEN <<>> ELSE <<St("mtllib", <<>>, <<>>, "", [i \in DOMAIN on(n) |-> on(n)[i].item])>> IN
    one(1) \o one(2)

V(i) == <<i * 1024, (i % 3) * 512 - 256, 0 - i>>
Sym(a, sym) ==
    CASE sym = "Ur" -> [a EXCEPT !.out = Append(@, St("usemtl", <<>>, <<>>, "red", <<>>))]
      [] sym = "Ub" -> [a EXCEPT !.out = Append(@, St("usemtl", <<>>, <<>>, "blue", <<>>))]
      [] sym = "Ug" -> [a EXCEPT !.out = Append(@, St("usemtl", <<>>, <<>>, "ghost", <<>>))]
      [] sym = "G" -> [a EXCEPT !.out = Append(@, St("g", <<>>, <<>>, IF a.ng % 2 = 0 THEN "one" ELSE "two 2", <<>>)), !.ng = @ + 1]
      [] OTHER -> [a EXCEPT !.out = Append(@, St("f", <<>>, [c \in 1..3 |-> <<((a.nf + c - 1) % 4) + 1, 0, 0>>], "", <<>>)), !.nf = @ + 1]

ObjStmts ==
    LET L == Layouts[lay]
        head == <<St("x", <<>>, <<>>, "", <<>>)>> \o (IF L.late THEN <<>> ELSE MtlLines(L))
                \o [i \in 1..4 |-> St("v", V(i), <<>>, "", <<>>)]
        body == FoldLeft(Sym, [out |-> head, nf |-> 0, ng |-> 0], sk).out IN
    body \o (IF L.late THEN MtlLines(L) ELSE <<>>)

RedBlock == <<MSt("newmtl", "red", <<114, 101, 100>>, <<>>), MSt("Kd", "", <<>>, <<8000, 2000, 1000>>),
              MSt("Ns", "", <<>>, <<51200, 51200>>)>>
BlueBlock == <<MSt("newmtl", "blue", <<98, 108, 117, 101>>, <<>>), MSt("x", "", <<>>, <<>>), MSt("Kd", "", <<>>, <<0, 0, 10000>>),
               MSt("d", "", <<>>, <<512, 512>>), MSt("map_Kd", "b.png", <<>>, <<>>)>>
LibStmts(b) == <<MSt("x", "", <<>>, <<>>)>> \o (IF "red" \in b.has THEN RedBlock ELSE <<>>) \o (IF "blue" \in b.has THEN BlueBlock ELSE <<>>)

Files ==
    LET L == Layouts[lay] IN
    <<[rel |-> L.obj, kind |-> "obj", obj |-> ObjStmts, mtl |-> <<>>]>>
    \o [i \in DOMAIN L.libs |-> [rel |-> L.libs[i].rel, kind |-> "mtl", obj |-> <<>>, mtl |-> LibStmts(L.libs[i])]]

Alphabet == {"Ur", "Ub", "Ug", "F", "G"}
Init == lay \in DOMAIN Layouts /\ sk = <<>>
Next == /\ Len(sk) < Depth
        /\ \E x \in Alphabet : sk' = Append(sk, x)
        /\ UNCHANGED lay
Spec == Init /\ [][Next]_vars

ToX(ss) == [i \in DOMAIN ss |-> IF ss[i].t = "mtllib" THEN [ss[i] EXCEPT !.t = "x"] ELSE ss[i]]
ValidPair == /\ Obj!Denote(ToX(ObjStmts)).ok
             /\ \A i \in DOMAIN Layouts[lay].libs : MtlDenote(LibStmts(Layouts[lay].libs[i])).ok

NF == Cardinality({i \in DOMAIN sk : sk[i] = "F"})
NU == Cardinality({i \in DOMAIN sk : sk[i] \in {"Ur", "Ub", "Ug"}})
Case(tag) == [k |-> "pl", tag |-> tag, enc |-> "lat", q |-> Q, lay |-> lay, sk |-> sk, files |-> Files]
Emit == NF < 1 \/ NU < 1 \/ PrintT(ToJson(Case("bfs")))
EmitLeaf == Len(sk) < Depth \/ NF < 1 \/ NU < 1 \/ PrintT(ToJson(Case("sim")))
=============================================================================
