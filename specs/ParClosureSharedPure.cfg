\* the same shape judged by Pure alone: a finished call evaluated the parts of ANOTHER job's point
CONSTANTS
  MaxParts = 3
  SharedScratch = TRUE
SPECIFICATION Spec
INVARIANTS Pure
CHECK_DEADLOCK FALSE
