\* pinned shape as generator only (schedules that pass through racy states are emitted as well)
CONSTANTS
  MaxA = 2
  MaxB = 2
  MaxW = 3
  ReadUnderLock = FALSE
  CopyInWork = TRUE
  CopyInMain = TRUE
SPECIFICATION Spec
INVARIANTS MutexOK OwnBlock Termination EmitDone
CHECK_DEADLOCK FALSE
