CONSTANTS NSlots = 3 Depth = 6 Slack = 0 MaxArr = 12 CopyOnAppend = FALSE GoPolicy = TRUE MaxLen = 5 Acts = {}
SPECIFICATION Spec
INVARIANT RiskyEmit
CONSTRAINT StopAtViolation
CHECK_DEADLOCK FALSE
VIEW View
