CONSTANTS NP = 2 NN = 3 Depth = 0 Vals = {1}
SPECIFICATION TSpec
POSTCONDITION TraceAccepted
CHECK_DEADLOCK FALSE
