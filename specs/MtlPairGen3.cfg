CONSTANTS
  Depth = 3
SPECIFICATION Spec
INVARIANTS ValidPair Emit
CHECK_DEADLOCK FALSE
