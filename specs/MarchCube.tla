------------------------------ MODULE MarchCube ------------------------------
(***************************************************************************)
(* The marching cube as the code sees it: corner numbering, cube edges,    *)
(* rows of the case table.  Shared by MarchTable (table consistency),      *)
(* MarchRef (reference marching) and through it MarchGrid / TraceSurf.     *)
(*                                                                         *)
(* TriTable, CornerA, CornerB come from the GENERATED module               *)
(* MarchTableData (the tables compiled into modeling/marching).            *)
(* CornerPos transcribes `cubeCornerPositions` / `cubeDataIndexIncrements` *)
(* of canvas.go (corner c of the cell at (x,y,z) is the sample at          *)
(* (x,y,z) + CornerPos[c]).  Both are locals of marchFloat1BlockPosition   *)
(* that no add-only hook can reach; the transcription is bound to the code *)
(* by the MarchGrid replay: with any other corner geometry the reference   *)
(* marching differs from the real output on single-corner lattices.        *)
(***************************************************************************)
EXTENDS Integers, Sequences, FiniteSets, MarchTableData

CornerPos == << <<0, 0, 0>>, <<1, 0, 0>>, <<1, 0, 1>>, <<0, 0, 1>>,
                <<0, 1, 0>>, <<1, 1, 0>>, <<1, 1, 1>>, <<0, 1, 1>> >>

Cases == 0..255
Edges == 0..11
Corners == 0..7

CP(c) == CornerPos[c + 1]
\* total even on malformed edge tables (MarchTable reports those as C09.EdgeTables)
EA(e) == IF e + 1 \in DOMAIN CornerA /\ CornerA[e + 1] \in Corners THEN CornerA[e + 1] ELSE 0
EB(e) == IF e + 1 \in DOMAIN CornerB /\ CornerB[e + 1] \in Corners THEN CornerB[e + 1] ELSE 0
Pow2(n) == IF n = 0 THEN 1 ELSE IF n = 1 THEN 2 ELSE IF n = 2 THEN 4 ELSE IF n = 3 THEN 8
           ELSE IF n = 4 THEN 16 ELSE IF n = 5 THEN 32 ELSE IF n = 6 THEN 64 ELSE 128
\* bit c of the case index = corner c is below the threshold (canvas.go builds lookupIndex so)
Inside(kk, c) == (kk \div Pow2(c)) % 2 = 1

Row(kk) == TriTable[kk + 1]
\* position of the terminator (number of edge entries), or -1 when the row is malformed
Term(kk) ==
    LET r == Row(kk)
        cand == {n \in {0, 3, 6, 9, 12, 15} : n + 1 <= Len(r) /\ r[n + 1] = -1 /\ \A j \in 1..n : r[j] \in Edges}
    IN IF cand = {} THEN -1 ELSE CHOOSE n \in cand : \A m \in cand : n <= m
T0(kk) == Term(kk) >= 0
NT(kk) == IF T0(kk) THEN Term(kk) \div 3 ELSE 0
\* triangles of case kk as triples of cube-edge ids
Tris(kk) == [i \in 1..NT(kk) |-> <<Row(kk)[3 * i - 2], Row(kk)[3 * i - 1], Row(kk)[3 * i]>>]

\* the same, evaluated once (TLC pre-evaluates constant definitions); rows are cut into
\* explicit tuples so that nothing is left lazy
RECURSIVE CutRow(_, _, _)
CutRow(r, i, n) == IF i > n THEN <<>> ELSE <<SubSeq(r, 3 * i - 2, 3 * i)>> \o CutRow(r, i + 1, n)
TrisT == [kk \in Cases |-> CutRow(Row(kk), 1, NT(kk))]
=============================================================================
