\* per-call hit list: the closure is a pure function under every interleaving; generator of closure field classes
CONSTANTS
  MaxParts = 4
  SharedScratch = FALSE
SPECIFICATION Spec
INVARIANTS Pure NoRace Emit
CHECK_DEADLOCK FALSE
