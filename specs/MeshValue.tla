----------------------------- MODULE MeshValue -----------------------------
(***************************************************************************)
(* Abstract mesh VALUES of polyform (modeling.Mesh) and the reference      *)
(* meaning of every modelled public operation on them.                     *)
(*                                                                         *)
(* A mesh value is the record                                              *)
(*   [topo, idx, attrs, mats, exact, fp]                                   *)
(*  topo  : "triangle" | "point" | "quad" | "line" | "line strip" |        *)
(*          "line loop"  (modeling.Topology.String()), or the pseudo       *)
(*          values "NULL" (empty slot) / "FAIL" (operation failed)         *)
(*  idx   : sequence of 0-based vertex numbers                             *)
(*  attrs : sequence, sorted by (ar,id), of [ar, id, data] where ar is the *)
(*          arity 1..4, id a small integer naming the attribute and data a *)
(*          sequence of ar-tuples of integers (real value * Q, Q = 1024)   *)
(*  mats  : sequence of [n, m] (primitive count, material identity)        *)
(*  exact : the projection of the real value was exact on the 1/Q lattice  *)
(*          up to 1e-6 units; bx: bit-exactly on it (no float noise at all:*)
(*          required of the sources of operations that DECIDE by comparing *)
(*          values - crop, filter, weld cells, degenerate faces, normals - *)
(*          where a rotation's 1e-16 noise on a boundary flips the answer) *)
(*  fp    : fingerprint of the raw float64 bit patterns (frame checks only)*)
(*                                                                         *)
(* int32 budget: |coordinate| <= 2^10 real => <= 2^20 scaled; products are *)
(* only taken after dividing by Q (operators that need it require values   *)
(* on the integer lattice, see OnIntLattice).                              *)
(***************************************************************************)
EXTENDS Integers, Sequences, FiniteSets, SequencesExt, FiniteSetsExt, Functions, TLC

Q == 1024

NullMesh == [topo |-> "NULL", idx |-> <<>>, attrs |-> <<>>, mats |-> <<>>, exact |-> TRUE, bx |-> TRUE, fp |-> <<>>]
FailMesh == [topo |-> "FAIL", idx |-> <<>>, attrs |-> <<>>, mats |-> <<>>, exact |-> TRUE, bx |-> TRUE, fp |-> <<>>]
IsNull(m) == m.topo = "NULL"
IsFail(m) == m.topo = "FAIL"
IsMesh(m) == ~IsNull(m) /\ ~IsFail(m)

MkMesh(topo, idx, attrs, mats) ==
    [topo |-> topo, idx |-> idx, attrs |-> attrs, mats |-> mats, exact |-> TRUE, bx |-> TRUE, fp |-> <<>>]

\* the part of a value the contract talks about (fingerprint dropped)
\* material identities: m % 1000 names the material value, m \div 1000 > 0 marks a COPY (another pointer to an equal
\* value, as SetMaterial / SplitOnUniqueMaterials create); which copy number the code hands out is not predictable,
\* so results are compared on the value name while the split itself partitions by full identity (= by pointer)
NormMats(mats) == [i \in DOMAIN mats |-> [n |-> mats[i].n, m |-> mats[i].m % 1000]]
Core(m) == [topo |-> m.topo, idx |-> m.idx, attrs |-> m.attrs, mats |-> NormMats(m.mats)]

IndexSize(topo) ==
    CASE topo = "triangle" -> 3
      [] topo = "quad" -> 4
      [] topo \in {"line", "line strip", "line loop"} -> 2
      [] OTHER -> 1

PrimitiveCount(m) ==
    CASE m.topo \in {"triangle", "quad"} -> Len(m.idx) \div IndexSize(m.topo)
      [] m.topo \in {"point", "line loop"} -> Len(m.idx)
      [] OTHER -> Len(m.idx) - 1

Key(a) == a.ar * 100 + a.id
Keys(m) == {Key(m.attrs[i]) : i \in DOMAIN m.attrs}
HasAttr(m, ar, id) == \E i \in DOMAIN m.attrs : m.attrs[i].ar = ar /\ m.attrs[i].id = id
AttrIndex(m, ar, id) == CHOOSE i \in DOMAIN m.attrs : m.attrs[i].ar = ar /\ m.attrs[i].id = id
AttrData(m, ar, id) == m.attrs[AttrIndex(m, ar, id)].data
AttrLen(m) == IF m.attrs = <<>> THEN 0 ELSE Len(m.attrs[1].data)

Zeros(ar) == [i \in 1..ar |-> 0]
ZeroData(ar, n) == [i \in 1..n |-> Zeros(ar)]
Iota(n) == [i \in 1..n |-> i - 1]           \* identity index list 0..n-1
Ints(n) == [i \in 1..n |-> i]

WithoutAttr(attrs, ar, id) == SelectSeq(attrs, LAMBDA a : ~(a.ar = ar /\ a.id = id))
InsertSorted(attrs, a) ==
    SelectSeq(attrs, LAMBDA b : Key(b) < Key(a)) \o <<a>> \o SelectSeq(attrs, LAMBDA b : Key(b) > Key(a))
SortedAttrs(m) == \A i \in 1..(Len(m.attrs) - 1) : Key(m.attrs[i]) < Key(m.attrs[i + 1])

(***************************************************************************)
(* C02: well-formedness.                                                   *)
(***************************************************************************)
SameLengths(m) == \A i, j \in DOMAIN m.attrs : Len(m.attrs[i].data) = Len(m.attrs[j].data)
IndicesInRange(m) == \A i \in DOMAIN m.idx : m.idx[i] >= 0 /\ m.idx[i] < AttrLen(m)
IndexCountFits(m) ==
    CASE m.topo \in {"triangle", "quad", "line"} -> Len(m.idx) % IndexSize(m.topo) = 0
      [] OTHER -> TRUE
Arities(m) == \A i \in DOMAIN m.attrs : \A k \in DOMAIN m.attrs[i].data : Len(m.attrs[i].data[k]) = m.attrs[i].ar
WellFormed(m) == SameLengths(m) /\ IndicesInRange(m) /\ IndexCountFits(m) /\ Arities(m)

(***************************************************************************)
(* Corner view: what a primitive "looks like" independent of vertex        *)
(* numbering.  Attributes with no data are dropped (there is no corner to  *)
(* carry them).                                                            *)
(***************************************************************************)
LiveAttrs(m) == SelectSeq(m.attrs, LAMBDA a : a.data # <<>>)
CornerView(m) ==
    LET la == LiveAttrs(m) IN
    [topo |-> m.topo,
     keys |-> IF m.idx = <<>> THEN <<>> ELSE [j \in 1..Len(la) |-> Key(la[j])],   \* no corner, no content
     corners |-> [k \in 1..Len(m.idx) |-> [j \in 1..Len(la) |-> la[j].data[m.idx[k] + 1]]]]
AllReferenced(m) == \A v \in 0..(AttrLen(m) - 1) : \E k \in DOMAIN m.idx : m.idx[k] = v
IdentityIndices(m) == m.idx = Iota(Len(m.idx)) /\ AttrLen(m) = Len(m.idx)

(***************************************************************************)
(* Vector helpers (scaled integers).                                       *)
(***************************************************************************)
VAdd(a, b) == [i \in DOMAIN a |-> a[i] + b[i]]
VSub(a, b) == [i \in DOMAIN a |-> a[i] - b[i]]
VMulI(a, k) == [i \in DOMAIN a |-> a[i] * k[i]]          \* k: plain integer factors
VNeg(a) == [i \in DOMAIN a |-> 0 - a[i]]
OnIntLattice(data) == \A i \in DOMAIN data : \A k \in DOMAIN data[i] : data[i][k] % Q = 0
Unscale(v) == [i \in DOMAIN v |-> v[i] \div Q]
Cross(a, b) == <<a[2] * b[3] - a[3] * b[2], a[3] * b[1] - a[1] * b[3], a[1] * b[2] - a[2] * b[1]>>
Dot(a, b) == a[1] * b[1] + a[2] * b[2] + a[3] * b[3]

\* quarter turn about axis 1=x 2=y 3=z, right handed (as quaternion.FromTheta(pi/2, axis).Rotate)
Rot1(axis, v) ==
    CASE axis = 1 -> <<v[1], 0 - v[3], v[2]>>
      [] axis = 2 -> <<v[3], v[2], 0 - v[1]>>
      [] OTHER   -> <<0 - v[2], v[1], v[3]>>
RECURSIVE RotN(_, _, _)
RotN(axis, turns, v) == IF turns = 0 THEN v ELSE RotN(axis, turns - 1, Rot1(axis, v))

\* trs = [t |-> scaled vec, axis, turns, s |-> integer factors]; Transform = R(S*v)+T
ApplyTRSVec(trs, v) == VAdd(RotN(trs.axis, trs.turns, VMulI(v, trs.s)), trs.t)

(***************************************************************************)
(* Operations.  Each returns a mesh value or FailMesh.                     *)
(***************************************************************************)
SetAttr(m, ar, id, data) ==
    [m EXCEPT !.attrs = IF data = <<>> THEN WithoutAttr(@, ar, id)
                        ELSE InsertSorted(WithoutAttr(@, ar, id), [ar |-> ar, id |-> id, data |-> data]),
              !.fp = <<>>]

MapData(m, ar, id, F(_, _)) ==     \* F(i0, v): i0 is the 0-based vertex number
    IF ~HasAttr(m, ar, id) THEN FailMesh
    ELSE LET d == AttrData(m, ar, id) IN SetAttr(m, ar, id, [i \in 1..Len(d) |-> F(i - 1, d[i])])

SetIndices(m, idx) == [m EXCEPT !.idx = idx, !.fp = <<>>]
SetMaterials(m, mats) == [m EXCEPT !.mats = mats, !.fp = <<>>]
SetMaterial(m, mat) == SetMaterials(m, <<[n |-> Len(m.idx) \div IndexSize(m.topo), m |-> mat]>>)

ToPointCloud(m) ==
    IF m.topo = "point" THEN m
    ELSE [m EXCEPT !.topo = "point", !.idx = Iota(AttrLen(m)), !.fp = <<>>]

MeshAppend(a, b) ==
    IF a.topo # b.topo THEN FailMesh
    ELSE LET la == AttrLen(a)
             lb == AttrLen(b)
             ks == Keys(a) \cup Keys(b)
             ksSeq == SetToSortSeq(ks, LAMBDA x, y : x < y)
             one(k) ==
                LET ar == k \div 100
                    id == k % 100
                IN [ar |-> ar, id |-> id,
                    data |-> (IF HasAttr(a, ar, id) THEN AttrData(a, ar, id) ELSE ZeroData(ar, la))
                             \o (IF HasAttr(b, ar, id) THEN AttrData(b, ar, id) ELSE ZeroData(ar, lb))]
         IN MkMesh(a.topo,
                   a.idx \o [i \in 1..Len(b.idx) |-> b.idx[i] + la],
                   [j \in 1..Len(ksSeq) |-> one(ksSeq[j])],
                   a.mats \o b.mats)

Translate(m, v) == MapData(m, 3, 1, LAMBDA i, x : VAdd(x, v))
ScaleBy(m, k) == MapData(m, 3, 1, LAMBDA i, x : VMulI(x, k))
Rot90(m, id, axis, turns) == MapData(m, 3, id, LAMBDA i, x : RotN(axis, turns, x))
ApplyTRS(m, trs) == MapData(m, 3, 1, LAMBDA i, x : ApplyTRSVec(trs, x))
TranslateAttr(m, id, v) == MapData(m, 3, id, LAMBDA i, x : VAdd(x, v))
ScaleAttr(m, id, origin, k) == MapData(m, 3, id, LAMBDA i, x : VAdd(origin, VMulI(VSub(x, origin), k)))

\* named element maps used by Modify*Attribute in the harness
ElemMap(fn, k, i, x) ==
    CASE fn = "addk"   -> [c \in DOMAIN x |-> x[c] + k]
      [] fn = "neg"    -> VNeg(x)
      [] fn = "addidx" -> [c \in DOMAIN x |-> x[c] + i * Q]
      [] OTHER         -> x
ModifyAttr(m, ar, id, fn, k) == MapData(m, ar, id, LAMBDA i, x : ElemMap(fn, k, i, x))

CopyAttr(dst, src, ar, id) ==
    SetAttr(dst, ar, id, IF HasAttr(src, ar, id) THEN AttrData(src, ar, id) ELSE <<>>)

SeqMin(s) == Min({s[i] : i \in DOMAIN s})
SeqMax(s) == Max({s[i] : i \in DOMAIN s})
CenterExact(m, id) ==     \* the midpoint is on the lattice
    HasAttr(m, 3, id) /\ LET d == AttrData(m, 3, id) IN
        d # <<>> => \A c \in 1..3 : (SeqMin([i \in DOMAIN d |-> d[i][c]]) + SeqMax([i \in DOMAIN d |-> d[i][c]])) % 2 = 0
CenterAttr(m, id) ==
    IF ~HasAttr(m, 3, id) THEN FailMesh
    ELSE IF AttrData(m, 3, id) = <<>> THEN SetAttr(m, 3, id, <<>>)     \* an empty array is dropped by Set*Attribute
    ELSE LET d == AttrData(m, 3, id)
             ctr == [c \in 1..3 |-> (SeqMin([i \in DOMAIN d |-> d[i][c]]) + SeqMax([i \in DOMAIN d |-> d[i][c]])) \div 2]
         IN SetAttr(m, 3, id, [i \in DOMAIN d |-> VSub(d[i], ctr)])

Gather(m, verts1) ==      \* verts1: sequence of 1-based vertex numbers to keep, in order
    [j \in 1..Len(m.attrs) |-> [m.attrs[j] EXCEPT !.data = [p \in 1..Len(verts1) |-> m.attrs[j].data[verts1[p]]]]]

Unweld(m) ==
    MkMesh(m.topo, Iota(Len(m.idx)), Gather(m, [k \in 1..Len(m.idx) |-> m.idx[k] + 1]), m.mats)

PosIn(s, v) == CHOOSE p \in 1..Len(s) : s[p] = v
RemoveUnreferenced(m) ==
    LET used == {m.idx[k] + 1 : k \in DOMAIN m.idx}
        keep == SelectSeq(Ints(AttrLen(m)), LAMBDA v : v \in used)
    IN MkMesh(m.topo, [k \in 1..Len(m.idx) |-> PosIn(keep, m.idx[k] + 1) - 1],
              SelectSeq(Gather(m, keep), LAMBDA a : a.data # <<>>), m.mats)

FlipWinding(m) ==
    IF m.topo # "triangle" THEN FailMesh
    ELSE SetIndices(m, [k \in 1..Len(m.idx) |->
            CASE k % 3 = 1 -> m.idx[k + 1] [] k % 3 = 2 -> m.idx[k - 1] [] OTHER -> m.idx[k]])

Tri1(m, t) == <<m.idx[3 * t - 2] + 1, m.idx[3 * t - 1] + 1, m.idx[3 * t] + 1>>   \* 1-based vertices of triangle t
TriIdx(m, tris) ==      \* index list (0-based) of the listed triangles, in order
    [k \in 1..(3 * Len(tris)) |-> m.idx[3 * (tris[((k - 1) \div 3) + 1] - 1) + ((k - 1) % 3) + 1]]

\* math.Round(x * 10^dec) on scaled integers; half away from zero. P10 = 10^dec.
\* d is even (Q); written so that |x| up to 2^30 stays inside TLC's 32-bit integers
RoundDiv(x, d) == IF x >= 0 THEN (x + d \div 2) \div d ELSE 0 - (((0 - x) + d \div 2) \div d)
Cell(v, p10) == [c \in DOMAIN v |-> RoundDiv(v[c] * p10, Q)]

Weld(m, id, p10) ==
    IF m.topo # "triangle" \/ ~HasAttr(m, 3, id) THEN FailMesh
    ELSE LET d == AttrData(m, 3, id)
             n == Len(d)
             cell == [i \in 1..n |-> Cell(d[i], p10)]
             isFirst(i) == \A j \in 1..(i - 1) : cell[j] # cell[i]
             rep == [i \in 1..n |-> CHOOSE j \in 1..i : cell[j] = cell[i] /\ isFirst(j)]
             nt == Len(m.idx) \div 3
             keepT(t) == LET v == Tri1(m, t) IN
                            cell[v[1]] # cell[v[2]] /\ cell[v[1]] # cell[v[3]] /\ cell[v[2]] # cell[v[3]]
             kept == SelectSeq(Ints(nt), keepT)
             usedReps == {rep[Tri1(m, kept[q])[c]] : q \in 1..Len(kept), c \in 1..3}
             outV == SelectSeq(Ints(n), LAMBDA v : v \in usedReps)
             oldIdx == TriIdx(m, kept)
         IN MkMesh("triangle", [k \in 1..Len(oldIdx) |-> PosIn(outV, rep[oldIdx[k] + 1]) - 1],
                   Gather(m, outV), <<>>)

NonDegenerate(m, id, t) ==
    LET d == AttrData(m, 3, id)
        v == Tri1(m, t)
        a == Unscale(d[v[1]])
        b == Unscale(d[v[2]])
        c == Unscale(d[v[3]])
    IN Cross(VSub(b, a), VSub(c, a)) # <<0, 0, 0>>
RemoveNullFaces(m, id) ==       \* minimum area 0
    IF m.topo # "triangle" \/ ~HasAttr(m, 3, id) THEN FailMesh
    ELSE LET kept == SelectSeq(Ints(Len(m.idx) \div 3), LAMBDA t : NonDegenerate(m, id, t))
         IN IF Len(kept) * 3 = Len(m.idx) THEN m
            ELSE RemoveUnreferenced(SetIndices(m, TriIdx(m, kept)))

\* material of triangle t (1-based) given ranges
RECURSIVE MatOfTri(_, _)
MatOfTri(mats, t) == IF t <= Head(mats).n THEN Head(mats).m ELSE MatOfTri(Tail(mats), t - Head(mats).n)
SumN(mats) == FoldSeq(LAMBDA x, acc : x.n + acc, 0, mats)
MatOrder(mats) ==       \* distinct material ids in first-appearance order
    LET ids == [i \in DOMAIN mats |-> mats[i].m]
    IN SelectSeq(Ints(Len(ids)), LAMBDA i : \A j \in 1..(i - 1) : ids[j] # ids[i])
SplitOnMaterials(m) ==      \* sequence of meshes
    IF Len(m.mats) < 2 THEN <<m>>
    ELSE LET nt == Len(m.idx) \div 3
             first == MatOrder(m.mats)
             part(i) == LET mat == m.mats[first[i]].m
                            tris == SelectSeq(Ints(nt), LAMBDA t : MatOfTri(m.mats, t) = mat)
                        IN RemoveUnreferenced(SetMaterial(SetIndices(m, TriIdx(m, tris)), mat))
         IN [i \in 1..Len(first) |-> part(i)]
SplitPre(m) == Len(m.mats) < 2 \/
               (m.topo = "triangle" /\ (\A i \in DOMAIN m.mats : m.mats[i].n >= 1) /\ SumN(m.mats) = Len(m.idx) \div 3)

\* keep the primitives (index entries) whose vertex has first component >= thr
FilterGE(m, ar, id, thr) ==
    IF ~HasAttr(m, ar, id) THEN FailMesh
    ELSE LET d == AttrData(m, ar, id)
             keepK == SelectSeq(Ints(Len(m.idx)), LAMBDA k : d[m.idx[k] + 1][1] >= thr)
         IN RemoveUnreferenced(SetIndices(m, [q \in 1..Len(keepK) |-> m.idx[keepK[q]]]))

InBox(v, lo, hi) == \A c \in 1..3 : lo[c] <= v[c] /\ v[c] <= hi[c]
Crop(m, id, lo, hi) ==
    IF m.topo # "point" \/ ~HasAttr(m, 3, id) THEN FailMesh
    ELSE LET d == AttrData(m, 3, id)
             keepK == SelectSeq(Ints(Len(m.idx)), LAMBDA k : InBox(d[m.idx[k] + 1], lo, hi))
         IN RemoveUnreferenced(SetIndices(m, [q \in 1..Len(keepK) |-> m.idx[keepK[q]]]))

EmptyMesh(topo) == MkMesh(topo, <<>>, <<>>, <<>>)
RECURSIVE RepeatAcc(_, _, _)
RepeatAcc(acc, m, trss) ==
    IF trss = <<>> THEN acc ELSE RepeatAcc(MeshAppend(acc, ApplyTRS(m, Head(trss))), m, Tail(trss))
\* No transforms, or nothing to copy (no primitive and no position to transform): the empty mesh of the
\* topology (repository fix 74c0bb9: "any number of copies of nothing is nothing"; before it the call
\* panicked).  Indices without a position attribute cannot be transformed: the call must report failure.
Repeat(m, trss) ==
    IF trss = <<>> \/ (m.idx = <<>> /\ ~HasAttr(m, 3, 1)) THEN EmptyMesh(m.topo)
    ELSE IF ~HasAttr(m, 3, 1) THEN FailMesh
    ELSE RepeatAcc(EmptyMesh(m.topo), m, trss)

(***************************************************************************)
(* Attribute-transforming operations whose results leave the lattice       *)
(* (normalise, normals, Laplacian smoothing): the frame must be exact, the *)
(* target attribute is judged by an integer predicate with an explicit     *)
(* rounding band (projection error <= 1/2 unit of 1/Q per component).      *)
(***************************************************************************)
AttrFrameOk(res, src, ar, id) ==
    /\ res.topo = src.topo /\ res.idx = src.idx /\ res.mats = src.mats
    /\ WithoutAttr(res.attrs, ar, id) = WithoutAttr(src.attrs, ar, id)
    /\ HasAttr(res, ar, id) /\ Len(AttrData(res, ar, id)) = AttrLen(src)

Abs(x) == IF x < 0 THEN 0 - x ELSE x
Norm1(v) == Abs(v[1]) + Abs(v[2]) + Abs(v[3])
Len2(v) == Dot(v, v)
HasSqrt(x) == \E r \in 0..200 : r * r = x
ISqrt(x) == CHOOSE r \in 0..200 : r * r = x

\* n (scaled unit vector as observed) points along the integer vector S
Parallel(n, S) ==
    LET x == Cross(n, S) IN
    /\ Abs(x[1]) <= Norm1(S) /\ Abs(x[2]) <= Norm1(S) /\ Abs(x[3]) <= Norm1(S)
    /\ Dot(n, S) > 0
    /\ Len2(n) >= (Q - 4) * (Q - 4) /\ Len2(n) <= (Q + 4) * (Q + 4)

MaxLen2(d) == Max({Len2(Unscale(d[i])) : i \in DOMAIN d})
NormalizeJudgeable(m, id) ==
    HasAttr(m, 3, id) =>
        LET d == AttrData(m, 3, id) IN
        d # <<>> /\ OnIntLattice(d) /\ (\A i \in DOMAIN d : \A c \in 1..3 : Abs(d[i][c]) <= 64 * Q)
        /\ MaxLen2(d) > 0 /\ HasSqrt(MaxLen2(d))
NormalizeOk(m, id, data) ==
    LET d == AttrData(m, 3, id)
        L == ISqrt(MaxLen2(d))
    IN \A i \in DOMAIN d : \A c \in 1..3 : Abs(data[i][c] * L - Q * Unscale(d[i])[c]) <= L

TriCross(P, m, t) == LET v == Tri1(m, t) IN Cross(VSub(P[v[2]], P[v[1]]), VSub(P[v[3]], P[v[1]]))
TrisOf(m, v) == {t \in 1..(Len(m.idx) \div 3) : \E c \in 1..3 : Tri1(m, t)[c] = v}
NormalsJudgeable(m) ==
    (m.topo = "triangle" /\ HasAttr(m, 3, 1)) =>
        LET d == AttrData(m, 3, 1) IN OnIntLattice(d) /\ (\A i \in DOMAIN d : \A c \in 1..3 : Abs(d[i][c]) <= 16 * Q)
FlatNormalsOk(m, data) ==      \* every vertex of a non-degenerate triangle carries the face normal of ONE of its triangles
    LET P == [i \in DOMAIN AttrData(m, 3, 1) |-> Unscale(AttrData(m, 3, 1)[i])] IN
    \A v \in DOMAIN P :
        LET good == {t \in TrisOf(m, v) : TriCross(P, m, t) # <<0, 0, 0>>} IN
        (good # {} /\ good = TrisOf(m, v)) => \E t \in good : Parallel(data[v], TriCross(P, m, t))
RECURSIVE SumCross(_, _, _)
SumCross(P, m, ts) ==
    IF ts = {} THEN <<0, 0, 0>>
    ELSE LET t == CHOOSE x \in ts : TRUE IN VAdd(TriCross(P, m, t), SumCross(P, m, ts \ {t}))
\* a vertex used twice by one triangle receives that triangle's cross product twice; such
\* index-degenerate triangles have a zero cross product, so the sum is unaffected
SmoothNormalsOk(m, data) ==
    LET P == [i \in DOMAIN AttrData(m, 3, 1) |-> Unscale(AttrData(m, 3, 1)[i])] IN
    \A v \in DOMAIN P :
        LET S == SumCross(P, m, TrisOf(m, v)) IN
        IF S = <<0, 0, 0>> THEN data[v] = <<0, 0, 0>> ELSE Parallel(data[v], S)

\* Laplacian smoothing, one iteration, factor 1, in place (Gauss-Seidel) in vertex order
Neigh(m, v) == {u \in 1..AttrLen(m) : \E t \in 1..(Len(m.idx) \div 3) : \E i, j \in 1..3 :
                    i # j /\ Tri1(m, t)[i] = v /\ Tri1(m, t)[j] = u}
RECURSIVE SumVals(_, _)
SumVals(vals, S) == IF S = {} THEN <<0, 0, 0>>
                    ELSE LET u == CHOOSE x \in S : TRUE IN VAdd(vals[u], SumVals(vals, S \ {u}))
\* smoothing factor lam2/2 (lam2 = 2: move onto the neighbour average, lam2 = 1: half way)
RECURSIVE GaussSeidel(_, _, _, _)
GaussSeidel(m, vals, v, lam2) ==
    IF v > Len(vals) THEN vals
    ELSE LET nb == Neigh(m, v) IN
         IF nb = {} THEN GaussSeidel(m, vals, v + 1, lam2)
         ELSE LET sm == SumVals(vals, nb)
                  avg == [c \in 1..3 |-> sm[c] \div Cardinality(nb)]
              IN GaussSeidel(m, [vals EXCEPT ![v] = [c \in 1..3 |-> vals[v][c] + ((avg[c] - vals[v][c]) * lam2) \div 2]],
                             v + 1, lam2)
LaplacianJudgeable(m, id) ==
    (m.topo = "triangle" /\ HasAttr(m, 3, id)) =>
        (\A i \in DOMAIN AttrData(m, 3, id) : \A c \in 1..3 : Abs(AttrData(m, 3, id)[i][c]) <= 1024 * Q)
RECURSIVE Sweeps(_, _, _, _)
Sweeps(m, vals, k, lam2) == IF k = 0 THEN vals ELSE Sweeps(m, GaussSeidel(m, vals, 1, lam2), k - 1, lam2)
LaplacianBand == 32     \* units of 1/Q per sweep: floor division against IEEE rounding, propagated through a sweep
LaplacianOk(m, id, iters, lam2, data) ==
    LET ref == Sweeps(m, AttrData(m, 3, id), iters, lam2) IN
    \A v \in DOMAIN ref : Neigh(m, v) # {} => \A c \in 1..3 : Abs(data[v][c] - ref[v][c]) <= LaplacianBand * iters

(***************************************************************************)
(* Comparison classes (C03).                                               *)
(***************************************************************************)
EqExact(res, exp) == res.exact /\ Core(res) = Core(exp)
EqCorners(res, exp) == res.exact /\ CornerView(res) = CornerView(exp) /\ NormMats(res.mats) = NormMats(exp.mats)
EqCornersNoMats(res, exp) == res.exact /\ CornerView(res) = CornerView(exp)

(***************************************************************************)
(* Theorems of the value algebra (checked by TLC on every pool state of    *)
(* MeshPool; see MeshPool.tla).                                            *)
(***************************************************************************)
LawFlipFlip(m) == m.topo = "triangle" /\ WellFormed(m) => Core(FlipWinding(FlipWinding(m))) = Core(m)
LawWeldUnweld(m) ==
    (m.topo = "triangle" /\ WellFormed(m) /\ HasAttr(m, 3, 1)) =>
        \* welding an unwelded mesh by position gives back the welded corner positions
        LET w == Weld(Unweld(m), 1, 1)
            r == Weld(m, 1, 1)
        IN CornerView(w).topo = CornerView(r).topo /\ Len(w.idx) = Len(r.idx)
LawUnweldCorners(m) == WellFormed(m) => CornerView(Unweld(m)) = CornerView(m) /\ IdentityIndices(Unweld(m))
LawRemoveUnref(m) == WellFormed(m) => CornerView(RemoveUnreferenced(m)) = CornerView(m) /\ AllReferenced(RemoveUnreferenced(m))
LawAppendWF(a, b) == (WellFormed(a) /\ WellFormed(b) /\ a.topo = b.topo) => WellFormed(MeshAppend(a, b))
=============================================================================
