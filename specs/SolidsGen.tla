------------------------------ MODULE SolidsGen ------------------------------
(***************************************************************************)
(* C18: TLC as generator of primitive parameter tuples.                    *)
(*                                                                         *)
(* One initial state per tuple, no transitions.  Small counts are          *)
(* enumerated EXHAUSTIVELY: rows 2..MaxRows, columns 3..MaxCols, sides     *)
(* 3..MaxSides, every dimension from DimSet (1/16 units), every UV option  *)
(* code; plus the resolution-doubling chains (counts Chain[1], Chain[2],   *)
(* .. at a fixed size) for the convergence clause; plus tuples just        *)
(* outside the admissible range (rows 1, columns 2), on which the contract *)
(* demands nothing - the trace specification must not judge them (checked  *)
(* by counting).  Larger counts are sampled by the seeded recorder         *)
(* (vh surf-random).                                                       *)
(***************************************************************************)
EXTENDS Solids, TLC, Json

CONSTANTS MaxRows, MaxCols, MaxSides, DimSet, UvSet, Chain, ChainDims

VARIABLE c

Mk(prim, rows, cols, sides, d, uv, chain) ==
    LET base == [kind |-> "prim", id |-> 0, prim |-> prim, rows |-> rows, cols |-> cols, sides |-> sides,
                 d |-> d, uv |-> uv, chain |-> chain, scale |-> 1]
    IN [base EXCEPT !.scale = ScaleOf(base)]

RoundCases ==
    {Mk(p, r, k, 0, <<d, 0, 0>>, 0, 0) : p \in Round, r \in 2..MaxRows, k \in 3..MaxCols, d \in DimSet}
CubeCases ==
    {Mk(p, 0, 0, 0, <<w, h, d>>, uv, 0) : p \in Cubes, w \in DimSet, h \in DimSet, d \in DimSet, uv \in UvSet}
CylinderCases ==
    {Mk("cylinder", 0, 0, s, <<r, h, 0>>, uv, 0) : s \in 3..MaxSides, r \in DimSet, h \in DimSet, uv \in UvSet}
\* just outside the admissible range
EdgeCases ==
    {Mk(p, 1, 3, 0, <<16, 0, 0>>, 0, 0) : p \in Round} \cup {Mk(p, 2, 2, 0, <<16, 0, 0>>, 0, 0) : p \in Round}
ChainCases ==
    {Mk(p, Chain[i], Chain[i], 0, <<d, 0, 0>>, 0, i) : p \in {"uvsphere", "hemisphere"}, i \in DOMAIN Chain, d \in ChainDims}
    \cup {Mk("cylinder", 0, 0, Chain[i], <<d, d, 0>>, 0, i) : i \in DOMAIN Chain, d \in ChainDims}

All == RoundCases \cup CubeCases \cup CylinderCases \cup EdgeCases \cup ChainCases

Init == c \in All
Spec == Init /\ [][FALSE]_c

\* generator sanity: the scale keeps every tuple inside the projection's exact range
GenOK == ScaleOK(c) /\ (c.chain = 0 \/ Admissible(c))
Emit == PrintT(ToJson([case |-> c, admissible |-> Admissible(c)]))
=============================================================================
