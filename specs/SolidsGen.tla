------------------------------ MODULE SolidsGen ------------------------------
(***************************************************************************)
(* C18: TLC as generator of primitive parameter tuples.                    *)
(*                                                                         *)
(* One initial state per tuple, no transitions.  Small counts are          *)
(* enumerated EXHAUSTIVELY: rows 2..MaxRows, columns 3..MaxCols, sides     *)
(* 3..MaxSides, every dimension from DimSet (1/16 units), every UV option  *)
(* code; plus the resolution-doubling chains (counts Chain[1], Chain[2],   *)
(* .. at a fixed size) for the convergence clause; plus tuples just        *)
(* outside the admissible range (rows 1, columns 2), on which the contract *)
(* demands nothing - the trace specification must not judge them (checked  *)
(* by counting).  Larger counts are sampled by the seeded recorder         *)
(* (vh surf-random).                                                       *)
(*                                                                         *)
(* Two LADDERS cross the small tuples (round 5):                           *)
(*  MagSet   magnitudes <<base, exp>> (Solids.tla `mag`): EVERY constructor *)
(*     is called at every magnitude of the ladder, for coarse and fine     *)
(*     counts (MagCounts: <<rows, cols, sides>>), with and without UV      *)
(*     options and for flat / tall / even proportions (MagDims) - a fine   *)
(*     count at a small magnitude makes neighbouring vertices closer than  *)
(*     any absolute tolerance, a flat shape does the same for opposite     *)
(*     faces.  Judged scale-invariantly on exact integers.                 *)
(*  ResSet   resolutions <<rows, cols>> of the round primitives and        *)
(*     SideSet side counts of the cylinder, around and beyond the powers   *)
(*     of two of the VERTEX count (ring vertices (rows-1)*cols just below  *)
(*     / at / above 2^k) and of the counts themselves (127..130), square   *)
(*     and extreme aspect ratios: where an implementation switches buffer  *)
(*     strategy, chunking or to a parallel path.  The volume is judged by  *)
(*     the same exact closed form of the inscribed polyhedron.             *)
(*                                                                         *)
(* HOW the constructors are called is part of the case too:                *)
(*  hist, ord   Every tuple belongs to a HISTORY: the tuples with the same *)
(*     `hist` are constructed one after the other (in the order of `ord`)  *)
(*     by one caller that keeps every mesh and looks at each of them again *)
(*     after the last call.  Histories mix all six constructors, sizes and *)
(*     resolutions in a Seed-dependent pseudo-random order (growing and    *)
(*     shrinking), NHist of them; a doubling chain is a history of its     *)
(*     own, in doubling order.                                             *)
(*  conc        NConc extra GROUPS of eight tuples whose constructors are  *)
(*     called at the same time from eight goroutines: one group per        *)
(*     constructor (same code, different parameters), the others mixed.    *)
(***************************************************************************)
EXTENDS Solids, TLC, Json

CONSTANTS MaxRows, MaxCols, MaxSides, DimSet, UvSet, Chain, ChainDims, NHist, NConc, Seed,
          MagSet, MagCounts, MagDims, MagUvs, ResSet, SideSet

VARIABLE c

Mk(prim, rows, cols, sides, d, uv, chain) ==
    LET base == [kind |-> "prim", id |-> 0, prim |-> prim, rows |-> rows, cols |-> cols, sides |-> sides,
                 d |-> d, uv |-> uv, chain |-> chain, scale |-> 1, hist |-> 0, ord |-> 0, conc |-> 0,
                 mag |-> <<2, 0>>]
    IN [base EXCEPT !.scale = ScaleOf(base)]

KindSeq == <<"uvsphere", "uvsphere_unwelded", "cube_welded", "cube_quads", "cylinder", "hemisphere">>
PrimIx(p) == CHOOSE i \in DOMAIN KindSeq : KindSeq[i] = p
\* pseudo-random but fixed function of the tuple (operands stay below 2^31)
Code(t) == (PrimIx(t.prim) + 7 * t.rows + 31 * t.cols + 131 * t.sides + 17 * t.d[1] + 257 * t.d[2]
            + 1031 * t.d[3] + 5 * t.uv + 613 * t.mag[1] + 4099 * (t.mag[2] + 300)) % 100003
InHistory(t) ==
    IF t.chain > 0
    THEN [t EXCEPT !.hist = NHist + 100 * PrimIx(t.prim) + t.d[1], !.ord = t.chain]
    ELSE [t EXCEPT !.hist = (((Code(t) * 7919 + (Seed % 1000) * 104729) % 32749) % NHist) + 1,
                   !.ord = (Code(t) * 15485 + (Seed % 1000) * 31) % 32749]

RoundCases ==
    {Mk(p, r, k, 0, <<d, 0, 0>>, 0, 0) : p \in Round, r \in 2..MaxRows, k \in 3..MaxCols, d \in DimSet}
CubeCases ==
    {Mk(p, 0, 0, 0, <<w, h, d>>, uv, 0) : p \in Cubes, w \in DimSet, h \in DimSet, d \in DimSet, uv \in UvSet}
CylinderCases ==
    {Mk("cylinder", 0, 0, s, <<r, h, 0>>, uv, 0) : s \in 3..MaxSides, r \in DimSet, h \in DimSet, uv \in UvSet}
\* just outside the admissible range
EdgeCases ==
    {Mk(p, 1, 3, 0, <<16, 0, 0>>, 0, 0) : p \in Round} \cup {Mk(p, 2, 2, 0, <<16, 0, 0>>, 0, 0) : p \in Round}
ChainCases ==
    {Mk(p, Chain[i], Chain[i], 0, <<d, 0, 0>>, 0, i) : p \in {"uvsphere", "hemisphere"}, i \in DOMAIN Chain, d \in ChainDims}
    \cup {Mk("cylinder", 0, 0, Chain[i], <<d, d, 0>>, 0, i) : i \in DOMAIN Chain, d \in ChainDims}

\* the magnitude ladder: every constructor x every magnitude x coarse/fine counts x UV options x proportions
AtMag(t, m) == [t EXCEPT !.mag = m]
MagCases ==
    {AtMag(Mk(p, n[1], n[2], 0, <<d[1], 0, 0>>, 0, 0), m) : p \in Round, n \in MagCounts, d \in MagDims, m \in MagSet}
    \cup {AtMag(Mk(p, 0, 0, 0, d, uv, 0), m) : p \in Cubes, d \in MagDims, uv \in MagUvs, m \in MagSet}
    \cup {AtMag(Mk("cylinder", 0, 0, n[3], <<d[1], d[2], 0>>, uv, 0), m) : n \in MagCounts, d \in MagDims, uv \in MagUvs, m \in MagSet}
\* the resolution ladder; every large tuple is a history of its own (hist beyond the chains)
Big(t, i) == [t EXCEPT !.hist = NHist + 1000 + i, !.ord = 0]
ResCases ==
    {Big(Mk(KindSeq[r[3]], r[1], r[2], 0, <<16, 0, 0>>, 0, 0), 10 * r[4]) : r \in ResSet}
    \cup {Big(Mk("cylinder", 0, 0, n[1], <<16, 24, 0>>, n[2] % 6, 0), 10 * n[2] + 1) : n \in SideSet}

\* groups constructed concurrently: member j of group g
DimSeq == <<8, 16, 24, 48>>
ConcMember(g, j) ==
    LET p == IF g <= Len(KindSeq) THEN KindSeq[g] ELSE KindSeq[((j + g) % Len(KindSeq)) + 1]
        rows == 10 + 2 * ((3 * j + g) % 8)
        cols == 11 + 2 * ((5 * j + 2 * g) % 8) + (j % 2)
        d1 == DimSeq[(j % 4) + 1]
        d2 == DimSeq[((j + g) % 4) + 1]
        d3 == DimSeq[((j + 2 * g) % 4) + 1]
        t == CASE p \in Round -> Mk(p, rows, cols, 0, <<d1, 0, 0>>, 0, 0)
               [] p \in Cubes -> Mk(p, 0, 0, 0, <<d1, d2, d3>>, (j + g) % 6, 0)
               [] OTHER -> Mk(p, 0, 0, 9 + ((7 * j + g) % 16), <<d1, d2, 0>>, (j + g) % 6, 0)
    IN [t EXCEPT !.conc = g, !.ord = j]
ConcCases == {ConcMember(g, j) : g \in 1..NConc, j \in 0..7}

All == {InHistory(t) : t \in RoundCases \cup CubeCases \cup CylinderCases \cup EdgeCases \cup ChainCases \cup MagCases}
       \cup ConcCases \cup ResCases

Init == c \in All
Spec == Init /\ [][FALSE]_c

\* generator sanity: the scale keeps every tuple inside the projection's exact range
GenOK == /\ ScaleOK(c) /\ (c.chain = 0 \/ Admissible(c)) /\ MagOK(c.mag)
         /\ (c.conc > 0) # (c.hist > 0)
         /\ c.conc > 0 => Admissible(c)
Emit == PrintT(ToJson([case |-> c, admissible |-> Admissible(c)]))
=============================================================================
