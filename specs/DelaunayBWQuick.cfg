\* hand-runnable configuration of the design-level model (checks/c20.py writes its own per tier)
CONSTANTS
  K = 4
  MinN = 3
  MaxN = 4
  M = 8
  AbsMargin = 0
  Variant = "code"
  Run = TRUE
SPECIFICATION Spec
INVARIANTS ChosenInv PostInv CWInv
CHECK_DEADLOCK FALSE
