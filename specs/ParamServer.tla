----------------------------- MODULE ParamServer -----------------------------
(***************************************************************************)
(* C13 - parameter server of graph.Instance.                               *)
(*                                                                         *)
(* L1 (sequential object, used by TraceParamServer to judge real           *)
(* histories): state pval : Params -> value; operations                    *)
(*    upd(p, v) -> "ok"        get(p) -> value       art(name) -> F(pval)  *)
(* where F is the from-scratch term of the producer (NodeGraph!Term).      *)
(*                                                                         *)
(* L2 (this module's state machine): clients as processes, the mutex       *)
(* producerLock, and artifact evaluation split into one step per leaf      *)
(* read - each reading the parameter AT THAT MOMENT.  An artifact reads    *)
(* the leaves LeafOrder = <<1, 2, 1>> (a diamond: p1 is reached through    *)
(* two paths).  With UseLock = TRUE TLC checks Atomic (every artifact is a *)
(* function of the single snapshot taken when the lock was acquired) and   *)
(* RealTime-consistency follows from the lock; with UseLock = FALSE the    *)
(* same model is the GENERATOR of attack schedules (torn snapshots):       *)
(* behaviours are printed as [progs, sched] and replayed against the real  *)
(* goroutines by a cooperative scheduler (gated node processors).          *)
(***************************************************************************)
EXTENDS Integers, Sequences, FiniteSets, TLC, Json

CONSTANTS NC, UseLock, MaxOps, SchedLen, OpFilter,   \* OpFilter: "all" | "vec" (only the slice parameter) | "panic"
          DeferUnlock   \* TRUE: the mutex is released when Artifact is left by a panic too (defer), as the code does

Clients == 1..NC
Params == 1..3
LeafOrder(o) == IF o.p = 3 THEN <<3>> ELSE <<1, 2, 1>>
OpSet == {[op |-> "upd", p |-> 1, v |-> 2], [op |-> "upd", p |-> 2, v |-> 3], [op |-> "upd", p |-> 1, v |-> 4],
          [op |-> "get", p |-> 1, v |-> 0], [op |-> "art", p |-> 1, v |-> 0], [op |-> "art", p |-> 2, v |-> 0],
          \* parameter 3 is slice valued (v = tag*10 + length); producer 3 hands out an artifact that is
          \* serialised AFTER Artifact() returned, i.e. outside the lock ("post" step below)
          [op |-> "upd", p |-> 3, v |-> 24], [op |-> "upd", p |-> 3, v |-> 33], [op |-> "art", p |-> 3, v |-> 0],
          \* 13 makes the processors that read p1 fail; 1 is p2's DEFAULT (p2 starts at its flag value 7);
          \* updbad is a rejected update (no effect on the model state)
          [op |-> "upd", p |-> 1, v |-> 13], [op |-> "upd", p |-> 2, v |-> 1],
          [op |-> "updbad", p |-> 3, v |-> 0], [op |-> "updbad", p |-> 1, v |-> 0],
          \* 66 makes the processors that read p1 PANIC: Artifact is left by the panic, the caller recovers
          [op |-> "upd", p |-> 1, v |-> 66]}

Ops == IF OpFilter = "vec" THEN {o \in OpSet : o.p = 3}
       ELSE IF OpFilter = "panic" THEN {o \in OpSet : (o.op = "upd" /\ o.p = 1 /\ o.v \in {2, 66}) \/ (o.op \in {"art", "get"} /\ o.p \in {1, 2})}
       ELSE OpSet

VARIABLES pval, lock, pc, cur, k, acc, snap, progs, done, sched, torn
vars == <<pval, lock, pc, cur, k, acc, snap, progs, done, sched, torn>>

NoOp == [op |-> "none", p |-> 0, v |-> 0]

Init ==
    /\ pval = [p \in Params |-> 1] /\ lock = 0
    /\ pc = [c \in Clients |-> "idle"] /\ cur = [c \in Clients |-> NoOp]
    /\ k = [c \in Clients |-> 0] /\ acc = [c \in Clients |-> <<>>] /\ snap = [c \in Clients |-> pval]
    /\ progs = [c \in Clients |-> <<>>] /\ done = [c \in Clients |-> 0]
    /\ sched = <<>> /\ torn = FALSE

Adv(c) == sched' = Append(sched, c)

Start(c, o) ==
    /\ pc[c] = "idle" /\ Len(progs[c]) < MaxOps
    /\ progs' = [progs EXCEPT ![c] = Append(@, o)] /\ cur' = [cur EXCEPT ![c] = o]
    /\ IF UseLock THEN
            IF lock = 0 THEN lock' = c /\ pc' = [pc EXCEPT ![c] = "in"] /\ snap' = [snap EXCEPT ![c] = pval]
            ELSE pc' = [pc EXCEPT ![c] = "wait"] /\ UNCHANGED <<lock, snap>>
       ELSE pc' = [pc EXCEPT ![c] = "in"] /\ snap' = [snap EXCEPT ![c] = pval] /\ UNCHANGED lock
    /\ k' = [k EXCEPT ![c] = 0] /\ acc' = [acc EXCEPT ![c] = <<>>]
    /\ UNCHANGED <<pval, done, torn>> /\ Adv(c)

Acquire(c) ==       \* a waiting client gets the mutex (no scheduler step of its own: it was already runnable)
    /\ pc[c] = "wait" /\ lock = 0
    /\ lock' = c /\ pc' = [pc EXCEPT ![c] = "in"] /\ snap' = [snap EXCEPT ![c] = pval]
    /\ UNCHANGED <<pval, cur, k, acc, progs, done, sched, torn>>

Finish(c) ==
    /\ pc' = [pc EXCEPT ![c] = "idle"] /\ done' = [done EXCEPT ![c] = @ + 1]
    /\ lock' = IF lock = c THEN 0 ELSE lock

StepIn(c) ==
    /\ pc[c] = "in"
    /\ LET o == cur[c] IN
       \/ /\ o.op = "upd" /\ pval' = [pval EXCEPT ![o.p] = o.v] /\ Finish(c)
          /\ UNCHANGED <<k, acc, torn>>
       \/ /\ o.op \in {"get", "updbad"} /\ Finish(c) /\ UNCHANGED <<pval, k, acc, torn>>
       \/ /\ o.op = "art" /\ k[c] < Len(LeafOrder(o)) /\ LeafOrder(o)[k[c] + 1] = 1 /\ pval[1] = 66
          \* the processor reading p1 panics: the call is over, nothing is handed out
          /\ pc' = [pc EXCEPT ![c] = "idle"] /\ done' = [done EXCEPT ![c] = @ + 1]
          /\ lock' = (IF lock = c /\ DeferUnlock THEN 0 ELSE lock)
          /\ UNCHANGED <<pval, k, acc, torn>>
       \/ /\ o.op = "art" /\ k[c] < Len(LeafOrder(o)) /\ ~(LeafOrder(o)[k[c] + 1] = 1 /\ pval[1] = 66)
          /\ LET rd == Append(acc[c], pval[LeafOrder(o)[k[c] + 1]]) IN
             /\ acc' = [acc EXCEPT ![c] = rd] /\ k' = [k EXCEPT ![c] = @ + 1]
             /\ IF k[c] + 1 = Len(LeafOrder(o))
                THEN \* Artifact() returns (lock released); the artifact is written in a later step
                     /\ pc' = [pc EXCEPT ![c] = "post"] /\ lock' = (IF lock = c THEN 0 ELSE lock)
                     /\ torn' = (torn \/ rd # [i \in 1..Len(LeafOrder(o)) |-> snap[c][LeafOrder(o)[i]]])
                     /\ UNCHANGED done
                ELSE UNCHANGED <<pc, done, lock, torn>>
          /\ UNCHANGED pval
    /\ UNCHANGED <<cur, snap, progs>> /\ Adv(c)

WriteOut(c) ==      \* the client serialises the artifact it was handed (outside the lock); a value: nothing can change it
    /\ pc[c] = "post"
    /\ pc' = [pc EXCEPT ![c] = "idle"] /\ done' = [done EXCEPT ![c] = @ + 1]
    /\ UNCHANGED <<pval, lock, cur, k, acc, snap, progs, torn>> /\ Adv(c)

Next ==
    /\ Len(sched) < SchedLen
    /\ \/ \E c \in Clients, o \in Ops : Start(c, o)
       \/ \E c \in Clients : Acquire(c)
       \/ \E c \in Clients : StepIn(c)
       \/ \E c \in Clients : WriteOut(c)

Spec == Init /\ [][Next]_vars

\* every completed artifact was computed from the single snapshot taken at lock acquisition
Atomic == ~torn
\* the mutex is only ever held by a client that is inside a call (a holder that left by a panic would block everyone)
LockHeldByActive == lock # 0 => pc[lock] = "in"
MutualExclusion == Cardinality({c \in Clients : pc[c] = "in"}) <= (IF UseLock THEN 1 ELSE NC)

\* generator output: complete behaviours of the scheduler's length
EmitSched == Len(sched) < SchedLen \/ PrintT(ToJson([progs |-> progs, sched |-> sched, torn |-> torn]))
EmitTorn == ~torn \/ PrintT(ToJson([progs |-> progs, sched |-> sched, torn |-> torn]))
StopWhenTorn == ~torn
View == <<pval, lock, pc, cur, k, acc, snap, progs, done, torn, Len(sched)>>
=============================================================================
