------------------------------- MODULE ObjImpl -------------------------------
(***************************************************************************)
(* Implementation-shaped (L2) models of polyform's OBJ writer and reader.  *)
(* They follow formats/obj/writer.go and reader.go statement by statement  *)
(* and exist to find DESIGN bugs on the specification (counterexamples     *)
(* become "risky" inputs that are then executed on the real code).  They   *)
(* never pass verdicts on the code: the contract is ObjFormat.             *)
(*                                                                         *)
(* WriteImpl(meshes, shared)                                               *)
(*   shared = TRUE : one running offset (AttributeLength of the meshes     *)
(*                   before) is added to v, vt and vn alike  (pinned tree) *)
(*   shared = FALSE: every pool has its own running offset   (repaired)    *)
(* ReadImpl(stmts, fx)  with fx = [atG, pad]                               *)
(*   atG = FALSE: the "triangles since the last usemtl" counter lives      *)
(*                across g statements and a group's last material range is *)
(*                closed only by the next usemtl or at end of file (pinned)*)
(*   atG = TRUE : a g statement closes the range and resets the counter    *)
(*   pad = FALSE: normals / texture coordinates are appended only for      *)
(*                corners that have them, so a group that mixes corner     *)
(*                syntaxes gets attribute arrays of different lengths      *)
(*   pad = TRUE : missing ones are zero filled, arrays stay aligned        *)
(* Meshes here are [name, idx, pos, uv, nrm, mats] with plain scalars.     *)
(***************************************************************************)
EXTENDS ObjFormat

St(t, x, c, s) == [t |-> t, x |-> x, c |-> c, s |-> s]
SumTo(f(_), n) == FoldLeft(LAMBDA acc, i : acc + f(i), 0, [i \in 1..n |-> i])

(* ------------------------------ writer -------------------------------- *)
Decls(m) ==
    [i \in DOMAIN m.pos |-> St("v", m.pos[i], <<>>, "")]
    \o [i \in DOMAIN m.uv |-> St("vt", m.uv[i], <<>>, "")]
    \o [i \in DOMAIN m.nrm |-> St("vn", m.nrm[i], <<>>, "")]

MtlName(x) == IF x = "<nil>" THEN "DefaultDiffuse" ELSE x

\* faces for index positions from+1 .. to (1-based positions in idx, multiples of 3 apart);
\* reading past the index buffer is what makes the real writer panic: a "bad" statement
FaceStmts(m, from, to, ov, ot, on) ==
    [k \in 1..((to - from) \div 3) |->
        LET b == from + 3 * (k - 1) IN
        IF b + 3 > Len(m.idx) THEN St("bad", <<>>, <<>>, "index buffer overrun")
        ELSE St("f", <<>>,
                [c \in 1..3 |-> LET v == m.idx[b + c] IN
                    <<v + 1 + ov, IF m.uv = <<>> THEN 0 ELSE v + 1 + ot, IF m.nrm = <<>> THEN 0 ELSE v + 1 + on>>],
                "")]

RECURSIVE RangeStmts(_, _, _, _, _, _)
RangeStmts(m, r, off, ov, ot, on) ==
    IF r > Len(m.mats) THEN <<>>
    ELSE <<St("usemtl", <<>>, <<>>, MtlName(m.mats[r].m))>>
         \o FaceStmts(m, off, off + 3 * m.mats[r].n, ov, ot, on)
         \o RangeStmts(m, r + 1, off + 3 * m.mats[r].n, ov, ot, on)

WriteImpl(meshes, shared) ==
    LET n == Len(meshes)
        ov(i) == SumTo(LAMBDA j : Len(meshes[j].pos), i - 1)
        ot(i) == IF shared THEN ov(i) ELSE SumTo(LAMBDA j : Len(meshes[j].uv), i - 1)
        on(i) == IF shared THEN ov(i) ELSE SumTo(LAMBDA j : Len(meshes[j].nrm), i - 1)
        section(i) ==
            LET m == meshes[i] IN
            (IF n > 1 \/ m.name # "" THEN <<St("g", <<>>, <<>>, m.name)>> ELSE <<>>)
            \o (IF m.mats = <<>> THEN FaceStmts(m, 0, Len(m.idx), ov(i), ot(i), on(i))
                ELSE RangeStmts(m, 1, 0, ov(i), ot(i), on(i)))
    IN <<St("x", <<>>, <<>>, "")>>
       \o Flat([i \in 1..n |-> Decls(meshes[i])])
       \o Flat([i \in 1..n |-> section(i)])

(* ------------------------------ reader -------------------------------- *)
Fixed == [atG |-> TRUE, pad |-> TRUE]
Pinned == [atG |-> FALSE, pad |-> FALSE]

W0(name) == [name |-> name, keys |-> <<>>, idx |-> <<>>, pos |-> <<>>, uv |-> <<>>, nrm |-> <<>>, mats |-> <<>>]
R0 == [vs |-> <<>>, vts |-> <<>>, vns |-> <<>>, since |-> 0, geoms |-> <<>>, w |-> W0("")]

Zeros(k) == [i \in 1..k |-> 0]
PadTo(seq, n, k) == seq \o [i \in 1..(n - Len(seq)) |-> Zeros(k)]

ToMesh(w, fx) ==
    [name |-> w.name, idx |-> w.idx, pos |-> w.pos,
     uv |-> IF fx.pad /\ w.uv # <<>> THEN PadTo(w.uv, Len(w.pos), 2) ELSE w.uv,
     nrm |-> IF fx.pad /\ w.nrm # <<>> THEN PadTo(w.nrm, Len(w.pos), 3) ELSE w.nrm,
     mats |-> w.mats]

CloseRange(w, since) ==
    IF since > 0 /\ w.mats # <<>> THEN [w EXCEPT !.mats[Len(w.mats)].n = since] ELSE w

IndexOf(seq, x) == IF \E i \in DOMAIN seq : seq[i] = x THEN CHOOSE i \in DOMAIN seq : seq[i] = x ELSE 0

\* one corner token of an f statement
AddCorner(r, c, fx) ==
    LET w == r.w
        at == IndexOf(w.keys, c) IN
    IF at # 0 THEN [r EXCEPT !.w.idx = Append(@, at - 1)]
    ELSE LET nv == Len(w.pos)
             nrm1 == IF c[3] = 0 THEN w.nrm
                     ELSE Append(IF fx.pad THEN PadTo(w.nrm, nv, 3) ELSE w.nrm, r.vns[c[3]])
             uv1 == IF c[2] = 0 THEN w.uv
                    ELSE Append(IF fx.pad THEN PadTo(w.uv, nv, 2) ELSE w.uv, r.vts[c[2]]) IN
         [r EXCEPT !.w = [w EXCEPT !.keys = Append(@, c), !.idx = Append(@, nv),
                                   !.pos = Append(@, r.vs[c[1]]), !.nrm = nrm1, !.uv = uv1]]

ReadStep(r, st, fx) ==
    CASE st.t = "v" -> [r EXCEPT !.vs = Append(@, st.x)]
      [] st.t = "vt" -> [r EXCEPT !.vts = Append(@, st.x)]
      [] st.t = "vn" -> [r EXCEPT !.vns = Append(@, st.x)]
      [] st.t = "usemtl" ->
            LET w1 == IF r.since > 0
                      THEN IF r.w.mats = <<>> THEN [r.w EXCEPT !.mats = <<[n |-> r.since, m |-> "Default"]>>]
                           ELSE [r.w EXCEPT !.mats[Len(r.w.mats)].n = r.since]
                      ELSE r.w IN
            [r EXCEPT !.w = [w1 EXCEPT !.mats = Append(@, [n |-> 0, m |-> st.s])], !.since = 0]
      [] st.t = "g" ->
            IF r.w.idx # <<>>
            THEN [r EXCEPT !.geoms = Append(@, ToMesh(IF fx.atG THEN CloseRange(r.w, r.since) ELSE r.w, fx)),
                           !.w = W0(st.s),
                           !.since = IF fx.atG THEN 0 ELSE @]
            ELSE [r EXCEPT !.w.name = st.s, !.since = IF fx.atG THEN 0 ELSE @]
      [] st.t = "f" ->
            LET r1 == AddCorner(r, st.c[1], fx)
                r2 == AddCorner(r1, st.c[2], fx)
                r3 == AddCorner(r2, st.c[3], fx) IN
            [r3 EXCEPT !.since = @ + 1]
      [] OTHER -> r

\* requires a valid text (Denote(stmts).ok)
ReadImpl(stmts, fx) ==
    LET r == FoldLeft(LAMBDA acc, st : ReadStep(acc, st, fx), R0, stmts) IN
    Append(r.geoms, ToMesh(CloseRange(r.w, r.since), fx))

(* --------------------------- design properties ------------------------ *)
AsSrcVec(v) == [i \in DOMAIN v |-> <<v[i], v[i]>>]
AsSrc(m) == [name |-> m.name, idx |-> m.idx, pos |-> [i \in DOMAIN m.pos |-> AsSrcVec(m.pos[i])],
             uv |-> [i \in DOMAIN m.uv |-> AsSrcVec(m.uv[i])], nrm |-> [i \in DOMAIN m.nrm |-> AsSrcVec(m.nrm[i])],
             mats |-> m.mats]
AsSrcs(meshes) == [i \in DOMAIN meshes |-> AsSrc(meshes[i])]

\* sentence 1 on the models: what the written text says, and what reading it back gives
WriterBad(meshes, shared) ==
    LET den == Denote(WriteImpl(meshes, shared)) IN
    IF ~den.ok THEN {"Valid"}
    ELSE GroupsBad(SrcGroups(AsSrcs(meshes)), DenGroups(den), NamedMats(meshes))
RoundTripBad(meshes, shared, fx) ==
    LET text == WriteImpl(meshes, shared) IN
    IF ~Denote(text).ok THEN {"Valid"}
    ELSE GroupsBad(SrcGroups(AsSrcs(meshes)), ReadGroups(ReadImpl(text, fx)), NamedMats(meshes))

\* sentence 2 on the models: load a valid text, save it, compare the faces
ResaveBad(stmts, shared, fx) ==
    LET d0 == Denote(stmts)
        d2 == Denote(WriteImpl(ReadImpl(stmts, fx), shared)) IN
    IF ~d2.ok THEN {"SaveValid"}
    ELSE (IF Surplus(FacesPos(d0.groups), FacesPos(d2.groups)) # {} THEN {"SaveFacesLost"} ELSE {})
         \cup (IF Surplus(FacesPos(d2.groups), FacesPos(d0.groups)) # {} THEN {"SaveFacesInvented"} ELSE {})
=============================================================================
