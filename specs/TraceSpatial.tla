---------------------------- MODULE TraceSpatial ----------------------------
(***************************************************************************)
(* Trace validation for the spatial indexes (C16).                         *)
(* trace.ndjson (written by `vh spatial-exec`, one line per call batch):   *)
(*  {"k":"tree","case","kind","depth","n","st","exact","eb":[box],"cells"} *)
(*       the real OctTree built for an element set, dumped through the     *)
(*       verif hook: cells = [lo,hi,el,ch] in pre-order, eb = element      *)
(*       bounds (lattice integers)                                         *)
(*  batch lines {"k","case","fail":[i..],"nan":[i..],"b":[entry..]}: entry *)
(*  i answers query i of the case; fail = calls that panicked, nan = a     *)
(*  non-finite / out-of-budget real among the facts (harness limit), nana  *)
(*  = the same in the index's own answer (a wrong answer)                  *)
(*   closest  {d2,cp,mcp,ri,rp}        OctTree.ClosestPoint                *)
(*   contain  {hit,res}                ElementsContainingPoint             *)
(*   range    {hit,res}                ElementsWithinRange                 *)
(*   ray      {hit,res,trav}           ElementsIntersectingRay and the     *)
(*                                     passive TraverseIntersectingRay     *)
(*   near     {te,hitb,vis,ri,rt}      narrowing traversal (nearest hit)   *)
(*   hit      {te,list,bvh,oct,msh,msh2} HitList / BVHNode / rendering.Tree*)
(*                                     / rendering.Mesh.Hit / Mesh.Hit2    *)
(*                                     (st "NONE": not a mesh scene)       *)
(*  {"k":"scene","kind","n","rep","st"}   hittables + one BVH build        *)
(* d2, cp, te, hit, hitb are the exhaustive scan (element-level real       *)
(* primitives applied to every element); ri/rp/res/trav/vis/rt/list/bvh/   *)
(* oct are what the real index answered. TLC judges; rejected lines are    *)
(* printed as {"l","bad","fails"} (fails: entry numbers per predicate).    *)
(*                                                                         *)
(* Round 2. A tree may come from any mesh-level entry point (attr: the     *)
(* float3 attribute it was built on, "" = Mesh.OctTree / OctTreeDepth) of  *)
(* a mesh with any index buffer; the scan (eb, d2, cp, ...) is taken from  *)
(* the unrolled twin of the mesh (Position only, implied indices), so it   *)
(* does not share the route of the index. Next to it the MESH-LEVEL scan   *)
(* is logged - Primitive.BoundingBox(attr) (tree line: mst, meb) and       *)
(* Primitive.ClosestPoint(attr, q) (closest entries: mcp; line: mfail) of  *)
(* every primitive Mesh.ScanPrimitives hands out - and judged by           *)
(*   C16.ScanAgree  the two scans say the same about every element, and    *)
(*                  the closest point of an element lies in its bounds     *)
(* and C16.Closest also demands that the returned point lies inside the    *)
(* bounds of the returned element.                                         *)
(*                                                                         *)
(* Round 5. VALUE CLASSES: a query may be the IEEE respelling of another    *)
(* query of the same batch (negative zero components, a subnormal added to  *)
(* the radius); entry.tw names the twin entry (0 = none). The reals are the *)
(* same, so                                                                 *)
(*   C16.ValueClass  facts and answer of the entry are those of its twin    *)
(* and set-query entries echo the query integers (q), from which the model  *)
(* computes its OWN scan over the lattice bounds of the tree line           *)
(* (SpatialIndex!PtBoxRef / RangeBoxRef / RayBoxRef, three-valued):         *)
(*   C16.ContainRef / C16.RangeRef / C16.RayRef  the library's scan and the *)
(*                  index's answer contain every MUST and no NOT element    *)
(* An entry without tw / q, or with a twin outside the batch, is ill-formed *)
(* (Harness.Shape) and is never dereferenced.                               *)
(***************************************************************************)
EXTENDS SpatialIndex, TLC, Json

Trace == ndJsonDeserialize("trace.ndjson")

FxS == 65536  \* fixed-point units per lattice unit (harness/spatial/types.go: S)

VARIABLES l, n, tree, ebs
vars == <<l, n, tree, ebs>>

Init == l = 1 /\ n = 0 /\ tree = "none" /\ ebs = <<>>

Line == Trace[l]
B == Line.b
\* entries (by number) for which P does not hold
Fails(P(_)) == {i \in DOMAIN B : ~P(i)}
Ran(i) == i \notin Range(Line.fail)
Finite(i) == i \notin Range(Line.nan)
\* the index's own answer is a finite number inside the budget
Answered(i) == i \notin Range(Line.nana)

Report(f) ==
    LET bad == {p \in DOMAIN f : f[p] # {}}
    IN IF bad = {} THEN TRUE
       ELSE PrintT(ToJson([l |-> l, bad |-> bad, fails |-> [p \in bad |-> f[p]]]))

Tree ==
    /\ Line.k = "tree"
    /\ LET ln == Line
           built == ln.st = "OK"
           shapeOK == built => (Len(ln.eb) = ln.n /\ \A e \in DOMAIN ln.eb : WellFormedBox(ln.eb[e]))
           unsound == IF built /\ shapeOK THEN TreeUnsound(ln.cells, ln.eb, ln.n) ELSE {}
           \* the mesh-level scan of the bounds: the same boxes, element by element
           scanOK == built => (ln.mst = "NONE" \/ (ln.mst = "OK" /\ ln.meb = ln.eb))
       IN /\ Report([p \in {"C16.Build", "C16.TreeSound", "C16.ScanAgree", "Harness.Inexact", "Harness.Shape"} |->
                      CASE p = "C16.Build" -> IF built THEN {} ELSE {0}
                        [] p = "C16.TreeSound" -> IF unsound = {} THEN {} ELSE {0}
                        [] p = "C16.ScanAgree" -> IF scanOK THEN {} ELSE {0}
                        [] p = "Harness.Inexact" -> IF built /\ ~ln.exact THEN {0} ELSE {}
                        [] OTHER -> IF shapeOK THEN {} ELSE {0}])
          /\ n' = IF built THEN ln.n ELSE 0
          /\ tree' = ln.kind
          /\ ebs' = IF built /\ shapeOK THEN ln.eb ELSE <<>>
    /\ l' = l + 1

\* ---- round 5: twins and model-side references ----
HasF(e, f) == f \in DOMAIN e
TwinShape(i) == HasF(B[i], "tw") /\ (B[i].tw = 0 \/ (B[i].tw \in DOMAIN B /\ B[i].tw # i /\ HasF(B[B[i].tw], "tw")))
\* same(a, b): the compared parts of entry a and of its twin b are equal
TwinOK(i, same(_, _)) == TwinShape(i) /\ (B[i].tw = 0 \/ same(B[i], B[B[i].tw]))
SameSet(a, b) == Range(a) = Range(b)
QShape(i, len) == HasF(B[i], "q") /\ Len(B[i].q) = len
\* ref(q, box) over the bounds of the current tree
RefOf(ref(_, _), i) == [e \in 1..n |-> ref(B[i].q, ebs[e])]

\* every fact list talks about the n elements of the current tree
FactsN(s) == Len(s) = n
Ids(s) == Range(s) \subseteq 1..n

\* fixed-point point p inside lattice box b, to within the band
FxIn(p, b) == \A d \in 1..3 : b.lo[d] * FxS - Band <= p[d] /\ p[d] <= b.hi[d] * FxS + Band
FxNear(p, q) == \A d \in 1..3 : p[d] - q[d] <= Band /\ q[d] - p[d] <= Band
HaveBounds == Len(ebs) = n
\* the mesh-level scan of entry i agrees with the scan, element by element
MeshScanOK(i) ==
    /\ i \notin Range(Line.mfail)
    /\ Len(B[i].mcp) = 0 \/ (Len(B[i].mcp) = n /\ \A e \in 1..n : FxNear(B[i].mcp[e], B[i].cp[e]))
\* every element's closest point lies in that element's bounds
ScanInBounds(i) == HaveBounds => \A e \in 1..n : FxIn(B[i].cp[e], ebs[e])

Closest ==
    /\ Line.k = "closest"
    /\ Report([p \in {"C16.Closest", "C16.ScanAgree", "C16.ValueClass", "Harness.NaN", "Harness.Shape"} |->
          CASE p = "C16.ValueClass" ->
                 Fails(LAMBDA i : ~TwinShape(i) \/ TwinOK(i, LAMBDA a, b : a.d2 = b.d2 /\ a.cp = b.cp /\ a.rp = b.rp))
            [] p = "C16.Closest" ->
                 Fails(LAMBDA i : Ran(i) /\ (~Finite(i) \/ ~FactsN(B[i].d2) \/
                        (/\ Answered(i) /\ ClosestOK(B[i].d2, B[i].cp, B[i].ri, B[i].rp)
                         /\ HaveBounds => FxIn(B[i].rp, ebs[B[i].ri]))))
            [] p = "C16.ScanAgree" ->
                 Fails(LAMBDA i : ~Finite(i) \/ ~FactsN(B[i].d2) \/ ~FactsN(B[i].cp) \/ (MeshScanOK(i) /\ ScanInBounds(i)))
            [] p = "Harness.NaN" -> Fails(Finite)
            [] OTHER -> Fails(LAMBDA i : FactsN(B[i].d2) /\ FactsN(B[i].cp) /\ TwinShape(i))])
    /\ UNCHANGED <<n, tree, ebs>> /\ l' = l + 1

\* the scan (hit) and the answer (res) respect the model's own scan over the lattice bounds
RefOK(ref(_, _), i, len) ==
    ~HaveBounds \/ ~QShape(i, len) \/ (RefAgrees(RefOf(ref, i), B[i].hit) /\ (Ran(i) => RefAgrees(RefOf(ref, i), B[i].res)))
SetTwin(i) == ~TwinShape(i) \/ TwinOK(i, LAMBDA a, b : SameSet(a.hit, b.hit) /\ SameSet(a.res, b.res))

SetQuery(kind, pred, refpred, ref(_, _), qlen) ==
    /\ Line.k = kind
    /\ Report([p \in {pred, refpred, "C16.ValueClass", "Harness.Shape"} |->
          CASE p = pred -> Fails(LAMBDA i : Ran(i) /\ SetAgrees(B[i].res, B[i].hit))
            [] p = refpred -> Fails(LAMBDA i : RefOK(ref, i, qlen))
            [] p = "C16.ValueClass" -> Fails(SetTwin)
            [] OTHER -> Fails(LAMBDA i : Ids(B[i].hit) /\ TwinShape(i) /\ QShape(i, qlen))])
    /\ UNCHANGED <<n, tree, ebs>> /\ l' = l + 1

Ray ==
    /\ Line.k = "ray"
    /\ Report([p \in {"C16.Ray", "C16.Traverse", "C16.RayRef", "C16.ValueClass", "Harness.Shape"} |->
          CASE p = "C16.Ray" -> Fails(LAMBDA i : Ran(i) /\ SetAgrees(B[i].res, B[i].hit))
            [] p = "C16.Traverse" -> Fails(LAMBDA i : Ran(i) /\ SetAgrees(B[i].trav, B[i].hit))
            [] p = "C16.RayRef" ->
                 Fails(LAMBDA i : RefOK(RayBoxRef, i, 11) /\ (~HaveBounds \/ ~QShape(i, 11) \/ ~Ran(i) \/ RefAgrees(RefOf(RayBoxRef, i), B[i].trav)))
            [] p = "C16.ValueClass" ->
                 Fails(LAMBDA i : ~TwinShape(i) \/ TwinOK(i, LAMBDA a, b : SameSet(a.hit, b.hit) /\ SameSet(a.res, b.res) /\ SameSet(a.trav, b.trav)))
            [] OTHER -> Fails(LAMBDA i : Ids(B[i].hit) /\ TwinShape(i) /\ QShape(i, 11))])
    /\ UNCHANGED <<n, tree, ebs>> /\ l' = l + 1

\* narrowing traversal: right nearest hit, and only elements whose bounds the
\* ray crosses inside the initial range are offered to the iterator, once each
Near ==
    /\ Line.k = "near"
    /\ Report([p \in {"C16.Nearest", "C16.ValueClass", "Harness.NaN", "Harness.Shape"} |->
          CASE p = "C16.ValueClass" ->
                 Fails(LAMBDA i : ~TwinShape(i) \/ TwinOK(i, LAMBDA a, b : a.te = b.te /\ SameSet(a.hitb, b.hitb) /\ a.rt = b.rt))
            [] p = "C16.Nearest" ->
                 Fails(LAMBDA i : Ran(i) /\ (~Finite(i) \/ ~FactsN(B[i].te) \/
                        (/\ Answered(i) /\ NearestOK(B[i].te, B[i].ri, B[i].rt)
                         /\ NoDup(B[i].vis) /\ Range(B[i].vis) \subseteq Range(B[i].hitb))))
            [] p = "Harness.NaN" -> Fails(Finite)
            [] OTHER -> Fails(LAMBDA i : FactsN(B[i].te) /\ Ids(B[i].hitb) /\ TwinShape(i))])
    /\ UNCHANGED <<n, tree, ebs>> /\ l' = l + 1

Scene ==
    /\ Line.k = "scene"
    /\ Report([p \in {"C16.Build"} |-> IF Line.st = "OK" THEN {} ELSE {0}])
    /\ n' = Line.n /\ tree' = Line.kind /\ ebs' = <<>>
    /\ l' = l + 1

Returned(r) == r.st = "OK"
Absent(r) == r.st = "NONE"
Hit ==
    /\ Line.k = "hit"
    /\ Report([p \in {"C16.ListHit", "C16.BvhHit", "C16.OctHit", "C16.MeshHit", "C16.MeshHit2", "C16.ValueClass", "Harness.NaN", "Harness.Shape"} |->
          CASE p = "C16.ValueClass" ->
                 Fails(LAMBDA i : ~TwinShape(i) \/ TwinOK(i, LAMBDA a, b : a.te = b.te /\ a.list = b.list /\ a.bvh = b.bvh /\ a.oct = b.oct))
            [] p = "C16.ListHit" ->
                 Fails(LAMBDA i : ~Finite(i) \/ ~FactsN(B[i].te) \/ (Answered(i) /\ Returned(B[i].list) /\ HitOK(B[i].te, B[i].list)))
            [] p = "C16.BvhHit" ->
                 Fails(LAMBDA i : ~Finite(i) \/ ~FactsN(B[i].te) \/
                        (/\ Answered(i) /\ Returned(B[i].bvh) /\ HitOK(B[i].te, B[i].bvh)
                         /\ Returned(B[i].list) => SameHit(B[i].bvh, B[i].list)))
            [] p = "C16.OctHit" ->
                 Fails(LAMBDA i : ~Finite(i) \/ ~FactsN(B[i].te) \/
                        (/\ Answered(i) /\ Returned(B[i].oct) /\ HitOK(B[i].te, B[i].oct)
                         /\ Returned(B[i].list) => SameHit(B[i].oct, B[i].list)))
            [] p = "C16.MeshHit" ->
                 Fails(LAMBDA i : ~Finite(i) \/ ~FactsN(B[i].te) \/ Absent(B[i].msh) \/
                        (/\ Answered(i) /\ Returned(B[i].msh) /\ HitOK(B[i].te, B[i].msh)
                         /\ Returned(B[i].list) => SameHit(B[i].msh, B[i].list)))
            [] p = "C16.MeshHit2" ->
                 Fails(LAMBDA i : ~Finite(i) \/ ~FactsN(B[i].te) \/ Absent(B[i].msh2) \/
                        (/\ Answered(i) /\ Returned(B[i].msh2) /\ HitOK(B[i].te, B[i].msh2)
                         /\ Returned(B[i].list) => SameHit(B[i].msh2, B[i].list)))
            [] p = "Harness.NaN" -> Fails(Finite)
            [] OTHER -> Fails(LAMBDA i : FactsN(B[i].te) /\ TwinShape(i))])
    /\ UNCHANGED <<n, tree, ebs>> /\ l' = l + 1

Next == l <= Len(Trace) /\ (Tree \/ Closest \/ SetQuery("contain", "C16.Contain", "C16.ContainRef", PtBoxRef, 5)
                            \/ SetQuery("range", "C16.Range", "C16.RangeRef", RangeBoxRef, 8)
                            \/ Ray \/ Near \/ Scene \/ Hit)
Spec == Init /\ [][Next]_vars

TraceAccepted == TLCGet("stats").diameter - 1 = Len(Trace)
=============================================================================
