---------------------------- MODULE TraceSpatial ----------------------------
(***************************************************************************)
(* Trace validation for the spatial indexes (C16).                         *)
(* trace.ndjson (written by `vh spatial-exec`, one line per call batch):   *)
(*  {"k":"tree","case","kind","depth","n","st","exact","eb":[box],"cells"} *)
(*       the real OctTree built for an element set, dumped through the     *)
(*       verif hook: cells = [lo,hi,el,ch] in pre-order, eb = element      *)
(*       bounds (lattice integers)                                         *)
(*  {"k":"closest","b":[{q,st,nan,d2,cp,ri,rp}]}   OctTree.ClosestPoint    *)
(*  {"k":"contain","b":[{q,st,hit,res}]}           ElementsContainingPoint *)
(*  {"k":"range",  "b":[{q,st,hit,res}]}           ElementsWithinRange     *)
(*  {"k":"ray",    "b":[{q,st,hit,res,trav}]}      ElementsIntersectingRay *)
(*                                   + TraverseIntersectingRay (passive)   *)
(*  {"k":"near",   "b":[{q,st,nan,te,hitb,vis,ri,rt}]}  narrowing traversal*)
(*  {"k":"scene","kind","n","rep","st"}     hittables + one BVH build      *)
(*  {"k":"hit","b":[{q,nan,te,list,bvh,oct}]}  HitList / BVHNode / Tree.Hit*)
(* d2, cp, te, hit, hitb are the exhaustive scan (element-level real       *)
(* primitives applied to every element); ri/rp/res/trav/vis/rt/list/bvh/   *)
(* oct are what the real index answered. TLC judges; rejected lines are    *)
(* printed as {"l","bad","fails"} (fails: entry numbers per predicate).    *)
(***************************************************************************)
EXTENDS SpatialIndex, TLC, Json

Trace == ndJsonDeserialize("trace.ndjson")

VARIABLES l, n, tree
vars == <<l, n, tree>>

Init == l = 1 /\ n = 0 /\ tree = "none"

Line == Trace[l]
B == Line.b
Fails(P(_)) == {i \in DOMAIN B : ~P(B[i])}

Report(f) ==
    LET bad == {p \in DOMAIN f : f[p] # {}}
    IN IF bad = {} THEN TRUE
       ELSE PrintT(ToJson([l |-> l, bad |-> bad, fails |-> [p \in bad |-> f[p]]]))

Tree ==
    /\ Line.k = "tree"
    /\ LET ln == Line
           built == ln.st = "OK"
           shapeOK == built => (Len(ln.eb) = ln.n /\ \A e \in DOMAIN ln.eb : WellFormedBox(ln.eb[e]))
           unsound == IF built /\ shapeOK THEN TreeUnsound(ln.cells, ln.eb, ln.n) ELSE {}
       IN /\ Report([p \in {"C16.Build", "C16.TreeSound", "Harness.Inexact", "Harness.Shape"} |->
                      CASE p = "C16.Build" -> IF built THEN {} ELSE {0}
                        [] p = "C16.TreeSound" -> IF unsound = {} THEN {} ELSE {0}
                        [] p = "Harness.Inexact" -> IF built /\ ~ln.exact THEN {0} ELSE {}
                        [] OTHER -> IF shapeOK THEN {} ELSE {0}])
          /\ n' = IF built THEN ln.n ELSE 0
          /\ tree' = ln.kind
    /\ l' = l + 1

\* every fact list talks about the n elements of the current tree
FactsN(s) == Len(s) = n
Ids(s) == Range(s) \subseteq 1..n

Closest ==
    /\ Line.k = "closest"
    /\ Report([p \in {"C16.Closest", "Harness.NaN", "Harness.Shape"} |->
          CASE p = "C16.Closest" ->
                 Fails(LAMBDA e : e.st = "OK" /\ (e.nan \/ ~FactsN(e.d2) \/ ClosestOK(e.d2, e.cp, e.ri, e.rp)))
            [] p = "Harness.NaN" -> Fails(LAMBDA e : ~e.nan)
            [] OTHER -> Fails(LAMBDA e : FactsN(e.d2) /\ FactsN(e.cp))])
    /\ UNCHANGED <<n, tree>> /\ l' = l + 1

SetQuery(kind, pred) ==
    /\ Line.k = kind
    /\ Report([p \in {pred, "Harness.Shape"} |->
          IF p = pred THEN Fails(LAMBDA e : e.st = "OK" /\ SetAgrees(e.res, e.hit))
          ELSE Fails(LAMBDA e : Ids(e.hit))])
    /\ UNCHANGED <<n, tree>> /\ l' = l + 1

Ray ==
    /\ Line.k = "ray"
    /\ Report([p \in {"C16.Ray", "C16.Traverse", "Harness.Shape"} |->
          CASE p = "C16.Ray" -> Fails(LAMBDA e : e.st = "OK" /\ SetAgrees(e.res, e.hit))
            [] p = "C16.Traverse" -> Fails(LAMBDA e : e.st = "OK" /\ SetAgrees(e.trav, e.hit))
            [] OTHER -> Fails(LAMBDA e : Ids(e.hit))])
    /\ UNCHANGED <<n, tree>> /\ l' = l + 1

\* narrowing traversal: right nearest hit, and only elements whose bounds the
\* ray crosses inside the initial range are offered to the iterator, once each
Near ==
    /\ Line.k = "near"
    /\ Report([p \in {"C16.Nearest", "Harness.NaN", "Harness.Shape"} |->
          CASE p = "C16.Nearest" ->
                 Fails(LAMBDA e : e.st = "OK" /\ (e.nan \/ ~FactsN(e.te) \/
                        (NearestOK(e.te, e.ri, e.rt) /\ NoDup(e.vis) /\ Range(e.vis) \subseteq Range(e.hitb))))
            [] p = "Harness.NaN" -> Fails(LAMBDA e : ~e.nan)
            [] OTHER -> Fails(LAMBDA e : FactsN(e.te) /\ Ids(e.hitb))])
    /\ UNCHANGED <<n, tree>> /\ l' = l + 1

Scene ==
    /\ Line.k = "scene"
    /\ Report([p \in {"C16.Build"} |-> IF Line.st = "OK" THEN {} ELSE {0}])
    /\ n' = Line.n /\ tree' = Line.kind
    /\ l' = l + 1

Ran(r) == r.st = "OK"
Hit ==
    /\ Line.k = "hit"
    /\ Report([p \in {"C16.ListHit", "C16.BvhHit", "C16.OctHit", "Harness.NaN", "Harness.Shape"} |->
          CASE p = "C16.ListHit" -> Fails(LAMBDA e : e.nan \/ ~FactsN(e.te) \/ (Ran(e.list) /\ HitOK(e.te, e.list)))
            [] p = "C16.BvhHit" -> Fails(LAMBDA e : e.nan \/ ~FactsN(e.te) \/
                                          (Ran(e.bvh) /\ HitOK(e.te, e.bvh) /\ (Ran(e.list) => SameHit(e.bvh, e.list))))
            [] p = "C16.OctHit" -> Fails(LAMBDA e : e.nan \/ ~FactsN(e.te) \/
                                          (Ran(e.oct) /\ HitOK(e.te, e.oct) /\ (Ran(e.list) => SameHit(e.oct, e.list))))
            [] p = "Harness.NaN" -> Fails(LAMBDA e : ~e.nan)
            [] OTHER -> Fails(LAMBDA e : FactsN(e.te))])
    /\ UNCHANGED <<n, tree>> /\ l' = l + 1

Next == l <= Len(Trace) /\ (Tree \/ Closest \/ SetQuery("contain", "C16.Contain") \/ SetQuery("range", "C16.Range")
                            \/ Ray \/ Near \/ Scene \/ Hit)
Spec == Init /\ [][Next]_vars

TraceAccepted == TLCGet("stats").diameter - 1 = Len(Trace)
=============================================================================
