------------------------------ MODULE ParSeam ------------------------------
(***************************************************************************)
(* C10 -- WHICH CELLS A BLOCK OWNS when a canvas is marched block by block *)
(* (marchFloat1 / marchFloat1Parallel: one job per storage block), along   *)
(* one axis, and where an iso-surface lies RELATIVE TO A BLOCK SEAM.       *)
(* Design check of the per-block decomposition of the march and GENERATOR  *)
(* of seam scenarios for the replay binding (checks/parfam.py).            *)
(*                                                                         *)
(* Samples live at integer positions c; block b stores the samples         *)
(* b*S .. b*S+S-1 (zero where no field wrote).  A cell [c, c+1] is marched *)
(* by the block of its LOW corner, Blk(c): the job of block b therefore    *)
(* owns S cells but only S-1 of them have both corners in b -- the SEAM    *)
(* CELL c = b*S+S-1 reads its high corner from block b+1 (and exists only  *)
(* when b+1 is registered).  Contract of the parallel march:               *)
(*   MarchEqual   the union of the block jobs' crossing cells is the set   *)
(*                of crossing cells of the whole canvas                    *)
(* A job that decides from ITS OWN SAMPLES ALONE whether there is anything *)
(* to march ("a block whose samples are all on one side of the cutoff      *)
(* holds no surface", SkipUniform) forgets the seam cell: refuted by TLC   *)
(* (ParSeamSkip.cfg) with the surface exactly in the seam layer and the    *)
(* lower block uniform; the owned-cells design (ParSeam.cfg) passes.       *)
(*                                                                         *)
(* The fields are slabs that are THIN across the axis, so every registered *)
(* block also holds never-written zeros next to the slab ("pad"): a cell   *)
(* at the rim of the slab has pad corners too.  A scenario (initial state) *)
(* is                                                                      *)
(*   pos    where the surface lies: "lower" = between the last two layers  *)
(*          of the lower block (S-2|S-1), "seam" = exactly in the seam     *)
(*          cell layer (S-1|0), "upper" = between the first two layers of  *)
(*          the upper block (0|1)                                          *)
(*   sgn    which side is solid (+1: the high side)                        *)
(*   thick  0: half space; 1, 2: a plate that many cells thick (a second   *)
(*          surface)                                                       *)
(*   cut    twice the cutoff: -1, 0, 1 (decides on which side the zeros    *)
(*          of never-written samples are)                                  *)
(*   low    what the lower block holds: "sampled" (the slab reaches into   *)
(*          it), "padded" (registered by the empty last job of an earlier  *)
(*          field ending on its low border: all zero), "absent"            *)
(*   up     "sampled" | "padded" (the slab ends exactly on the seam: the   *)
(*          upper block is registered by the empty last job, all zero)     *)
(* and is printed with its classification: which blocks are uniform in     *)
(* their own samples, whether a seam cell crosses, whether a block that is *)
(* uniform in its own samples owns a crossing cell (uown).                 *)
(* The model is one axis; checks/parfam.py places it along x, y or z (and, *)
(* as orthant solids, along two or three axes at once: edge and corner     *)
(* seams) on the real 100-cell blocks.                                     *)
(***************************************************************************)
EXTENDS Integers, FiniteSets, TLC, Json

CONSTANTS S,            \* block edge of the model (real canvas: 100); >= 4
          SkipUniform   \* design under test: a job skips a block that is uniform in its own samples

VARIABLE sc
vars == <<sc>>

Blk(c) == c \div S
Blocks == {-1, 0, 1}                        \* the seam under study is the one between blocks 0 and 1
Cells == (0 - S) .. (2 * S - 1)
Reach == S - 1                              \* the slab reaches this far from the seam

Scenarios ==
    [pos : {"lower", "seam", "upper"}, sgn : {-1, 1}, thick : {0, 1, 2}, cut : {-1, 0, 1},
     low : {"sampled", "padded", "absent"}, up : {"sampled", "padded"}]
Admissible(s) == s.up = "padded" => s.low = "sampled"

(* ---- the fields of a scenario: canvas ranges [mn, mx) along the axis ---- *)
Main(s) == << (IF s.low = "sampled" THEN S - Reach ELSE S), (IF s.up = "sampled" THEN S + Reach ELSE S) >>
Early(s) == << 0 - Reach, 0 >>              \* ends on the low border of block 0: its last job is empty
Ranges(s) == IF s.low = "padded" THEN {Early(s), Main(s)} ELSE {Main(s)}
Registered(s) == UNION {Blk(r[1]) .. Blk(r[2]) : r \in Ranges(s)}     \* ParFieldGeom: the exclusive end counts
Written(s) == UNION {r[1] .. (r[2] - 1) : r \in Ranges(s)}

(* ---- the lattice field: values in {-2,-1,1,2} by signed distance --------- *)
T(s) == IF s.pos = "lower" THEN S - 1 ELSE IF s.pos = "seam" THEN S ELSE S + 1   \* first sample of the high side
Dist(s, c) ==           \* in half cells, odd; positive inside the solid
    LET d == s.sgn * (2 * c - (2 * T(s) - 1))
    IN IF s.thick > 0 /\ 2 * s.thick - d < d THEN 2 * s.thick - d ELSE d
Val(s, c) == LET d == Dist(s, c) IN IF d >= 3 THEN -2 ELSE IF d >= 1 THEN -1 ELSE IF d >= -1 THEN 1 ELSE 2
Stored(s, c) == IF c \in Written(s) THEN Val(s, c) ELSE 0
Inside(s, v) == 2 * v < s.cut

(* ---- cells: <<c, "in">> inside the slab, <<c, "rim">> at its rim --------- *)
AllCells == Cells \X {"in", "rim"}
Corners(s, cell) == {Stored(s, cell[1]), Stored(s, cell[1] + 1)} \cup (IF cell[2] = "rim" THEN {0} ELSE {})
Exists(s, cell) == cell[1] + 1 \in Cells /\ Blk(cell[1]) \in Registered(s) /\ Blk(cell[1] + 1) \in Registered(s)
Crosses(s, cell) == \E v1, v2 \in Corners(s, cell) : Inside(s, v1) # Inside(s, v2)
Owner(cell) == Blk(cell[1])
IsSeam(cell) == Blk(cell[1] + 1) # Blk(cell[1])

\* March: one pass over every cell of the canvas
SeqMesh(s) == {cell \in AllCells : Exists(s, cell) /\ Crosses(s, cell)}

\* MarchParallel: one job per registered block, the results are merged
OwnSamples(s, b) == {Stored(s, c) : c \in (b * S) .. (b * S + S - 1)} \cup {0}
Uniform(s, b) == \A v1, v2 \in OwnSamples(s, b) : Inside(s, v1) = Inside(s, v2)
JobMesh(s, b) == IF SkipUniform /\ Uniform(s, b) THEN {}
                 ELSE {cell \in AllCells : Owner(cell) = b /\ Exists(s, cell) /\ Crosses(s, cell)}
ParMesh(s) == UNION {JobMesh(s, b) : b \in Registered(s)}

Init == sc \in {s \in Scenarios : Admissible(s)}
Spec == Init /\ [][FALSE]_vars

(* ---- design properties --------------------------------------------------- *)
MarchEqual == ParMesh(sc) = SeqMesh(sc)
\* the cells of a job are not the cells among its own samples: the seam cell reads the next block
OwnedReadsNeighbour ==
    \A cell \in AllCells : Exists(sc, cell) /\ IsSeam(cell) => Blk(cell[1] + 1) = Owner(cell) + 1

(* ---- generator output ---------------------------------------------------- *)
Kind(s, b) == IF b \notin Registered(s) THEN "absent"
              ELSE IF ~Uniform(s, b) THEN "crossing"
              ELSE IF \A c \in (b * S) .. (b * S + S - 1) : c \notin Written(s) THEN "zero"
              ELSE IF Inside(s, 0) THEN "uniform-in" ELSE "uniform-out"
Describe(s) ==
    [seam |-> s,
     main |-> Main(s), early |-> (IF s.low = "padded" THEN Early(s) ELSE <<0, 0>>), t |-> T(s),
     lowkind |-> Kind(s, 0), upkind |-> Kind(s, 1),
     seamx |-> \E cell \in SeqMesh(s) : IsSeam(cell) /\ Owner(cell) = 0,
     ncross |-> Cardinality(SeqMesh(s)),
     uown |-> \E cell \in SeqMesh(s) : Uniform(s, Owner(cell))]
Emit == PrintT(ToJson(Describe(sc)))
=============================================================================
