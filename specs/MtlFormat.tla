------------------------------ MODULE MtlFormat ------------------------------
(***************************************************************************)
(* Wavefront MTL material libraries as a statement machine, their          *)
(* denotation, and the contracts of polyform's obj.WriteMaterial(s) /      *)
(* obj.ReadMaterials and of obj.Save / SaveAll / Load on the pair of files *)
(* (extra-coverage property X03).  Companion of ObjFormat.tla.             *)
(*                                                                         *)
(* A LIBRARY is a sequence of STATEMENTS, each the record [t, s, nm, x]:   *)
(*   t = "newmtl"    s = name (rest of the line), nm = its character codes *)
(*   t = "Kd" "Ka" "Ks"      x = <<r, g, b>> or <<r>> (g = b = r), colour  *)
(*                   statement scalars are integers in units of 1/CQ       *)
(*   t = "Ns" "Ni"   x = <<lo, hi>>: the two float32 neighbours of the     *)
(*                   number in the text (lo = hi when representable; see   *)
(*                   harness/mtlfam/num.go), opaque to the specification   *)
(*   t = "d"         x = <<k, k>>, k in units of 1/DQ (dissolve; 1 opaque) *)
(*   t = "map_Kd" "map_Ks" "map_Bump" "norm"   s = path (rest of the line) *)
(*   t = "x"         anything a reader must skip (comment, illum, Tf ...)  *)
(*   t = "bad"       a line of a known keyword that cannot be read         *)
(*                                                                         *)
(* MACHINE state                                                           *)
(*   mats, open, cur : closed blocks, whether a block is open, the open    *)
(*                     block [nm, name, p] with p : keyword -> <<>> (not   *)
(*                     stated) or the stated value                         *)
(*   err, why        : 0, or the number of the first statement that is not *)
(*                     valid where it stands ("noname": newmtl without a   *)
(*                     name; "name": a name that is not one token;         *)
(*                     "orphan": a parameter before any newmtl; "dup": a   *)
(*                     parameter stated twice in one block; "malformed")   *)
(*                                                                         *)
(* MATERIALS as the harness projects them through public fields            *)
(*   source  [nil, nm, name, kd, ka, ks, ns, ni, tr, mapkd, mapks, norm]   *)
(*           kd/ka/ks = <<>> (nil colour) or <<r, g, b, a>>, what          *)
(*           color.Color.RGBA() returns (16 bit, may exceed 65535 for a    *)
(*           colour type that does not honour the interface);              *)
(*           ns/ni/tr = <<lo, hi>>; mapkd/mapks/norm = <<>> or <<path>>    *)
(*   observed: the same with ns/ni/tr a single integer                     *)
(*                                                                         *)
(* Bands (all integer arithmetic):                                         *)
(*   writer   a colour channel is written with 3 decimals:                 *)
(*            |w/CQ - s/65535| <= 0.0005                                   *)
(*   reader   the stored channel is the nearest 8-bit level of the text    *)
(*            value, saturated: |o/65535 - clamp(w/CQ)| <= 1/510           *)
(*   both     |o - clamp(s)|/65535 <= 0.0005 + 1/510, which for an 8-bit   *)
(*            source colour means: exactly the same colour                 *)
(*   scalars  float32 precision = membership in <<lo, hi>>                 *)
(* int32 budget: |w| <= 3 CQ and s <= 2*65535 are tested before any        *)
(* product; the largest product is 65535 * 3 CQ = 1 966 050 000 < 2^31.    *)
(***************************************************************************)
EXTENDS Integers, Sequences, FiniteSets, SequencesExt, TLC

CQ == 10000
DQ == 1024
Full == 65535

ColourKeys == {"Kd", "Ka", "Ks"}
ScalarKeys == {"Ns", "Ni", "d"}
TexKeys == {"map_Kd", "map_Ks", "map_Bump", "norm"}
ParamKeys == ColourKeys \cup ScalarKeys \cup TexKeys

Abs(x) == IF x < 0 THEN 0 - x ELSE x
Blank(c) == c \in {32, 9, 13, 10}
HasBlank(nm) == \E i \in DOMAIN nm : Blank(nm[i])
\* a name the format can carry as it is
Token(nm) == nm # <<>> /\ ~HasBlank(nm)

Blk0(nm, s) == [nm |-> nm, name |-> s, p |-> [k \in ParamKeys |-> <<>>]]
MtlM0 == [mats |-> <<>>, open |-> FALSE, cur |-> Blk0(<<>>, ""), err |-> 0, why |-> "", n |-> 0]

Value(st) ==
    CASE st.t \in ColourKeys -> IF Len(st.x) = 1 THEN <<st.x[1], st.x[1], st.x[1]>> ELSE st.x
      [] st.t \in ScalarKeys -> st.x
      [] OTHER -> <<st.s>>

\* "" when the statement is valid in machine state m, else the reason
MtlStmtWhy(m, st) ==
    CASE st.t = "newmtl" -> IF st.nm = <<>> THEN "noname" ELSE IF HasBlank(st.nm) THEN "name" ELSE ""
      [] st.t \in ParamKeys ->
            IF ~m.open THEN "orphan"
            ELSE IF st.t \in ColourKeys /\ Len(st.x) \notin {1, 3} THEN "malformed"
            ELSE IF st.t \in ScalarKeys /\ Len(st.x) # 2 THEN "malformed"
            ELSE IF st.t \in TexKeys /\ st.s = "" THEN "malformed"
            ELSE IF m.cur.p[st.t] # <<>> THEN "dup"
            ELSE ""
      [] st.t = "x" -> ""
      [] OTHER -> "malformed"

\* one statement = one action of the format machine
MtlStep(m, st) ==
    IF m.err # 0 THEN m
    ELSE LET k == m.n + 1
             w == MtlStmtWhy(m, st) IN
         IF w # "" THEN [m EXCEPT !.err = k, !.why = w, !.n = k]
         ELSE CASE st.t = "newmtl" ->
                      [m EXCEPT !.mats = IF m.open THEN Append(@, m.cur) ELSE @,
                                !.open = TRUE, !.cur = Blk0(st.nm, st.s), !.n = k]
                [] st.t \in ParamKeys -> [m EXCEPT !.cur.p[st.t] = Value(st), !.n = k]
                [] OTHER -> [m EXCEPT !.n = k]

MtlRun(stmts) == FoldLeft(MtlStep, MtlM0, stmts)

(***************************************************************************)
(* Denote: the materials the library SAYS, in file order.                  *)
(***************************************************************************)
MtlDenote(stmts) ==
    LET m == MtlRun(stmts) IN
    [ok |-> m.err = 0, at |-> m.err, why |-> m.why,
     mats |-> IF m.open THEN Append(m.mats, m.cur) ELSE m.mats]

\* every colour statement of a valid library stays within 0..1 (a reader may refuse others)
InRange(den) ==
    \A i \in DOMAIN den.mats : \A k \in ColourKeys :
        \A c \in DOMAIN den.mats[i].p[k] : den.mats[i].p[k][c] >= 0 /\ den.mats[i].p[k][c] <= CQ

(***************************************************************************)
(* Writer contract: source material c against a block b of the library.    *)
(***************************************************************************)
ChanW(s, w) ==
    /\ w >= 0 - CQ /\ w <= 3 * CQ /\ s >= 0 /\ s <= 2 * Full
    /\ Abs(Full * w - CQ * s) <= 327675            \* 0.0005 * CQ * 65535

Opaque(sc) == sc[4] = Full
ColW(sc, bc) ==
    \/ sc = <<>> /\ bc = <<>>
    \/ sc # <<>> /\ bc # <<>> /\ (~Opaque(sc) \/ \A i \in 1..3 : ChanW(sc[i], bc[i]))

\* a scalar the library does not state reads as zero
ScalW(sp, bp) == IF bp = <<>> THEN sp = <<0, 0>> ELSE bp = sp
DissW(tr, bd) == IF bd = <<>> THEN tr = <<0, 0>> ELSE tr[1] = tr[2] /\ bd[1] = bd[2] /\ bd[1] = DQ - tr[1]
TexW(st, bt) == st = bt
NormW(st, b) ==
    IF st = <<>> THEN b.p["norm"] = <<>> /\ b.p["map_Bump"] = <<>>
    ELSE /\ b.p["norm"] # <<>> \/ b.p["map_Bump"] # <<>>
         /\ b.p["norm"] \in {<<>>, st} /\ b.p["map_Bump"] \in {<<>>, st}

\* which parts of the content of block b do NOT describe source material c (c.nil: anything does)
ContentBadW(c, b) ==
    IF c.nil THEN {}
    ELSE (IF ColW(c.kd, b.p["Kd"]) /\ ColW(c.ka, b.p["Ka"]) /\ ColW(c.ks, b.p["Ks"]) THEN {} ELSE {"Colour"})
         \cup (IF ScalW(c.ns, b.p["Ns"]) /\ ScalW(c.ni, b.p["Ni"]) /\ DissW(c.tr, b.p["d"]) THEN {} ELSE {"Scalar"})
         \cup (IF TexW(c.mapkd, b.p["map_Kd"]) /\ TexW(c.mapks, b.p["map_Ks"]) /\ NormW(c.norm, b) THEN {} ELSE {"Texture"})
MatchesW(c, b) == ContentBadW(c, b) = {}

(***************************************************************************)
(* WriteBad(srcs, den): srcs = the material of every range handed to the   *)
(* writer (flattened, in order), den = MtlDenote(written text).            *)
(*   Covers     every material is described by some block; when no block   *)
(*              describes it but some carry its name (blanks removed), the *)
(*              parts in which the closest of them is off are reported     *)
(*              instead (Colour / Scalar / Texture)                        *)
(*   NameKept   a name that is a token is written as it is                 *)
(*   Ambiguous  another block of the same name says something else         *)
(*   Invented   a block that describes no source material                  *)
(***************************************************************************)
\* for the DETAIL of a rejection only: the name with its blanks removed, and of several candidates the
\* one that is off in the fewest parts
Squeeze(nm) == SelectSeq(nm, LAMBDA ch : ~Blank(ch))
Fewest(S, Bad(_)) ==
    IF S = {} THEN {} ELSE Bad(CHOOSE i \in S : \A j \in S : Cardinality(Bad(i)) <= Cardinality(Bad(j)))

Cands(c, den) == {i \in DOMAIN den.mats : MatchesW(c, den.mats[i])}
SameName(den, i) == {j \in DOMAIN den.mats : den.mats[j].nm = den.mats[i].nm}
Named(c, den) == {i \in DOMAIN den.mats : den.mats[i].nm = c.nm}
Alike(c, den) == {i \in DOMAIN den.mats : den.mats[i].nm = Squeeze(c.nm)}

RangeBadW(c, den) ==
    LET cs == Cands(c, den)
        ks == IF ~c.nil /\ Token(c.nm) THEN cs \cap Named(c, den) ELSE cs IN
    IF cs = {} THEN
        IF ~c.nil /\ Alike(c, den) # {} THEN Fewest(Alike(c, den), LAMBDA i : ContentBadW(c, den.mats[i]))
        ELSE {"Covers"}
    ELSE IF ks = {} THEN {"NameKept"}
    ELSE IF \E i \in ks : SameName(den, i) \subseteq cs THEN {} ELSE {"Ambiguous"}

WriteBad(srcs, den) ==
    UNION {RangeBadW(srcs[r], den) : r \in DOMAIN srcs}
    \cup (IF \A i \in DOMAIN den.mats : \E r \in DOMAIN srcs : MatchesW(srcs[r], den.mats[i]) THEN {} ELSE {"Invented"})

(***************************************************************************)
(* Reader contract: observed material o against the block b it was read    *)
(* from.  `one` is the harness' encoding of the real number 1.             *)
(***************************************************************************)
ChanR(w, o) ==
    IF w <= 0 THEN o = 0
    ELSE IF w >= CQ THEN o = Full
    ELSE o >= 0 /\ o <= Full /\ Abs(CQ * o - Full * w) <= 1285000      \* CQ * 65535 / 510

ColR(bc, oc) ==
    \/ bc = <<>> /\ oc = <<>>
    \/ bc # <<>> /\ oc # <<>> /\ oc[4] = Full /\ \A i \in 1..3 : ChanR(bc[i], oc[i])

ScalR(bp, o, absent) == IF bp = <<>> THEN o \in absent ELSE o = bp[1] \/ o = bp[2]
DissR(bd, o) == IF bd = <<>> THEN o = 0 ELSE o = DQ - bd[1] \/ o = DQ - bd[2]
NormR(b, o) ==
    LET said == {b.p["norm"], b.p["map_Bump"]} \ {<<>>} IN
    IF said = {} THEN o = <<>> ELSE o \in said

ContentBadR(b, o, one) ==
    (IF ColR(b.p["Kd"], o.kd) /\ ColR(b.p["Ka"], o.ka) /\ ColR(b.p["Ks"], o.ks) THEN {} ELSE {"Colour"})
    \cup (IF ScalR(b.p["Ns"], o.ns, {0}) /\ ScalR(b.p["Ni"], o.ni, {0, one}) /\ DissR(b.p["d"], o.tr) THEN {} ELSE {"Scalar"})
    \cup (IF o.mapkd = b.p["map_Kd"] /\ o.mapks = b.p["map_Ks"] /\ NormR(b, o.norm) THEN {} ELSE {"Texture"})

\* rd: what ReadMaterials returned for a valid library den: one material per block, in file order
ReadBad(den, rd, one) ==
    IF Len(rd) # Len(den.mats) THEN {"Count"}
    ELSE IF \E i \in DOMAIN rd : rd[i].nm # den.mats[i].nm THEN {"Names"}
    ELSE UNION {ContentBadR(den.mats[i], rd[i], one) : i \in DOMAIN rd}

(***************************************************************************)
(* Round trip: source material c against an observed material o that went  *)
(* through a library (written with 3 decimals, stored with 8 bits).        *)
(***************************************************************************)
Clamp(s) == IF s < 0 THEN 0 ELSE IF s > Full THEN Full ELSE s
ChanRt(s, o) == o >= 0 /\ o <= Full /\ s >= 0 /\ s <= 3 * Full /\ Abs(o - Clamp(s)) * 10000 <= 1612675
ColRt(sc, oc) ==
    \/ sc = <<>> /\ oc = <<>>
    \/ sc # <<>> /\ oc # <<>> /\ (~Opaque(sc) \/ (oc[4] = Full /\ \A i \in 1..3 : ChanRt(sc[i], oc[i])))
ScalRt(sp, o) == o = sp[1] \/ o = sp[2]

ContentBadRt(c, o) ==
    IF c.nil THEN {}
    ELSE IF o.nil THEN {"Missing"}
    ELSE (IF ColRt(c.kd, o.kd) /\ ColRt(c.ka, o.ka) /\ ColRt(c.ks, o.ks) THEN {} ELSE {"Colour"})
         \cup (IF ScalRt(c.ns, o.ns) /\ ScalRt(c.ni, o.ni) /\ ScalRt(c.tr, o.tr) THEN {} ELSE {"Scalar"})
         \cup (IF o.mapkd = c.mapkd /\ o.mapks = c.mapks /\ o.norm = c.norm THEN {} ELSE {"Texture"})
         \cup (IF Token(c.nm) /\ o.nm # c.nm THEN {"Name"} ELSE {})
MatchesRt(c, o) == ContentBadRt(c, o) = {}

\* srcs: flattened source ranges; rd: materials read back from the written library
RoundTripBad(srcs, rd) ==
    UNION {IF srcs[r].nil \/ \E i \in DOMAIN rd : MatchesRt(srcs[r], rd[i]) THEN {}
           ELSE LET alike == {i \in DOMAIN rd : rd[i].nm = Squeeze(srcs[r].nm)} IN
                IF alike = {} THEN {"Covers"} ELSE Fewest(alike, LAMBDA i : ContentBadRt(srcs[r], rd[i]))
           : r \in DOMAIN srcs}
    \cup (IF \A i \in DOMAIN rd : \E r \in DOMAIN srcs : MatchesRt(srcs[r], rd[i]) THEN {} ELSE {"Invented"})

(***************************************************************************)
(* The pair of files.  cs: per triangle of a source mesh [none, c] (none:  *)
(* the mesh has no material ranges; c: the source material); tris: per     *)
(* triangle of the OBJ denotation [m, own] (ObjFormat: material name in    *)
(* force, stated in this group); lib: the blocks of all libraries the OBJ  *)
(* refers to.  A usemtl name RESOLVES when the libraries have a block of   *)
(* that name and every block of that name describes the material.          *)
(***************************************************************************)
Defs(lib, name) == {i \in DOMAIN lib : lib[i].name = name}
ResolveBad(cs, tris, lib) ==
    IF Len(cs) # Len(tris) THEN {"Ranges"}
    ELSE UNION {IF cs[t].none THEN {}
                ELSE IF ~tris[t].own THEN {"NoUsemtl"}
                ELSE IF Defs(lib, tris[t].m) = {} THEN {"Undefined"}
                ELSE IF \A i \in Defs(lib, tris[t].m) : MatchesW(cs[t].c, lib[i]) THEN {}
                ELSE IF \E i \in Defs(lib, tris[t].m) : MatchesW(cs[t].c, lib[i]) THEN {"Ambiguous"}
                ELSE Fewest(Defs(lib, tris[t].m), LAMBDA i : ContentBadW(cs[t].c, lib[i]))
                : t \in DOMAIN cs}

\* os: per triangle of a loaded mesh [none, o]
LoadedBad(cs, os) ==
    IF Len(cs) # Len(os) THEN {"Ranges"}
    ELSE UNION {IF cs[t].none THEN {}
                ELSE IF os[t].none THEN {"Ranges"}
                ELSE ContentBadRt(cs[t].c, os[t].o)
                : t \in DOMAIN cs}

\* a loaded material o against the library blocks its usemtl name selects (reader contract)
PickedBad(tri, o, lib, one) ==
    IF ~tri.own \/ Defs(lib, tri.m) = {} THEN {}
    ELSE IF o.nil THEN {"Missing"}
    ELSE IF \E i \in Defs(lib, tri.m) : o.nm = lib[i].nm /\ ContentBadR(lib[i], o, one) = {} THEN {}
    ELSE LET same == {i \in Defs(lib, tri.m) : o.nm = lib[i].nm} IN
         IF same = {} THEN {"Name"} ELSE Fewest(same, LAMBDA i : ContentBadR(lib[i], o, one))

\* per triangle entries of a mesh whose ranges are [n, mat]
ExpandRanges(ranges) == FoldLeft(LAMBDA acc, r : acc \o [i \in 1..r.n |-> r.mat], <<>>, ranges)
=============================================================================
