\* the loop shape of the pinned tree's primitive scan helpers: TLC must refute Termination
CONSTANTS
  MaxN = 4
  MaxW = 3
  MinW = 1
  Loop = "size"
SPECIFICATION Spec
INVARIANTS AtMostOnce Termination
CHECK_DEADLOCK FALSE
