\* repaired shape: design check + exhaustive job-schedule generator
CONSTANTS
  MaxA = 2
  MaxB = 2
  MaxW = 3
  ReadUnderLock = TRUE
  CopyInWork = FALSE
  CopyInMain = FALSE
SPECIFICATION Spec
INVARIANTS NoRace MutexOK OwnBlock Termination EmitDone
CHECK_DEADLOCK FALSE
