CONSTANTS
  Versions = {1, 2}
  Counts = {0, 1, 2, 3}
  Degrees = {0, 1, 2, 3}
  FracBits = {0, 12, 24, 30}
  Patterns = {"perm", "ff", "80", "7f80"}
  Frames = {"stored0", "deflate"}
  CloudCounts = {0, 1, 2}
  Profiles = {1, 2, 3, 4, 5}
  EdgeCounts = {15}
  FbLadder = {0, 1, 6, 7, 8, 9, 14, 15, 16, 17, 22, 23, 24, 25, 30, 31, 32, 33, 62, 63, 64, 65, 126, 127, 128, 129, 255}
  Grans = {32768, 4096, 509}
  LadderFrames = {"deflate"}
  Deliveries = {0, 1, 7, 4096, 100001, 100013}
SPECIFICATION Spec
INVARIANTS Emit Tiles Ordered HalfLaw LadderLaw EdgeLaw FbLaw
CHECK_DEADLOCK FALSE
