CONSTANTS
  Versions = {1, 2}
  Counts = {0, 1, 2, 3}
  Degrees = {0, 1, 2, 3}
  FracBits = {0, 12, 24, 30}
  Patterns = {"perm", "ff", "80", "7f80"}
  Frames = {"stored0", "deflate"}
  CloudCounts = {0, 1, 2}
  Profiles = {1, 2, 3, 4, 5}
SPECIFICATION Spec
INVARIANTS Emit Tiles Ordered HalfLaw
CHECK_DEADLOCK FALSE
