------------------------------ MODULE MeshOps ------------------------------
(***************************************************************************)
(* Step semantics of the mesh pool: a step is                              *)
(*    [op, dst, src, args]                                                 *)
(* op   : name of a public operation (see Expect)                          *)
(* dst  : slot that receives the result (0 = the operation returns no mesh)*)
(* src  : sequence of source slots                                         *)
(* args : record of op-specific arguments (vectors in scaled integers)     *)
(* Shared by the generator (MeshPool) and the trace specification          *)
(* (TraceMeshPool) so that both bindings use one definition.               *)
(***************************************************************************)
EXTENDS MeshValue

S(step, pool, k) == pool[step.src[k]]

AttrOps == {"Normalize", "FlatNormals", "SmoothNormals", "Laplacian"}
AttrTarget(step) == IF step.op \in {"FlatNormals", "SmoothNormals"} THEN 2 ELSE step.args.id
AttrExpect(step, a) ==
    CASE step.op = "Normalize" -> IF HasAttr(a, 3, step.args.id) THEN a ELSE FailMesh
      [] step.op \in {"FlatNormals", "SmoothNormals"} ->
            IF a.topo = "triangle" /\ HasAttr(a, 3, 1) THEN a ELSE FailMesh
      [] OTHER -> IF HasAttr(a, 3, step.args.id) /\ a.topo \in {"triangle", "line strip", "line", "line loop"} THEN a ELSE FailMesh
AttrOk(step, a, res) ==
    /\ AttrFrameOk(res, a, 3, AttrTarget(step))
    /\ LET data == AttrData(res, 3, AttrTarget(step)) IN
       CASE step.op = "Normalize" -> NormalizeOk(a, step.args.id, data)
         [] step.op = "FlatNormals" -> FlatNormalsOk(a, data)
         [] step.op = "SmoothNormals" -> SmoothNormalsOk(a, data)
         [] OTHER -> LaplacianOk(a, step.args.id, step.args.iters, step.args.lam2, data)

Expect(step, pool) ==
    LET op == step.op
        g == step.args
        a == S(step, pool, 1)
    IN CASE op = "New"           -> g.mesh
         [] op = "Append"        -> MeshAppend(a, S(step, pool, 2))
         [] op = "SetIndices"    -> SetIndices(a, g.idx)
         [] op = "SetMaterial"   -> SetMaterial(a, g.m)
         [] op = "SetMaterials"  -> SetMaterials(a, g.mats)
         [] op = "SetAttr"       -> SetAttr(a, g.ar, g.id, g.data)
         [] op = "SetAttrWindow" -> SetAttr(a, g.ar, g.id, SubSeq(g.data, 1, g.n))   \* a window of a longer shared array
         [] op = "ModifyAttr"    -> ModifyAttr(a, g.ar, g.id, g.fn, g.k)
         [] op = "CopyAttr"      -> CopyAttr(a, S(step, pool, 2), g.ar, g.id)
         [] op = "Translate"     -> Translate(a, g.v)
         [] op = "Scale"         -> ScaleBy(a, g.s)
         [] op = "Rotate"        -> Rot90(a, 1, g.axis, g.turns)
         [] op = "ApplyTRS"      -> ApplyTRS(a, g.trs)
         [] op = "TranslateAttr" -> TranslateAttr(a, g.id, g.v)
         [] op = "ScaleAttr"     -> ScaleAttr(a, g.id, g.origin, g.s)
         [] op = "RotateAttr"    -> Rot90(a, g.id, g.axis, g.turns)
         [] op = "CenterAttr"    -> CenterAttr(a, g.id)
         [] op = "ToPointCloud"  -> ToPointCloud(a)
         [] op = "Unweld"        -> Unweld(a)
         [] op = "RemoveUnreferenced" -> RemoveUnreferenced(a)
         [] op = "FlipWinding"   -> FlipWinding(a)
         [] op = "Weld"          -> Weld(a, g.id, g.p10)
         [] op = "RemoveNullFaces" -> RemoveNullFaces(a, g.id)
         [] op = "Split"         -> LET parts == SplitOnMaterials(a)
                                    IN IF g.k <= Len(parts) THEN parts[g.k] ELSE NullMesh
         [] op = "Filter"        -> FilterGE(a, g.ar, g.id, g.thr)
         [] op = "Crop"          -> Crop(a, g.id, g.lo, g.hi)
         [] op = "Repeat"        -> Repeat(a, g.trss)
         [] op \in AttrOps       -> AttrExpect(step, a)   \* FAIL or the source (value judged by AttrOk)
         [] OTHER                -> NullMesh      \* Export / Scan: no mesh result

\* comparison class of the operation's result (C03)
Class(op) ==
    CASE op \in {"Unweld", "RemoveUnreferenced", "Split", "Filter", "Crop"} -> "corners"
      [] op \in {"Weld", "RemoveNullFaces"} -> "cornersnomats"
      [] op \in {"Export", "Scan", "Misc", "Prim"} -> "none"      \* Misc: judged on frame and well-formedness only
      [] op \in AttrOps -> "attr"
      [] OTHER -> "exact"

Equiv(class, res, exp) ==
    CASE class = "none" -> TRUE
      [] IsFail(exp) \/ IsNull(exp) -> res.topo = exp.topo
      [] class = "exact" -> EqExact(res, exp)
      [] class = "corners" -> EqCorners(res, exp)
      [] OTHER -> EqCornersNoMats(res, exp)

SrcOk(step, pool) ==
    \A k \in DOMAIN step.src : step.src[k] \in DOMAIN pool /\ IsMesh(pool[step.src[k]]) /\ WellFormed(pool[step.src[k]])

WeldBudget(data, p10) == \A i \in DOMAIN data : \A c \in DOMAIN data[i] :
                              data[i][c] <= 1073741824 \div p10 /\ data[i][c] >= 0 - (1073741824 \div p10)
SmallInt(data, bound) == \A i \in DOMAIN data : \A c \in DOMAIN data[i] : data[i][c] <= bound * Q /\ data[i][c] >= 0 - bound * Q

\* Is the step inside the contract's quantifier (well-formed sources, admissible arguments)?
Admissible(step, pool) ==
    LET op == step.op
        g == step.args
        a == S(step, pool, 1)
    IN /\ SrcOk(step, pool)
       /\ CASE op = "New" -> WellFormed(g.mesh) /\ SortedAttrs(g.mesh)
            [] op = "SetIndices" -> WellFormed(SetIndices(a, g.idx))
            [] op = "SetAttr" -> WellFormed(SetAttr(a, g.ar, g.id, g.data))
            [] op = "SetAttrWindow" -> g.n <= Len(g.data) /\ WellFormed(SetAttr(a, g.ar, g.id, SubSeq(g.data, 1, g.n)))
            [] op = "CopyAttr" -> WellFormed(CopyAttr(a, S(step, pool, 2), g.ar, g.id))
            [] op = "Split" -> SplitPre(a)
            [] op = "Filter" -> a.topo = "point"
            \* ClearAttributeData / Set*Data replace whole attribute maps: raw setters whose result is only as
            \* well formed as what the caller hands in (like SetAttr with a wrong length) - frame check only
            [] op = "Misc" -> g.kind \notin {8, 9}
            [] OTHER -> TRUE

\* Can the reference value be computed exactly in the integer model?
Judgeable(step, pool) ==
    LET op == step.op
        g == step.args
        a == S(step, pool, 1)
    IN \* values that left the 1/Q lattice (normals, normalised vectors...) are only known rounded:
       \* a reference computed from them could differ in the last unit, so such sources are not judged by value
       /\ \A k \in DOMAIN step.src : pool[step.src[k]].exact
       \* operations that decide by comparing values need sources without any floating-point noise
       /\ (op \in {"Crop", "Filter", "Weld", "RemoveNullFaces", "FlatNormals", "SmoothNormals"} => a.bx)
       /\ CASE op = "CenterAttr" -> HasAttr(a, 3, g.id) => CenterExact(a, g.id)
         [] op = "RemoveNullFaces" ->
                 HasAttr(a, 3, g.id) => (OnIntLattice(AttrData(a, 3, g.id)) /\ SmallInt(AttrData(a, 3, g.id), 1000))
         \* the rounding cell value * p10 must be computable in 32 bits: |value * Q| * p10 <= 2^30, i.e. coordinates
         \* up to 2^20 at decimal place 0 (the magnitude ladder of checks/meshpool.py), about 1000 at decimal place 3
         [] op = "Weld" -> HasAttr(a, 3, g.id) => WeldBudget(AttrData(a, 3, g.id), g.p10)
         [] op = "Normalize" -> NormalizeJudgeable(a, g.id)
         [] op \in {"FlatNormals", "SmoothNormals"} -> NormalsJudgeable(a) /\ AttrLen(a) > 0
         [] op = "Laplacian" -> LaplacianJudgeable(a, g.id) /\ a.topo = "triangle" /\ AttrLen(a) > 0
         [] OTHER -> TRUE

Pre(step, pool) == Admissible(step, pool) /\ Judgeable(step, pool)

NoTwoInCell(m, id, p10) ==
    HasAttr(m, 3, id) =>
        LET d == AttrData(m, 3, id) IN \A i, j \in DOMAIN d : i # j => Cell(d[i], p10) # Cell(d[j], p10)

\* op-specific post-conditions on the REAL result (C03)
PostOk(step, res, pool) ==
    LET op == step.op IN
    CASE op = "Unweld" -> IdentityIndices(res)
      [] op \in {"RemoveUnreferenced", "Filter", "Crop"} -> AllReferenced(res)
      [] op = "Split" -> IsNull(res) \/ Len(S(step, pool, 1).mats) < 2 \/ AllReferenced(res)
      [] op = "Weld" -> AllReferenced(res) /\ NoTwoInCell(res, step.args.id, step.args.p10)
      [] op = "ToPointCloud" -> res.topo = "point"
      [] OTHER -> TRUE

(***************************************************************************)
(* Judgement of one observed step (used by TraceMeshPool).                 *)
(*  before : pool before the step (as observed after the previous step)    *)
(*  after  : observed pool after the step                                  *)
(*  res    : observed result ("FAIL" mesh when the call panicked/errored)  *)
(***************************************************************************)
Judge(step, res, before, after) ==
    LET adm == Admissible(step, before)
        pre == adm /\ Judgeable(step, before)
        exp == Expect(step, before)
        dst == step.dst
        frameBad == {s \in DOMAIN before : s # dst /\ after[s] # before[s]}
        dstBad == dst # 0 /\ IsMesh(res) /\ after[dst] # res
        \* an ill-formed result cannot be dereferenced: it is rejected without evaluating the reference comparison
        wf == IsMesh(res) => WellFormed(res)
        \* every mesh that was well formed before the step still is (a derivation must not corrupt its operands)
        poolBad == {s \in DOMAIN before : IsMesh(before[s]) /\ WellFormed(before[s]) /\ s # dst
                                            /\ IsMesh(after[s]) /\ ~WellFormed(after[s])}
    IN (IF frameBad # {} THEN {"C01.Frame"} ELSE {})
       \cup (IF poolBad # {} THEN {"C02.PoolWellFormed"} ELSE {})
       \cup (IF dstBad THEN {"Harness.Dst"} ELSE {})
       \cup (IF adm /\ ~wf THEN {"C02.WellFormed"} ELSE {})
       \cup (IF pre /\ ~wf THEN {"C03.Result"} ELSE {})
       \cup (IF pre /\ wf /\ Class(step.op) # "attr" /\ ~Equiv(Class(step.op), res, exp) THEN {"C03.Result"} ELSE {})
       \cup (IF pre /\ wf /\ Class(step.op) = "attr" /\
                 ~(IF IsFail(exp) THEN IsFail(res) ELSE IsMesh(res) /\ AttrOk(step, S(step, before, 1), res))
             THEN {"C03.Result"} ELSE {})
       \cup (IF pre /\ wf /\ IsMesh(res) /\ IsMesh(exp) /\ ~PostOk(step, res, before) THEN {"C03.Post"} ELSE {})
=============================================================================
