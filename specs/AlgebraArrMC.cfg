CONSTANTS
  MaxN = 20
  MaxW = 6
  Variant = "ceil"
SPECIFICATION Spec
INVARIANTS Covered NoRace InRange
CHECK_DEADLOCK FALSE
