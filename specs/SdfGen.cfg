CONSTANTS
  Level = 1
SPECIFICATION Spec
INVARIANTS Adm Convex RefAgrees ConeLaws BoxLaws CylLaws TranslateLaw SetLaws Emit
CHECK_DEADLOCK FALSE
