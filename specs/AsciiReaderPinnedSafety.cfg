CONSTANTS NV = 3 NF = 2 W = 3 FW = 4 CheckScan = FALSE CheckWidth = TRUE Styles = {"ply", "pts"}
SPECIFICATION Spec
INVARIANTS TypeOK NoPlaceholder
CHECK_DEADLOCK FALSE
