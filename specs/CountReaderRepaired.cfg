CONSTANTS
  NPoints = 2
  NTracks = 2
  ZeroOnShort = TRUE
SPECIFICATION Spec
INVARIANTS NoPanic Reports NoFabrication Bounded
PROPERTIES Terminates
CHECK_DEADLOCK FALSE
