CONSTANTS NP = 2 NN = 3 Depth = 6 MapOrder = FALSE
SPECIFICATION Spec
INVARIANTS NoStale Minimal
CHECK_DEADLOCK FALSE
