----------------------------- MODULE AlgebraArrMC -----------------------------
(***************************************************************************)
(* Design-level model of a CHUNKED PARALLEL MAP (C17, round 5): an array   *)
(* of N elements is split over W workers; worker w (0-based) maps the      *)
(* index range [Lo(w), Hi(w)) in one step, workers run in any order.       *)
(* The array-level law "every element is mapped by the single-point        *)
(* function" needs: every index is written exactly once when all workers   *)
(* are done (Covered), no index is written twice at any time (NoRace),     *)
(* and no worker leaves the array (InRange).                               *)
(*                                                                         *)
(* Variant (how the ranges are computed):                                  *)
(*   "ceil"             chunk = ceil(N / W), every range clipped to N      *)
(*   "remainderToLast"  chunk = floor(N / W), the last worker takes the    *)
(*                      rest (what Mesh.ModifyFloat3AttributeParallel      *)
(*                      WithPoolSize does)                                 *)
(*   "floorDropTail"    chunk = floor(N / W) for everyone: the last        *)
(*                      N mod W elements belong to nobody  (the defect     *)
(*                      class; TLC must produce the counterexample)        *)
(*   "ceilNoClip"       chunk = ceil(N / W) without clipping: workers      *)
(*                      leave the array (second defect class)              *)
(* TLC checks all N in 0..MaxN, W in 1..MaxW.                              *)
(***************************************************************************)
EXTENDS Integers, FiniteSets

CONSTANTS MaxN, MaxW, Variant

VARIABLES N, W, done, cnt
vars == <<N, W, done, cnt>>

Min2(a, b) == IF a <= b THEN a ELSE b
Floor == N \div W
Ceil == (N + W - 1) \div W

Lo(w) == CASE Variant = "ceil" -> Min2(w * Ceil, N)
           [] Variant = "ceilNoClip" -> w * Ceil
           [] OTHER -> w * Floor
Hi(w) == CASE Variant = "ceil" -> Min2((w + 1) * Ceil, N)
           [] Variant = "ceilNoClip" -> (w + 1) * Ceil
           [] Variant = "remainderToLast" -> IF w = W - 1 THEN N ELSE (w + 1) * Floor
           [] OTHER -> (w + 1) * Floor

Init == /\ N \in 0..MaxN /\ W \in 1..MaxW
        /\ done = {}
        /\ cnt = [i \in 0..(MaxN + MaxN) |-> 0]     \* (room to see a worker leave the array)

Work(w) == /\ w \notin done
           /\ done' = done \cup {w}
           /\ cnt' = [i \in DOMAIN cnt |-> cnt[i] + (IF Lo(w) <= i /\ i < Hi(w) THEN 1 ELSE 0)]
           /\ UNCHANGED <<N, W>>

Next == \E w \in 0..(W - 1) : Work(w)
Spec == Init /\ [][Next]_vars

AllDone == done = 0..(W - 1)
Covered == AllDone => \A i \in 0..(N - 1) : cnt[i] = 1
NoRace == \A i \in DOMAIN cnt : cnt[i] <= 1
InRange == \A i \in DOMAIN cnt : i >= N => cnt[i] = 0
=============================================================================
