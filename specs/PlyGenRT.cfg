CONSTANTS
  ShapeIds = {3, 6}
  AttrIds = {1, 3, 4}
  MaxAttrs = 3
  OptIds = {1, 4}
SPECIFICATION Spec
INVARIANTS ModelHeaderDescribesBody ModelRoundTrip Emit
CHECK_DEADLOCK FALSE
