CONSTANTS Pinned = TRUE NProd = 3 Bad = {2}
SPECIFICATION Spec
INVARIANT NothingDropped
CHECK_DEADLOCK FALSE
