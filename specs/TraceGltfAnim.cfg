SPECIFICATION SpecX
POSTCONDITION TraceAccepted
CHECK_DEADLOCK FALSE
