------------------------------ MODULE SyncHeap ------------------------------
(***************************************************************************)
(* X01 - implementation-shaped (L2) model of NestedSyncMap in one thread:  *)
(* the Go maps are heap objects (SyncHeapOps), the clients hold REFERENCES. *)
(* The contract machine SyncMap runs alongside as ghost (t, hd, hist).     *)
(*                                                                         *)
(* CopyOut = FALSE is sync.go as found: Data() answers the root map, Get() *)
(* answers the inner map itself.  CopyOut = TRUE hands out deep copies.    *)
(* OverwriteData and Set ADOPT the map they are given (both designs); the  *)
(* caller builds a fresh one for the call and drops it (assumption LENT,   *)
(* kept by every caller in polyform: ApplyAppSchema passes the freshly     *)
(* unmarshalled document, the metadata endpoint the freshly decoded body). *)
(* What happens without LENT is shown by the operation "overk" (the caller *)
(* keeps the map it passed to OverwriteData): TLC refutes Isolated and     *)
(* Refines even with CopyOut = TRUE (HeapLent configuration) - this is the *)
(* part of the behaviour that is NOT guaranteed.                           *)
(*                                                                         *)
(* Checked by TLC:                                                         *)
(*   Refines   the heap abstracts to the contract state: tree and every    *)
(*             handle a client keeps (handles are VALUES at L1)            *)
(*   Isolated  no object a client can reach is reachable from the map      *)
(* With CopyOut = TRUE both hold on every history to the bound; with FALSE *)
(* TLC finds the counterexamples (Data(); Set(..): the client's "snapshot" *)
(* moved) and, as a generator, prints every shortest refuting history      *)
(* (EmitRisky) for replay on the real type.                                *)
(***************************************************************************)
EXTENDS SyncMap, SyncHeapOps

CONSTANT CopyOut

VARIABLES hp, root, hdl          \* hdl: handle -> object id (0: none)
hvars == <<t, hd, flat, hist, hp, root, hdl>>

HInit == Init /\ hp = <<{}>> /\ root = 1 /\ hdl = [h \in Handles |-> 0]

HandOut(h, o) ==         \* the client receives map o
    IF h = 0 THEN hp' = hp /\ hdl' = hdl
    ELSE IF CopyOut THEN LET c == CopyObj(hp, o) IN hp' = c.hp /\ hdl' = [hdl EXCEPT ![h] = c.id]
    ELSE hp' = hp /\ hdl' = [hdl EXCEPT ![h] = o]

HeapDo(o) ==
    CASE o.op = "set"  -> hp' = SetH(hp, root, o.p, o.val).hp /\ UNCHANGED <<root, hdl>>
      [] o.op = "del"  -> hp' = DelH(hp, root, o.p).hp /\ UNCHANGED <<root, hdl>>
      [] o.op = "get"  -> /\ LET g == GetH(hp, root, o.p) IN
                               IF g.ok /\ g.found /\ ~g.slot.leaf THEN HandOut(o.h, g.slot.x) ELSE hp' = hp /\ hdl' = hdl
                          /\ root' = root
      [] o.op = "data" -> HandOut(o.h, root) /\ root' = root
      [] o.op = "over" -> /\ LET r == AllocTree(hp, IF o.val.v = MAP THEN o.val.sub ELSE {}) IN hp' = r.hp /\ root' = r.id
                          /\ hdl' = hdl
      [] o.op = "overk" -> LET r == AllocTree(hp, o.val.sub) IN hp' = r.hp /\ root' = r.id /\ hdl' = [hdl EXCEPT ![o.h] = r.id]
      [] o.op = "hset" -> hp' = SetWalk(hp, hdl[o.h], o.p, 1, [leaf |-> TRUE, x |-> o.val.v]).hp /\ UNCHANGED <<root, hdl>>
      [] o.op = "hdel" -> hp' = DelH(hp, hdl[o.h], o.p).hp /\ UNCHANGED <<root, hdl>>
      [] OTHER -> UNCHANGED <<hp, root, hdl>>

HNext == Len(hist) < Depth /\ \E o \in Candidates : Do(o) /\ HeapDo(o)
HSpec == HInit /\ [][HNext]_hvars

Refines ==
    /\ Abs(hp, root) = t
    /\ \A h \in Handles : hd[h].live => hdl[h] # 0 /\ Abs(hp, hdl[h]) = hd[h].t

Isolated ==
    \A h \in Handles : hdl[h] # 0 =>
        /\ Reach(hp, hdl[h]) \cap Reach(hp, root) = {}
        /\ \A g \in Handles \ {h} : hdl[g] # 0 => Reach(hp, hdl[h]) \cap Reach(hp, hdl[g]) = {}

\* generator of risky histories: explore only while the heap still refines the contract, print where it stops
EmitRisky == Refines \/ PrintT(ToJson([nk |-> NK, steps |-> hist, risky |-> TRUE]))
WhileRefines == Refines
HView == <<t, hd, hp, root, hdl, Len(hist)>>
=============================================================================
