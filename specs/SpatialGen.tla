----------------------------- MODULE SpatialGen -----------------------------
(***************************************************************************)
(* C16, generator of the replay binding (B1): TLC enumerates every         *)
(* multiset of 1..MaxPts points on the lattice LC^3 (as non-decreasing     *)
(* sequences) and prints, for each, the element sets it stands for:        *)
(*   "point"  the points themselves (coincident points included)           *)
(*   "line"   the strip through them   (consecutive points distinct)       *)
(*   "box"    boxes spanned by consecutive pairs (degenerate boxes too)    *)
(*   "tri"    triangles (1,2,3) and, with four points, (2,3,4); no         *)
(*            collinear triple - the element-level closest point is not    *)
(*            defined for degenerate triangles                             *)
(* for every depth in Depths (-1 = automatic; the depths are printed once, *)
(* by the initial state). The initial state prints                         *)
(* the query grid shared by all cases: every point of QC^3 (inside, on and *)
(* outside the bounds), ranges around every grid point, axis-parallel rays *)
(* from every boundary grid point and diagonal rays from the corners.      *)
(* The harness executes each case on the real octree; TraceSpatial judges. *)
(*                                                                         *)
(* Round 2: every case of a mesh kind (point, line, tri) is printed with   *)
(* all its VARIANTS = index layout x attribute route. The element set is   *)
(* the same in every variant; what changes is how the mesh stores it and   *)
(* which entry point builds the tree:                                      *)
(*   layouts  "id"   vertices in order (points and strips: implied indices,*)
(*                   printed as an empty idx)                              *)
(*            "rev"  vertices stored backwards, idx renumbered             *)
(*            "gap"  a vertex nothing refers to stored first and last      *)
(*   routes   <<"", F>>          Mesh.OctTree / OctTreeDepth, Position only*)
(*            <<"", T>>          the same, a second float3 attribute exists*)
(*            <<"Position", T>>  OctTreeWithAttributeAndDepth("Position")  *)
(*            <<"Rest", T>>      .. on attribute Rest, Position = decoy    *)
(*            <<"Rest", F>>      .. on a mesh without Position             *)
(* The decoy is the congruent image p -> (p.z + 1, p.x, LMax+LMin - p.y):  *)
(* non-degenerate wherever the geometry is, and in other planes.           *)
(* checks/c16.py executes one variant (seeded choice) of every case.       *)
(***************************************************************************)
EXTENDS Integers, Sequences, FiniteSets, SequencesExt, TLC, Json

CONSTANTS LC,       \* lattice coordinates, e.g. {0, 2}
          MaxPts,   \* points per multiset
          QMargin,  \* the query grid reaches QMargin beyond the lattice on every side
          QStep,    \* and has this spacing (1 = every integer point)
          Depths,   \* explicit maximum depths, e.g. {0, 1, 2}
          WithAuto, \* TRUE: also the automatic depth (printed as -1)
          Kinds     \* subset of {"point","line","box","tri"}

VARIABLE pts
vars == <<pts>>

P3 == {<<x, y, z>> : x \in LC, y \in LC, z \in LC}
Key(p) == (p[1] * 64 + p[2]) * 64 + p[3]

Init == pts = <<>>
Add == /\ Len(pts) < MaxPts
       /\ \E p \in P3 : (IF pts = <<>> THEN TRUE ELSE Key(pts[Len(pts)]) <= Key(p)) /\ pts' = Append(pts, p)
Next == Add
Spec == Init /\ [][Next]_vars

Cross(a, b, c) ==
    LET u == <<b[1] - a[1], b[2] - a[2], b[3] - a[3]>>
        v == <<c[1] - a[1], c[2] - a[2], c[3] - a[3]>>
    IN <<u[2] * v[3] - u[3] * v[2], u[3] * v[1] - u[1] * v[3], u[1] * v[2] - u[2] * v[1]>>
Collinear(a, b, c) == Cross(a, b, c) = <<0, 0, 0>>

n == Len(pts)
Ok(kind) ==
    CASE kind = "point" -> TRUE
      [] kind = "line" -> n >= 2 /\ \A i \in 1..(n - 1) : pts[i] # pts[i + 1]
      [] kind = "box" -> n % 2 = 0
      [] kind = "tri" -> /\ n \in {3, 4}
                         /\ ~Collinear(pts[1], pts[2], pts[3])
                         /\ n = 4 => ~Collinear(pts[2], pts[3], pts[4])
      [] OTHER -> FALSE
Idx(kind) ==
    CASE kind = "tri" -> IF n = 3 THEN <<0, 1, 2>> ELSE <<0, 1, 2, 1, 2, 3>>
      [] OTHER -> [i \in 1..n |-> i - 1]

AllDepths == Depths \cup (IF WithAuto THEN {-1} ELSE {})

LMin == CHOOSE x \in LC : \A y \in LC : x <= y
LMax == CHOOSE x \in LC : \A y \in LC : x >= y

\* ---- variants: index layout x attribute route (mesh kinds only) ----
Far == <<LMax + 3, LMin - 2, LMax + 2>>
Implied(kind) == kind \in {"point", "line"}
LayVerts(lay) ==
    CASE lay = "rev" -> [i \in 1..n |-> pts[n + 1 - i]]
      [] lay = "gap" -> <<Far>> \o pts \o <<Far>>
      [] OTHER -> pts
LayIdx(kind, lay) ==
    LET id == Idx(kind)
    IN CASE lay = "rev" -> [i \in DOMAIN id |-> n - 1 - id[i]]
         [] lay = "gap" -> [i \in DOMAIN id |-> id[i] + 1]
         [] OTHER -> IF Implied(kind) THEN <<>> ELSE id
Dec(p) == <<p[3] + 1, p[1], LMax + LMin - p[2]>>
Layouts(kind) == IF kind = "box" THEN {"id"} ELSE {"id", "rev", "gap"}
Routes(kind) == IF kind = "box" THEN {<<"", FALSE>>}
                ELSE {<<"", FALSE>>, <<"", TRUE>>, <<"Position", TRUE>>, <<"Rest", TRUE>>, <<"Rest", FALSE>>}
Variants(kind) ==
    {[verts |-> LayVerts(lay), idx |-> IF kind = "box" THEN Idx(kind) ELSE LayIdx(kind, lay), lay |-> lay, attr |-> rt[1],
      decoy |-> IF rt[2] THEN [i \in DOMAIN LayVerts(lay) |-> Dec(LayVerts(lay)[i])] ELSE <<>>] :
        lay \in Layouts(kind), rt \in Routes(kind)}
\* one record per kind; it stands for one case per depth of AllDepths (printed once, with the grid)
Cases == {[kind |-> k, variants |-> SetToSeq(Variants(k))] : k \in {kk \in Kinds : Ok(kk)}}
QMin == LMin - QMargin
QC == {x \in QMin..(LMax + QMargin) : (x - QMin) % QStep = 0}
QMax == CHOOSE x \in QC : \A y \in QC : x >= y
Span == QMax - QMin
QP == {<<x, y, z>> : x \in QC, y \in QC, z \in QC}
Ranges == {<<p[1], p[2], p[3], r[1], r[2]>> : p \in QP, r \in {<<1, 1>>, <<3, 2>>}}
          \cup {<<p[1], p[2], p[3], r[1], r[2]>> : p \in P3, r \in {<<0, 1>>, <<2, 1>>}}
Unit(a, s) == [i \in 1..3 |-> IF i = a THEN s ELSE 0]
Ray(o, a, s, t) == <<o[1], o[2], o[3], Unit(a, s)[1], Unit(a, s)[2], Unit(a, s)[3], t[1], t[2], 1>>
\* rays entering the grid through each of its six faces, and rays starting on lattice points
AxisRays ==
    UNION {{Ray(o, as[1], as[2], <<0, 2 * Span>>) : o \in {p \in QP : p[as[1]] = IF as[2] = 1 THEN QMin ELSE QMax}} :
              as \in (1..3) \X {-1, 1}}
InnerRays ==
    {Ray(o, as[1], as[2], t) : o \in P3, as \in {<<1, 1>>, <<3, -1>>}, t \in {<<0, 2 * Span>>, <<1, 3>>}}
    \cup {Ray(o, 1, 1, <<1, 3>>) : o \in {p \in QP : p[1] = QMin}}
DiagRays ==
    {<<o[1], o[2], o[3], d[1], d[2], d[3], 0, 4 * Span, 1>> :
        o \in {p \in QP : \A i \in 1..3 : p[i] \in {QMin, QMax}},
        d \in {<<1, 1, 0>>, <<1, 1, 1>>, <<-1, 1, 1>>, <<1, -1, 0>>, <<-1, -1, -1>>, <<2, 1, 0>>}}
\* ---- round 5: VALUE CLASSES of the real-valued query parameters ----
\* Every query tuple is printed with two more integers <<.., zs, tw>> (ranges: <<.., zs, rc, tw>>):
\*   zs  bit mask of the components whose lattice value 0 stands for NEGATIVE ZERO (bit i-1 = component i of
\*       the tuple: qpts x,y,z; ranges x,y,z; rays ox,oy,oz,dx,dy,dz). -0 = +0 as reals: the query is the
\*       same query, so facts and answers must be those of the twin
\*   rc  (ranges) radius class: 0 = rn/rd, 1 = huge (1e300: every element), 2 = rn/rd + the smallest subnormal
\*   tw  position (1-based, in the same list) of the TWIN: the same query written with +0 / class 0; 0 = none
\* The base queries come first (in SetToSeq order), the class variants follow and name their base.
Pow2(k) == IF k = 0 THEN 1 ELSE IF k = 1 THEN 2 ELSE IF k = 2 THEN 4 ELSE IF k = 3 THEN 8 ELSE IF k = 4 THEN 16 ELSE 32
RECURSIVE MaskOf(_)
MaskOf(S) == IF S = {} THEN 0 ELSE LET i == CHOOSE j \in S : TRUE IN Pow2(i - 1) + MaskOf(S \ {i})
Zeros(t, dom) == {i \in dom : t[i] = 0}
\* which zero components are made negative: the direction's, everything, the first direction component alone
RayMasks(r, many) ==
    LET zd == Zeros(r, 4..6)  zo == Zeros(r, 1..3)
        all == {zd} \cup (IF many THEN {zo \cup zd, {CHOOSE i \in zd : \A j \in zd : i <= j}} ELSE {})
    IN {MaskOf(m) : m \in all \ {{}}}
PtMasks(p) == LET z == Zeros(p, 1..3) IN {MaskOf(m) : m \in {z, {CHOOSE i \in z : \A j \in z : i >= j}}}

BaseRays == SetToSeq(AxisRays \cup InnerRays \cup DiagRays)
\* base rays that get variants: every ray from a lattice point (all masks), the rays entering through one of
\* the six faces (travelling along -y) and the diagonal rays with a zero component (direction zeros only)
RayVarOf(i) ==
    LET r == BaseRays[i]
    IN IF r \in InnerRays /\ r[7] = 0 THEN RayMasks(r, TRUE)
       ELSE IF r \in DiagRays \/ (r \in AxisRays /\ r[5] = -1) THEN RayMasks(r, FALSE)
       ELSE {}
RayVars == SetToSeq(UNION {{<<i, m>> : m \in RayVarOf(i)} : i \in DOMAIN BaseRays})
AllRays == [i \in DOMAIN BaseRays |-> BaseRays[i] \o <<0, 0>>]
           \o [j \in DOMAIN RayVars |-> BaseRays[RayVars[j][1]] \o <<RayVars[j][2], RayVars[j][1]>>]

BasePts == SetToSeq(QP)
\* query points with at least two zero coordinates get variants
PtVars == SetToSeq(UNION {{<<i, m>> : m \in IF Cardinality(Zeros(BasePts[i], 1..3)) >= 2 THEN PtMasks(BasePts[i]) ELSE {}} :
                            i \in DOMAIN BasePts})
AllPts == [i \in DOMAIN BasePts |-> BasePts[i] \o <<0, 0>>]
          \o [j \in DOMAIN PtVars |-> BasePts[PtVars[j][1]] \o <<PtVars[j][2], PtVars[j][1]>>]

BaseRanges == SetToSeq(Ranges)
\* <<zs, rc>> variants of a range query: negative zeros of a centre with zeros; the huge radius and the
\* subnormal radius for the queries centred on lattice points
RangeVarOf(i) ==
    LET q == BaseRanges[i]
        z == Zeros(q, 1..3)
        onLat == <<q[1], q[2], q[3]>> \in P3
    IN (IF onLat /\ z # {} THEN {<<MaskOf(z), 0>>} ELSE {})
       \cup (IF onLat /\ q[4] = 0 THEN {<<0, 2>>, <<MaskOf(z), 2>>} ELSE {})
       \cup (IF onLat /\ q[4] = 2 THEN {<<0, 1>>} ELSE {})
RangeVars == SetToSeq(UNION {{<<i, v>> : v \in RangeVarOf(i)} : i \in DOMAIN BaseRanges})
\* the twin of a class variant is the base query; a huge radius has no twin (its answer is: every element)
AllRanges == [i \in DOMAIN BaseRanges |-> BaseRanges[i] \o <<0, 0, 0>>]
             \o [j \in DOMAIN RangeVars |->
                   LET i == RangeVars[j][1]  v == RangeVars[j][2]
                   IN BaseRanges[i] \o <<v[1], v[2], IF v[2] = 1 THEN 0 ELSE i>>]

Grid == [qpts |-> AllPts, ranges |-> AllRanges, rays |-> AllRays]

Emit == IF pts = <<>> THEN PrintT(ToJson([grid |-> Grid, depths |-> SetToSeq(AllDepths)]))
        ELSE Cases = {} \/ PrintT(ToJson([cases |-> SetToSeq(Cases)]))
=============================================================================
