----------------------------- MODULE SpatialGen -----------------------------
(***************************************************************************)
(* C16, generator of the replay binding (B1): TLC enumerates every         *)
(* multiset of 1..MaxPts points on the lattice LC^3 (as non-decreasing     *)
(* sequences) and prints, for each, the element sets it stands for:        *)
(*   "point"  the points themselves (coincident points included)           *)
(*   "line"   the strip through them   (consecutive points distinct)       *)
(*   "box"    boxes spanned by consecutive pairs (degenerate boxes too)    *)
(*   "tri"    triangles (1,2,3) and, with four points, (2,3,4); no         *)
(*            collinear triple - the element-level closest point is not    *)
(*            defined for degenerate triangles                             *)
(* for every depth in Depths (-1 = automatic; the depths are printed once, *)
(* by the initial state). The initial state prints                         *)
(* the query grid shared by all cases: every point of QC^3 (inside, on and *)
(* outside the bounds), ranges around every grid point, axis-parallel rays *)
(* from every boundary grid point and diagonal rays from the corners.      *)
(* The harness executes each case on the real octree; TraceSpatial judges. *)
(*                                                                         *)
(* Round 2: every case of a mesh kind (point, line, tri) is printed with   *)
(* all its VARIANTS = index layout x attribute route. The element set is   *)
(* the same in every variant; what changes is how the mesh stores it and   *)
(* which entry point builds the tree:                                      *)
(*   layouts  "id"   vertices in order (points and strips: implied indices,*)
(*                   printed as an empty idx)                              *)
(*            "rev"  vertices stored backwards, idx renumbered             *)
(*            "gap"  a vertex nothing refers to stored first and last      *)
(*   routes   <<"", F>>          Mesh.OctTree / OctTreeDepth, Position only*)
(*            <<"", T>>          the same, a second float3 attribute exists*)
(*            <<"Position", T>>  OctTreeWithAttributeAndDepth("Position")  *)
(*            <<"Rest", T>>      .. on attribute Rest, Position = decoy    *)
(*            <<"Rest", F>>      .. on a mesh without Position             *)
(* The decoy is the congruent image p -> (p.z + 1, p.x, LMax+LMin - p.y):  *)
(* non-degenerate wherever the geometry is, and in other planes.           *)
(* checks/c16.py executes one variant (seeded choice) of every case.       *)
(***************************************************************************)
EXTENDS Integers, Sequences, FiniteSets, SequencesExt, TLC, Json

CONSTANTS LC,       \* lattice coordinates, e.g. {0, 2}
          MaxPts,   \* points per multiset
          QMargin,  \* the query grid reaches QMargin beyond the lattice on every side
          QStep,    \* and has this spacing (1 = every integer point)
          Depths,   \* explicit maximum depths, e.g. {0, 1, 2}
          WithAuto, \* TRUE: also the automatic depth (printed as -1)
          Kinds     \* subset of {"point","line","box","tri"}

VARIABLE pts
vars == <<pts>>

P3 == {<<x, y, z>> : x \in LC, y \in LC, z \in LC}
Key(p) == (p[1] * 64 + p[2]) * 64 + p[3]

Init == pts = <<>>
Add == /\ Len(pts) < MaxPts
       /\ \E p \in P3 : (IF pts = <<>> THEN TRUE ELSE Key(pts[Len(pts)]) <= Key(p)) /\ pts' = Append(pts, p)
Next == Add
Spec == Init /\ [][Next]_vars

Cross(a, b, c) ==
    LET u == <<b[1] - a[1], b[2] - a[2], b[3] - a[3]>>
        v == <<c[1] - a[1], c[2] - a[2], c[3] - a[3]>>
    IN <<u[2] * v[3] - u[3] * v[2], u[3] * v[1] - u[1] * v[3], u[1] * v[2] - u[2] * v[1]>>
Collinear(a, b, c) == Cross(a, b, c) = <<0, 0, 0>>

n == Len(pts)
Ok(kind) ==
    CASE kind = "point" -> TRUE
      [] kind = "line" -> n >= 2 /\ \A i \in 1..(n - 1) : pts[i] # pts[i + 1]
      [] kind = "box" -> n % 2 = 0
      [] kind = "tri" -> /\ n \in {3, 4}
                         /\ ~Collinear(pts[1], pts[2], pts[3])
                         /\ n = 4 => ~Collinear(pts[2], pts[3], pts[4])
      [] OTHER -> FALSE
Idx(kind) ==
    CASE kind = "tri" -> IF n = 3 THEN <<0, 1, 2>> ELSE <<0, 1, 2, 1, 2, 3>>
      [] OTHER -> [i \in 1..n |-> i - 1]

AllDepths == Depths \cup (IF WithAuto THEN {-1} ELSE {})

LMin == CHOOSE x \in LC : \A y \in LC : x <= y
LMax == CHOOSE x \in LC : \A y \in LC : x >= y

\* ---- variants: index layout x attribute route (mesh kinds only) ----
Far == <<LMax + 3, LMin - 2, LMax + 2>>
Implied(kind) == kind \in {"point", "line"}
LayVerts(lay) ==
    CASE lay = "rev" -> [i \in 1..n |-> pts[n + 1 - i]]
      [] lay = "gap" -> <<Far>> \o pts \o <<Far>>
      [] OTHER -> pts
LayIdx(kind, lay) ==
    LET id == Idx(kind)
    IN CASE lay = "rev" -> [i \in DOMAIN id |-> n - 1 - id[i]]
         [] lay = "gap" -> [i \in DOMAIN id |-> id[i] + 1]
         [] OTHER -> IF Implied(kind) THEN <<>> ELSE id
Dec(p) == <<p[3] + 1, p[1], LMax + LMin - p[2]>>
Layouts(kind) == IF kind = "box" THEN {"id"} ELSE {"id", "rev", "gap"}
Routes(kind) == IF kind = "box" THEN {<<"", FALSE>>}
                ELSE {<<"", FALSE>>, <<"", TRUE>>, <<"Position", TRUE>>, <<"Rest", TRUE>>, <<"Rest", FALSE>>}
Variants(kind) ==
    {[verts |-> LayVerts(lay), idx |-> IF kind = "box" THEN Idx(kind) ELSE LayIdx(kind, lay), lay |-> lay, attr |-> rt[1],
      decoy |-> IF rt[2] THEN [i \in DOMAIN LayVerts(lay) |-> Dec(LayVerts(lay)[i])] ELSE <<>>] :
        lay \in Layouts(kind), rt \in Routes(kind)}
\* one record per kind; it stands for one case per depth of AllDepths (printed once, with the grid)
Cases == {[kind |-> k, variants |-> SetToSeq(Variants(k))] : k \in {kk \in Kinds : Ok(kk)}}
QMin == LMin - QMargin
QC == {x \in QMin..(LMax + QMargin) : (x - QMin) % QStep = 0}
QMax == CHOOSE x \in QC : \A y \in QC : x >= y
Span == QMax - QMin
QP == {<<x, y, z>> : x \in QC, y \in QC, z \in QC}
Ranges == {<<p[1], p[2], p[3], r[1], r[2]>> : p \in QP, r \in {<<1, 1>>, <<3, 2>>}}
          \cup {<<p[1], p[2], p[3], r[1], r[2]>> : p \in P3, r \in {<<0, 1>>, <<2, 1>>}}
Unit(a, s) == [i \in 1..3 |-> IF i = a THEN s ELSE 0]
Ray(o, a, s, t) == <<o[1], o[2], o[3], Unit(a, s)[1], Unit(a, s)[2], Unit(a, s)[3], t[1], t[2], 1>>
\* rays entering the grid through each of its six faces, and rays starting on lattice points
AxisRays ==
    UNION {{Ray(o, as[1], as[2], <<0, 2 * Span>>) : o \in {p \in QP : p[as[1]] = IF as[2] = 1 THEN QMin ELSE QMax}} :
              as \in (1..3) \X {-1, 1}}
InnerRays ==
    {Ray(o, as[1], as[2], t) : o \in P3, as \in {<<1, 1>>, <<3, -1>>}, t \in {<<0, 2 * Span>>, <<1, 3>>}}
    \cup {Ray(o, 1, 1, <<1, 3>>) : o \in {p \in QP : p[1] = QMin}}
DiagRays ==
    {<<o[1], o[2], o[3], d[1], d[2], d[3], 0, 4 * Span, 1>> :
        o \in {p \in QP : \A i \in 1..3 : p[i] \in {QMin, QMax}},
        d \in {<<1, 1, 0>>, <<1, 1, 1>>, <<-1, 1, 1>>, <<1, -1, 0>>, <<-1, -1, -1>>, <<2, 1, 0>>}}
Grid == [qpts |-> SetToSeq(QP), ranges |-> SetToSeq(Ranges), rays |-> SetToSeq(AxisRays \cup InnerRays \cup DiagRays)]

Emit == IF pts = <<>> THEN PrintT(ToJson([grid |-> Grid, depths |-> SetToSeq(AllDepths)]))
        ELSE Cases = {} \/ PrintT(ToJson([cases |-> SetToSeq(Cases)]))
=============================================================================
