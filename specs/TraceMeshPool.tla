--------------------------- MODULE TraceMeshPool ---------------------------
(***************************************************************************)
(* Trace validation for the mesh pool (C01, C02, C03).                     *)
(* trace.ndjson lines:                                                     *)
(*   {"k":"reset","pool":[..]}             a new history starts            *)
(*   {"k":"step","step":{..},"res":mesh,"chg":[{"s":slot,"m":mesh}..]}     *)
(* "chg" is a lossless delta encoding of the observed pool: every slot     *)
(* whose projection (through public observers) differs from the previous   *)
(* line's.                                                                 *)
(* The harness only executes and projects; every judgement below is made   *)
(* by TLC evaluating the operators of MeshOps/MeshValue.  After a step the *)
(* model re-synchronises on the observed pool so one defect does not       *)
(* cascade; each rejected line is printed as JSON {"l":..,"bad":[..]}.     *)
(***************************************************************************)
EXTENDS MeshOps, Json

Trace == ndJsonDeserialize("trace.ndjson")

VARIABLES l, pool, judged      \* judged: op -> number of steps judged by value (anti-vacuity)
vars == <<l, pool, judged>>

Init == l = 1 /\ pool = <<>> /\ judged = <<>>

Bump(f, k) == IF k \in DOMAIN f THEN [f EXCEPT ![k] = @ + 1] ELSE [x \in DOMAIN f \cup {k} |-> IF x = k THEN 1 ELSE f[x]]
Summary(j) == IF l = Len(Trace) THEN PrintT(ToJson([judged |-> j])) ELSE TRUE

Reset ==
    /\ l <= Len(Trace) /\ Trace[l].k = "reset"
    /\ pool' = Trace[l].pool /\ judged' = judged /\ Summary(judged)
    /\ l' = l + 1

Step ==
    /\ l <= Len(Trace) /\ Trace[l].k = "step"
    /\ LET ln == Trace[l]
           after == [s \in DOMAIN pool |->
                        IF \E c \in DOMAIN ln.chg : ln.chg[c].s = s
                        THEN ln.chg[CHOOSE c \in DOMAIN ln.chg : ln.chg[c].s = s].m
                        ELSE pool[s]]
           bad == Judge(ln.step, ln.res, pool, after)
       IN /\ IF bad = {} THEN TRUE
             ELSE PrintT(ToJson([l |-> l, bad |-> bad,
                    exp |-> IF Pre(ln.step, pool) THEN Core(Expect(ln.step, pool)) ELSE Core(NullMesh)]))
          /\ pool' = after
          /\ LET j2 == IF Pre(ln.step, pool) THEN Bump(judged, ln.step.op) ELSE judged
             IN judged' = j2 /\ Summary(j2)
    /\ l' = l + 1

Next == Reset \/ Step
Spec == Init /\ [][Next]_vars

\* every line was consumed (one state per line plus the initial state)
TraceAccepted == TLCGet("stats").diameter - 1 = Len(Trace)
=============================================================================
