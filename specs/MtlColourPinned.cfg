SPECIFICATION Spec
INVARIANTS PinnedExact8
CHECK_DEADLOCK FALSE
